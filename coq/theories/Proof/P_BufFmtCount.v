(* C17 -- repeat counts / pad counts / array sizes: the number parser of the format checker
   (__Pyx_BufFmt_ParseNumber) on canonical decimal numerals of ANY size, and its connection to
   the accept <-> struct-module-layout statement for token lists with arbitrary counts. *)
From Coq Require Import ZArith List Bool Lia ZifyBool Arith.
From CyVerif Require Import Lib.CInt Model.M_BufFmt Proof.P_BufFmt.
Import ListNotations.
Open Scope Z_scope.

(* ------------------------------------------------------------------ *)
(* 1. decimal numerals                                                 *)
(* ------------------------------------------------------------------ *)
Lemma dval_app : forall a ds es, dval a (ds ++ es) = dval (dval a ds) es.
Proof. intros. unfold dval. apply fold_left_app. Qed.

Lemma dval_cons : forall a d ds, dval a (d :: ds) = dval (a * 10 + (d - 48)) ds.
Proof. reflexivity. Qed.

Section DivMod.
Local Ltac Zify.zify_post_hook ::= Z.to_euclidean_division_equations.

Lemma div10_digit : forall n, 0 <= n -> 0 <= n mod 10 <= 9 /\ n / 10 * 10 + n mod 10 = n /\ 0 <= n / 10 /\
  (10 <= n -> 2 * (n / 10) <= n) /\ (n < 10 -> n mod 10 = n).
Proof. intros. lia. Qed.

Lemma half_bound : forall n p, 0 <= n < 2 * p -> 10 <= n -> n / 10 < p.
Proof. intros. lia. Qed.
End DivMod.

Lemma dec_aux_dval : forall f n acc, 0 <= n < 2 ^ Z.of_nat f -> dval 0 (dec_aux f n acc) = dval n acc.
Proof.
  induction f as [|f IH]; intros n acc Hn.
  - cbn in Hn. assert (n = 0) by lia. subst. reflexivity.
  - cbn [dec_aux]. destruct (div10_digit n (proj1 Hn)) as (Hd & He & Hq & _ & Hs).
    destruct (Z.ltb_spec n 10) as [Hlt|Hge].
    + rewrite dval_cons. f_equal. rewrite (Hs Hlt). lia.
    + rewrite IH.
      * rewrite dval_cons. f_equal. lia.
      * split; [exact Hq|]. apply half_bound; [|exact Hge].
        rewrite Nat2Z.inj_succ, Z.pow_succ_r in Hn by lia. exact Hn.
Qed.

Lemma dec_aux_digits : forall f n acc, 0 <= n -> digits acc -> digits (dec_aux f n acc).
Proof.
  induction f as [|f IH]; intros n acc Hn Ha; [exact Ha|].
  cbn [dec_aux]. destruct (div10_digit n Hn) as (Hd & _ & Hq & _).
  assert (Hc : digits ((48 + n mod 10) :: acc)).
  { constructor; [|exact Ha]. unfold is_digit. lia. }
  destruct (n <? 10); [exact Hc|]. apply IH; assumption.
Qed.

Lemma dec_aux_length : forall f n acc, (length acc <= length (dec_aux f n acc))%nat /\
  (f <> O -> length acc < length (dec_aux f n acc))%nat.
Proof.
  induction f as [|f IH]; intros n acc; [cbn; split; [lia|congruence]|].
  cbn [dec_aux]. destruct (n <? 10); [cbn [length]; split; [lia|intros _; lia]|].
  destruct (IH (n / 10) ((48 + n mod 10) :: acc)) as [H _]. cbn [length] in H. split; [lia|intros _; lia].
Qed.

Lemma log2_fuel : forall n, 0 <= n -> n < 2 ^ Z.of_nat (S (Z.to_nat (Z.log2 n))).
Proof.
  intros n Hn. rewrite Nat2Z.inj_succ, Z2Nat.id by apply Z.log2_nonneg.
  destruct (Z.eq_dec n 0) as [->|Hz]; [reflexivity|].
  apply Z.log2_spec. lia.
Qed.

(* the numeral denotes the number; it consists of digits; it is not empty *)
Lemma decimal_dval : forall n, 0 <= n -> dval 0 (decimal n) = n.
Proof. intros n Hn. unfold decimal. rewrite dec_aux_dval; [reflexivity|]. split; [exact Hn|apply log2_fuel; exact Hn]. Qed.

Lemma decimal_digits : forall n, 0 <= n -> digits (decimal n).
Proof. intros. apply dec_aux_digits; [assumption|constructor]. Qed.

Lemma decimal_nonempty : forall n, decimal n <> [].
Proof.
  intros n H. destruct (dec_aux_length (S (Z.to_nat (Z.log2 n))) n []) as [_ Hl].
  unfold decimal in H. rewrite H in Hl. cbn in Hl. specialize (Hl ltac:(congruence)). lia.
Qed.

Lemma digits_app : forall a b, digits a -> digits b -> digits (a ++ b).
Proof. intros. apply Forall_app. split; assumption. Qed.

Lemma zeros_digits : forall k, digits (repeat 48 k).
Proof. induction k; cbn; constructor; auto. Qed.

Lemma zeros_dval : forall k, dval 0 (repeat 48 k) = 0.
Proof. induction k as [|k IH]; [reflexivity|]. cbn [repeat]. rewrite dval_cons. exact IH. Qed.

(* any non-empty digit string: the parser returns its value and stops at the first non-digit *)
Lemma parse_number_digits : forall ds rest, ds <> [] -> digits ds -> no_digit_head rest ->
  (dval 0 ds <= INT_MAX -> parse_number (ds ++ rest) = Ok (Some (dval 0 ds, rest))) /\
  (INT_MAX < dval 0 ds -> parse_number (ds ++ rest) = IntOvf).
Proof.
  intros [|d ds] rest Hne Hd Hr; [congruence|]. exact (count_no_overflow d ds rest Hd Hr).
Qed.

(* MAIN (number parser): for EVERY n that fits a C int -- any number of digits, every digit in
   every position -- optionally preceded by any number of zeros, followed by anything that does not
   start with a digit: the parser returns exactly n and leaves exactly the rest *)
Theorem parse_number_decimal : forall n k rest,
  0 <= n <= INT_MAX -> no_digit_head rest ->
  parse_number (repeat 48 k ++ decimal n ++ rest) = Ok (Some (n, rest)).
Proof.
  intros n k rest Hn Hr. rewrite app_assoc.
  assert (Hv : dval 0 (repeat 48 k ++ decimal n) = n).
  { rewrite dval_app, zeros_dval. apply decimal_dval. lia. }
  destruct (parse_number_digits (repeat 48 k ++ decimal n) rest) as [H _]; auto.
  - intros E. apply app_eq_nil in E. destruct E as [_ E]. exact (decimal_nonempty n E).
  - apply digits_app; [apply zeros_digits|apply decimal_digits; lia].
  - rewrite Hv in H. apply H. lia.
Qed.

Theorem parse_number_decimal_overflow : forall n k rest,
  INT_MAX < n -> no_digit_head rest -> parse_number (repeat 48 k ++ decimal n ++ rest) = IntOvf.
Proof.
  intros n k rest Hn Hr. rewrite app_assoc.
  assert (H0 : 0 <= n) by (unfold INT_MAX in Hn; lia).
  assert (Hv : dval 0 (repeat 48 k ++ decimal n) = n).
  { rewrite dval_app, zeros_dval. apply decimal_dval. exact H0. }
  destruct (parse_number_digits (repeat 48 k ++ decimal n) rest) as [_ H]; auto.
  - intros E. apply app_eq_nil in E. destruct E as [_ E]. exact (decimal_nonempty n E).
  - apply digits_app; [apply zeros_digits|apply decimal_digits; exact H0].
  - rewrite Hv in H. apply H. exact Hn.
Qed.

(* a string that does not start with a digit is not a number (returns -1 without moving) *)
Lemma parse_number_none : forall rest, no_digit_head rest -> parse_number rest = Ok None.
Proof. intros [|d r] H; [reflexivity|]. cbn in *. rewrite H. reflexivity. Qed.

(* ------------------------------------------------------------------ *)
(* 2. one type chunk: __Pyx_BufFmt_ProcessTypeChunk vs the spec matcher *)
(* ------------------------------------------------------------------ *)
Definition tchar (t : tcode) : Z :=
  match t with
  | Cc => 99 | Cb => 98 | CB => 66 | Ch => 104 | CH => 72 | Ci => 105 | CI => 73 | Cl => 108 | CL => 76
  | Cq => 113 | CQ => 81 | Cbool => 63 | Cf | CZf => 102 | Cd | CZd => 100 | Cg | CZg => 103
  end.
Definition tcplx (t : tcode) : bool := match t with CZf | CZd | CZg => true | _ => false end.
Definition pm_of (m : mode) : Z := match m with MNative => 64 | MStd | MBig => 61 | MUnaligned => 94 end.

Lemma code_chars_tchar : forall t, code_chars t = (if tcplx t then [90] else []) ++ [tchar t].
Proof. destruct t; reflexivity. Qed.

Lemma tchar_inj : forall t t', tchar t = tchar t' -> tcplx t = tcplx t' -> t = t'.
Proof. destruct t, t'; cbn; intros; congruence. Qed.

Lemma pm_of_inj : forall m m', m <> MBig -> m' <> MBig -> pm_of m = pm_of m' -> m = m'.
Proof. destruct m, m'; cbn; intros; congruence. Qed.

(* members of a flat C struct as Buffer.py describes them: a known type group, no sub-array,
   positive size; C char has size 1, floating and complex types at least 4 *)
Definition leaf_wf (f : leaf * Z) : Prop :=
  In (l_group (fst f)) [72; 73; 85; 82; 67] /\ l_arr (fst f) = [] /\ 0 < l_size (fst f) /\
  (l_group (fst f) = 72 -> l_size (fst f) = 1) /\
  (l_group (fst f) = 82 \/ l_group (fst f) = 67 -> 4 <= l_size (fst f)).
Definition flat_wf (h : list (leaf * Z)) : Prop := Forall leaf_wf h.

Lemma chunk_size : forall t m,
  (if is_native (pm_of m) then native_size (tchar t) (tcplx t) else standard_size (tchar t) (tcplx t)) = msize m t.
Proof. destruct t, m; reflexivity. Qed.

Lemma chunk_align : forall t, alignment (tchar t) = code_align t.
Proof. destruct t; reflexivity. Qed.

Lemma code_align_pos : forall t, 0 < code_align t.
Proof. destruct t; reflexivity. Qed.

Lemma nsize_multiple : forall t, exists q, code_nsize t = q * code_align t.
Proof. destruct t; cbn; solve [exists 1; reflexivity | exists 2; reflexivity]. Qed.

Lemma leaf_item : forall t m l fo o, leaf_wf (l, fo) -> msize m t <> 0 ->
  leaf_ok l (msize m t) (type_group (tchar t) (tcplx t)) && (o =? fo) =
  item_matches (code_kind t, msize m t, o) (l, fo).
Proof.
  intros t m [g sz arr] fo o (Hg & _ & Hp & Hc & Hf) Hs. cbn [fst l_group l_size l_arr] in *.
  unfold leaf_ok, item_matches. cbn [fst snd l_group l_size]. rewrite (Z.eqb_sym (msize m t) sz).
  cbn [In] in Hg.
  destruct Hg as [<-|[<-|[<-|[<-|[<-|[]]]]]];
    try (assert (sz = 1) by (apply Hc; reflexivity)); try (assert (4 <= sz) by (apply Hf; auto)); clear Hc Hf;
    destruct t, m; cbn in Hs |- *; lia.
Qed.

Section AlignFacts.
Local Ltac Zify.zify_post_hook ::= Z.to_euclidean_division_equations.
Lemma aligned_step : forall t o, o mod code_align t = 0 -> (o + code_nsize t) mod code_align t = 0.
Proof. destruct t; cbn [code_align code_nsize]; intros; lia. Qed.
Lemma align_up_aligned : forall t o, align_up o (code_align t) mod code_align t = 0.
Proof.
  intros t o. unfold align_up. destruct (Z.eqb_spec (o mod code_align t) 0) as [E|E]; [exact E|].
  destruct t; cbn [code_align] in *; lia.
Qed.
End AlignFacts.

Lemma align_up_id : forall o al, o mod al = 0 -> align_up o al = o.
Proof. intros o al H. unfold align_up. rewrite H. reflexivity. Qed.

Lemma malign_aligned : forall m t o, m = MNative -> malign m t o mod code_align t = 0.
Proof. intros m t o ->. apply align_up_aligned. Qed.

Lemma malign_id : forall m t o, (m = MNative -> o mod code_align t = 0) -> malign m t o = o.
Proof. intros [] t o H; try reflexivity. apply align_up_id. auto. Qed.

Definition tgroup (t : tcode) : Z := type_group (tchar t) (tcplx t).
Definition chunk (t : tcode) (m : mode) := chunk_loop (tchar t) (tcplx t) (pm_of m) (tgroup t) 1.

(* one iteration of the do-while loop at an aligned offset *)
Lemma chunk_cons : forall t m l fo rest o cnt sal, 1 <= cnt -> (m = MNative -> o mod code_align t = 0) ->
  exists sal',
  chunk t m ((l, fo) :: rest) o cnt sal =
  if negb (leaf_ok l (msize m t) (tgroup t) && (o =? fo)) then Err
  else if cnt =? 1 then Ok (rest, o + msize m t, 0, sal')
  else match rest with [] => Err | _ :: _ => chunk t m rest (o + msize m t) (cnt - 1) sal' end.
Proof.
  intros t m l fo rest o cnt sal Hc Ha.
  exists (if (pm_of m =? 64) && (sal =? 0) then padding (tchar t) else sal).
  unfold chunk. cbn [chunk_loop]. rewrite chunk_size, chunk_align.
  assert (Hz : (code_align t =? 0) = false) by (pose proof (code_align_pos t); lia).
  rewrite Hz, andb_false_r.
  assert (Ho : (if pm_of m =? 64 then align_up o (code_align t) else o) = o).
  { destruct m; cbn [pm_of]; try reflexivity. apply align_up_id. auto. }
  rewrite Ho.
  replace (if cnt =? 0 then SIZE_MOD - 1 else cnt - 1) with (cnt - 1) by (destruct (Z.eqb_spec cnt 0); lia).
  replace (cnt - 1 =? 0) with (cnt =? 1) by lia.
  replace (o + msize m t + (if 1 =? 0 then 0 else (1 - 1) * msize m t)) with (o + msize m t)
    by (change (1 =? 0) with false; cbv iota; lia).
  destruct (leaf_ok l (msize m t) (tgroup t)); cbn [negb andb]; [|reflexivity].
  destruct (o =? fo); cbn [negb]; [|reflexivity].
  destruct rest; destruct (Z.eqb_spec cnt 1) as [->|]; reflexivity.
Qed.

Lemma consume_cons : forall k kd sz o f r,
  consume k kd sz o (f :: r) =
  if item_matches (kd, sz, o) f then (if k =? 1 then Some (r, o + sz) else consume (k - 1) kd sz (o + sz) r) else None.
Proof. reflexivity. Qed.

Definition res_ok {A} (r : res A) : Prop := match r with Ok _ => True | _ => False end.

(* the chunk loop at an aligned offset = the spec's consume *)
Lemma chunk_aligned : forall t m h o cnt sal, 1 <= cnt -> flat_wf h -> msize m t <> 0 ->
  (m = MNative -> o mod code_align t = 0) ->
  match chunk t m h o cnt sal with
  | Ok (h', o', cnt', _) => cnt' = 0 /\ consume cnt (code_kind t) (msize m t) o h = Some (h', o')
  | _ => consume cnt (code_kind t) (msize m t) o h = None
  end.
Proof.
  intros t m. induction h as [|[l fo] rest IH]; intros o cnt sal Hc Hw Hs Ha; [reflexivity|].
  destruct (chunk_cons t m l fo rest o cnt sal Hc Ha) as [sal' ->].
  rewrite consume_cons. inversion Hw as [|? ? Hw1 Hw2]; subst.
  unfold tgroup. rewrite (leaf_item t m l fo o Hw1 Hs).
  destruct (item_matches _ _); cbn [negb]; [|reflexivity].
  destruct (Z.eqb_spec cnt 1) as [->|Hn]; [split; reflexivity|].
  destruct rest as [|f rest']; [reflexivity|].
  apply IH; auto; try lia.
  intros ->. cbn [msize]. apply aligned_step. auto.
Qed.

(* with a standard-size mode and a type without standard size (g, Zg) the chunk never succeeds *)
Lemma chunk_size0 : forall t m h o cnt sal, 1 <= cnt -> flat_wf h -> msize m t = 0 ->
  ~ res_ok (chunk t m h o cnt sal).
Proof.
  intros t m [|[l fo] rest] o cnt sal Hc Hw Hs; [cbn; auto|].
  unfold chunk. cbn [chunk_loop]. rewrite chunk_size, chunk_align, Hs.
  assert (Hz : (code_align t =? 0) = false) by (pose proof (code_align_pos t); lia).
  rewrite Hz, andb_false_r.
  inversion Hw as [|? ? (_ & _ & Hp & _) _]; subst. cbn [fst] in Hp.
  unfold leaf_ok. replace (l_size l =? 0) with false by lia. cbn. auto.
Qed.

(* the first iteration aligns; afterwards the offset stays aligned *)
Lemma chunk_first : forall t m h o cnt sal, chunk t m h o cnt sal = chunk t m h (malign m t o) cnt sal.
Proof.
  intros t m [|[l fo] rest] o cnt sal; [reflexivity|].
  unfold chunk. cbn [chunk_loop]. rewrite chunk_align.
  destruct m; cbn [pm_of malign]; try reflexivity.
  change (64 =? 64) with true. cbv iota.
  rewrite (align_up_id (align_up o (code_align t))) by apply align_up_aligned. reflexivity.
Qed.

Lemma consume_more_none : forall kd sz h k j o, 1 <= k -> 0 <= j -> consume k kd sz o h = None -> consume (k + j) kd sz o h = None.
Proof.
  induction h as [|f r IH]; intros k j o Hk Hj H; [reflexivity|].
  rewrite consume_cons in *. destruct (item_matches _ f); [|reflexivity].
  destruct (Z.eqb_spec k 1) as [->|Hn]; [discriminate|].
  replace (k + j =? 1) with false by lia. replace (k + j - 1) with (k - 1 + j) by lia.
  apply IH; auto; lia.
Qed.

Lemma consume_split : forall kd sz h k j o h1 o1, 1 <= k -> 1 <= j -> consume k kd sz o h = Some (h1, o1) ->
  consume (k + j) kd sz o h = consume j kd sz o1 h1.
Proof.
  induction h as [|f r IH]; intros k j o h1 o1 Hk Hj H; [discriminate|].
  rewrite consume_cons in *. destruct (item_matches _ f); [|discriminate].
  replace (k + j =? 1) with false by lia.
  destruct (Z.eqb_spec k 1) as [->|Hn].
  - injection H as <- <-. replace (1 + j - 1) with j by lia. reflexivity.
  - replace (k + j - 1) with (k - 1 + j) by lia. apply IH; [lia|exact Hj|exact H].
Qed.

Lemma consume_off : forall kd sz h k o h1 o1, 1 <= k -> consume k kd sz o h = Some (h1, o1) ->
  o1 = o + k * sz /\ exists pre, h = pre ++ h1.
Proof.
  induction h as [|f r IH]; intros k o h1 o1 Hk H; [discriminate|].
  rewrite consume_cons in H. destruct (item_matches _ f); [|discriminate].
  destruct (Z.eqb_spec k 1) as [->|Hn].
  - injection H as <- <-. split; [lia|]. exists [f]. reflexivity.
  - assert (Hk1 : 1 <= k - 1) by lia. destruct (IH _ _ _ _ Hk1 H) as [-> [pre ->]]. split; [lia|]. exists (f :: pre). reflexivity.
Qed.

Lemma flat_wf_suffix : forall pre h, flat_wf (pre ++ h) -> flat_wf h.
Proof. intros pre h H. apply Forall_app in H. tauto. Qed.

(* ------------------------------------------------------------------ *)
(* 3. token-level simulation: checker state vs spec matcher state       *)
(* ------------------------------------------------------------------ *)
Definition sstate := option (list (leaf * Z) * Z).
(* spec state after a run of k items of code t started in mode m at (h, o) *)
Definition pend_st (t : tcode) (m : mode) (k : Z) (h : list (leaf * Z)) (o : Z) : sstate :=
  if msize m t =? 0 then None else consume k (code_kind t) (msize m t) (malign m t o) h.

Definition set_ncnt (c : ctx) (n : Z) : ctx :=
  mkctx (hd c) (off c) n (ecnt c) (salign c) (cplx c) (etype c) (npm c) (epm c) (iva c).
Definition set_npm (c : ctx) (p : Z) : ctx :=
  mkctx (hd c) (off c) (ncnt c) (ecnt c) (salign c) (cplx c) (etype c) p (epm c) (iva c).
Definition pad_step (fx : fixes) (c : ctx) : res ctx :=
  bind (process_chunk fx c) (fun c1 =>
    Ok (mkctx (hd c1) (off c1 + ncnt c1) 1 0 (salign c1) (cplx c1) 0 (npm c1) (npm c1) (iva c1))).

(* the checker's effect of one token on its context *)
Definition step_tok (fx : fixes) (tk : tok) (c : ctx) : res ctx :=
  match tk with
  | TWs _ | TName _ => Ok c
  | TMode MBig _ => Err
  | TMode m _ => Ok (set_npm c (pm_of m))
  | TPad ds => pad_step fx (set_ncnt c (count_of ds))
  | TItem ds t => type_char fx (tchar t) (tcplx t) true (set_ncnt c (count_of ds))
  end.
Fixpoint run_toks (fx : fixes) (toks : list tok) (c : ctx) : res ctx :=
  match toks with [] => Ok c | tk :: r => bind (step_tok fx tk c) (run_toks fx r) end.

(* the spec matcher, one token at a time *)
Definition sstep (tk : tok) (m : mode) (st : sstate) : mode * sstate :=
  match tk with
  | TWs _ | TName _ => (m, st)
  | TMode MBig _ => (m, None)
  | TMode m' _ => (m', st)
  | TPad ds => (m, match st with Some (h, o) => Some (h, o + count_of ds) | None => None end)
  | TItem ds t => (m, match st with Some (h, o) => pend_st t m (count_of ds) h o | None => None end)
  end.
Fixpoint sfold (toks : list tok) (m : mode) (st : sstate) : sstate :=
  match toks with [] => st | tk :: r => sfold r (fst (sstep tk m st)) (snd (sstep tk m st)) end.

Lemma sfold_none : forall toks m, sfold toks m None = None.
Proof. induction toks as [|tk r IH]; intros m; [reflexivity|]. cbn [sfold]. destruct tk as [| [] | | |]; cbn; apply IH. Qed.

Lemma smatch_sfold : forall toks m o h, smatch toks m o h = sfold toks m (Some (h, o)).
Proof.
  induction toks as [|tk r IH]; intros m o h; [reflexivity|].
  destruct tk as [c|m' alt|n|ds t|ds]; cbn [smatch sfold sstep fst snd]; try apply IH.
  - destruct m'; try apply IH. symmetry. apply sfold_none.
  - unfold pend_st. destruct (msize m t =? 0); [symmetry; apply sfold_none|].
    destruct (consume _ _ _ _ _) as [[h' o']|]; [apply IH|symmetry; apply sfold_none].
Qed.

(* fragment of the grammar: whitespace the checker skips, names without colon, counts 1..INT_MAX
   (pads 0..INT_MAX) written with any digits (leading zeros allowed) *)
Definition tok_ok (tk : tok) : Prop :=
  match tk with
  | TWs c => In c [32; 13; 10]
  | TMode _ _ => True
  | TName n => Forall (fun ch => ch <> 58 /\ ch <> 0) n
  | TItem ds _ => digits ds /\ (ds = [] \/ 1 <= dval 0 ds <= INT_MAX)
  | TPad ds => digits ds /\ (ds = [] \/ dval 0 ds <= INT_MAX)
  end.

Lemma dval_nonneg : forall ds a, 0 <= a -> digits ds -> 0 <= dval a ds.
Proof. intros. pose proof (dval_ge ds a H H0). lia. Qed.

Lemma count_item_pos : forall ds t, tok_ok (TItem ds t) -> 1 <= count_of ds.
Proof. intros [|d ds] t [_ [H|H]]; cbn [count_of]; try lia; congruence. Qed.

Lemma tchar_nz : forall t, (tchar t =? 0) = false.
Proof. destruct t; reflexivity. Qed.

(* flushing the pending chunk *)
Lemma process_pending : forall fx c t m, etype c = tchar t -> cplx c = tcplx t -> epm c = pm_of m ->
  1 <= ecnt c -> flat_wf (hd c) ->
  match process_chunk fx c with
  | Ok c1 => pend_st t m (ecnt c) (hd c) (off c) = Some (hd c1, off c1) /\ etype c1 = 0 /\
             ncnt c1 = ncnt c /\ npm c1 = npm c /\ iva c1 = iva c /\ flat_wf (hd c1)
  | _ => pend_st t m (ecnt c) (hd c) (off c) = None
  end.
Proof.
  intros fx [h o nc ec sa cp et np ep iv] t m He Hc Hp Hk Hw. cbn [etype cplx epm ecnt hd off ncnt npm iva] in *. subst et cp ep.
  unfold process_chunk. cbn [etype cplx epm ecnt hd off ncnt npm iva salign]. rewrite tchar_nz.
  destruct h as [|[l fo] rest].
  { unfold pend_st. destruct (msize m t =? 0); destruct (fx_null fx); reflexivity. }
  inversion Hw as [|? ? Hw1 Hw2]; subst. destruct Hw1 as (_ & Ha & _). cbn [fst] in Ha. rewrite Ha.
  cbn [nth]. change (0 =? 0) with true. cbv iota. cbn [bind].
  change (chunk_loop (tchar t) (tcplx t) (pm_of m) (type_group (tchar t) (tcplx t)) 1) with (chunk t m).
  unfold pend_st. destruct (Z.eqb_spec (msize m t) 0) as [Hs|Hs].
  - pose proof (chunk_size0 t m ((l, fo) :: rest) o ec sa Hk Hw Hs) as Hn.
    destruct (chunk t m _ o ec sa); cbn in *; auto. contradiction.
  - rewrite chunk_first.
    pose proof (chunk_aligned t m ((l, fo) :: rest) (malign m t o) ec sa Hk Hw Hs (malign_aligned m t o)) as H.
    destruct (chunk t m _ (malign m t o) ec sa) as [[[[h' o'] cnt'] sal']| | | | |]; cbn [bind]; auto.
    destruct H as [-> H]. cbn [hd off etype ncnt npm iva].
    repeat split; auto.
    destruct (consume_off _ _ _ _ _ _ _ Hk H) as [_ [pre E]]. rewrite E in Hw. exact (flat_wf_suffix _ _ Hw).
Qed.

Inductive R (c : ctx) (st : sstate) : Prop :=
| R_idle : etype c = 0 -> st = Some (hd c, off c) -> R c st
| R_pend : forall t m', etype c = tchar t -> cplx c = tcplx t -> epm c = pm_of m' -> m' <> MBig ->
           1 <= ecnt c -> st = pend_st t m' (ecnt c) (hd c) (off c) -> R c st.
Definition common (c : ctx) (m : mode) : Prop :=
  npm c = pm_of m /\ m <> MBig /\ iva c = false /\ ncnt c = 1 /\ flat_wf (hd c).

Lemma flush : forall fx c st, R c st -> flat_wf (hd c) ->
  match process_chunk fx c with
  | Ok c1 => st = Some (hd c1, off c1) /\ etype c1 = 0 /\ ncnt c1 = ncnt c /\ npm c1 = npm c /\
             iva c1 = iva c /\ flat_wf (hd c1)
  | _ => st = None
  end.
Proof.
  intros fx c st [He Hs|t m' He Hc Hp Hm Hk Hs] Hw.
  - unfold process_chunk. rewrite He. change (0 =? 0) with true. cbv iota. repeat split; auto.
  - pose proof (process_pending fx c t m' He Hc Hp Hk Hw) as H.
    destruct (process_chunk fx c); rewrite Hs; auto.
Qed.

Lemma R_set_ncnt : forall c st n, R c st -> R (set_ncnt c n) st.
Proof. intros c st n [He Hs|t m' He Hc Hp Hm Hk Hs]; [apply R_idle|eapply R_pend]; eauto. Qed.

Lemma pend_pool : forall t m k n h o, 1 <= k -> 1 <= n ->
  pend_st t m (k + n) h o =
  match pend_st t m k h o with Some (h1, o1) => pend_st t m n h1 o1 | None => None end.
Proof.
  intros t m k n h o Hk Hn. unfold pend_st. destruct (Z.eqb_spec (msize m t) 0) as [|Hs]; [reflexivity|].
  destruct (consume k _ _ _ h) as [[h1 o1]|] eqn:E.
  - rewrite (consume_split _ _ _ _ _ _ _ _ Hk Hn E).
    destruct (consume_off _ _ _ _ _ _ _ Hk E) as [-> _].
    rewrite (malign_id m t (malign m t o + k * msize m t)); [reflexivity|].
    intros ->. cbn [msize]. destruct (nsize_multiple t) as [q ->].
    replace (k * (q * code_align t)) with ((k * q) * code_align t) by lia.
    rewrite Z_mod_plus_full. apply (malign_aligned MNative t o eq_refl).
  - apply consume_more_none; auto; lia.
Qed.

Lemma step_sim : forall fx tk c m st, R c st -> common c m -> tok_ok tk ->
  match step_tok fx tk c with
  | Ok c1 => R c1 (snd (sstep tk m st)) /\ common c1 (fst (sstep tk m st))
  | _ => snd (sstep tk m st) = None
  end.
Proof.
  intros fx tk c m st HR (Hnp & Hm & Hiv & Hnc & Hw) Hok.
  destruct tk as [ch|m' alt|n|ds t|ds]; cbn [step_tok sstep fst snd].
  - split; [exact HR|]. repeat split; assumption.
  - destruct m'; cbn [fst snd]; try reflexivity; (split; [|repeat split; auto; discriminate]);
      (destruct HR as [He Hs|t m2 He Hc Hp Hm2 Hk Hs]; [apply R_idle|eapply R_pend]; eauto).
  - split; [exact HR|]. repeat split; assumption.
  - (* item *)
    pose proof (count_item_pos ds t Hok) as Hn. set (n := count_of ds) in *.
    unfold type_char. cbn [andb].
    destruct ((etype (set_ncnt c n) =? tchar t) && Bool.eqb (tcplx t) (cplx (set_ncnt c n)) &&
              (epm (set_ncnt c n) =? npm (set_ncnt c n)) && negb (iva (set_ncnt c n))) eqn:Hpool.
    + (* pooled *)
      cbn [set_ncnt etype cplx epm npm iva hd off ecnt ncnt salign] in *.
      apply andb_prop in Hpool. destruct Hpool as [Hpool _].
      apply andb_prop in Hpool. destruct Hpool as [Hpool Hpm].
      apply andb_prop in Hpool. destruct Hpool as [Het Hcp].
      apply Z.eqb_eq in Het, Hpm. apply Bool.eqb_prop in Hcp.
      destruct HR as [He Hs|t' m' He Hc Hp Hm' Hk Hs].
      { rewrite He in Het. pose proof (tchar_nz t). lia. }
      assert (t' = t) by (apply tchar_inj; congruence). subst t'.
      assert (m' = m) by (apply pm_of_inj; auto; congruence). subst m'.
      split.
      * eapply R_pend with (t := t) (m' := m); cbn [etype cplx epm ecnt hd off]; auto; try lia.
        rewrite Hs. rewrite pend_pool by assumption.
        destruct (pend_st t m (ecnt c) (hd c) (off c)) as [[h1 o1]|]; reflexivity.
      * repeat split; auto.
    + (* new chunk *)
      pose proof (flush fx (set_ncnt c n) st (R_set_ncnt c st n HR) Hw) as H.
      destruct (process_chunk fx (set_ncnt c n)) as [c1| | | | |]; cbn [bind]; try (rewrite H; reflexivity).
      destruct H as (-> & He1 & Hn1 & Hp1 & Hi1 & Hw1).
      cbn [set_ncnt ncnt npm iva] in Hn1, Hp1, Hi1.
      split.
      * eapply R_pend with (t := t) (m' := m); cbn [etype cplx epm ecnt hd off]; auto; try congruence; try lia.
      * repeat split; cbn [npm iva ncnt hd]; auto; congruence.
  - (* pad *)
    unfold pad_step.
    pose proof (flush fx (set_ncnt c (count_of ds)) st (R_set_ncnt c st _ HR) Hw) as H.
    destruct (process_chunk fx (set_ncnt c (count_of ds))) as [c1| | | | |]; cbn [bind]; try (rewrite H; reflexivity).
    destruct H as (-> & He1 & Hn1 & Hp1 & Hi1 & Hw1).
    cbn [set_ncnt ncnt npm iva] in Hn1, Hp1, Hi1.
    split.
    + apply R_idle; cbn [etype hd off]; auto. rewrite Hn1. reflexivity.
    + repeat split; cbn [npm iva ncnt hd]; auto; congruence.
Qed.

Lemma run_sim : forall fx toks c m st, R c st -> common c m -> Forall tok_ok toks ->
  match run_toks fx toks c with
  | Ok c1 => R c1 (sfold toks m st) /\ exists m1, common c1 m1
  | _ => sfold toks m st = None
  end.
Proof.
  intros fx. induction toks as [|tk r IH]; intros c m st HR Hc Hok.
  - cbn. split; [exact HR|]. exists m. exact Hc.
  - inversion Hok as [|? ? Hok1 Hok2]; subst. cbn [run_toks sfold].
    pose proof (step_sim fx tk c m st HR Hc Hok1) as H.
    destruct (step_tok fx tk c) as [c1| | | | |]; cbn [bind]; try (rewrite H; apply sfold_none).
    destruct H as [HR1 Hc1]. apply IH; assumption.
Qed.

(* the NUL case of __Pyx_BufFmt_CheckString *)
Definition finish (fx : fixes) (c : ctx) : res unit :=
  if negb (etype c =? 0) && (match hd c with [] => true | _ => false end) then Err
  else bind (process_chunk fx c) (fun c1 => match hd c1 with [] => Ok tt | _ => Err end).

Lemma finish_sim : forall fx c st, R c st -> flat_wf (hd c) ->
  (finish fx c = Ok tt <-> exists o, st = Some ([], o)).
Proof.
  intros fx c st HR Hw. unfold finish.
  destruct (negb (etype c =? 0) && _) eqn:Hb.
  - apply andb_prop in Hb. destruct Hb as [Hb1 Hb2].
    split; [discriminate|]. intros [o Ho]. exfalso.
    destruct HR as [He Hs|t m' He Hc Hp Hm Hk Hs].
    + rewrite He in Hb1. discriminate.
    + destruct (hd c); [|discriminate]. rewrite Hs in Ho. unfold pend_st in Ho.
      destruct (msize m' t =? 0); discriminate.
  - clear Hb. pose proof (flush fx c st HR Hw) as H.
    destruct (process_chunk fx c) as [c1| | | | |]; cbn [bind];
      try (rewrite H; split; [discriminate|intros [o Ho]; discriminate]).
    destruct H as (-> & _). destruct (hd c1).
    + split; [intros _; eexists; reflexivity|reflexivity].
    + split; [discriminate|intros [o Ho]; discriminate].
Qed.

(* ------------------------------------------------------------------ *)
(* 4. character level: __Pyx_BufFmt_CheckString on the rendering of a token *)
(* ------------------------------------------------------------------ *)
Definition cost (tk : tok) : nat :=
  match tk with TItem (_ :: _) _ | TPad (_ :: _) => 2%nat | _ => 1%nat end.
Fixpoint costs (toks : list tok) : nat := match toks with [] => O | tk :: r => (cost tk + costs r)%nat end.

Lemma digit_cases : forall d, is_digit d = true ->
  d = 48 \/ d = 49 \/ d = 50 \/ d = 51 \/ d = 52 \/ d = 53 \/ d = 54 \/ d = 55 \/ d = 56 \/ d = 57.
Proof. unfold is_digit. intros. lia. Qed.

Lemma cs_digit : forall fx f d r c, is_digit d = true ->
  check_string fx (S f) (d :: r) c =
  bind (expect_number (d :: r)) (fun '(n, r1) => check_string fx f r1 (set_ncnt c n)).
Proof.
  intros fx f d r c H. apply digit_cases in H.
  destruct H as [->|[->|[->|[->|[->|[->|[->|[->|[->| ->]]]]]]]]]; reflexivity.
Qed.

Lemma cs_code : forall fx t f rest c,
  check_string fx (S f) (code_chars t ++ rest) c =
  bind (type_char fx (tchar t) (tcplx t) true c) (fun c1 => check_string fx f rest c1).
Proof. intros fx t f rest c. destruct t; reflexivity. Qed.

Lemma cs_x : forall fx f rest c,
  check_string fx (S f) (120 :: rest) c =
  bind (pad_step fx c) (fun c1 => check_string fx f rest c1).
Proof. intros. unfold pad_step. cbn [check_string]. destruct (process_chunk fx c); reflexivity. Qed.

Lemma code_no_digit : forall t rest, no_digit_head (code_chars t ++ rest).
Proof. destruct t; reflexivity. Qed.

Lemma skip_name_ok : forall fx n rest, Forall (fun ch => ch <> 58 /\ ch <> 0) n ->
  skip_name fx (n ++ 58 :: rest) = Ok rest.
Proof.
  intros fx. induction n as [|ch n IH]; intros rest H; [reflexivity|].
  inversion H as [|? ? [H1 _] H2]; subst. cbn [app skip_name].
  replace (ch =? 58) with false by lia. apply IH. exact H2.
Qed.

Lemma set_ncnt_id : forall c, ncnt c = 1 -> set_ncnt c 1 = c.
Proof. intros [h o nc ec sa cp et np ep iv] H. cbn in H. subst. reflexivity. Qed.

Lemma expect_digits : forall ds rest, ds <> [] -> digits ds -> no_digit_head rest -> dval 0 ds <= INT_MAX ->
  expect_number (ds ++ rest) = Ok (dval 0 ds, rest).
Proof.
  intros ds rest Hne Hd Hr Hv. unfold expect_number.
  destruct (parse_number_digits ds rest Hne Hd Hr) as [H _]. rewrite (H Hv). reflexivity.
Qed.

Lemma cs_tok : forall fx tk f rest c, tok_ok tk -> ncnt c = 1 ->
  check_string fx (cost tk + f) (render_tok tk ++ rest) c =
  bind (step_tok fx tk c) (fun c1 => check_string fx f rest c1).
Proof.
  intros fx tk f rest c Hok Hn.
  destruct tk as [ch|m alt|n|ds t|ds]; cbn [tok_ok] in Hok.
  - cbn [In] in Hok. destruct Hok as [<-|[<-|[<-|[]]]]; reflexivity.
  - destruct m, alt; reflexivity.
  - cbn [render_tok cost step_tok bind]. cbn [app]. rewrite <- app_assoc. cbn [app].
    change (check_string fx (1 + f) (58 :: n ++ 58 :: rest) c)
      with (bind (skip_name fx (n ++ 58 :: rest)) (fun r1 => check_string fx f r1 c)).
    rewrite skip_name_ok by exact Hok. reflexivity.
  - destruct Hok as [Hd Hv]. cbn [render_tok step_tok]. rewrite <- app_assoc.
    destruct ds as [|d ds].
    + cbn [app cost count_of]. rewrite set_ncnt_id by exact Hn. apply cs_code.
    + destruct Hv as [Hv|Hv]; [discriminate|].
      change (cost (TItem (d :: ds) t) + f)%nat with (S (S f)).
      cbn [app]. inversion Hd as [|? ? Hd1 Hd2]; subst.
      rewrite cs_digit by exact Hd1.
      change (d :: ds ++ code_chars t ++ rest) with ((d :: ds) ++ (code_chars t ++ rest)).
      rewrite expect_digits; [|discriminate|exact Hd|apply code_no_digit|lia].
      cbn [bind count_of]. apply cs_code.
  - destruct Hok as [Hd Hv]. cbn [render_tok step_tok]. rewrite <- app_assoc.
    destruct ds as [|d ds].
    + cbn [app cost count_of]. rewrite set_ncnt_id by exact Hn. apply cs_x.
    + destruct Hv as [Hv|Hv]; [discriminate|].
      change (cost (TPad (d :: ds)) + f)%nat with (S (S f)).
      cbn [app]. inversion Hd as [|? ? Hd1 Hd2]; subst.
      rewrite cs_digit by exact Hd1.
      change (d :: ds ++ 120 :: rest) with ((d :: ds) ++ (120 :: rest)).
      rewrite expect_digits; [|discriminate|exact Hd|reflexivity|lia].
      cbn [bind count_of]. apply cs_x.
Qed.

Lemma step_ncnt : forall fx tk c c1, ncnt c = 1 -> step_tok fx tk c = Ok c1 -> ncnt c1 = 1.
Proof.
  intros fx tk c c1 Hn H. destruct tk as [ch|m alt|n|ds t|ds]; cbn [step_tok] in H.
  - injection H as <-. exact Hn.
  - destruct m; try discriminate; injection H as <-; exact Hn.
  - injection H as <-. exact Hn.
  - unfold type_char in H. destruct (_ && _) in H.
    + injection H as <-. reflexivity.
    + destruct (process_chunk fx _); try discriminate. cbn [bind] in H. injection H as <-. reflexivity.
  - unfold pad_step in H. destruct (process_chunk fx _); try discriminate. cbn [bind] in H. injection H as <-. reflexivity.
Qed.

Lemma cs_toks : forall fx toks f rest c, Forall tok_ok toks -> ncnt c = 1 ->
  check_string fx (costs toks + f) (render_body toks ++ rest) c =
  bind (run_toks fx toks c) (fun c1 => check_string fx f rest c1).
Proof.
  intros fx. induction toks as [|tk r IH]; intros f rest c Hok Hn; [reflexivity|].
  inversion Hok as [|? ? Hok1 Hok2]; subst.
  cbn [costs run_toks]. unfold render_body. cbn [map concat]. fold (render_body r).
  rewrite <- app_assoc, <- Nat.add_assoc, cs_tok by assumption.
  destruct (step_tok fx tk c) as [c1| | | | |] eqn:E; cbn [bind]; try reflexivity.
  apply IH; [exact Hok2|]. exact (step_ncnt fx tk c c1 Hn E).
Qed.

Lemma cost_le : forall tk, tok_ok tk -> (cost tk <= length (render_tok tk))%nat.
Proof.
  intros [ch|m alt|n|ds t|ds] _; cbn [cost render_tok length]; try lia.
  - destruct ds; rewrite app_length; destruct t; cbn; lia.
  - destruct ds; rewrite app_length; cbn; lia.
Qed.

Lemma costs_le : forall toks, Forall tok_ok toks -> (costs toks <= length (render_body toks))%nat.
Proof.
  induction toks as [|tk r IH]; intros H; [cbn; lia|]. inversion H; subst.
  unfold render_body. cbn [map concat costs]. rewrite app_length. fold (render_body r).
  pose proof (cost_le tk ltac:(assumption)). specialize (IH ltac:(assumption)). lia.
Qed.

Lemma cstr_id : forall s, Forall (fun ch => ch <> 0) s -> cstr s = s.
Proof.
  induction s as [|ch r IH]; intros H; [reflexivity|]. inversion H; subst. cbn [cstr].
  replace (ch =? 0) with false by lia. rewrite IH by assumption. reflexivity.
Qed.

Lemma render_nz : forall toks, Forall tok_ok toks -> Forall (fun ch => ch <> 0) (render_body toks).
Proof.
  induction toks as [|tk r IH]; intros H; [constructor|]. inversion H as [|? ? H1 H2]; subst.
  unfold render_body. cbn [map concat]. apply Forall_app. split; [|apply IH; exact H2].
  destruct tk as [ch|m alt|n|ds t|ds]; cbn [tok_ok render_tok] in *.
  - cbn [In] in H1. constructor; [lia|constructor].
  - destruct m, alt; repeat constructor; discriminate.
  - constructor; [discriminate|]. apply Forall_app. split; [|repeat constructor; discriminate].
    eapply Forall_impl; [|exact H1]. cbn. tauto.
  - apply Forall_app. split.
    + destruct H1 as [Hd _]. eapply Forall_impl; [|exact Hd]. cbn. unfold is_digit. lia.
    + destruct t; repeat constructor; discriminate.
  - apply Forall_app. split; [|repeat constructor; discriminate].
    destruct H1 as [Hd _]. eapply Forall_impl; [|exact Hd]. cbn. unfold is_digit. lia.
Qed.

(* ------------------------------------------------------------------ *)
(* 5. spec_accept (layout + layout_matches) = the matcher               *)
(* ------------------------------------------------------------------ *)
Lemma items_at_S : forall kd sz o k,
  items_at kd sz o (Z.of_nat (S k)) = (kd, sz, o) :: items_at kd sz (o + sz) (Z.of_nat k).
Proof.
  intros. unfold items_at. rewrite !Nat2Z.id. cbn [seq map]. f_equal.
  - f_equal. cbn. lia.
  - rewrite <- seq_shift, map_map. apply map_ext. intros i. f_equal. rewrite Nat2Z.inj_succ. lia.
Qed.

Lemma lm_consume : forall kd sz l k o fs,
  layout_matches (items_at kd sz o (Z.of_nat (S k)) ++ l) fs = true <->
  exists fs', consume (Z.of_nat (S k)) kd sz o fs = Some (fs', o + Z.of_nat (S k) * sz) /\
              layout_matches l fs' = true.
Proof.
  intros kd sz l. induction k as [|k IH]; intros o fs; rewrite items_at_S; cbn [app layout_matches].
  - change (items_at kd sz (o + sz) (Z.of_nat 0)) with (@nil item). cbn [app].
    destruct fs as [|f r]; [split; [discriminate|intros (fs' & H & _); discriminate]|].
    rewrite consume_cons. change (Z.of_nat 1 =? 1) with true. cbv iota.
    destruct (item_matches (kd, sz, o) f); cbn [andb].
    + replace (o + Z.of_nat 1 * sz) with (o + sz) by lia.
      split; [intros H; exists r; auto|intros (fs' & [= <-] & H); exact H].
    + split; [discriminate|intros (fs' & H & _); discriminate].
  - destruct fs as [|f r]; [split; [discriminate|intros (fs' & H & _); discriminate]|].
    rewrite consume_cons. replace (Z.of_nat (S (S k)) =? 1) with false by lia.
    replace (Z.of_nat (S (S k)) - 1) with (Z.of_nat (S k)) by lia.
    replace (o + Z.of_nat (S (S k)) * sz) with (o + sz + Z.of_nat (S k) * sz) by lia.
    destruct (item_matches (kd, sz, o) f); cbn [andb]; [apply IH|].
    split; [discriminate|intros (fs' & H & _); discriminate].
Qed.

Lemma layout_smatch : forall toks m o fs, Forall tok_ok toks ->
  ((exists l e, layout toks m o = Some (l, e) /\ layout_matches l fs = true) <->
   exists o', smatch toks m o fs = Some ([], o')).
Proof.
  induction toks as [|tk r IH]; intros m o fs Hok.
  - cbn [layout smatch]. split.
    + intros (l & e & [= <- <-] & H). destruct fs; [eexists; reflexivity|discriminate].
    + intros (o' & [= -> <-]). exists [], o. split; reflexivity.
  - inversion Hok as [|? ? Hok1 Hok2]; subst.
    destruct tk as [ch|m' alt|n|ds t|ds]; cbn [layout smatch]; try (apply IH; exact Hok2).
    + destruct m'; try (apply IH; exact Hok2).
      split; [intros (l & e & H & _); discriminate|intros (o' & H); discriminate].
    + pose proof (count_item_pos ds t Hok1) as Hn.
      destruct (msize m t =? 0).
      { split; [intros (l & e & H & _); discriminate|intros (o' & H); discriminate]. }
      assert (Ek : count_of ds = Z.of_nat (S (Z.to_nat (count_of ds - 1)))) by lia.
      set (n := count_of ds) in *. set (k := Z.to_nat (n - 1)) in *.
      split.
      * intros (l & e & H & Hm).
        destruct (layout r m (malign m t o + n * msize m t)) as [[l1 e1]|] eqn:El; [|discriminate].
        injection H as <- <-. rewrite Ek in Hm. apply lm_consume in Hm. destruct Hm as (fs' & Hc & Hm).
        rewrite <- Ek in Hc. rewrite Hc. apply IH; [exact Hok2|]. exists l1, e1. split; [exact El|exact Hm].
      * intros (o' & H).
        destruct (consume n (code_kind t) (msize m t) (malign m t o) fs) as [[h1 o1]|] eqn:Ec; [|discriminate].
        destruct (consume_off _ _ _ _ _ _ _ Hn Ec) as [-> _].
        assert (H' : exists o'0, smatch r m (malign m t o + n * msize m t) h1 = Some ([], o'0)) by (exists o'; exact H).
        apply (IH m _ h1 Hok2) in H'. destruct H' as (l1 & e1 & El & Hm).
        rewrite El. exists (items_at (code_kind t) (msize m t) (malign m t o) n ++ l1), e1.
        split; [reflexivity|]. rewrite Ek. apply lm_consume. exists h1. rewrite <- Ek. split; assumption.
Qed.

Lemma spec_accept_smatch : forall toks ti isz, Forall tok_ok toks ->
  (spec_accept (FPlain toks) ti isz = true <->
   (exists o', smatch toks MNative 0 (ti_fields ti) = Some ([], o')) /\ isz = ti_size ti).
Proof.
  intros toks ti isz Hok. unfold spec_accept. cbn [fmt_toks].
  rewrite <- (layout_smatch toks MNative 0 (ti_fields ti) Hok).
  destruct (layout toks MNative 0) as [[l e]|].
  - rewrite andb_true_iff, Z.eqb_eq. split.
    + intros [H1 H2]. split; [exists l, e; auto|exact H2].
    + intros [(l' & e' & [= <- <-] & H1) H2]. auto.
  - split; [discriminate|intros [(l' & e' & H & _) _]; discriminate].
Qed.

(* ------------------------------------------------------------------ *)
(* 6. MAIN: every plain token list with arbitrary counts                *)
(* ------------------------------------------------------------------ *)
Lemma cs_nil : forall fx f c,
  check_string fx (S f) [] c =
  if negb (etype c =? 0) && (match hd c with [] => true | _ => false end) then Err
  else bind (process_chunk fx c) (fun c1 => match hd c1 with [] => Ok ([], c1) | _ => Err end).
Proof. reflexivity. Qed.

Theorem accept_iff_layout_counts : forall fx toks ti isz,
  Forall tok_ok toks -> flat_wf (ti_fields ti) ->
  (check fx (render (FPlain toks)) ti isz = Ok tt <-> spec_accept (FPlain toks) ti isz = true).
Proof.
  intros fx toks ti isz Hok Hw.
  rewrite (spec_accept_smatch toks ti isz Hok), smatch_sfold.
  unfold check, check_fuel. cbn [render].
  rewrite (cstr_id _ (render_nz toks Hok)).
  pose proof (costs_le toks Hok) as Hc.
  replace (S (length (render_body toks))) with (costs toks + S (length (render_body toks) - costs toks))%nat by lia.
  rewrite <- (app_nil_r (render_body toks)) at 2.
  rewrite cs_toks; [|exact Hok|reflexivity].
  assert (HR : R (init ti) (Some (ti_fields ti, 0))) by (apply R_idle; reflexivity).
  assert (Hcm : common (init ti) MNative) by (repeat split; auto; discriminate).
  pose proof (run_sim fx toks (init ti) MNative _ HR Hcm Hok) as H.
  destruct (run_toks fx toks (init ti)) as [c1| | | | |]; cbn [bind];
    try (rewrite H; split; [discriminate|intros [[o Ho] _]; discriminate]).
  destruct H as [HR1 [m1 (_ & _ & _ & _ & Hw1)]].
  rewrite <- (finish_sim fx c1 _ HR1 Hw1).
  rewrite cs_nil.
  unfold finish.
  destruct (negb (etype c1 =? 0) && _); cbn [bind]; [split; [discriminate|intros [H _]; discriminate]|].
  destruct (process_chunk fx c1) as [c2| | | | |]; cbn [bind];
    try (split; [discriminate|intros [H _]; discriminate]).
  destruct (hd c2) as [|f0 r0]; cbn [bind]; [|split; [discriminate|intros [H _]; discriminate]].
  destruct (Z.eqb_spec isz (ti_size ti)); split; auto; try discriminate; intros [_ H]; congruence.
Qed.

(* every canonical decimal numeral (with any number of leading zeros) is a count of the fragment and
   denotes n in the spec: so the theorem above covers "<n><code>" and "<n>x" for ALL n up to INT_MAX *)
Lemma decimal_count : forall n k, 0 <= n ->
  digits (repeat 48 k ++ decimal n) /\ repeat 48 k ++ decimal n <> [] /\
  count_of (repeat 48 k ++ decimal n) = n /\ dval 0 (repeat 48 k ++ decimal n) = n.
Proof.
  intros n k Hn.
  assert (Hne : repeat 48 k ++ decimal n <> []).
  { intros E. apply app_eq_nil in E. destruct E as [_ E]. exact (decimal_nonempty n E). }
  assert (Hv : dval 0 (repeat 48 k ++ decimal n) = n) by (rewrite dval_app, zeros_dval; apply decimal_dval; exact Hn).
  split; [apply digits_app; [apply zeros_digits|apply decimal_digits; exact Hn]|].
  split; [exact Hne|]. split; [|exact Hv].
  unfold count_of. destruct (repeat 48 k ++ decimal n); [congruence|exact Hv].
Qed.

Lemma decimal_item_ok : forall n k t, 1 <= n <= INT_MAX -> tok_ok (TItem (repeat 48 k ++ decimal n) t).
Proof.
  intros n k t Hn. destruct (decimal_count n k ltac:(lia)) as (Hd & _ & _ & Hv).
  split; [exact Hd|]. right. rewrite Hv. exact Hn.
Qed.

Lemma decimal_pad_ok : forall n k, 0 <= n <= INT_MAX -> tok_ok (TPad (repeat 48 k ++ decimal n)).
Proof.
  intros n k Hn. destruct (decimal_count n k ltac:(lia)) as (Hd & _ & _ & Hv).
  split; [exact Hd|]. right. rewrite Hv. lia.
Qed.

(* n consecutive members of one scalar type *)
Definition run_ti (g sz : Z) (n : nat) : tinfo :=
  mktinfo (map (fun i => (mkleaf g sz [], Z.of_nat i * sz)) (seq 0 n)) (Z.of_nat n * sz) 0.

Lemma run_ti_wf : forall g sz n, In g [72; 73; 85; 82; 67] -> 0 < sz -> (g = 72 -> sz = 1) ->
  (g = 82 \/ g = 67 -> 4 <= sz) -> flat_wf (ti_fields (run_ti g sz n)).
Proof.
  intros g sz n Hg Hs H1 H2. unfold run_ti. cbn [ti_fields]. apply Forall_forall. intros [l o] H.
  apply in_map_iff in H. destruct H as (i & E & _). injection E as <- <-.
  unfold leaf_wf. cbn [fst l_group l_size l_arr]. repeat split; auto.
Qed.
