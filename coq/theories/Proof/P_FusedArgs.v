(* C34 - proofs about the argument fetch of the generated fused dispatcher (Model/M_FusedArgs.v) *)
From Coq Require Import ZArith List Bool Arith Lia.
From CyVerif Require Import Model.M_Fused Model.M_FusedArgs.
Import ListNotations.
Local Open Scope nat_scope.

Section P.
Variable V : Type.

(* ---------- compile time: what the loop of make_fused_cpdef computes ---------- *)
Lemma defaults_tuple_cons : forall (q : param V) tl,
  length (defaults_tuple (q :: tl)) = (if has_default q then 1 else 0) + length (defaults_tuple tl).
Proof.
  intros q tl. unfold defaults_tuple, has_default. cbn [flat_map]. rewrite app_length.
  destruct (p_default q); reflexivity.
Qed.

Lemma plans_from_spec : forall (ps : list (param V)) i didx seen pl,
  In pl (plans_from true ps i didx seen) ->
  exists k p, nth_error ps k = Some p /\ pl_idx pl = i + k /\ pl_name pl = p_name p /\
              pl_kind pl = p_kind p /\ p_fused p = Some (pl_ft pl) /\
              pl_def pl = (if has_default p then Some (didx + length (defaults_tuple (firstn k ps))) else None).
Proof.
  induction ps as [|q tl IH]; intros i didx seen pl H; [inversion H|].
  cbn [plans_from orb] in H. rewrite andb_true_r in H.
  assert (TAIL : forall seen', In pl (plans_from true tl (S i) (if has_default q then S didx else didx) seen') ->
    exists k p, nth_error (q :: tl) k = Some p /\ pl_idx pl = i + k /\ pl_name pl = p_name p /\
              pl_kind pl = p_kind p /\ p_fused p = Some (pl_ft pl) /\
              pl_def pl = (if has_default p then Some (didx + length (defaults_tuple (firstn k (q :: tl)))) else None)).
  { intros seen' HT. destruct (IH _ _ _ _ HT) as [k [p [Hn [Hi [Hnm [Hk [Hf Hd]]]]]]].
    exists (S k), p. cbn [nth_error firstn]. repeat (split; [assumption || lia|]).
    rewrite Hd. destruct (has_default p); [|reflexivity].
    rewrite defaults_tuple_cons. destruct (has_default q); f_equal; lia. }
  destruct (p_fused q) as [ft|] eqn:Hq; [|eauto].
  destruct (negb (existsb (Nat.eqb ft) seen)); [|eauto].
  destruct H as [H|H]; [|eauto].
  exists 0, q. subst pl. cbn [nth_error firstn pl_idx pl_name pl_kind pl_ft pl_def].
  repeat (split; [reflexivity || lia || assumption|]).
  destruct (has_default q); [|reflexivity]. cbn. f_equal. lia.
Qed.

(* the defaults tuple holds the default of parameter k at the index "number of earlier defaults" *)
Lemma defaults_nth : forall (ps : list (param V)) k p v,
  nth_error ps k = Some p -> p_default p = Some v ->
  nth_error (defaults_tuple ps) (length (defaults_tuple (firstn k ps))) = Some v.
Proof.
  induction ps as [|q tl IH]; intros k p v Hn Hd; [destruct k; discriminate|].
  destruct k as [|k]; cbn [nth_error firstn] in *.
  - injection Hn as ->. unfold defaults_tuple. cbn [flat_map]. rewrite Hd. reflexivity.
  - unfold defaults_tuple in *. cbn [flat_map]. rewrite app_length.
    destruct (p_default q); cbn [length app plus nth_error]; eauto.
Qed.

(* ---------- binding ---------- *)
Lemma bind_from_nth : forall args kwargs (ps : list (param V)) i vals k p,
  bind_from args kwargs i ps = Some vals -> nth_error ps k = Some p ->
  exists v, nth_error vals k = Some v /\ bind_one args kwargs (i + k) p = Some v.
Proof.
  induction ps as [|q tl IH]; intros i vals k p Hb Hn; [destruct k; discriminate|].
  cbn [bind_from] in Hb.
  destruct (bind_one args kwargs i q) as [v0|] eqn:H0; [|discriminate].
  destruct (bind_from args kwargs (S i) tl) as [vs|] eqn:H1; [|discriminate].
  injection Hb as <-.
  destruct k as [|k]; cbn [nth_error] in *.
  - injection Hn as <-. exists v0. rewrite Nat.add_0_r. auto.
  - destruct (IH _ _ _ _ H1 Hn) as [v [Hv Hb1]]. exists v. split; [assumption|].
    replace (i + S k) with (S i + k) by lia. assumption.
Qed.

Lemma bind_from_length : forall args kwargs (ps : list (param V)) i vals,
  bind_from args kwargs i ps = Some vals -> length vals = length ps.
Proof.
  induction ps as [|q tl IH]; intros i vals Hb; cbn [bind_from] in Hb.
  - injection Hb as <-. reflexivity.
  - destruct (bind_one args kwargs i q); [|discriminate].
    destruct (bind_from args kwargs (S i) tl) eqn:H1; [|discriminate].
    injection Hb as <-. cbn [length]. f_equal. eauto.
Qed.

Lemma kinds_sorted_npos : forall (ps : list (param V)) k p,
  kinds_sorted ps = true -> nth_error ps k = Some p -> is_kwonly (p_kind p) = true -> npos ps <= k.
Proof.
  unfold npos.
  induction ps as [|q tl IH]; intros k p Hs Hn Hk; [destruct k; discriminate|].
  cbn [kinds_sorted] in Hs. apply andb_true_iff in Hs. destruct Hs as [Hq Hs].
  destruct k as [|k]; cbn [nth_error] in Hn.
  - injection Hn as ->. rewrite Hk in Hq. cbn [filter]. unfold positional at 1. rewrite Hk. cbn [negb].
    assert (E : filter (@positional V) tl = []).
    { clear - Hq. induction tl as [|x r IHr]; [reflexivity|]. cbn [forallb] in Hq.
      apply andb_true_iff in Hq. destruct Hq as [Hx Hr]. cbn [filter]. unfold positional at 1.
      rewrite Hx. cbn [negb]. auto. }
    rewrite E. cbn. lia.
  - specialize (IH _ _ Hs Hn Hk). cbn [filter]. destruct (positional q); cbn [length]; lia.
Qed.

Lemma nodupb_name : forall (ps : list (param V)) k p q,
  nodupb (map (@p_name V) ps) = true -> nth_error ps k = Some p -> In q ps -> p_name q = p_name p -> q = p.
Proof.
  induction ps as [|x tl IH]; intros k p q Hnd Hn Hin He; [destruct k; discriminate|].
  cbn [map nodupb] in Hnd. apply andb_true_iff in Hnd. destruct Hnd as [Hx Hnd].
  apply negb_true_iff in Hx.
  assert (NI : forall y, In y tl -> p_name y <> p_name x).
  { intros y Hy Heq. assert (existsb (Nat.eqb (p_name x)) (map (@p_name V) tl) = true).
    { apply existsb_exists. exists (p_name y). split; [apply in_map; assumption|]. apply Nat.eqb_eq. auto. }
    congruence. }
  destruct k as [|k]; cbn [nth_error] in Hn.
  - injection Hn as <-. destruct Hin as [<-|Hin]; [reflexivity|]. exfalso. eapply NI; eauto.
  - destruct Hin as [<-|Hin].
    + exfalso. apply nth_error_In in Hn. eapply NI; eauto.
    + eauto.
Qed.

Lemma in_kw_lookup : forall n (kw : list (nat * V)), in_kw n kw = false -> lookup n kw = None.
Proof. intros n kw. unfold in_kw. destruct (lookup n kw); [discriminate|reflexivity]. Qed.

Lemma lookup_in : forall n (kw : list (nat * V)) v, lookup n kw = Some v -> In (n, v) kw.
Proof.
  induction kw as [|[k w] r IH]; intros v H; [discriminate|]. cbn [lookup] in H.
  destruct (Nat.eqb_spec k n).
  - injection H as ->. subst. left. reflexivity.
  - right. auto.
Qed.

(* a call that binds without **kwargs cannot carry the name of a positional-only parameter *)
Lemma posonly_not_in_kwargs : forall (s : fsig V) (kwargs : list (nat * V)) k p,
  nodupb (map (@p_name V) (s_params s)) = true ->
  existsb (fun kv => negb (accepts_kw (s_params s) (fst kv))) kwargs = false ->
  nth_error (s_params s) k = Some p -> p_kind p = KPosOnly ->
  lookup (p_name p) kwargs = None.
Proof.
  intros s kwargs k p Hnd Hex Hn Hk.
  destruct (lookup (p_name p) kwargs) as [v|] eqn:Hl; [|reflexivity]. exfalso.
  apply lookup_in in Hl.
  assert (HA : accepts_kw (s_params s) (p_name p) = true).
  { destruct (accepts_kw (s_params s) (p_name p)) eqn:HA; [reflexivity|].
    assert (existsb (fun kv : nat * V => negb (accepts_kw (s_params s) (fst kv))) kwargs = true).
    { apply existsb_exists. exists (p_name p, v). split; [assumption|]. cbn [fst]. rewrite HA. reflexivity. }
    congruence. }
  unfold accepts_kw in HA. apply existsb_exists in HA. destruct HA as [q [Hq HA]].
  apply andb_true_iff in HA. destruct HA as [Hname Hkind]. apply Nat.eqb_eq in Hname.
  assert (q = p) by (eapply nodupb_name; eauto). subst q. rewrite Hk in Hkind. discriminate.
Qed.

(* ---------- main: the fetched value is the bound value ---------- *)
Theorem fetch_bound : forall kinds_fix (s : fsig V) args kwargs vals pl,
  wf_sig s = true ->
  bind_py s args kwargs = Some vals ->
  In pl (plans true s) ->
  kinds_fix = true \/ hazard_free pl args kwargs = true ->
  exists v, nth_error vals (pl_idx pl) = Some v /\
            run_plan kinds_fix pl args kwargs (defaults_tuple (s_params s)) = FVal v.
Proof.
  intros kf s args kwargs vals pl Hwf Hb Hin Hhaz.
  unfold wf_sig in Hwf. apply andb_true_iff in Hwf. destruct Hwf as [Hks Hnd].
  unfold plans in Hin. destruct (plans_from_spec _ _ _ _ _ Hin) as [k [p [Hn [Hi [Hnm [Hk [Hf Hd]]]]]]].
  cbn [plus] in Hi, Hd.
  unfold bind_py in Hb.
  destruct (negb (s_star s) && (npos (s_params s) <? length args)) eqn:Hstar; [discriminate|].
  destruct (negb (s_kw s) && existsb (fun kv => negb (accepts_kw (s_params s) (fst kv))) kwargs) eqn:Hkw; [discriminate|].
  destruct (bind_from_nth _ _ _ _ _ _ _ Hb Hn) as [v [Hv Hb1]]. cbn [plus] in Hb1.
  exists v. rewrite Hi. split; [assumption|].
  (* the default branch of the generated block reads the parameter's own default *)
  assert (DEF : forall d, p_default p = Some d ->
            match pl_def pl with
            | Some k0 => match nth_error (defaults_tuple (s_params s)) k0 with Some v0 => FVal v0 | None => FBadIndex end
            | None => FMissing end = FVal d).
  { intros d Hdd. rewrite Hd. unfold has_default. rewrite Hdd. rewrite (defaults_nth _ _ _ _ Hn Hdd). reflexivity. }
  unfold run_plan. rewrite Hi, Hnm, Hk. unfold hazard_free in Hhaz. rewrite Hk, Hi, Hnm in Hhaz.
  unfold bind_one in Hb1.
  destruct (p_kind p) eqn:Hkind; cbn [is_kwonly is_posonly andb].
  - (* positional-only *)
    rewrite andb_false_r.
    destruct (nth_error args k) as [a|] eqn:Ha; [congruence|].
    assert (NK : (if kf && true then None else lookup (p_name p) kwargs) = None).
    { destruct kf; [reflexivity|]. cbn [andb].
      destruct (s_kw s) eqn:Hskw.
      - destruct Hhaz as [Hx|Hx]; [discriminate|].
        apply nth_error_None in Ha. apply orb_true_iff in Hx. destruct Hx as [Hx|Hx].
        + apply Nat.ltb_lt in Hx. lia.
        + apply negb_true_iff in Hx. apply in_kw_lookup. assumption.
      - cbn [negb andb] in Hkw. eapply posonly_not_in_kwargs; eauto. }
    rewrite NK. destruct (p_default p) as [d|] eqn:Hdd; [|discriminate].
    injection Hb1 as <-. apply DEF. reflexivity.
  - (* positional or keyword *)
    rewrite !andb_false_r.
    destruct (nth_error args k) as [a|] eqn:Ha.
    + destruct (in_kw (p_name p) kwargs); [discriminate|]. congruence.
    + destruct (lookup (p_name p) kwargs) as [w|]; [congruence|].
      destruct (p_default p) as [d|] eqn:Hdd; [|discriminate]. injection Hb1 as <-. apply DEF. reflexivity.
  - (* keyword-only *)
    rewrite andb_false_r.
    assert (NP : (if kf && true then None else nth_error args k) = None).
    { destruct kf; [reflexivity|]. cbn [andb]. apply nth_error_None.
      destruct (s_star s) eqn:Hss.
      - destruct Hhaz as [Hx|Hx]; [discriminate|]. apply Nat.leb_le in Hx. assumption.
      - cbn [negb andb] in Hstar. apply Nat.ltb_ge in Hstar.
        assert (npos (s_params s) <= k) by (eapply kinds_sorted_npos; eauto; rewrite Hkind; reflexivity). lia. }
    rewrite NP.
    destruct (lookup (p_name p) kwargs) as [w|]; [congruence|].
    destruct (p_default p) as [d|] eqn:Hdd; [|discriminate]. injection Hb1 as <-. apply DEF. reflexivity.
Qed.

(* all blocks together *)
Theorem fetch_all_bound : forall kinds_fix (s : fsig V) args kwargs vals,
  wf_sig s = true ->
  bind_py s args kwargs = Some vals ->
  kinds_fix = true \/ forallb (fun pl => hazard_free pl args kwargs) (plans true s) = true ->
  exists vs, fetch_all kinds_fix (plans true s) args kwargs (defaults_tuple (s_params s)) = Fetched vs /\
             Forall2 (fun pl v => nth_error vals (pl_idx pl) = Some v) (plans true s) vs.
Proof.
  intros kf s args kwargs vals Hwf Hb Hhaz.
  assert (G : forall pls, incl pls (plans true s) ->
            exists vs, fetch_all kf pls args kwargs (defaults_tuple (s_params s)) = Fetched vs /\
                       Forall2 (fun pl v => nth_error vals (pl_idx pl) = Some v) pls vs).
  { induction pls as [|pl tl IH]; intros Hincl.
    - exists []. split; [reflexivity|constructor].
    - destruct IH as [vs [Hf HF]]; [intros x Hx; apply Hincl; right; assumption|].
      assert (Hin : In pl (plans true s)) by (apply Hincl; left; reflexivity).
      destruct (fetch_bound kf s args kwargs vals pl Hwf Hb Hin) as [v [Hv Hr]].
      { destruct Hhaz as [Hx|Hx]; [left; assumption|right]. rewrite forallb_forall in Hx. auto. }
      exists (v :: vs). cbn [fetch_all]. rewrite Hr, Hf. split; [reflexivity|constructor; assumption]. }
  apply G. apply incl_refl.
Qed.


(* what every block of the real loop reads: index, name, kind of a fused parameter that is the
   first of its fused type, and the defaults slot = number of EARLIER defaulted parameters *)
Lemma plans_spec : forall (s : fsig V) pl,
  In pl (plans true s) ->
  exists p, nth_error (s_params s) (pl_idx pl) = Some p /\ pl_name pl = p_name p /\ pl_kind pl = p_kind p /\
            p_fused p = Some (pl_ft pl) /\
            pl_def pl = (if has_default p
                         then Some (length (defaults_tuple (firstn (pl_idx pl) (s_params s)))) else None).
Proof.
  intros s pl H. unfold plans in H.
  destruct (plans_from_spec _ _ _ _ _ H) as [k [p [Hn [Hi [Hnm [Hk [Hf Hd]]]]]]].
  cbn [plus] in Hi, Hd. subst k. exists p. auto 6.
Qed.

(* ---------- the whole call reduces to the all-positional dispatcher on the bound values ---------- *)
Variable tag_of : V -> atag.

Lemma fused_vals_length : forall (ps : list (param V)) vals,
  length vals = length ps -> length (fused_vals tag_of ps vals) = length (fparams ps).
Proof.
  induction ps as [|q tl IH]; intros vals Hl; destruct vals as [|w vals]; try discriminate; [reflexivity|].
  cbn [fused_vals]. unfold fparams. cbn [flat_map]. injection Hl as Hl.
  destruct (p_fused q); cbn [app length]; [f_equal|]; apply IH; assumption.
Qed.

Lemma fused_vals_nth : forall (ps : list (param V)) vals i p ft v,
  nth_error ps i = Some p -> p_fused p = Some ft -> nth_error vals i = Some v ->
  nth_error (fused_vals tag_of ps vals) (length (fparams (firstn i ps))) = Some (tag_of v).
Proof.
  induction ps as [|q tl IH]; intros vals i p ft v Hn Hf Hv; [destruct i; discriminate|].
  destruct vals as [|w vals]; [destruct i; discriminate|].
  destruct i as [|i]; cbn [nth_error firstn] in *.
  - injection Hn as ->. injection Hv as ->. cbn [fused_vals]. rewrite Hf. reflexivity.
  - cbn [fused_vals]. unfold fparams. cbn [flat_map].
    destruct (p_fused q); cbn [app length nth_error]; eapply IH; eauto.
Qed.

Theorem call2_reduces : forall kinds_fix fastfix idlt mss (s : fsig V) args kwargs vals,
  wf_sig s = true ->
  bind_py s args kwargs = Some vals ->
  kinds_fix = true \/ forallb (fun pl => hazard_free pl args kwargs) (plans true s) = true ->
  call2_cy tag_of true kinds_fix fastfix idlt mss s args kwargs =
  call_cy fastfix idlt (decl_of mss s) (fused_vals tag_of (s_params s) vals).
Proof.
  intros kf fx idlt mss s args kwargs vals Hwf Hb Hhaz.
  destruct (fetch_all_bound kf s args kwargs vals Hwf Hb Hhaz) as [vs [Hfetch HF]].
  assert (Hlen : length vals = length (s_params s)).
  { unfold bind_py in Hb.
    destruct (negb (s_star s) && (npos (s_params s) <? length args)); [discriminate|].
    destruct (negb (s_kw s) && existsb (fun kv => negb (accepts_kw (s_params s) (fst kv))) kwargs); [discriminate|].
    eapply bind_from_length; eauto. }
  unfold call2_cy. rewrite Hfetch, Hb.
  unfold call_cy, dispatch_cy.
  assert (L : length (fused_vals tag_of (s_params s) vals) = length (params (decl_of mss s))).
  { unfold decl_of. cbn [params]. rewrite map_length. apply fused_vals_length. assumption. }
  rewrite L, Nat.eqb_refl. cbn [negb].
  (* the destination signature computed from the fetched values = the one from the bound values *)
  assert (D : dests fx idlt (decl_of mss s) (fused_vals tag_of (s_params s) vals) =
              Some (map (fun pv => map_fused fx idlt (members_of mss (fst pv)) (tag_of (snd pv)))
                        (combine (plans true s) vs))).
  { unfold dests, decl_of. cbn [ftypes].
    assert (G : forall pls vs', Forall2 (fun pl v => nth_error vals (pl_idx pl) = Some v) pls vs' ->
              incl pls (plans true s) ->
              fold_right (fun ft acc =>
                match acc, nth_error (fused_vals tag_of (s_params s) vals) (fpos ft) with
                | Some l, Some a => Some (map_fused fx idlt (members ft) a :: l)
                | _, _ => None end) (Some [])
                (map (fun pl => {| members := members_of mss pl;
                                   fpos := length (fparams (firstn (pl_idx pl) (s_params s))) |}) pls) =
              Some (map (fun pv => map_fused fx idlt (members_of mss (fst pv)) (tag_of (snd pv))) (combine pls vs'))).
    { induction 1 as [|pl v pls vs' Hv HF2 IH]; intros Hincl; [reflexivity|].
      cbn [map fold_right combine]. rewrite IH by (intros x Hx; apply Hincl; right; assumption).
      cbn [fpos members fst snd].
      destruct (plans_spec s pl) as [p [Hn [_ [_ [Hft _]]]]]; [apply Hincl; left; reflexivity|].
      rewrite (fused_vals_nth _ _ _ _ _ _ Hn Hft Hv). reflexivity. }
    apply G; [assumption|apply incl_refl]. }
  rewrite D.
  assert (E : map members (ftypes (decl_of mss s)) = map (members_of mss) (plans true s)).
  { unfold decl_of. cbn [ftypes]. rewrite map_map. reflexivity. }
  rewrite E. unfold select, decl_of. cbn [params]. reflexivity.
Qed.


(* a call that CPython's binding rejects never runs a specialisation, whatever was fetched *)
Theorem call2_bind_error : forall ca kinds_fix fastfix idlt mss (s : fsig V) args kwargs sg,
  bind_py s args kwargs = None -> call2_cy tag_of ca kinds_fix fastfix idlt mss s args kwargs <> Ran sg.
Proof.
  intros ca kf fx idlt mss s args kwargs sg Hb. unfold call2_cy. rewrite Hb.
  destruct (fetch_all kf (plans ca s) args kwargs (defaults_tuple (s_params s))); try discriminate.
  match goal with |- context [select ?a ?b] => destruct (select a b) end; discriminate.
Qed.

End P.

(* ---------- refuted variants (witnesses by computation) ---------- *)
(* values: numbers.  f(tag = 7, num_t x = 3) called as f(): the variant that counts only the
   defaults of dispatch-relevant parameters hands the dispatcher defaults[0] = 7 = tag. *)
Definition s_seed : fsig nat :=
  mkSig [mkParam 0 KPosKw None (Some 7); mkParam 1 KPosKw (Some 0) (Some 3)] false false.
Lemma count_relevant_only_refuted :
  wf_sig s_seed = true /\ bind_py s_seed [] [] = Some [7; 3] /\
  (exists pl, plans false s_seed = [pl] /\ hazard_free pl (@nil nat) [] = true /\
              run_plan true pl [] [] (defaults_tuple (s_params s_seed)) = FVal 7) /\
  (exists pl, plans true s_seed = [pl] /\ run_plan true pl [] [] (defaults_tuple (s_params s_seed)) = FVal 3).
Proof. vm_compute. repeat split; eexists; repeat split. Qed.

(* f( *args, num_t x = 3) called as f(5): the unrepaired block takes args[0] = 5 for x *)
Definition s_kwonly : fsig nat := mkSig [mkParam 0 KKwOnly (Some 0) (Some 3)] true false.
Lemma kwonly_from_star_args_refuted :
  wf_sig s_kwonly = true /\ bind_py s_kwonly [5] [] = Some [3] /\
  exists pl, plans true s_kwonly = [pl] /\
             run_plan false pl [5] [] (defaults_tuple (s_params s_kwonly)) = FVal 5 /\
             run_plan true pl [5] [] (defaults_tuple (s_params s_kwonly)) = FVal 3.
Proof. vm_compute. repeat split; eexists; repeat split. Qed.

(* f(num_t x = 3, /, **kw) called as f(x = 5): the unrepaired block takes kwargs['x'] = 5 for x *)
Definition s_posonly : fsig nat := mkSig [mkParam 0 KPosOnly (Some 0) (Some 3)] false true.
Lemma posonly_from_kwargs_refuted :
  wf_sig s_posonly = true /\ bind_py s_posonly [] [(0, 5)] = Some [3] /\
  exists pl, plans true s_posonly = [pl] /\
             run_plan false pl [] [(0, 5)] (defaults_tuple (s_params s_posonly)) = FVal 5 /\
             run_plan true pl [] [(0, 5)] (defaults_tuple (s_params s_posonly)) = FVal 3.
Proof. vm_compute. repeat split; eexists; repeat split. Qed.
