From Coq Require Import ZArith List Bool Lia ZifyBool.
From CyVerif Require Import Lib.CInt Model.M_CMath Proof.P_CMath Model.M_DivNode.
Open Scope Z_scope.

(* --- unsigned result types: the C operators are Python's // and % --------------------- *)

Lemma unsigned_c_ops w a b :
  2 <= w -> in_range w false a -> in_range w false b -> b <> 0 ->
  cdiv_c w false a b = a / b /\ cmod_c w false a b = a mod b.
Proof.
  intros Hw Ha Hb Hb0.
  assert (Hub : div_ub w false a b = false) by (unfold div_ub; lia).
  destruct (cdivision_is_trunc w false a b Hw Ha Hb Hub) as [Eq Er].
  rewrite Eq, Er. unfold in_range, min_int in *.
  split; [apply Z.quot_div_nonneg | apply Z.rem_mod_nonneg]; lia.
Qed.

(* --- decisions ------------------------------------------------------------------------- *)

Lemma zero_test_present v d b :
  zc v = true -> (d = DOpaque -> oq v = true) -> divisor_value d b -> b = 0 ->
  zerodivision_check v py_cfg d = true.
Proof.
  intros Hz Ho Hd ->. unfold zerodivision_check, py_cfg. cbn [cforced cdir negb andb].
  destruct d as [|c|]; cbn [may_equal divisor_value] in *.
  - reflexivity.
  - subst c. rewrite Hz. reflexivity.
  - now apply Ho.
Qed.

Lemma min_test_present v d s b :
  (d = DOpaque -> oq v = true) -> divisor_value d b -> b = -1 ->
  min_division_check v py_cfg false s d = s.
Proof.
  intros Ho Hd ->. unfold min_division_check, py_cfg. cbn [cforced cdir negb andb].
  destruct d as [|c|]; cbn [may_equal divisor_value] in *.
  - now rewrite andb_true_r.
  - subst c. now rewrite andb_true_r.
  - rewrite Ho by reflexivity. now rewrite andb_true_r.
Qed.

(* The zero test is left out only for a numeric constant divisor different from 0. *)
Theorem zero_test_omitted_only_nonzero_const v d :
  zc v = true -> oq v = true -> zerodivision_check v py_cfg d = false ->
  exists c, d = DNum c /\ c <> 0.
Proof.
  intros Hz Ho H. unfold zerodivision_check, py_cfg in H. cbn [cforced cdir negb andb] in H.
  destruct d as [|c|]; cbn [may_equal] in H.
  - discriminate.
  - exists c. split; [reflexivity|]. rewrite Hz in H. cbn [andb] in H. lia.
  - congruence.
Qed.

(* cdivision (directive or forced on the node): no test is emitted, C operators are used *)
Theorem decisions_cdivision v c is_mod s d :
  (cdir c || cforced c) = true ->
  exists k, decisions v c is_mod s d = (false, false, true, k).
Proof.
  intros Hc. exists (has_constant_result d).
  unfold decisions, zerodivision_check, min_division_check, c_operator.
  destruct (cdir c), (cforced c); cbn in *; try discriminate; reflexivity.
Qed.

(* --- the emitted statement, cdivision off ---------------------------------------------- *)

Theorem div_stmt_python v w s d a b :
  zc v = true -> (d = DOpaque -> oq v = true) ->
  2 <= w -> in_range w s a -> in_range w s b -> divisor_value d b ->
  div_stmt v py_cfg w s d a b = py_floordiv w s a b.
Proof.
  intros Hz Ho Hw Ha Hb Hd.
  rewrite <- (div_node_python w s (has_constant_result d) a b Hw Ha Hb).
  unfold div_stmt, div_node.
  destruct (Z.eqb_spec b 0) as [Hb0|Hb0].
  - rewrite (zero_test_present v d b Hz Ho Hd Hb0). reflexivity.
  - rewrite andb_false_r. cbn [orb]. rewrite andb_true_r.
    destruct (Z.eqb_spec b (-1)) as [Hm|Hm].
    + rewrite (min_test_present v d s b Ho Hd Hm). cbn [andb].
      rewrite !andb_true_r.
      destruct (s && (a =? min_int w s)) eqn:Hg.
      * replace (s && true && (a =? min_int w s)) with true by lia. reflexivity.
      * replace (s && true && (a =? min_int w s)) with false by lia.
        assert (Hub : div_ub w s a b = false) by (unfold div_ub; lia).
        rewrite Hub. unfold c_operator, py_cfg. cbn [cforced cdir orb].
        destruct s; cbn [negb]; [reflexivity|].
        destruct (unsigned_c_ops w a b Hw Ha Hb Hb0) as [Eq _].
        rewrite Eq. now rewrite div_int_floor.
    + rewrite !andb_false_r. cbn [andb].
      replace (s && false && (a =? min_int w s)) with false by lia.
      assert (Hub : div_ub w s a b = false) by (unfold div_ub; lia).
      rewrite Hub. unfold c_operator, py_cfg. cbn [cforced cdir orb].
      destruct s; cbn [negb]; [reflexivity|].
      destruct (unsigned_c_ops w a b Hw Ha Hb Hb0) as [Eq _].
      rewrite Eq. now rewrite div_int_floor.
Qed.

Theorem mod_stmt_python v w s d a b :
  zc v = true -> (d = DOpaque -> oq v = true) ->
  2 <= w -> in_range w s a -> in_range w s b -> divisor_value d b ->
  mod_stmt v py_cfg w s d a b = py_mod a b.
Proof.
  intros Hz Ho Hw Ha Hb Hd. unfold mod_stmt, py_mod.
  destruct (Z.eqb_spec b 0) as [Hb0|Hb0].
  - rewrite (zero_test_present v d b Hz Ho Hd Hb0). reflexivity.
  - rewrite andb_false_r. unfold c_operator, py_cfg. cbn [cforced cdir orb].
    destruct s; cbn [negb].
    + now rewrite mod_int_floor.
    + assert (Hub : div_ub w false a b = false) by (unfold div_ub; lia).
      rewrite Hub. destruct (unsigned_c_ops w a b Hw Ha Hb Hb0) as [_ Er]. now rewrite Er.
Qed.

(* never a C division by zero (nor MIN / -1), ZeroDivisionError exactly for a zero divisor *)
Theorem div_stmt_safe v w s d a b :
  zc v = true -> (d = DOpaque -> oq v = true) ->
  2 <= w -> in_range w s a -> in_range w s b -> divisor_value d b ->
  div_stmt v py_cfg w s d a b <> UB /\
  (div_stmt v py_cfg w s d a b = ZeroDivisionError <-> b = 0).
Proof.
  intros Hz Ho Hw Ha Hb Hd. rewrite (div_stmt_python v w s d a b Hz Ho Hw Ha Hb Hd).
  unfold py_floordiv. destruct (Z.eqb_spec b 0) as [Hb0|Hb0].
  - split; [discriminate | tauto].
  - destruct (in_rangeb w s (a / b)); (split; [discriminate | split; [discriminate | contradiction]]).
Qed.

Theorem mod_stmt_safe v w s d a b :
  zc v = true -> (d = DOpaque -> oq v = true) ->
  2 <= w -> in_range w s a -> in_range w s b -> divisor_value d b ->
  mod_stmt v py_cfg w s d a b <> UB /\
  (mod_stmt v py_cfg w s d a b = ZeroDivisionError <-> b = 0).
Proof.
  intros Hz Ho Hw Ha Hb Hd. rewrite (mod_stmt_python v w s d a b Hz Ho Hw Ha Hb Hd).
  unfold py_mod. destruct (Z.eqb_spec b 0) as [Hb0|Hb0].
  - split; [discriminate | tauto].
  - split; [discriminate | split; [discriminate | contradiction]].
Qed.

(* --- what goes wrong in the other variants --------------------------------------------- *)

(* clause `or operand2.constant_result == 0` dropped: every constant zero divisor reaches the
   C division, whatever the type and the dividend *)
Theorem zero_const_clause_needed o w s a :
  div_stmt {| zc := false; oq := o |} py_cfg w s (DNum 0) a 0 = UB /\
  mod_stmt {| zc := false; oq := o |} py_cfg w s (DNum 0) a 0 = UB.
Proof.
  unfold div_stmt, mod_stmt, zerodivision_check, min_division_check, c_operator, div_ub, py_cfg.
  cbn [zc oq cforced cdir negb andb orb may_equal Z.eqb].
  destruct s; cbn [negb andb orb]; split; reflexivity.
Qed.

(* the code as it is: a type-cast constant divisor (`a // <int>0`) is taken for a non-zero
   constant, the statement divides by zero; same for MIN // <T>-1 *)
Theorem opaque_const_zero_refuted w s a :
  div_stmt as_is py_cfg w s DOpaque a 0 = UB /\ mod_stmt as_is py_cfg w s DOpaque a 0 = UB.
Proof.
  unfold div_stmt, mod_stmt, zerodivision_check, min_division_check, c_operator, div_ub, py_cfg, as_is.
  cbn [zc oq cforced cdir negb andb orb may_equal Z.eqb].
  destruct s; cbn [negb andb orb]; split; reflexivity.
Qed.

Theorem opaque_const_min_refuted w :
  div_stmt as_is py_cfg w true DOpaque (min_int w true) (-1) = UB.
Proof.
  unfold div_stmt, zerodivision_check, min_division_check, div_ub, py_cfg, as_is.
  cbn [zc oq cforced cdir negb andb orb may_equal Z.eqb].
  cbn [andb orb]. rewrite Z.eqb_refl. reflexivity.
Qed.

(* --- cdivision on: C truncation, no tests ----------------------------------------------- *)

Theorem stmt_cdivision v c w s d a b :
  (cdir c || cforced c) = true ->
  2 <= w -> in_range w s a -> in_range w s b -> div_ub w s a b = false ->
  div_stmt v c w s d a b = Value (Z.quot a b) /\ mod_stmt v c w s d a b = Value (Z.rem a b).
Proof.
  intros Hc Hw Ha Hb Hub.
  destruct (cdivision_is_trunc w s a b Hw Ha Hb Hub) as [Eq Er].
  unfold div_stmt, mod_stmt, zerodivision_check, min_division_check, c_operator.
  rewrite Hub.
  destruct (cdir c), (cforced c); cbn in *; try discriminate; rewrite ?Eq, ?Er; split; reflexivity.
Qed.

(* --- divmod(a, b) on two C integers: __Pyx_divmod_int_T ---------------------------------- *)

Lemma same_sign_trunc_is_floor a b :
  a <> 0 -> b <> 0 -> xorb (a <? 0) (b <? 0) = false ->
  Z.quot a b = a / b /\ Z.rem a b = a mod b.
Proof.
  intros Ha0 Hb0 Hx. destruct (floor_from_trunc a b Hb0) as [Ed Em].
  destruct (quot_facts a b Hb0) as (_ & _ & Hs).
  assert (Hadj : adj (Z.rem a b) b = 0).
  { unfold adj, b2z. destruct (Z.eqb_spec (Z.rem a b) 0) as [|Hr0]; cbn [negb andb]; [reflexivity|].
    destruct (Z.ltb_spec (Z.rem a b) 0), (Z.ltb_spec b 0), (Z.ltb_spec a 0);
      cbn [xorb] in *; try discriminate; try reflexivity; nia. }
  rewrite Hadj in *. lia.
Qed.

Theorem divmod_python g w s a b :
  2 <= w -> in_range w s a -> in_range w s b -> b <> 0 -> div_ub w s a b = false ->
  divmod_q g w s a b = Value (a / b) /\ divmod_r g w s a b = Value (a mod b).
Proof.
  intros Hw Ha Hb Hb0 Hub. unfold divmod_q, divmod_r. rewrite Hub.
  replace (g && s && (b =? -1) && (a =? min_int w s)) with false by (unfold div_ub in Hub; lia).
  destruct (Z.eqb_spec b 0) as [|_]; [contradiction|].
  destruct (Z.eqb_spec a 0) as [->|Ha0].
  - rewrite Z.div_0_l, Z.mod_0_l by assumption. split; reflexivity.
  - pose proof (no_overflow_div w s true a b Hw Ha Hb Hub) as Hno.
    unfold div_int_no_overflow in Hno. rewrite !andb_true_iff, !in_rangeb_spec in Hno.
    destruct Hno as (((Hq & Hqb) & Hr) & _).
    assert (Hw1 : 1 <= w) by lia.
    assert (Er : a - Z.quot a b * b = Z.rem a b) by (pose proof (Z.quot_rem' a b); lia).
    destruct (xorb (a <? 0) (b <? 0)) eqn:Hx.
    + split.
      * f_equal. apply (div_int_floor w s true a b Hw Ha Hb Hub).
      * f_equal. rewrite (wrap_id w s (Z.quot a b)) by assumption.
        rewrite (wrap_id w s (Z.quot a b * b)) by assumption.
        rewrite (wrap_id w s (a - Z.quot a b * b)) by assumption.
        rewrite Er. rewrite <- (mod_int_old_floor w s true a b Hw Ha Hb Hub).
        unfold mod_int_old. rewrite (wrap_id w s (Z.rem a b)) by (try assumption; rewrite <- Er; assumption).
        reflexivity.
    + destruct (same_sign_trunc_is_floor a b Ha0 Hb0 Hx) as [Eq Em].
      rewrite Er in Hr.
      split; f_equal; rewrite wrap_id by assumption; assumption.
Qed.

Theorem divmod_zero g w s a :
  divmod_q g w s a 0 = ZeroDivisionError /\ divmod_r g w s a 0 = ZeroDivisionError.
Proof. split; reflexivity. Qed.

(* the helper has no MIN / -1 test: the C division is executed (traps) *)
Theorem divmod_min_refuted :
  exists w s a b, 2 <= w /\ in_range w s a /\ in_range w s b /\ divmod_q false w s a b = UB.
Proof. exists 32, true, (-2147483648), (-1). unfold in_range. vm_compute. intuition congruence. Qed.

(* repaired helper: the quotient is Python's // as an outcome (OverflowError iff it does not fit),
   never UB *)
Theorem divmod_guarded_python w s a b :
  2 <= w -> in_range w s a -> in_range w s b ->
  divmod_q true w s a b = py_floordiv w s a b /\
  (divmod_q true w s a b = OverflowError \/ divmod_r true w s a b = py_mod a b).
Proof.
  intros Hw Ha Hb. unfold py_floordiv, py_mod.
  destruct (Z.eqb_spec b 0) as [Hb0|Hb0].
  - subst b. split; [reflexivity | right; reflexivity].
  - rewrite (floordiv_in_range_iff w s a b Hw Ha Hb Hb0).
    destruct (s && (a =? min_int w s) && (b =? -1)) eqn:Hg; cbn [negb].
    + assert (Ha0 : a <> 0).
      { destruct s; [|discriminate]. unfold min_int in Hg. pose proof (pow2_pos (w - 1) ltac:(lia)). lia. }
      assert (E : divmod_q true w s a b = OverflowError).
      { unfold divmod_q. destruct (Z.eqb_spec b 0); [contradiction|].
        destruct (Z.eqb_spec a 0); [contradiction|].
        replace (true && s && (b =? -1) && (a =? min_int w s)) with true by lia. reflexivity. }
      split; [exact E | left; exact E].
    + assert (Hub : div_ub w s a b = false) by (unfold div_ub; lia).
      destruct (divmod_python true w s a b Hw Ha Hb Hb0 Hub) as [Eq Er].
      split; [exact Eq | right; exact Er].
Qed.
