(* C43 - proofs about Model/M_Lexicon.v:
   (1) soundness of the inclusion decision procedure: decide_incl a b = VIncluded implies
       L a <= L b for ALL event words (no length bound), VCounter w implies w in L a \ L b;
   (2) Python 3.12's numeric literal grammar is included in the lexicon's number rules (per token
       kind), for the repaired imagconst rule; refuted for the rule as it is (0_7j family), proved
       for the grammar minus that family; string prefixes likewise;
   (3) the integer decoders: refuted totality (legacy octal with 8/9, more than lim decimal
       digits), totality with value for Python's integer grammar below the digit limit. *)
From Coq Require Import ZArith NArith List Bool Lia ZifyBool String.
From CyVerif Require Import Model.M_Plex Proof.P_Plex_Deriv Model.M_Lexicon.
Import ListNotations.
Open Scope Z_scope.

(* ---------- syntactic equality ---------- *)
Lemma special_eqb_sound s t : special_eqb s t = true -> s = t.
Proof. destruct s, t; cbn; intros H; try discriminate; reflexivity. Qed.

Lemma ere_eqb_sound : forall a b, ere_eqb a b = true -> a = b.
Proof.
  induction a as [| |x y|s|a1 IH1 a2 IH2|a1 IH1 a2 IH2|a1 IH1]; intros b H; destruct b; cbn in H;
    try discriminate; try reflexivity.
  - apply andb_true_iff in H. destruct H as [H1 H2]. apply Z.eqb_eq in H1. apply Z.eqb_eq in H2.
    subst. reflexivity.
  - f_equal. apply special_eqb_sound; assumption.
  - apply andb_true_iff in H. destruct H as [H1 H2]. f_equal; auto.
  - apply andb_true_iff in H. destruct H as [H1 H2]. f_equal; auto.
  - f_equal; auto.
Qed.

(* ---------- language facts ---------- *)
Lemma L_alt_iff a b w : L (EAlt a b) w <-> L a w \/ L b w.
Proof.
  split.
  - intros H. inversion H; subst; auto.
  - intros [H|H]; [apply L_alt_l|apply L_alt_r]; assumption.
Qed.
Lemma L_seq_iff a b w : L (ESeq a b) w <-> exists w1 w2, w = w1 ++ w2 /\ L a w1 /\ L b w2.
Proof.
  split.
  - intros H. inversion H; subst. eauto.
  - intros (w1 & w2 & -> & H1 & H2). constructor; assumption.
Qed.
Lemma L_eps_iff w : L EEps w <-> w = [].
Proof. split; [intros H; inversion H; reflexivity|intros ->; constructor]. Qed.
Lemma L_empty_iff w : L EEmpty w <-> False.
Proof. split; [intros H; inversion H|tauto]. Qed.

Lemma is_empty_spec r : is_empty r = true -> r = EEmpty.
Proof. destruct r; cbn; intros H; try discriminate; reflexivity. Qed.
Lemma is_eps_spec r : is_eps r = true -> r = EEps.
Proof. destruct r; cbn; intros H; try discriminate; reflexivity. Qed.

Lemma alt_mem_sound x : forall r, alt_mem x r = true -> forall w, L x w -> L r w.
Proof.
  induction r as [| |c0 c1|s|a IHa b IHb|a IHa b IHb|a IHa]; cbn [alt_mem]; intros H w Hx;
    try (apply ere_eqb_sound in H; subst; assumption).
  apply orb_true_iff in H. destruct H as [H|H]; [apply L_alt_l|apply L_alt_r]; auto.
Qed.

Lemma mk_alt_base a b w :
  L (if is_empty b then a else if alt_mem a b then b else EAlt a b) w <-> L a w \/ L b w.
Proof.
  destruct (is_empty b) eqn:Eb.
  - apply is_empty_spec in Eb. subst. rewrite L_empty_iff. tauto.
  - destruct (alt_mem a b) eqn:Em.
    + split; [tauto|]. intros [H|H]; [eapply alt_mem_sound; eauto|assumption].
    + apply L_alt_iff.
Qed.

Lemma mk_alt_L : forall a b w, L (mk_alt a b) w <-> L a w \/ L b w.
Proof.
  induction a as [| |c0 c1|s|a1 IH1 a2 IH2|a1 IH1 a2 IH2|a1 IH1]; intros b w; cbn [mk_alt];
    try apply mk_alt_base.
  - rewrite L_empty_iff. tauto.
  - rewrite IH1, IH2, L_alt_iff. tauto.
Qed.

Lemma mk_seq_L a b w : L (mk_seq a b) w <-> L (ESeq a b) w.
Proof.
  unfold mk_seq. rewrite L_seq_iff.
  destruct (is_empty a) eqn:Ea.
  { apply is_empty_spec in Ea. subst. cbn. rewrite L_empty_iff. split; [tauto|].
    intros (w1 & w2 & _ & H & _). inversion H. }
  destruct (is_empty b) eqn:Eb.
  { apply is_empty_spec in Eb. subst. cbn. rewrite L_empty_iff. split; [tauto|].
    intros (w1 & w2 & _ & _ & H). inversion H. }
  cbn [orb].
  destruct (is_eps a) eqn:Ea2.
  { apply is_eps_spec in Ea2. subst. split.
    - intros H. exists [], w. repeat split; [constructor|assumption].
    - intros (w1 & w2 & -> & H1 & H2). inversion H1; subst. assumption. }
  destruct (is_eps b) eqn:Eb2.
  { apply is_eps_spec in Eb2. subst. split.
    - intros H. exists w, []. rewrite app_nil_r. repeat split; [assumption|constructor].
    - intros (w1 & w2 & -> & H1 & H2). inversion H2; subst. rewrite app_nil_r. assumption. }
  apply L_seq_iff.
Qed.

Lemma seq_cong a a' b w : (forall u, L a u <-> L a' u) -> L (ESeq a b) w <-> L (ESeq a' b) w.
Proof.
  intros H. rewrite !L_seq_iff. split; intros (w1 & w2 & E & H1 & H2); exists w1, w2;
    (split; [assumption|split; [apply H; assumption|assumption]]).
Qed.

Lemma n_deriv_L e : forall r w, L (n_deriv e r) w <-> L (e_deriv e r) w.
Proof.
  induction r as [| |c0 c1|s|a IHa b IHb|a IHa b IHb|a IHa]; intros w; cbn [n_deriv e_deriv];
    try tauto.
  - destruct (e_nullable a).
    + rewrite mk_alt_L, mk_seq_L, L_alt_iff, IHb, (seq_cong _ _ _ _ IHa). tauto.
    + rewrite mk_seq_L. apply seq_cong. assumption.
  - rewrite mk_alt_L, L_alt_iff, IHa, IHb. tauto.
  - rewrite mk_seq_L. apply seq_cong. assumption.
Qed.

Lemma n_deriv_step e r w : L (n_deriv e r) w <-> L r (e :: w).
Proof. rewrite n_deriv_L. apply deriv_correct_step. Qed.

Theorem n_matches_correct : forall w r, n_matches r w = true <-> L r w.
Proof.
  induction w as [|e t IH]; intros r; cbn [n_matches].
  - apply nullable_correct.
  - rewrite IH. apply n_deriv_step.
Qed.

(* ---------- representatives ---------- *)
Lemma zmem_In x l : zmem x l = true -> In x l.
Proof.
  induction l as [|y t IH]; cbn; [discriminate|]. intros H. apply orb_true_iff in H.
  destruct H as [H|H]; [left; lia|right; auto].
Qed.

Lemma low_of_lt bs b : In b bs -> low_of bs < b.
Proof.
  unfold low_of. induction bs as [|x t IH]; cbn [fold_right In]; [tauto|].
  intros [->|H]; [lia|]. specialize (IH H). lia.
Qed.

Lemma rep_code_cases bs low c : rep_code bs low c = low \/ (In (rep_code bs low c) bs /\ rep_code bs low c <= c).
Proof.
  induction bs as [|b t IH]; cbn [rep_code]; [left; reflexivity|].
  destruct ((b <=? c) && (rep_code t low c <? b)) eqn:E.
  - right. split; [left; reflexivity|lia].
  - destruct IH as [IH|[IH1 IH2]]; [left; assumption|right; split; [right; assumption|assumption]].
Qed.

Lemma rep_code_ge bs low c b : In b bs -> b <= c -> b <= rep_code bs low c.
Proof.
  induction bs as [|x t IH]; cbn [rep_code In]; [tauto|].
  intros [->|H] Hc.
  - destruct ((b <=? c) && (rep_code t low c <? b)) eqn:E; lia.
  - specialize (IH H Hc). destruct ((x <=? c) && (rep_code t low c <? x)) eqn:E; lia.
Qed.

Lemma ev_matches_rep bs c0 c1 e :
  In c0 bs -> In c1 bs -> ev_matches c0 c1 (rep_event bs e) = ev_matches c0 c1 e.
Proof.
  intros H0 H1. destruct e as [c| | | |]; cbn [rep_event ev_matches]; try reflexivity.
  pose proof (low_of_lt bs c0 H0) as L0. pose proof (low_of_lt bs c1 H1) as L1.
  pose proof (rep_code_ge bs (low_of bs) c c0 H0) as G0.
  pose proof (rep_code_ge bs (low_of bs) c c1 H1) as G1.
  destruct (rep_code_cases bs (low_of bs) c) as [E|[_ E]]; lia.
Qed.

Lemma ev_is_rep bs s e : ev_is s (rep_event bs e) = ev_is s e.
Proof. destruct e; reflexivity. Qed.

Lemma n_deriv_rep bs e : forall r, bounds_in bs r = true -> n_deriv (rep_event bs e) r = n_deriv e r.
Proof.
  induction r as [| |c0 c1|s|a IHa b IHb|a IHa b IHb|a IHa]; cbn [bounds_in n_deriv]; intros H;
    try reflexivity.
  - apply andb_true_iff in H. destruct H as [H0 H1].
    rewrite (ev_matches_rep bs c0 c1 e (zmem_In _ _ H0) (zmem_In _ _ H1)). reflexivity.
  - rewrite ev_is_rep. reflexivity.
  - apply andb_true_iff in H. destruct H as [Ha Hb]. rewrite (IHa Ha), (IHb Hb). reflexivity.
  - apply andb_true_iff in H. destruct H as [Ha Hb]. rewrite (IHa Ha), (IHb Hb). reflexivity.
  - rewrite (IHa H). reflexivity.
Qed.

Lemma rep_in_alphabet bs e : In (rep_event bs e) (alphabet bs).
Proof.
  unfold alphabet. destruct e as [c| | | |]; cbn [rep_event].
  - destruct (rep_code_cases bs (low_of bs) c) as [E|[E _]].
    + rewrite E. cbn. tauto.
    + do 5 right. apply in_map. assumption.
  - cbn; tauto.
  - cbn; tauto.
  - cbn; tauto.
  - cbn; tauto.
Qed.

(* ---------- the certificate check is sound ---------- *)
Lemma pmem_In p l : pmem p l = true -> In p l.
Proof.
  induction l as [|q t IH]; cbn [pmem]; [discriminate|]. intros H. apply orb_true_iff in H.
  destruct H as [H|H]; [|right; auto]. left. unfold pair_eqb in H. apply andb_true_iff in H.
  destruct H as [H1 H2]. apply ere_eqb_sound in H1. apply ere_eqb_sound in H2.
  destruct p, q; cbn in *; subst; reflexivity.
Qed.

Lemma closed_sound bs ps : closed_b bs ps = true ->
  forall w p, In p ps -> L (fst p) w -> L (snd p) w.
Proof.
  intros HC. unfold closed_b in HC. rewrite forallb_forall in HC.
  induction w as [|e t IH]; intros p Hp HL.
  - specialize (HC p Hp). apply andb_true_iff in HC. destruct HC as [HC _].
    apply andb_true_iff in HC. destruct HC as [HC _]. apply andb_true_iff in HC. destruct HC as [HC _].
    unfold pair_ok in HC. apply nullable_correct. apply nullable_correct in HL. rewrite HL in HC.
    cbn in HC. assumption.
  - pose proof (HC p Hp) as Hq. apply andb_true_iff in Hq. destruct Hq as [Hq Hsucc].
    apply andb_true_iff in Hq. destruct Hq as [Hq Hb2]. apply andb_true_iff in Hq. destruct Hq as [_ Hb1].
    rewrite forallb_forall in Hsucc. specialize (Hsucc _ (rep_in_alphabet bs e)).
    apply pmem_In in Hsucc. specialize (IH _ Hsucc). unfold succ in IH. cbn [fst snd] in IH.
    rewrite (n_deriv_rep bs e _ Hb1), (n_deriv_rep bs e _ Hb2) in IH.
    apply n_deriv_step. apply IH. apply n_deriv_step. assumption.
Qed.

Theorem decide_incl_included fuel a b :
  decide_incl fuel a b = VIncluded -> forall w, L a w -> L b w.
Proof.
  unfold decide_incl. intros H w.
  destruct (explore fuel _ _ _) as [ps|cw|]; try discriminate.
  - destruct (pmem (a, b) ps && closed_b (dedupz (bounds a ++ bounds b)) ps) eqn:E; try discriminate.
    apply andb_true_iff in E. destruct E as [E1 E2]. apply pmem_In in E1.
    exact (closed_sound _ _ E2 w (a, b) E1).
  - destruct (e_matches a cw && negb (e_matches b cw)); discriminate.
Qed.

Theorem decide_incl_counter fuel a b cw :
  decide_incl fuel a b = VCounter cw -> L a cw /\ ~ L b cw.
Proof.
  unfold decide_incl. intros H.
  destruct (explore fuel _ _ _) as [ps|cw'|]; try discriminate.
  - destruct (pmem (a, b) ps && closed_b (dedupz (bounds a ++ bounds b)) ps); discriminate.
  - destruct (e_matches a cw' && negb (e_matches b cw')) eqn:E; try discriminate.
    injection H as ->. apply andb_true_iff in E. destruct E as [E1 E2].
    split; [apply derivative_correct; assumption|].
    intros HL. apply derivative_correct in HL. rewrite HL in E2. discriminate.
Qed.

(* the verdict as one statement *)
Definition verdict_meaning (a b : ere) (v : verdict) : Prop :=
  match v with
  | VIncluded => forall w, L a w -> L b w
  | VCounter cw => L a cw /\ ~ L b cw
  | VUnknown => True
  end.
Theorem decide_incl_spec fuel a b : verdict_meaning a b (decide_incl fuel a b).
Proof.
  destruct (decide_incl fuel a b) eqn:E; cbn.
  - eapply decide_incl_included; eauto.
  - eapply decide_incl_counter; eauto.
  - exact I.
Qed.

(* ---------- (2) the literal grammars ---------- *)
Definition included (a b : ere) : Prop := forall w, L a w -> L b w.

Lemma integers_included : included py_integer lex_int.
Proof. unfold included. apply (decide_incl_included incl_fuel). vm_compute. reflexivity. Qed.
Lemma floats_included : included py_floatnumber lex_float.
Proof. unfold included. apply (decide_incl_included incl_fuel). vm_compute. reflexivity. Qed.
Lemma imag_included_fixed : included py_imagnumber (lex_imag true).
Proof. unfold included. apply (decide_incl_included incl_fuel). vm_compute. reflexivity. Qed.
Lemma imag_included_known : included py_imagnumber_known (lex_imag false).
Proof. unfold included. apply (decide_incl_included incl_fuel). vm_compute. reflexivity. Qed.

Lemma L_ealt3 a b c w : L (ealt [a; b; c]) w <-> L a w \/ L b w \/ L c w.
Proof. cbn [ealt]. rewrite !L_alt_iff. tauto. Qed.

(* every Python 3.12 number literal is matched, as one whole token of the right kind, by the
   repaired lexicon *)
Theorem number_literals_included : forall w,
  (L py_integer w -> L lex_int w) /\ (L py_floatnumber w -> L lex_float w) /\
  (L py_imagnumber w -> L (lex_imag true) w) /\ (L py_number w -> L (lex_number true) w).
Proof.
  intros w. pose proof (integers_included w) as H1. pose proof (floats_included w) as H2.
  pose proof (imag_included_fixed w) as H3. repeat split; auto.
  unfold py_number, lex_number. rewrite L_ealt3, !L_alt_iff. tauto.
Qed.

(* the rule as it is in the tree: refuted ... *)
Definition imag_witness : list event := word "0_7j".
Theorem number_literals_included_refuted :
  L py_number imag_witness /\ L py_imagnumber imag_witness /\ ~ L (lex_number false) imag_witness.
Proof.
  split; [|split].
  - apply derivative_correct. vm_compute. reflexivity.
  - apply derivative_correct. vm_compute. reflexivity.
  - intros H. apply derivative_correct in H. vm_compute in H. discriminate.
Qed.
(* ... and what the decision procedure itself reports for it *)
Theorem number_literals_decided_old :
  exists cw, decide_incl incl_fuel py_number (lex_number false) = VCounter cw.
Proof. eexists. vm_compute. reflexivity. Qed.

(* ... and proved outside the finding class (imaginary literals whose digit part has a leading zero,
   an underscore and a non-zero digit) *)
Theorem number_literals_included_partial : forall w,
  L py_number_known w -> L (lex_number false) w.
Proof.
  intros w. unfold py_number_known, lex_number. rewrite L_ealt3, !L_alt_iff.
  pose proof (integers_included w). pose proof (floats_included w). pose proof (imag_included_known w).
  tauto.
Qed.

(* both variants in one statement: what holds for the rule selected by the flag *)
Theorem number_literals_tree (fixed : bool) : forall w,
  L (if fixed then py_number else py_number_known) w -> L (lex_number fixed) w.
Proof.
  destruct fixed; intros w; [apply number_literals_included|apply number_literals_included_partial].
Qed.

Theorem string_prefixes_included : included py_strbegin lex_strbegin.
Proof. unfold included. apply (decide_incl_included incl_fuel). vm_compute. reflexivity. Qed.

(* ---------- (3) the integer decoders ---------- *)
Definition py_lim : Z := 4300.   (* sys.get_int_max_str_digits() default *)

(* legacy octal-looking token with a digit 8: accepted by the INT rule, the decoder raises *)
Theorem str_to_number_total_refuted_octal :
  L lex_int (word "08") /\ decode_int_token py_lim (codes "08") = S2N_BadDigit
  /\ int_token_outcome false py_lim (codes "08") = InternalCrash
  /\ int_token_outcome true py_lim (codes "08") = PositionedError.
Proof.
  split; [apply derivative_correct; vm_compute; reflexivity|].
  split; [|split]; vm_compute; reflexivity.
Qed.

(* F13: lim + 1 decimal digits *)
Definition ones (n : Z) : list Z := repeat 49 (Z.to_nat n).
Theorem str_to_number_total_refuted_limit :
  L lex_int (map EvChar (ones (py_lim + 1))) /\ L py_integer (map EvChar (ones (py_lim + 1)))
  /\ decode_int_token py_lim (ones (py_lim + 1)) = S2N_TooLong
  /\ int_token_outcome false py_lim (ones (py_lim + 1)) = InternalCrash
  /\ int_token_outcome true py_lim (ones (py_lim + 1)) = PositionedError.
Proof.
  split; [apply n_matches_correct; vm_compute; reflexivity|].
  split; [apply n_matches_correct; vm_compute; reflexivity|].
  split; [|split]; vm_compute; reflexivity.
Qed.

(* with the repaired p_int_literal no INT token text whatsoever reaches an internal error *)
Theorem int_token_never_crashes_fixed : forall lim t, int_token_outcome true lim t <> InternalCrash.
Proof. intros lim t. unfold int_token_outcome. destruct (decode_int_token lim t); discriminate. Qed.
