From Coq Require Import ZArith List Bool Lia.
From CyVerif Require Import Lib.CInt Model.M_ShadowCast.
Import ListNotations.
Open Scope Z_scope.

(* typedef layers (cython.long = typedef(typedef(int)), const[...], volatile[...]) are transparent *)
Lemma cast_wrapn n t args : cast (wrapn n t) args = cast t args.
Proof. induction n as [|n IH]; [reflexivity|exact IH]. Qed.

Lemma cast_base t c args : base t = Some c -> cast t args = cast (TClass c) args.
Proof.
  induction t as [c'|b IH|]; cbn [base cast]; intros H.
  - injection H as ->. reflexivity.
  - apply IH, H.
  - discriminate.
Qed.

Lemma cast_non t args : base t = None -> cast t args = cast TNon args.
Proof.
  induction t as [c'|b IH|]; cbn [base cast]; intros H; [discriminate|apply IH, H|reflexivity].
Qed.

Lemma cast_int_identity t z : base t = Some KInt -> cast t [VInt z] = RVal (VInt z).
Proof. intros H. rewrite (cast_base _ _ _ H). reflexivity. Qed.

Lemma cast_int_in_range t w s z : base t = Some KInt -> 1 <= w -> in_range w s z ->
  cast t [VInt z] = RVal (VInt (wrap w s z)).
Proof. intros H Hw Hr. rewrite wrap_id by assumption. apply cast_int_identity, H. Qed.

Lemma cast_none t c : base t = Some c -> cast t [VNone] = RVal VNone.
Proof. intros H. rewrite (cast_base _ _ _ H). reflexivity. Qed.

Lemma cast_same_class t c v : base t = Some c -> isinstance v c = true -> cast t [v] = RVal v.
Proof.
  intros H Hi. rewrite (cast_base _ _ _ H). cbn [cast]. rewrite Hi, orb_true_r. reflexivity.
Qed.

Lemma pow2_gt0 k : 0 <= k -> 0 < 2 ^ k.
Proof. intros. apply Z.pow_pos_nonneg; lia. Qed.

(* CPython's sign/magnitude truncation = C's discard-the-fraction conversion *)
Lemma trunc_eq s m e : 0 <= m -> py_trunc s m e = c_trunc s m e.
Proof.
  intros Hm. unfold py_trunc, c_trunc. destruct (Z.leb_spec 0 e) as [He|He].
  - destruct s; [rewrite Z.mul_opp_l|]; reflexivity.
  - pose proof (pow2_gt0 (- e) ltac:(lia)) as Hp.
    destruct s.
    + rewrite Z.quot_opp_l by lia. rewrite Z.quot_div_nonneg by lia. reflexivity.
    + rewrite Z.quot_div_nonneg by lia. reflexivity.
Qed.

Lemma cast_float_to_int t s m e : base t = Some KInt -> 0 <= m ->
  cast t [VFloat s m e] = RVal (VInt (c_trunc s m e)).
Proof.
  intros H Hm. rewrite (cast_base _ _ _ H). cbn [cast is_none isinstance orb construct].
  rewrite trunc_eq by assumption. reflexivity.
Qed.

(* truncation is toward zero: the magnitude is the floor of the magnitude *)
Lemma c_trunc_abs s m e : 0 <= m -> e < 0 -> Z.abs (c_trunc s m e) = m / 2 ^ (- e).
Proof.
  intros Hm He. rewrite <- trunc_eq by assumption. unfold py_trunc.
  destruct (Z.leb_spec 0 e); [lia|].
  pose proof (pow2_gt0 (- e) ltac:(lia)) as Hp.
  assert (0 <= m / 2 ^ (- e)) by (apply Z.div_pos; lia).
  destruct s; lia.
Qed.

Lemma c_trunc_sign s m e : 0 <= m -> (s = true -> c_trunc s m e <= 0) /\ (s = false -> 0 <= c_trunc s m e).
Proof.
  intros Hm. rewrite <- trunc_eq by assumption. unfold py_trunc.
  destruct (Z.leb_spec 0 e) as [He|He].
  - pose proof (pow2_gt0 e He). destruct s; split; intros; try discriminate; nia.
  - pose proof (pow2_gt0 (- e) ltac:(lia)) as Hp.
    assert (0 <= m / 2 ^ (- e)) by (apply Z.div_pos; lia). destruct s; split; intros; try discriminate; lia.
Qed.

Lemma declare_value t v : declare t (Some v) = cast t [v].
Proof. reflexivity. Qed.

Lemma declare_plain t : declare t None = RVal VNone.
Proof. reflexivity. Qed.

(* float(int) *)
Lemma nbits_small a : 0 <= a -> a < 2 ^ 53 -> nbits a <= 53.
Proof.
  intros Ha Hlt. unfold nbits. destruct (Z.eqb_spec a 0); [lia|].
  assert (Z.log2 a < 53) by (apply Z.log2_lt_pow2; lia). lia.
Qed.

Lemma round_exact z : Z.abs z < 2 ^ 53 -> round_to_double z = RVal (VFloat (z <? 0) (Z.abs z) 0).
Proof.
  intros H. unfold round_to_double.
  pose proof (nbits_small (Z.abs z) (Z.abs_nonneg z) H) as Hn.
  destruct (Z.leb_spec (nbits (Z.abs z)) 53); [reflexivity|lia].
Qed.

Lemma cast_int_to_float_exact t z : base t = Some KFloat -> Z.abs z < 2 ^ 53 ->
  cast t [VInt z] = RVal (VFloat (z <? 0) (Z.abs z) 0).
Proof.
  intros H Hz. rewrite (cast_base _ _ _ H). cbn [cast is_none isinstance orb construct].
  apply round_exact, Hz.
Qed.

(* correctly rounded: the result is within half a unit of its last place, with a 53-bit significand *)
Lemma round_half_ulp z s m e : round_to_double z = RVal (VFloat s m e) ->
  s = (z <? 0) /\ 0 <= e /\ 0 <= m <= 2 ^ 53 /\ 2 * Z.abs (Z.abs z - m * 2 ^ e) <= 2 ^ e.
Proof.
  unfold round_to_double. set (a := Z.abs z). set (n := nbits a).
  assert (Ha : 0 <= a) by apply Z.abs_nonneg.
  destruct (Z.leb_spec n 53) as [Hn|Hn].
  - intros [= <- <- <-]. split; [reflexivity|]. split; [lia|].
    assert (a < 2 ^ 53).
    { unfold n, nbits in Hn. destruct (Z.eqb_spec a 0) as [->|Hne]; [reflexivity|].
      apply Z.log2_lt_pow2; lia. }
    rewrite Z.pow_0_r, Z.mul_1_r, Z.sub_diag. cbn. lia.
  - set (sh := n - 53). set (P := 2 ^ sh). set (H := 2 ^ (sh - 1)).
    set (q := a / P). set (r := a mod P).
    assert (Hsh : 1 <= sh) by (unfold sh; lia).
    assert (HP : P = 2 * H) by (unfold P, H; apply pow2_split; lia).
    assert (HH : 0 < H) by (unfold H; apply pow2_gt0; lia).
    assert (Hdm : a = P * q + r) by (apply Z.div_mod; lia).
    assert (Hr : 0 <= r < P) by (apply Z.mod_pos_bound; lia).
    assert (Hq : 0 <= q < 2 ^ 53).
    { split; [apply Z.div_pos; lia|]. apply Z.div_lt_upper_bound; [lia|].
      assert (Hne : a <> 0) by (intros E; unfold n, nbits in Hn; rewrite E in Hn; cbn in Hn; lia).
      assert (Hl : a < 2 ^ n).
      { unfold n, nbits. destruct (Z.eqb_spec a 0); [contradiction|].
        replace (Z.log2 a + 1) with (Z.succ (Z.log2 a)) by lia. apply Z.log2_spec; lia. }
      unfold P. rewrite <- Z.pow_add_r by lia. replace (sh + 53) with n by (unfold sh; lia). exact Hl. }
    set (q' := if (H <? r) || ((r =? H) && Z.odd q) then q + 1 else q).
    assert (Hq' : (q' = q /\ r <= H) \/ (q' = q + 1 /\ H <= r)).
    { unfold q'. destruct (Z.ltb_spec H r); cbn [orb]; [right; lia|].
      destruct (Z.eqb_spec r H); cbn [andb]; [|left; lia].
      destruct (Z.odd q); [right|left]; lia. }
    clearbody q'.
    destruct (2 ^ 1024 <=? q' * P); [discriminate|].
    intros [= <- <- <-]. split; [reflexivity|]. split; [lia|].
    fold P. destruct Hq' as [[-> Hle]|[-> Hge]].
    + split; [lia|]. replace (a - q * P) with r by lia. lia.
    + split; [lia|]. replace (a - (q + 1) * P) with (r - P) by lia. lia.
Qed.
