(* Proofs about Model/M_CStr.v: the emitted C string literal reads back as the original bytes. *)
From Coq Require Import ZArith NArith List Bool Arith Lia ZifyBool ZifyNat ZifyN.
From CyVerif Require Import Lib.CInt Model.M_CStr.
Import ListNotations.
Open Scope N_scope.
Ltac Zify.zify_post_hook ::= Z.to_euclidean_division_equations.

(* ==================================================================================== *)
(* A. every byte: lifting a computed table to a universally quantified statement          *)

Definition all_bytes : list N := map N.of_nat (seq 0 256).

Lemma all_bytes_in b : b < 256 -> In b all_bytes.
Proof.
  intros H. unfold all_bytes. apply in_map_iff. exists (N.to_nat b). split.
  - apply N2Nat.id.
  - apply in_seq. lia.
Qed.

Lemma forall_bytes (P : N -> bool) :
  forallb P all_bytes = true -> forall b, b < 256 -> P b = true.
Proof. intros H b Hb. rewrite forallb_forall in H. apply H, all_bytes_in, Hb. Qed.

Definition bytes (bs : list N) : Prop := Forall (fun b => b < 256) bs.

(* induction two elements at a time *)
Lemma list_ind2 (A : Type) (P : list A -> Prop) :
  P [] -> (forall a, P [a]) -> (forall a b r, P r -> P (b :: r) -> P (a :: b :: r)) ->
  forall l, P l.
Proof.
  intros H0 H1 H2 l. enough (P l /\ forall a, P (a :: l)) by tauto.
  induction l as [|b r [IH1 IH2]]; split; auto.
Qed.

Fixpoint leqb (a b : list N) : bool :=
  match a, b with
  | [], [] => true
  | x :: a', y :: b' => (x =? y) && leqb a' b'
  | _, _ => false
  end.

Lemma leqb_eq a b : leqb a b = true -> a = b.
Proof.
  revert b. induction a as [|x a IH]; destruct b as [|y b]; simpl; try congruence.
  intros H. apply andb_prop in H. destruct H as [H1 H2]. apply N.eqb_eq in H1. f_equal; auto.
Qed.

(* ==================================================================================== *)
(* B. the reader on a prefix                                                              *)

Fixpoint run (m : rmode) (s : rstate) (tok : list N) : option (rstate * list N) :=
  match tok with
  | [] => Some (s, [])
  | c :: r =>
      match step m s c with
      | Some (s', o) =>
          match run m s' r with
          | Some (s'', o') => Some (s'', o ++ o')
          | None => None
          end
      | None => None
      end
  end.

Lemma rd_app m tok : forall s r,
  rd m s (tok ++ r) =
  match run m s tok with
  | Some (s', o) => option_map (app o) (rd m s' r)
  | None => None
  end.
Proof.
  induction tok as [|c tok IH]; intros s r.
  - simpl. destruct (rd m s r); reflexivity.
  - simpl. destruct (step m s c) as [[s' o]|]; [|reflexivity].
    rewrite IH. destruct (run m s' tok) as [[s'' o']|]; [|reflexivity].
    destruct (rd m s'' r); simpl; [|reflexivity]. now rewrite app_assoc.
Qed.

(* token shapes produced by escape_byte_string *)
Definition shape (tok : list N) : bool :=
  match tok with
  | [c] => negb (c =? 92)
  | [a; x] => (a =? 92) && negb (is_oct x)
  | [a; x; y; z] => (a =? 92) && is_oct x && is_oct y && is_oct z
  | _ => false
  end.

Definition nolf (t : list N) : bool := forallb (fun c => negb (c =? 10)) t.

Definition tok_out (m : rmode) (tok : list N) : list N :=
  match run m RIn tok with Some (_, o) => o | None => [] end.

Definition run_ok (m : rmode) (tok : list N) : bool :=
  match run m RIn tok with Some (RIn, _) => true | _ => false end.

Definition good (m : rmode) (tok : list N) : Prop :=
  shape tok = true /\ run_ok m tok = true.

Definition outs (m : rmode) (toks : list (list N)) : list N := flat_map (tok_out m) toks.

Lemma read_toks m toks : Forall (good m) toks -> forall r,
  rd m RIn (concat toks ++ r) = option_map (app (outs m toks)) (rd m RIn r).
Proof.
  induction 1 as [|tok toks [_ Hr] _ IH]; intros r.
  - simpl. destruct (rd m RIn r); reflexivity.
  - simpl. rewrite <- app_assoc, rd_app. unfold run_ok in Hr. unfold tok_out.
    destruct (run m RIn tok) as [[s o]|]; [|discriminate]. destruct s; try discriminate.
    rewrite IH. destruct (rd m RIn r); simpl; [|reflexivity]. now rewrite app_assoc.
Qed.

(* ==================================================================================== *)
(* C. escape_byte_string as a list of tokens                                              *)

Definition esc1 (hi : bool) (b : N) : list N :=
  if hi && (127 <=? b) then oct3 b else esc_special b.

Fixpoint esc_toks (hi : bool) (bs : list N) : list (list N) :=
  match bs with
  | [] => []
  | b :: r =>
      match r with
      | b2 :: r2 =>
          if (b =? 63) && (b2 =? 63) then oct3 63 :: oct3 63 :: esc_toks hi r2
          else esc1 hi b :: esc_toks hi r
      | [] => [esc1 hi b]
      end
  end.

Definition q63 (c : N) : bool := c =? 63.

(* everything we need to know about one byte, decided by computation for all 256 *)
Definition byte_facts (b : N) : bool :=
  forallb (fun hi =>
    let tok := esc1 hi b in
    shape tok && nolf tok && negb (has_qq tok)
    && run_ok MStr tok && run_ok MArr tok
    && leqb (tok_out MStr tok) [b] && leqb (tok_out MArr tok) [b]
    && (negb (q63 (hd 0 tok)) || q63 b) && (negb (q63 (last tok 0)) || q63 b))
    [false; true]
  && leqb (flat_map esc_high (esc_special b)) (esc1 true b)
  && Bool.eqb (is_ascii (esc_special b)) (b <? 128).

Lemma byte_facts_all : forallb byte_facts all_bytes = true.
Proof. vm_compute. reflexivity. Qed.

Lemma byte_fact b : b < 256 -> byte_facts b = true.
Proof. apply forall_bytes, byte_facts_all. Qed.

Section ByteFacts.
  Variable b : N.
  Hypothesis Hb : b < 256.
  Variable hi : bool.

  Lemma bf_hi :
    let tok := esc1 hi b in
    shape tok = true /\ nolf tok = true /\ has_qq tok = false
    /\ run_ok MStr tok = true /\ run_ok MArr tok = true
    /\ tok_out MStr tok = [b] /\ tok_out MArr tok = [b]
    /\ (hd 0 tok = 63 -> b = 63) /\ (last tok 0 = 63 -> b = 63).
  Proof.
    pose proof (byte_fact b Hb) as F. unfold byte_facts in F.
    apply andb_prop in F. destruct F as [F _]. apply andb_prop in F. destruct F as [F _].
    rewrite forallb_forall in F.
    assert (Hin : In hi [false; true]) by (destruct hi; simpl; auto).
    specialize (F hi Hin). cbv zeta in F.
    repeat (apply andb_prop in F; let G := fresh "G" in destruct F as [F G]).
    cbv zeta. repeat split; auto.
    - now apply negb_true_iff.
    - now apply leqb_eq.
    - now apply leqb_eq.
    - intros E. unfold q63 in G0. rewrite E in G0. simpl in G0. now apply N.eqb_eq.
    - intros E. unfold q63 in G. rewrite E in G. simpl in G. now apply N.eqb_eq.
  Qed.

  Lemma bf_high : flat_map esc_high (esc_special b) = esc1 true b.
  Proof.
    pose proof (byte_fact b Hb) as F. unfold byte_facts in F.
    apply andb_prop in F. destruct F as [F _]. apply andb_prop in F. destruct F as [_ F].
    now apply leqb_eq.
  Qed.

  Lemma bf_ascii : is_ascii (esc_special b) = (b <? 128).
  Proof.
    pose proof (byte_fact b Hb) as F. unfold byte_facts in F.
    apply andb_prop in F. destruct F as [_ F]. now apply eqb_prop.
  Qed.
End ByteFacts.

Lemma esc1_false b : esc1 false b = esc_special b.
Proof. reflexivity. Qed.

Lemma replace_specials_toks bs : replace_specials bs = concat (esc_toks false bs).
Proof.
  induction bs as [| a | a b r IH1 IH2] using list_ind2.
  - reflexivity.
  - simpl. now rewrite app_nil_r.
  - change (replace_specials (a :: b :: r)) with
      (if (a =? 63) && (b =? 63) then oct3 63 ++ oct3 63 ++ replace_specials r
       else esc_special a ++ replace_specials (b :: r)).
    change (esc_toks false (a :: b :: r)) with
      (if (a =? 63) && (b =? 63) then oct3 63 :: oct3 63 :: esc_toks false r
       else esc1 false a :: esc_toks false (b :: r)).
    destruct ((a =? 63) && (b =? 63)).
    + rewrite IH1. reflexivity.
    + rewrite IH2. reflexivity.
Qed.

Lemma is_ascii_app a b : is_ascii (a ++ b) = is_ascii a && is_ascii b.
Proof. apply forallb_app. Qed.

Lemma replace_specials_ascii bs : bytes bs -> is_ascii (replace_specials bs) = is_ascii bs.
Proof.
  induction bs as [| a | a b r IH1 IH2] using list_ind2; intros HB.
  - reflexivity.
  - inversion HB; subst. simpl replace_specials. rewrite bf_ascii by assumption.
    simpl. now rewrite andb_true_r.
  - inversion HB as [|? ? Ha HB']; subst. inversion HB' as [|? ? Hb0 HB'']; subst.
    change (replace_specials (a :: b :: r)) with
      (if (a =? 63) && (b =? 63) then oct3 63 ++ oct3 63 ++ replace_specials r
       else esc_special a ++ replace_specials (b :: r)).
    destruct ((a =? 63) && (b =? 63)) eqn:E.
    + apply andb_prop in E. destruct E as [E1 E2]. apply N.eqb_eq in E1, E2. subst.
      rewrite !is_ascii_app, IH1 by assumption. reflexivity.
    + rewrite is_ascii_app, IH2, bf_ascii by assumption. reflexivity.
Qed.

Lemma flat_map_high_toks bs : bytes bs ->
  flat_map esc_high (concat (esc_toks false bs)) = concat (esc_toks true bs).
Proof.
  induction bs as [| a | a b r IH1 IH2] using list_ind2; intros HB.
  - reflexivity.
  - inversion HB; subst. simpl. rewrite !app_nil_r. now apply bf_high.
  - inversion HB as [|? ? Ha HB']; subst. inversion HB' as [|? ? Hb0 HB'']; subst.
    change (esc_toks false (a :: b :: r)) with
      (if (a =? 63) && (b =? 63) then oct3 63 :: oct3 63 :: esc_toks false r
       else esc1 false a :: esc_toks false (b :: r)).
    change (esc_toks true (a :: b :: r)) with
      (if (a =? 63) && (b =? 63) then oct3 63 :: oct3 63 :: esc_toks true r
       else esc1 true a :: esc_toks true (b :: r)).
    destruct ((a =? 63) && (b =? 63)).
    + cbn [concat]. rewrite !flat_map_app, IH1 by assumption. reflexivity.
    + cbn [concat]. rewrite flat_map_app, IH2 by assumption. rewrite esc1_false, bf_high by assumption.
      reflexivity.
Qed.

Definition has_high (bs : list N) : bool := negb (is_ascii bs).

Lemma escape_toks bs : bytes bs ->
  escape_byte_string bs = concat (esc_toks (has_high bs) bs).
Proof.
  intros HB. unfold escape_byte_string, has_high. cbv zeta.
  rewrite replace_specials_ascii by assumption.
  destruct (is_ascii bs); simpl negb.
  - apply replace_specials_toks.
  - rewrite replace_specials_toks. now apply flat_map_high_toks.
Qed.

Lemma oct3_63_good m : good m (oct3 63).
Proof. destruct m; split; vm_compute; reflexivity. Qed.

Lemma esc_toks_good hi bs : bytes bs ->
  Forall (good MStr) (esc_toks hi bs) /\ Forall (good MArr) (esc_toks hi bs)
  /\ outs MStr (esc_toks hi bs) = bs /\ outs MArr (esc_toks hi bs) = bs.
Proof.
  induction bs as [| a | a b r IH1 IH2] using list_ind2; intros HB.
  - simpl. repeat split; constructor.
  - inversion HB; subst. destruct (bf_hi a H1 hi) as (S1 & _ & _ & R1 & R2 & O1 & O2 & _).
    simpl. unfold outs. simpl. rewrite !app_nil_r.
    repeat split; try (constructor; [split; assumption | constructor]); assumption.
  - inversion HB as [|? ? Ha HB']; subst. inversion HB' as [|? ? Hb0 HB'']; subst.
    change (esc_toks hi (a :: b :: r)) with
      (if (a =? 63) && (b =? 63) then oct3 63 :: oct3 63 :: esc_toks hi r
       else esc1 hi a :: esc_toks hi (b :: r)).
    destruct ((a =? 63) && (b =? 63)) eqn:E.
    + apply andb_prop in E. destruct E as [E1 E2]. apply N.eqb_eq in E1, E2. subst.
      destruct (IH1 HB'') as (G1 & G2 & O1 & O2).
      repeat split.
      * repeat constructor; try apply oct3_63_good; assumption.
      * repeat constructor; try apply oct3_63_good; assumption.
      * unfold outs in *. cbn [flat_map]. rewrite O1. reflexivity.
      * unfold outs in *. cbn [flat_map]. rewrite O2. reflexivity.
    + destruct (IH2 HB') as (G1 & G2 & O1 & O2).
      destruct (bf_hi a Ha hi) as (S1 & _ & _ & R1 & R2 & P1 & P2 & _).
      repeat split.
      * constructor; [split|]; assumption.
      * constructor; [split|]; assumption.
      * unfold outs in *. cbn [flat_map]. rewrite O1, P1. reflexivity.
      * unfold outs in *. cbn [flat_map]. rewrite O2, P2. reflexivity.
Qed.

(* ==================================================================================== *)
(* D. split_string_literal cuts between tokens                                            *)

Open Scope nat_scope.

(* k is a token boundary of concat toks *)
Definition bnd (toks : list (list N)) (k : nat) : Prop :=
  exists t1 t2, toks = t1 ++ t2 /\ length (concat t1) = k.

Lemma bnd_0 toks : bnd toks 0.
Proof. exists [], toks. split; reflexivity. Qed.

Lemma bnd_cons tok toks k : bnd toks k -> bnd (tok :: toks) (length tok + k).
Proof.
  intros (t1 & t2 & E & L). exists (tok :: t1), t2. split.
  - now rewrite E.
  - simpl. rewrite app_length. lia.
Qed.

Lemma bnd_firstn_skipn toks k : bnd toks k ->
  exists t1 t2, toks = t1 ++ t2 /\ firstn k (concat toks) = concat t1
                /\ skipn k (concat toks) = concat t2 /\ length (concat t1) = k.
Proof.
  intros (t1 & t2 & E & L). exists t1, t2. subst toks. rewrite concat_app. repeat split; auto.
  - rewrite <- L. rewrite firstn_app, Nat.sub_diag, firstn_all. simpl. now rewrite app_nil_r.
  - rewrite <- L. rewrite skipn_app, Nat.sub_diag, skipn_all. reflexivity.
Qed.

(* the three shapes *)
Lemma shape_cases tok : shape tok = true ->
  (exists c, tok = [c] /\ c <> 92%N)
  \/ (exists x, tok = [92%N; x] /\ is_oct x = false)
  \/ (exists x y z, tok = [92%N; x; y; z] /\ x <> 92%N /\ y <> 92%N /\ z <> 92%N).
Proof.
  destruct tok as [|a [|x [|y [|z [|w r]]]]]; simpl; try discriminate; intros H.
  - left. exists a. split; auto. lia.
  - right; left. exists x. assert (a = 92%N) by lia. subst. split; auto.
    destruct (is_oct x); [simpl in H; lia | reflexivity].
  - right; right. unfold is_oct in H. exists x, y, z. assert (a = 92%N) by lia. subst.
    repeat split; lia.
Qed.

Lemma nth_app_shift (tok rest : list N) j :
  nth (length tok + j) (tok ++ rest) 0%N = nth j rest 0%N.
Proof. rewrite app_nth2 by lia. f_equal. lia. Qed.

(* L1: no backslash among the (up to) four characters before k *)
Lemma bnd_no_backslash toks : Forall (fun t => shape t = true) toks -> forall k,
  k <= length (concat toks) ->
  (forall j, k - 4 <= j -> j < k -> nth j (concat toks) 0%N <> 92%N) ->
  bnd toks k.
Proof.
  induction 1 as [|tok toks Hs _ IH]; intros k Hk Hw.
  - simpl in Hk. replace k with 0 by lia. apply bnd_0.
  - destruct k as [|k']; [apply bnd_0|].
    assert (Hrec : forall n, length tok = n -> n <= S k' -> bnd (tok :: toks) (S k')).
    { intros n Hn Hle. replace (S k') with (length tok + (S k' - n)) by lia.
      apply bnd_cons, IH.
      - simpl in Hk. rewrite app_length in Hk. lia.
      - intros j Hj1 Hj2. rewrite <- (nth_app_shift tok). apply Hw; lia. }
    destruct (shape_cases tok Hs) as [(c & -> & Hc) | [(x & -> & Hx) | (x & y & z & -> & Hx & Hy & Hz)]].
    + apply (Hrec 1); simpl; lia.
    + destruct (le_lt_dec 2 (S k')) as [G|G]; [apply (Hrec 2); simpl; lia|].
      exfalso. apply (Hw 0); [lia | lia | reflexivity].
    + destruct (le_lt_dec 4 (S k')) as [G|G]; [apply (Hrec 4); simpl; lia|].
      exfalso. apply (Hw 0); [lia | lia | reflexivity].
Qed.

(* L2: a backslash at k that is not preceded by a backslash starts a token *)
Lemma bnd_before_backslash toks : Forall (fun t => shape t = true) toks -> forall k,
  1 <= k -> k < length (concat toks) ->
  nth k (concat toks) 0%N = 92%N -> nth (k - 1) (concat toks) 0%N <> 92%N ->
  bnd toks k.
Proof.
  induction 1 as [|tok toks Hs _ IH]; intros k Hk1 Hk Hn Hp.
  - simpl in Hk. lia.
  - assert (Hrec : forall n, length tok = n -> n <= k -> bnd (tok :: toks) k).
    { intros n Hn' Hle. replace k with (length tok + (k - n)) by lia.
      destruct (Nat.eq_dec k n) as [->|Hne]; [rewrite Nat.sub_diag; apply bnd_cons, bnd_0|].
      apply bnd_cons, IH.
      - lia.
      - simpl in Hk. rewrite app_length in Hk. lia.
      - rewrite <- (nth_app_shift tok). replace (length tok + (k - n)) with k by lia. exact Hn.
      - rewrite <- (nth_app_shift tok). replace (length tok + (k - n - 1)) with (k - 1) by lia. exact Hp. }
    destruct (shape_cases tok Hs) as [(c & -> & Hc) | [(x & -> & Hx) | (x & y & z & -> & Hx & Hy & Hz)]].
    + apply (Hrec 1); simpl; lia.
    + destruct (le_lt_dec 2 k) as [G|G]; [apply (Hrec 2); simpl; lia|].
      exfalso. assert (k = 1) by lia. subst k. simpl in Hn, Hp. subst x. now apply Hp.
    + destruct (le_lt_dec 4 k) as [G|G]; [apply (Hrec 4); simpl; lia|].
      exfalso. assert (k = 1 \/ k = 2 \/ k = 3) as [-> | [-> | ->]] by lia; simpl in Hn; congruence.
Qed.

(* L3: inside a run of backslashes that starts at a token boundary, even offsets are boundaries *)
Lemma bnd_even_in_run h : forall toks m, Forall (fun t => shape t = true) toks ->
  (forall j, j < m -> nth j (concat toks) 0%N = 92%N) -> m <= length (concat toks) ->
  2 * h <= m -> bnd toks (2 * h).
Proof.
  induction h as [|h IH]; intros toks m HS Hrun Hm Hh.
  - apply bnd_0.
  - destruct HS as [|tok toks Hs HS]; [simpl in Hm; lia|].
    pose proof (Hrun 0 ltac:(lia)) as R0. pose proof (Hrun 1 ltac:(lia)) as R1.
    destruct (shape_cases tok Hs) as [(c & -> & Hc) | [(x & -> & Hx) | (x & y & z & -> & Hx & Hy & Hz)]].
    + simpl in R0. congruence.
    + replace (2 * S h) with (length [92%N; x] + 2 * h) by (simpl; lia).
      apply bnd_cons, (IH toks (m - 2)); auto.
      * intros j Hj. rewrite <- (nth_app_shift [92%N; x]). apply Hrun. simpl. lia.
      * simpl in Hm. lia.
      * lia.
    + simpl in R1. congruence.
Qed.

(* the backward scan *)
Lemma retreat_spec t fb : forall e',
  (exists j, retreat t fb e' = S j /\ j <= e' /\ nth j t 0%N <> 92%N
             /\ forall i, j < i -> i <= e' -> nth i t 0%N = 92%N)
  \/ (retreat t fb e' = fb /\ forall i, i <= e' -> nth i t 0%N = 92%N).
Proof.
  induction e' as [|e' IH]; simpl.
  - destruct (N.eqb_spec (nth 0 t 0%N) 92%N) as [E|E].
    + right. split; auto. intros i Hi. now replace i with 0 by lia.
    + left. exists 0. repeat split; auto. intros. lia.
  - destruct (N.eqb_spec (nth (S e') t 0%N) 92%N) as [E|E].
    + destruct IH as [(j & R & Hj & Hn & Hrun) | (R & Hrun)].
      * left. exists j. repeat split; auto. intros i H1 H2.
        destruct (Nat.eq_dec i (S e')) as [->|]; auto. apply Hrun; lia.
      * right. split; auto. intros i Hi.
        destruct (Nat.eq_dec i (S e')) as [->|]; auto. apply Hrun; lia.
    + left. exists (S e'). repeat split; auto. intros. lia.
Qed.

Lemma find_bs_spec w : 
  match find_bs w with
  | Some i => i < length w /\ nth i w 0%N = 92%N /\ forall j, j < i -> nth j w 0%N <> 92%N
  | None => forall j, j < length w -> nth j w 0%N <> 92%N
  end.
Proof.
  induction w as [|c w IH]; simpl.
  - intros j Hj. lia.
  - destruct (N.eqb_spec c 92%N) as [E|E].
    + repeat split; auto; lia.
    + destruct (find_bs w) as [i|]; simpl.
      * destruct IH as (H1 & H2 & H3). repeat split; auto; try lia.
        intros [|j] Hj; auto. apply H3. lia.
      * intros [|j] Hj; auto. apply IH. lia.
Qed.

Lemma nth_firstn_lt (l : list N) : forall n i d, i < n -> nth i (firstn n l) d = nth i l d.
Proof.
  induction l as [|x l IH]; intros n i d H.
  - now rewrite firstn_nil.
  - destruct n; [lia|]. destruct i; simpl; auto. apply IH. lia.
Qed.

Lemma nth_skipn_add (t : list N) : forall a i d, nth i (skipn a t) d = nth (a + i) t d.
Proof.
  induction t as [|x t IH]; intros a i d.
  - rewrite skipn_nil. destruct i, a; reflexivity.
  - destruct a; simpl; auto.
Qed.

Lemma nth_window (t : list N) a i : i < length (firstn 4 (skipn a t)) ->
  nth i (firstn 4 (skipn a t)) 0%N = nth (a + i) t 0%N.
Proof.
  intros Hi. rewrite firstn_length in Hi.
  rewrite nth_firstn_lt by lia. apply nth_skipn_add.
Qed.

Lemma fallback_even limit : 6 <= limit ->
  exists h, limit - limit mod 2 - 4 = 2 * h /\ 1 <= h /\ 2 * h <= limit - 4.
Proof. intros H. exists (limit / 2 - 2). lia. Qed.

(* the end of a chunk is in range, whatever the text *)
Lemma chunk_end_range t limit : 6 <= limit -> 1 <= chunk_end t limit <= limit.
Proof.
  intros HL. unfold chunk_end.
  destruct (Nat.ltb_spec (limit - 4) (length t)) as [H|H]; [|lia].
  pose proof (find_bs_spec (firstn 4 (skipn (limit - 4) t))) as F.
  destruct (find_bs (firstn 4 (skipn (limit - 4) t))) as [i|]; [|lia].
  destruct F as (Hi & _). rewrite firstn_length in Hi.
  destruct (retreat_spec t (limit - limit mod 2 - 4) (limit - 5 + i)) as [(j & R & Hj & _) | (R & _)];
    rewrite R.
  - lia.
  - destruct (fallback_even limit HL) as (h & E & H1 & H2). lia.
Qed.

(* ... and for a text made of tokens it is a token boundary (or beyond the text) *)
Lemma chunk_end_bnd toks limit : Forall (fun t => shape t = true) toks -> 6 <= limit ->
  length (concat toks) <= chunk_end (concat toks) limit \/ bnd toks (chunk_end (concat toks) limit).
Proof.
  intros HS HL. set (t := concat toks). unfold chunk_end.
  destruct (Nat.ltb_spec (limit - 4) (length t)) as [H|H]; [|left; lia].
  pose proof (find_bs_spec (firstn 4 (skipn (limit - 4) t))) as F.
  destruct (find_bs (firstn 4 (skipn (limit - 4) t))) as [i|].
  - destruct F as (Hi & Hn & Hbefore). rewrite nth_window in Hn by exact Hi.
    rewrite firstn_length, skipn_length in Hi.
    right.
    destruct (retreat_spec t (limit - limit mod 2 - 4) (limit - 5 + i)) as [(j & R & Hj & Hnj & Hrun) | (R & Hrun)];
      rewrite R.
    + apply bnd_before_backslash; auto; fold t; try lia.
      * destruct (Nat.eq_dec j (limit - 5 + i)) as [->|Hne].
        -- replace (S (limit - 5 + i)) with (limit - 4 + i) by lia. exact Hn.
        -- apply Hrun; lia.
      * replace (S j - 1) with j by lia. exact Hnj.
    + destruct (fallback_even limit HL) as (h & E & H1 & H2). rewrite E.
      apply (bnd_even_in_run h toks (limit - 3 + i)); auto; fold t; try lia.
      intros j Hj. destruct (Nat.eq_dec j (limit - 4 + i)) as [->|Hne]; [exact Hn|].
      apply Hrun. lia.
  - destruct (le_lt_dec (length t) limit) as [G|G]; [left; exact G|].
    right. apply bnd_no_backslash; auto; fold t; try lia.
    intros j Hj1 Hj2. replace j with ((limit - 4) + (j - (limit - 4))) by lia.
    rewrite <- nth_window.
    + apply F. rewrite firstn_length, skipn_length. lia.
    + rewrite firstn_length, skipn_length. lia.
Qed.

Lemma concat_shape_nil toks : Forall (fun t => shape t = true) toks -> concat toks = [] -> toks = [].
Proof.
  intros HS E. destruct HS as [|tok toks Hs _]; auto.
  destruct tok; [discriminate Hs | discriminate E].
Qed.

(* the loop on a text made of tokens: groups of tokens *)
Lemma split_loop_tokens limit : 6 <= limit -> forall fuel toks,
  Forall (fun t => shape t = true) toks -> length (concat toks) < fuel ->
  exists groups, split_loop fuel (concat toks) limit = Chunks (map (@concat N) groups)
                 /\ concat groups = toks.
Proof.
  intros HL. induction fuel as [|f IH]; intros toks HS Hlen; [lia|].
  cbn [split_loop]. destruct (concat toks) as [|c0 t0] eqn:Et.
  - exists []. split; auto. symmetry. now apply concat_shape_nil.
  - rewrite <- Et. pose proof (chunk_end_range (concat toks) limit HL) as [R1 R2].
    assert (Hlt : 1 <= length (concat toks)) by (rewrite Et; simpl; lia).
    assert (Hlen2 : length (concat toks) < S f) by (rewrite Et; exact Hlen).
    destruct (chunk_end_bnd toks limit HS HL) as [G|G].
    + rewrite skipn_all2, firstn_all2 by lia.
      destruct f as [|f']; [lia|]. cbn [split_loop]. exists [toks]. simpl. rewrite !app_nil_r. auto.
    + destruct (bnd_firstn_skipn _ _ G) as (t1 & t2 & E & F1 & F2 & L).
      rewrite F1, F2. subst toks. apply Forall_app in HS. destruct HS as [HS1 HS2].
      destruct (IH t2 HS2) as (groups & Eg & Cg).
      { rewrite concat_app, app_length in Hlen2. lia. }
      rewrite Eg. exists (t1 :: groups). simpl. now rewrite Cg.
Qed.

(* the loop on any text: it terminates within the fuel, chunks are non-empty and bounded *)
Lemma split_loop_any limit : 6 <= limit -> forall fuel t, length t < fuel ->
  exists cs, split_loop fuel t limit = Chunks cs /\ concat cs = t
             /\ Forall (fun c => 1 <= length c <= limit) cs.
Proof.
  intros HL. induction fuel as [|f IH]; intros t Hlen; [lia|].
  cbn [split_loop]. destruct t as [|c0 t0] eqn:Et.
  - exists []. repeat split; auto.
  - rewrite <- Et in *. pose proof (chunk_end_range t limit HL) as [R1 R2].
    assert (Hlt : 1 <= length t) by (rewrite Et; simpl; lia).
    destruct (IH (skipn (chunk_end t limit) t)) as (cs & E & C & B).
    { rewrite skipn_length. lia. }
    rewrite E. exists (firstn (chunk_end t limit) t :: cs). repeat split.
    + simpl. rewrite C. apply firstn_skipn.
    + constructor; auto. rewrite firstn_length. lia.
Qed.

Lemma split_chunks_any s limit : 6 <= limit ->
  exists cs, split_chunks s limit = Chunks cs /\ concat cs = s
             /\ Forall (fun c => length c <= limit /\ (s <> [] -> 1 <= length c)) cs.
Proof.
  intros HL. unfold split_chunks.
  destruct (Nat.ltb_spec limit 5) as [H|_]; [lia|].
  destruct (Nat.ltb_spec (length s) limit) as [H|H].
  - exists [s]. simpl. rewrite app_nil_r. repeat split; auto. constructor; auto.
    split; [lia|]. intros Hne. destruct s; [congruence | simpl; lia].
  - destruct (split_loop_any limit HL (S (length s)) s ltac:(lia)) as (cs & E & C & B).
    exists cs. repeat split; auto. eapply Forall_impl; [|exact B]. simpl. intros c Hc. lia.
Qed.

Lemma split_chunks_tokens toks limit : 6 <= limit -> Forall (fun t => shape t = true) toks ->
  exists groups, split_chunks (concat toks) limit = Chunks (map (@concat N) groups)
                 /\ concat groups = toks.
Proof.
  intros HL HS. unfold split_chunks.
  destruct (Nat.ltb_spec limit 5) as [H|_]; [lia|].
  destruct (Nat.ltb_spec (length (concat toks)) limit) as [H|H].
  - exists [toks]. simpl. now rewrite !app_nil_r.
  - apply split_loop_tokens; auto.
Qed.

(* at limit 5 the all-backslash fallback is end = start: no progress, the fuel always runs out *)
Lemma split_loop_limit5_stuck fuel : split_loop fuel (repeat 92%N 8) 5 = OutOfFuel.
Proof.
  induction fuel as [|f IH]; [reflexivity|].
  cbn [split_loop repeat]. change (92%N :: 92%N :: 92%N :: 92%N :: 92%N :: 92%N :: 92%N :: [92%N]) with (repeat 92%N 8).
  replace (chunk_end (repeat 92%N 8) 5) with 0 by (vm_compute; reflexivity).
  cbn [skipn]. now rewrite IH.
Qed.

(* ==================================================================================== *)
(* E. question marks, new-lines, phases 1 and 2                                           *)

Open Scope N_scope.

Lemma has_qq_cons x t : has_qq (x :: t) = ((x =? 63) && (hd 0 t =? 63)) || has_qq t.
Proof. destruct t; simpl; auto. now rewrite andb_false_r. Qed.

Lemma has_qq_app_noq a : forall b, has_qq a = false -> has_qq b = false ->
  (last a 0 <> 63 \/ hd 0 b <> 63) -> has_qq (a ++ b) = false.
Proof.
  induction a as [|x a IH]; intros b Ha Hb Hj; [exact Hb|].
  rewrite <- app_comm_cons, has_qq_cons. rewrite has_qq_cons in Ha.
  apply orb_false_elim in Ha. destruct Ha as [Ha1 Ha2].
  destruct a as [|y a].
  - simpl app. rewrite Hb, orb_false_r. simpl in Hj.
    destruct (N.eqb_spec x 63); destruct (N.eqb_spec (hd 0 b) 63); simpl; auto. tauto.
  - rewrite IH; auto. now rewrite orb_false_r.
Qed.

Lemma has_qq_app_inv a b : has_qq (a ++ b) = false -> has_qq a = false /\ has_qq b = false.
Proof.
  induction a as [|x a IH]; intros H; [auto|].
  rewrite <- app_comm_cons, has_qq_cons in H. apply orb_false_elim in H. destruct H as [H1 H2].
  destruct (IH H2) as [Ia Ib]. split; auto. rewrite has_qq_cons, Ia, orb_false_r.
  destruct a as [|y a]; [simpl; apply andb_false_r | exact H1].
Qed.

Lemma trigraph_needs_qq t : has_qq t = false -> contains_trigraph t = false.
Proof.
  induction t as [|a t IH]; intros H; [reflexivity|].
  rewrite has_qq_cons in H. apply orb_false_elim in H. destruct H as [H1 H2].
  destruct t as [|b [|c r]]; try reflexivity.
  change (contains_trigraph (a :: b :: c :: r)) with
    (((a =? 63) && (b =? 63) && (match trigraph_char c with Some _ => true | None => false end))
     || contains_trigraph (b :: c :: r)).
  rewrite (IH H2). simpl hd in H1. rewrite H1. reflexivity.
Qed.

Lemma phase1_id t : has_qq t = false -> phase1 t = t.
Proof.
  induction t as [|a t IH]; intros H; [reflexivity|].
  rewrite has_qq_cons in H. apply orb_false_elim in H. destruct H as [H1 H2].
  destruct t as [|b [|c r]].
  - reflexivity.
  - cbn [phase1]. reflexivity.
  - change (phase1 (a :: b :: c :: r)) with
      (if (a =? 63) && (b =? 63) then
         match trigraph_char c with Some x => x :: phase1 r | None => a :: phase1 (b :: c :: r) end
       else a :: phase1 (b :: c :: r)).
    simpl hd in H1. rewrite H1. now rewrite (IH H2).
Qed.

Lemma nolf_app a b : nolf (a ++ b) = nolf a && nolf b.
Proof. apply forallb_app. Qed.

Lemma phase2_id t : nolf t = true -> phase2 t = t.
Proof.
  induction t as [|a t IH]; intros H; [reflexivity|].
  simpl in H. apply andb_prop in H. destruct H as [H1 H2].
  destruct t as [|b r]; [reflexivity|].
  change (phase2 (a :: b :: r)) with (if (a =? 92) && (b =? 10) then phase2 r else a :: phase2 (b :: r)).
  simpl in H2. apply andb_prop in H2. destruct H2 as [H2 H3].
  replace (b =? 10) with false by (symmetry; now apply negb_true_iff).
  rewrite andb_false_r, IH; auto. simpl. now rewrite H2, H3.
Qed.

(* the escaped text has no two adjacent question marks and no new-line *)
Lemma hd_concat_esc_toks hi a r :
  hd 0 (concat (esc_toks hi (a :: r))) = 63 -> hd 0 (esc1 hi a) = 63 \/ esc1 hi a = [].
Proof.
  destruct r as [|b r].
  - simpl. rewrite app_nil_r. auto.
  - change (esc_toks hi (a :: b :: r)) with
      (if (a =? 63) && (b =? 63) then oct3 63 :: oct3 63 :: esc_toks hi r
       else esc1 hi a :: esc_toks hi (b :: r)).
    destruct ((a =? 63) && (b =? 63)).
    + intros H. vm_compute in H. discriminate.
    + cbn [concat]. destruct (esc1 hi a); simpl; auto.
Qed.

Lemma esc_toks_text hi bs : bytes bs ->
  has_qq (concat (esc_toks hi bs)) = false /\ nolf (concat (esc_toks hi bs)) = true.
Proof.
  induction bs as [| a | a b r IH1 IH2] using list_ind2; intros HB.
  - auto.
  - inversion HB; subst. destruct (bf_hi a H1 hi) as (_ & N1 & Q1 & _).
    simpl. rewrite app_nil_r. auto.
  - inversion HB as [|? ? Ha HB']; subst. inversion HB' as [|? ? Hb0 HB'']; subst.
    pose proof (hd_concat_esc_toks hi b r) as HD.
    change (esc_toks hi (a :: b :: r)) with
      (if (a =? 63) && (b =? 63) then oct3 63 :: oct3 63 :: esc_toks hi r
       else esc1 hi a :: esc_toks hi (b :: r)).
    destruct ((a =? 63) && (b =? 63)) eqn:E.
    + destruct (IH1 HB'') as [Q N]. cbn [concat]. split.
      * rewrite app_assoc. apply has_qq_app_noq; auto. left. vm_compute. discriminate.
      * rewrite !nolf_app, N. reflexivity.
    + destruct (IH2 HB') as [Q N].
      destruct (bf_hi a Ha hi) as (Sa & N1 & Q1 & _ & _ & _ & _ & _ & L1).
      destruct (bf_hi b Hb0 hi) as (Sb & _ & _ & _ & _ & _ & _ & H1 & _).
      cbn [concat]. split.
      * apply has_qq_app_noq; auto.
        destruct (N.eq_dec (last (esc1 hi a) 0) 63) as [EL|]; [|now left]. right.
        intros EH. apply HD in EH. destruct EH as [EH|EH].
        -- apply L1 in EL. apply H1 in EH. subst. discriminate E.
        -- rewrite EH in Sb. discriminate Sb.
      * now rewrite nolf_app, N1, N.
Qed.

(* joining chunks with two double quotes keeps both properties *)
Lemma join_chunks_cons c c' r : join_chunks (c :: c' :: r) = c ++ [34; 34] ++ join_chunks (c' :: r).
Proof. reflexivity. Qed.

Lemma join_text cs : has_qq (concat cs) = false -> nolf (concat cs) = true ->
  has_qq (join_chunks cs) = false /\ nolf (join_chunks cs) = true.
Proof.
  induction cs as [|c cs IH]; intros Q N; [auto|].
  destruct cs as [|c' r].
  - simpl in *. now rewrite app_nil_r in *.
  - rewrite join_chunks_cons. cbn [concat] in Q, N.
    destruct (has_qq_app_inv _ _ Q) as [Qc Qr]. rewrite nolf_app in N.
    apply andb_prop in N. destruct N as [Nc Nr]. destruct (IH Qr Nr) as [QJ NJ]. split.
    + apply has_qq_app_noq; auto.
      * cbn [app]. rewrite !has_qq_cons. simpl. exact QJ.
      * right. simpl. discriminate.
    + rewrite !nolf_app, Nc, NJ. reflexivity.
Qed.

(* ==================================================================================== *)
(* F. reading the literal                                                                 *)

Lemma rd_close_open t : rd MStr RIn (34 :: 34 :: t) = rd MStr RIn t.
Proof. cbn [rd step in_step delim N.eqb Pos.eqb]. destruct (rd MStr RIn t); reflexivity. Qed.

Lemma read_join groups : Forall (Forall (good MStr)) groups ->
  rd MStr RIn (join_chunks (map (@concat N) groups) ++ [34]) = Some (outs MStr (concat groups)).
Proof.
  induction 1 as [|g groups Hg Hgs IH].
  - reflexivity.
  - destruct groups as [|g' r].
    + cbn [map join_chunks concat]. rewrite read_toks by exact Hg. rewrite app_nil_r.
      cbn. now rewrite app_nil_r.
    + cbn [map] in *. rewrite join_chunks_cons, <- !app_assoc, read_toks by exact Hg.
      cbn [app]. rewrite rd_close_open, IH. cbn [concat option_map]. unfold outs.
      now rewrite (flat_map_app _ g).
Qed.

Lemma Forall_concat_groups (A : Type) (P : A -> Prop) groups :
  Forall P (concat groups) -> Forall (Forall P) groups.
Proof.
  induction groups as [|g r IH]; intros H; [constructor|].
  cbn [concat] in H. apply Forall_app in H. destruct H. constructor; auto.
Qed.

Lemma good_shape m toks : Forall (good m) toks -> Forall (fun t => shape t = true) toks.
Proof. apply Forall_impl. now intros t [H _]. Qed.

Lemma concat_concat_map (A : Type) (l : list (list (list A))) :
  concat (map (@concat A) l) = concat (concat l).
Proof. induction l as [|x l IH]; simpl; auto. now rewrite concat_app, IH. Qed.

(* the main statement in one piece *)
Lemma literal_structure bs limit : bytes bs -> (6 <= limit)%nat ->
  exists txt, as_c_string_literal bs limit = Some txt
    /\ has_qq txt = false /\ nolf txt = true
    /\ rd MStr RStart txt = Some bs.
Proof.
  intros HB HL. unfold as_c_string_literal, split_string_literal.
  rewrite (escape_toks bs HB). set (hi := has_high bs).
  destruct (esc_toks_good hi bs HB) as (G1 & _ & O1 & _).
  destruct (esc_toks_text hi bs HB) as [Q NL].
  destruct (split_chunks_tokens (esc_toks hi bs) limit HL (good_shape _ _ G1)) as (groups & E & C).
  rewrite E. eexists. split; [reflexivity|].
  assert (CC : concat (map (@concat N) groups) = concat (esc_toks hi bs)).
  { rewrite <- C. apply concat_concat_map. }
  rewrite <- CC in Q, NL. destruct (join_text _ Q NL) as [QJ NJ].
  repeat split.
  - cbn [app]. rewrite has_qq_cons. apply orb_false_intro; [reflexivity|].
    apply has_qq_app_noq; auto. right. simpl. discriminate.
  - cbn [app nolf forallb]. fold (nolf (join_chunks (map (@concat N) groups) ++ [34])).
    rewrite nolf_app, NJ. reflexivity.
  - cbn [app rd step delim N.eqb Pos.eqb]. rewrite read_join.
    + rewrite C, O1. reflexivity.
    + apply Forall_concat_groups. now rewrite C.
Qed.

Theorem emit_reads_back bs limit : bytes bs -> (6 <= limit)%nat ->
  exists txt, as_c_string_literal bs limit = Some txt /\ c_read txt = Some bs.
Proof.
  intros HB HL. destruct (literal_structure bs limit HB HL) as (txt & E & Q & N & R).
  exists txt. split; auto. unfold c_read. now rewrite (phase1_id _ Q), (phase2_id _ N).
Qed.

Theorem no_trigraph bs limit txt : bytes bs -> (6 <= limit)%nat ->
  as_c_string_literal bs limit = Some txt ->
  has_qq txt = false /\ contains_trigraph txt = false /\ phase1 txt = txt.
Proof.
  intros HB HL E. destruct (literal_structure bs limit HB HL) as (txt' & E' & Q & N & R).
  rewrite E in E'. injection E' as <-. repeat split; auto.
  - now apply trigraph_needs_qq.
  - now apply phase1_id.
Qed.

Theorem chunks_bounded s limit : (6 <= limit)%nat ->
  exists cs, split_chunks s limit = Chunks cs /\ concat cs = s
    /\ Forall (fun c => (length c <= limit)%nat /\ (s <> [] -> (1 <= length c)%nat)) cs.
Proof. apply split_chunks_any. Qed.

Theorem split_terminates s limit : (6 <= limit)%nat ->
  exists cs, split_loop (S (length s)) s limit = Chunks cs /\ concat cs = s.
Proof.
  intros HL. destruct (split_loop_any limit HL (S (length s)) s ltac:(lia)) as (cs & E & C & _).
  eauto.
Qed.

Theorem split_limit5_no_progress :
  exists s, forall fuel, split_loop fuel s 5 = OutOfFuel.
Proof. exists (repeat 92 8). apply split_loop_limit5_stuck. Qed.

(* ==================================================================================== *)
(* G. the MSVC char-array form and character constants                                    *)

Lemma sc_1 c R : c <> 92 -> split_characters (c :: R) = [c] :: split_characters R.
Proof. intros H. simpl. destruct (N.eqb_spec c 92); [congruence | reflexivity]. Qed.

Lemma sc_2 x R : is_oct x = false -> split_characters (92 :: x :: R) = [92; x] :: split_characters R.
Proof. intros H. destruct R as [|b [|c r]]; simpl; rewrite ?H; reflexivity. Qed.

Lemma sc_4 x y z R : is_oct x = true -> is_oct y = true -> is_oct z = true ->
  split_characters (92 :: x :: y :: z :: R) = [92; x; y; z] :: split_characters R.
Proof. intros H1 H2 H3. simpl. rewrite H1, H2, H3. reflexivity. Qed.

Lemma split_characters_toks toks : Forall (fun t => shape t = true) toks ->
  split_characters (concat toks) = toks.
Proof.
  induction 1 as [|tok toks Hs _ IH]; [reflexivity|].
  destruct tok as [|a [|x [|y [|z [|w r]]]]]; simpl in Hs; try discriminate; cbn [concat app].
  - rewrite sc_1, IH; auto. lia.
  - assert (a = 92) by lia. subst. rewrite sc_2, IH; auto. destruct (is_oct x); [simpl in Hs; lia | auto].
  - assert (a = 92) by lia. subst. rewrite sc_4, IH; auto; destruct (is_oct x), (is_oct y), (is_oct z); simpl in Hs; lia.
Qed.

Lemma read_tok m tok r : good m tok ->
  rd m RIn (tok ++ r) = option_map (app (tok_out m tok)) (rd m RIn r).
Proof.
  intros [_ Hr]. rewrite rd_app. unfold run_ok in Hr. unfold tok_out.
  destruct (run m RIn tok) as [[s o]|]; [|discriminate]. destruct s; try discriminate. reflexivity.
Qed.

Lemma char_array_items_cons c c' r :
  char_array_items (c :: c' :: r) = [39] ++ c ++ [39] ++ [44] ++ char_array_items (c' :: r).
Proof. reflexivity. Qed.

Lemma read_items toks : Forall (good MArr) toks -> toks <> [] ->
  forall s, s = RStart \/ s = RSep ->
  rd MArr s (char_array_items toks) = Some (outs MArr toks).
Proof.
  induction 1 as [|c toks Hc Hrest IH]; intros Hne s Hs; [congruence|].
  assert (Step : step MArr s 39 = Some (RIn, [])) by (destruct Hs; subst; reflexivity).
  destruct toks as [|c' r].
  - cbn [char_array_items app]. cbn [rd]. rewrite Step. rewrite read_tok by exact Hc.
    cbn. unfold outs. cbn. now rewrite !app_nil_r.
  - rewrite char_array_items_cons. cbn [app]. cbn [rd]. rewrite Step. rewrite read_tok by exact Hc.
    cbn [rd step in_step delim N.eqb Pos.eqb]. rewrite IH; [| discriminate | now right].
    cbn. reflexivity.
Qed.

Lemma items_text toks : has_qq (concat toks) = false -> nolf (concat toks) = true ->
  has_qq (char_array_items toks) = false /\ nolf (char_array_items toks) = true.
Proof.
  induction toks as [|c toks IH]; intros Q NL; [auto|].
  cbn [concat] in Q, NL. destruct (has_qq_app_inv _ _ Q) as [Qc Qr].
  rewrite nolf_app in NL. apply andb_prop in NL. destruct NL as [Nc Nr].
  destruct (IH Qr Nr) as [QI NI].
  destruct toks as [|c' r].
  - cbn [char_array_items app]. split.
    + rewrite has_qq_cons. apply orb_false_intro; [reflexivity|].
      apply has_qq_app_noq; auto. right. simpl. discriminate.
    + cbn [nolf forallb]. fold (nolf (c ++ [39])). rewrite nolf_app, Nc. reflexivity.
  - rewrite char_array_items_cons. cbn [app]. split.
    + rewrite has_qq_cons. apply orb_false_intro; [reflexivity|].
      apply has_qq_app_noq; auto.
      * rewrite !has_qq_cons. simpl. exact QI.
      * right. simpl. discriminate.
    + cbn [nolf forallb]. fold (nolf (c ++ 39 :: 44 :: char_array_items (c' :: r))).
      rewrite nolf_app, Nc. cbn [nolf forallb]. fold (nolf (char_array_items (c' :: r))).
      rewrite NI. reflexivity.
Qed.

Lemma esc_toks_nonempty hi bs : bs <> [] -> esc_toks hi bs <> [].
Proof.
  destruct bs as [|a [|b r]]; [congruence| simpl; discriminate |].
  intros _. change (esc_toks hi (a :: b :: r)) with
    (if (a =? 63) && (b =? 63) then oct3 63 :: oct3 63 :: esc_toks hi r
     else esc1 hi a :: esc_toks hi (b :: r)).
  destruct ((a =? 63) && (b =? 63)); discriminate.
Qed.

Theorem char_array_form_equal bs : bytes bs -> bs <> [] ->
  c_read_chars (char_array_form bs) = Some bs
  /\ has_qq (char_array_form bs) = false.
Proof.
  intros HB Hne. unfold char_array_form, c_read_chars.
  rewrite (escape_toks bs HB). set (hi := has_high bs).
  destruct (esc_toks_good hi bs HB) as (_ & G2 & _ & O2).
  destruct (esc_toks_text hi bs HB) as [Q NL].
  rewrite split_characters_toks by (eapply good_shape; exact G2).
  destruct (items_text _ Q NL) as [QI NI].
  rewrite (phase1_id _ QI), (phase2_id _ NI). split; auto.
  rewrite read_items; auto.
  - now rewrite O2.
  - now apply esc_toks_nonempty.
Qed.

Lemma escape_char_table :
  forallb (fun b => match c_read_char ([39] ++ escape_char b ++ [39]) with
                    | Some x => x =? b
                    | None => false
                    end) all_bytes = true.
Proof. vm_compute. reflexivity. Qed.

Theorem escape_char_reads_back b : b < 256 ->
  c_read_char ([39] ++ escape_char b ++ [39]) = Some b.
Proof.
  intros Hb. pose proof (forall_bytes _ escape_char_table b Hb) as H. cbv beta in H.
  destruct (c_read_char ([39] ++ escape_char b ++ [39])) as [x|]; [|discriminate].
  apply N.eqb_eq in H. now subst.
Qed.
