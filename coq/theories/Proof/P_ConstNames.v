(* Proofs for property C09, second part (Model/M_ConstNames.v): numeric constants get pairwise
   different C names, and every pooled constant resolves to a number-table slot that is
   initialised with its own value. *)
From Coq Require Import ZArith List Bool Lia ZifyBool Permutation.
From CyVerif Require Import Lib.CInt Model.M_Consts Proof.P_Consts Model.M_ConstNames.
Import ListNotations.
Open Scope Z_scope.

(* ------------------------------------------------------------------ *)
(* A. strings and the dict                                             *)
(* ------------------------------------------------------------------ *)

Lemma zlist_eqb_refl a : zlist_eqb a a = true.
Proof. induction a as [|x a IH]; [reflexivity|]. cbn. rewrite Z.eqb_refl, IH. reflexivity. Qed.

Lemma zlist_eqb_iff a b : zlist_eqb a b = true <-> a = b.
Proof. split; [apply zlist_eqb_eq|intros ->; apply zlist_eqb_refl]. Qed.

Lemma zlist_eqb_neq a b : a <> b -> zlist_eqb a b = false.
Proof. intros N. destruct (zlist_eqb a b) eqn:E; [|reflexivity]. apply zlist_eqb_iff in E. contradiction. Qed.

Definition keys (d : dict) : list str := map fst d.

Lemma dmem_in k d : dmem k d = true <-> In k (keys d).
Proof.
  unfold dmem. induction d as [|[k' v] r IH]; cbn.
  - split; [discriminate|tauto].
  - destruct (zlist_eqb k k') eqn:E.
    + apply zlist_eqb_iff in E. subst. split; auto.
    + rewrite IH. split; [auto|]. intros [->|H]; [|exact H]. rewrite zlist_eqb_refl in E. discriminate.
Qed.

Lemma dmem_dget k d : dmem k d = true -> exists v, dget k d = Some v.
Proof. unfold dmem. destruct (dget k d) as [v|]; [eauto|discriminate]. Qed.

Lemma dset_keys_mem k v d : dmem k d = true -> keys (dset k v d) = keys d.
Proof.
  unfold dmem, keys. induction d as [|[k' v'] r IH]; cbn; [discriminate|].
  destruct (zlist_eqb k k') eqn:E; cbn.
  - apply zlist_eqb_iff in E. subst. reflexivity.
  - intros H. rewrite IH by exact H. reflexivity.
Qed.

Lemma dset_keys_new k v d : dmem k d = false -> keys (dset k v d) = keys d ++ [k].
Proof.
  unfold dmem, keys. induction d as [|[k' v'] r IH]; cbn; [reflexivity|].
  destruct (zlist_eqb k k') eqn:E; cbn; [discriminate|].
  intros H. rewrite IH by exact H. reflexivity.
Qed.

Lemma dget_dset_same k v d : dget k (dset k v d) = Some v.
Proof.
  induction d as [|[k' v'] r IH]; cbn; [rewrite zlist_eqb_refl; reflexivity|].
  destruct (zlist_eqb k k') eqn:E; cbn; [rewrite zlist_eqb_refl; reflexivity|]. rewrite E. exact IH.
Qed.

Lemma dmem_dset_same k v d : dmem k (dset k v d) = true.
Proof. unfold dmem. rewrite dget_dset_same. reflexivity. Qed.

Lemma dmem_dset_mono k k' v d : dmem k d = true -> dmem k (dset k' v d) = true.
Proof.
  intros H. destruct (dmem k' d) eqn:M.
  - apply dmem_in. rewrite dset_keys_mem by exact M. apply dmem_in. exact H.
  - apply dmem_in. rewrite dset_keys_new by exact M. apply in_or_app. left. apply dmem_in. exact H.
Qed.

Lemma dset_length_mem k v d : dmem k d = true -> length (dset k v d) = length d.
Proof.
  intros H. pose proof (dset_keys_mem k v d H) as E. unfold keys in E.
  rewrite <- (map_length fst), E, map_length. reflexivity.
Qed.

Definition dict_pos (d : dict) : Prop := Forall (fun kv => 1 <= snd kv) d.

Lemma dict_pos_dset k v d : 1 <= v -> dict_pos d -> dict_pos (dset k v d).
Proof.
  intros Hv. unfold dict_pos. induction d as [|[k' v'] r IH]; cbn; intros H.
  - constructor; [exact Hv|constructor].
  - inversion H as [|? ? H1 H2]; subst. destruct (zlist_eqb k k'); constructor; auto.
Qed.

Lemma dict_pos_get k d v : dict_pos d -> dget k d = Some v -> 1 <= v.
Proof.
  unfold dict_pos. induction d as [|[k' v'] r IH]; cbn; intros H E; [discriminate|].
  inversion H as [|? ? H1 H2]; subst. destruct (zlist_eqb k k').
  - inversion E; subst. exact H1.
  - exact (IH H2 E).
Qed.

(* ------------------------------------------------------------------ *)
(* B. the counter text                                                 *)
(* ------------------------------------------------------------------ *)

Lemma dec_pos c : 0 < c -> dec c = to_digits 10 c.
Proof.
  intros H. unfold dec. destruct (Z.eqb_spec c 0); [lia|]. destruct (Z.ltb_spec c 0); [lia|].
  rewrite Z.abs_eq by lia. reflexivity.
Qed.

Lemma dec_inj a b : 0 < a -> 0 < b -> dec a = dec b -> a = b.
Proof.
  intros Ha Hb E. rewrite !dec_pos in E by assumption.
  destruct (to_digits_spec 10 a ltac:(lia) Ha) as (Va & _).
  destruct (to_digits_spec 10 b ltac:(lia) Hb) as (Vb & _).
  rewrite E in Va. lia.
Qed.

Lemma fmt_at_inj f a b : 0 < a -> 0 < b -> fmt_at f a = fmt_at f b -> a = b.
Proof.
  unfold fmt_at. intros Ha Hb E. apply app_inv_head in E. apply app_inv_head in E.
  apply app_inv_tail in E. exact (dec_inj a b Ha Hb E).
Qed.

(* ------------------------------------------------------------------ *)
(* C. unique_const_cname                                               *)
(* ------------------------------------------------------------------ *)

Lemma same_keys_dmem d d' : keys d' = keys d -> forall k, dmem k d' = dmem k d.
Proof.
  intros E k. destruct (dmem k d) eqn:M.
  - apply dmem_in. rewrite E. apply dmem_in. exact M.
  - destruct (dmem k d') eqn:M'; [|reflexivity]. apply dmem_in in M'. rewrite E in M'.
    apply dmem_in in M'. congruence.
Qed.

Lemma uniq_loop_spec f : forall fuel d c0,
  dict_pos d -> dget (fmt_base f) d = Some c0 ->
  match uniq_loop fuel f d with
  | UOk n d' => dmem n d = false /\ dmem n d' = true
                /\ (forall k, dmem k d = true -> dmem k d' = true) /\ dict_pos d'
                /\ exists c, c0 < c /\ n = fmt_at f c
  | UKeyError => False
  | UFuel => forall i, 1 <= i <= Z.of_nat fuel -> In (fmt_at f (c0 + i)) (keys d)
  end.
Proof.
  induction fuel as [|fuel IH]; intros d c0 Hp Hg.
  - cbn. intros i Hi. lia.
  - cbn [uniq_loop]. rewrite Hg.
    assert (Hb : dmem (fmt_base f) d = true) by (unfold dmem; rewrite Hg; reflexivity).
    pose proof (dict_pos_get _ _ _ Hp Hg) as Hc0.
    set (d1 := dset (fmt_base f) (c0 + 1) d).
    assert (K1 : keys d1 = keys d) by (apply dset_keys_mem; exact Hb).
    assert (P1 : dict_pos d1) by (apply dict_pos_dset; [lia|exact Hp]).
    destruct (dmem (fmt_at f (c0 + 1)) d1) eqn:M.
    + specialize (IH d1 (c0 + 1) P1 (dget_dset_same _ _ _)).
      destruct (uniq_loop fuel f d1) as [n d'| |].
      * destruct IH as (F & I & Mono & P & (c & Hc & En)).
        rewrite (same_keys_dmem d d1 K1) in F.
        split; [exact F|]. split; [exact I|]. split.
        { intros k Hk. apply Mono. rewrite (same_keys_dmem d d1 K1). exact Hk. }
        split; [exact P|]. exists c. split; [lia|exact En].
      * exact IH.
      * intros i Hi. destruct (Z.eq_dec i 1) as [->|Ni].
        { rewrite <- K1. apply dmem_in. exact M. }
        { rewrite <- K1. replace (c0 + i) with (c0 + 1 + (i - 1)) by lia. apply IH. lia. }
    + rewrite (same_keys_dmem d d1 K1) in M.
      split; [exact M|]. split; [apply dmem_dset_same|]. split.
      { intros k Hk. apply dmem_dset_mono. unfold d1. apply dmem_dset_mono. exact Hk. }
      split; [apply dict_pos_dset; [lia|exact P1]|].
      exists (c0 + 1). split; [lia|reflexivity].
Qed.

Lemma NoDup_map_in_inj {A B} (g : A -> B) l :
  (forall x y, In x l -> In y l -> g x = g y -> x = y) -> NoDup l -> NoDup (map g l).
Proof.
  induction l as [|a l IH]; intros Inj ND; cbn; [constructor|].
  inversion ND as [|? ? Na NDl]; subst. constructor.
  - intros Hin. apply in_map_iff in Hin. destruct Hin as (y & Ey & Hy).
    assert (y = a) by (apply Inj; [right; exact Hy|left; reflexivity|exact Ey]). subst. contradiction.
  - apply IH; [|exact NDl]. intros x y Hx Hy. apply Inj; right; assumption.
Qed.

(* the name returned is new, registered, and nothing in use is forgotten; the call always
   returns (no KeyError, the loop ends within the fuel) *)
Theorem unique_const_cname_fresh f d : dict_pos d ->
  exists n d', unique_const_cname f d = UOk n d'
    /\ dmem n d = false /\ dmem n d' = true
    /\ (forall k, dmem k d = true -> dmem k d' = true) /\ dict_pos d'
    /\ (n = fmt_base f \/ exists c, 1 < c /\ n = fmt_at f c).
Proof.
  intros Hp. unfold unique_const_cname. destruct (dmem (fmt_base f) d) eqn:Hb.
  - destruct (dmem_dget _ _ Hb) as (c0 & Hg).
    pose proof (dict_pos_get _ _ _ Hp Hg) as Hc0.
    pose proof (uniq_loop_spec f (S (length d)) d c0 Hp Hg) as Sp.
    destruct (uniq_loop (S (length d)) f d) as [n d'| |].
    + destruct Sp as (F & I & Mono & P & (c & Hc & En)).
      exists n, d'. split; [reflexivity|]. split; [exact F|].
      split; [exact I|]. split; [exact Mono|]. split; [exact P|]. right. exists c. split; [lia|exact En].
    + contradiction.
    + exfalso.
      set (L := map (fun i => fmt_at f (c0 + Z.of_nat i)) (seq 1 (S (length d)))).
      assert (ND : NoDup L).
      { apply NoDup_map_in_inj; [|apply seq_NoDup]. intros x y Hx Hy E.
        apply in_seq in Hx. apply in_seq in Hy. apply fmt_at_inj in E; lia. }
      assert (Inc : incl L (keys d)).
      { intros x Hx. apply in_map_iff in Hx. destruct Hx as (i & <- & Hi). apply in_seq in Hi.
        replace (Z.of_nat i) with (Z.of_nat i + 0) by lia. rewrite Z.add_0_r. apply Sp. lia. }
      pose proof (NoDup_incl_length ND Inc) as Len.
      unfold L, keys in Len. rewrite !map_length, seq_length in Len. lia.
  - exists (fmt_base f), (dset (fmt_base f) 1 d). split; [reflexivity|]. split; [exact Hb|].
    split; [apply dmem_dset_same|]. split; [intros k Hk; apply dmem_dset_mono; exact Hk|].
    split; [apply dict_pos_dset; [lia|exact Hp]|]. left. reflexivity.
Qed.

(* ------------------------------------------------------------------ *)
(* D. the character replacement is injective on numeric spellings      *)
(* ------------------------------------------------------------------ *)

Lemma sanitize_ch_cases c :
  ((c = 46 \/ c = 43) /\ sanitize_ch c = [95]) \/
  (c = 45 /\ sanitize_ch c = s_neg) \/
  (c <> 46 /\ c <> 43 /\ c <> 45 /\ sanitize_ch c = [c]).
Proof.
  unfold sanitize_ch.
  destruct (Z.eqb_spec c 46) as [->|N1]; [left; split; [left|]; reflexivity|].
  destruct (Z.eqb_spec c 43) as [->|N2]; [left; split; [right|]; reflexivity|].
  destruct (Z.eqb_spec c 45) as [->|N3]; [right; left; split; reflexivity|].
  right; right. repeat split; assumption.
Qed.

Lemma sanitize_cons c r : sanitize (c :: r) = sanitize_ch c ++ sanitize r.
Proof. reflexivity. Qed.

Lemma sanitize_cons_nonnil c r : sanitize (c :: r) <> [].
Proof.
  rewrite sanitize_cons.
  destruct (sanitize_ch_cases c) as [(_ & S)|[(_ & S)|(_ & _ & _ & S)]]; rewrite S; discriminate.
Qed.

(* first character of a sanitised string *)
Lemma sanitize_head s h t : sanitize s = h :: t ->
  exists c r, s = c :: r /\ (h = c \/ h = 95 \/ h = 110).
Proof.
  destruct s as [|c r]; [discriminate|]. rewrite sanitize_cons. intros E. exists c, r. split; [reflexivity|].
  destruct (sanitize_ch_cases c) as [(_ & S)|[(_ & S)|(_ & _ & _ & S)]]; rewrite S in E; cbn in E;
    inversion E; subst; auto.
Qed.

(* spellings of the theorems: additionally free of 'l' and 'L' *)
Definition no_l (s : str) : bool := forallb (fun c => negb ((c =? 108) || (c =? 76))) s.

Lemma spell_ok_sep s : spell_ok s = true -> sep_ok false s = true.
Proof. intros H. exact H. Qed.

Lemma okc_no_l c : okc c = true -> c <> 108 /\ c <> 76.
Proof. unfold okc. lia. Qed.

Lemma sep_ok_chars p s : sep_ok p s = true -> Forall (fun c => okc c = true) s.
Proof.
  revert p. induction s as [|c r IH]; intros p H; [constructor|]. cbn [sep_ok] in H.
  apply andb_prop in H. destruct H as (H & T). apply andb_prop in H. destruct H as (K & _).
  constructor; [exact K|exact (IH _ T)].
Qed.

(* the weaker alphabet (only '_' and 'g' excluded) that still makes sanitize injective; needed
   because the effective spelling of a 'long' constant ends in 'L' *)
Definition okw (c : Z) : bool := negb ((c =? 95) || (c =? 103)).
Fixpoint sep_okw (prev_e : bool) (s : str) : bool :=
  match s with
  | [] => true
  | c :: r => okw c && (if c =? 43 then prev_e else if c =? 46 then negb prev_e else true)
              && sep_okw (is_e c) r
  end.

Lemma sep_ok_w p s : sep_ok p s = true -> sep_okw p s = true.
Proof.
  revert p. induction s as [|c r IH]; intros p H; [reflexivity|]. cbn [sep_ok sep_okw] in *.
  apply andb_prop in H. destruct H as (H & T). apply andb_prop in H. destruct H as (K & C).
  rewrite (IH _ T), C. assert (okw c = true) by (unfold okc, okw in *; lia). rewrite H. reflexivity.
Qed.

Lemma sep_okw_app_L p s : sep_okw p s = true -> sep_okw p (s ++ [76]) = true.
Proof.
  revert p. induction s as [|c r IH]; intros p H.
  - reflexivity.
  - cbn [app sep_okw] in *. apply andb_prop in H. destruct H as (H & T). rewrite H, (IH _ T). reflexivity.
Qed.

Lemma no_eg_w p r x : sep_okw p r = true -> sanitize r = 101 :: 103 :: x -> False.
Proof.
  destruct r as [|c3 r3]; [discriminate|]. cbn [sep_okw]. rewrite sanitize_cons. intros O E.
  apply andb_prop in O. destruct O as (O & O3). apply andb_prop in O. destruct O as (K3 & _).
  destruct (sanitize_ch_cases c3) as [(_ & S)|[(_ & S)|(_ & _ & _ & S)]]; rewrite S in E; cbn in E;
    try discriminate.
  inversion E as [[E1 E2]]. subst c3. clear E.
  destruct r3 as [|c4 r4]; [discriminate|]. cbn [sep_okw] in O3. rewrite sanitize_cons in E2.
  apply andb_prop in O3. destruct O3 as (O4 & _). apply andb_prop in O4. destruct O4 as (K4 & _).
  destruct (sanitize_ch_cases c4) as [(_ & S4)|[(_ & S4)|(_ & _ & _ & S4)]]; rewrite S4 in E2; cbn in E2;
    try discriminate.
  inversion E2 as [[E3 E4]]. subst c4. vm_compute in K4. discriminate.
Qed.

Lemma sanitize_inj_w : forall s1 s2 p,
  sep_okw p s1 = true -> sep_okw p s2 = true -> sanitize s1 = sanitize s2 -> s1 = s2.
Proof.
  induction s1 as [|c1 r1 IH]; intros [|c2 r2] p O1 O2 E.
  - reflexivity.
  - exfalso. symmetry in E. exact (sanitize_cons_nonnil _ _ E).
  - exfalso. exact (sanitize_cons_nonnil _ _ E).
  - cbn [sep_okw] in O1, O2.
    apply andb_prop in O1. destruct O1 as (O1 & T1). apply andb_prop in O1. destruct O1 as (K1 & C1).
    apply andb_prop in O2. destruct O2 as (O2 & T2). apply andb_prop in O2. destruct O2 as (K2 & C2).
    rewrite !sanitize_cons in E.
    destruct (sanitize_ch_cases c1) as [(A1 & S1)|[(A1 & S1)|(A1 & B1 & D1 & S1)]];
    destruct (sanitize_ch_cases c2) as [(A2 & S2)|[(A2 & S2)|(A2 & B2 & D2 & S2)]];
    rewrite S1, S2 in E; cbn in E.
    + inversion E as [E'].
      assert (c1 = c2).
      { destruct A1 as [-> | ->]; destruct A2 as [-> | ->]; try reflexivity;
          cbn in C1, C2; destruct p; discriminate. }
      subst c2. f_equal. exact (IH r2 _ T1 T2 E').
    + discriminate.
    + inversion E as [[E1 E2]]. subst c2. vm_compute in K2. discriminate.
    + discriminate.
    + inversion E as [E']. subst. f_equal. exact (IH r2 _ T1 T2 E').
    + exfalso. inversion E as [[E1 E2]]. symmetry in E2. exact (no_eg_w _ _ _ T2 E2).
    + inversion E as [[E1 E2]]. subst c1. vm_compute in K1. discriminate.
    + exfalso. inversion E as [[E1 E2]]. exact (no_eg_w _ _ _ T1 E2).
    + inversion E as [[E1 E2]]. subst c2. f_equal. exact (IH r2 _ T1 T2 E2).
Qed.

Theorem sanitize_injective s1 s2 :
  spell_ok s1 = true -> spell_ok s2 = true -> sanitize s1 = sanitize s2 -> s1 = s2.
Proof. intros A B. apply (sanitize_inj_w s1 s2 false); apply sep_ok_w; assumption. Qed.

(* ------------------------------------------------------------------ *)
(* E. the pool: names are injective in the key                         *)
(* ------------------------------------------------------------------ *)

Lemma ptype_eqb_iff a b : ptype_eqb a b = true <-> a = b.
Proof. destruct a, b; cbn; split; intros H; try reflexivity; discriminate. Qed.

Lemma nkey_eqb_iff a b : nkey_eqb a b = true <-> a = b.
Proof.
  destruct a as [s1 t1], b as [s2 t2]. unfold nkey_eqb. cbn [fst snd]. split.
  - intros H. apply andb_prop in H. destruct H as (A & B).
    apply zlist_eqb_iff in A. apply ptype_eqb_iff in B. subst. reflexivity.
  - intros H. inversion H; subst. rewrite zlist_eqb_refl. cbn. apply ptype_eqb_iff. reflexivity.
Qed.

Lemma nkey_eqb_refl a : nkey_eqb a a = true.
Proof. apply nkey_eqb_iff. reflexivity. Qed.

Lemma nkey_eqb_neq a b : a <> b -> nkey_eqb a b = false.
Proof. intros N. destruct (nkey_eqb a b) eqn:E; [|reflexivity]. apply nkey_eqb_iff in E. contradiction. Qed.

Definition key_ok (k : nkey) : bool := spell_ok (fst k).
Definition value_of (k : nkey) : str := sanitize (eff_spelling (fst k) (snd k)).
Definition is_long_name (k : nkey) : bool := name_limit <? Z.of_nat (length (value_of k)).

(* what the pool knows about the name n it gave to key k *)
Definition name_shape (k : nkey) (n : str) (d : dict) : Prop :=
  if is_long_name k
  then dmem n d = true /\ exists rest, n = prefix_of (snd k) ++ s_large ++ rest
  else n = prefix_of (snd k) ++ value_of k.

Lemma name_shape_mono k n d d' :
  (forall x, dmem x d = true -> dmem x d' = true) -> name_shape k n d -> name_shape k n d'.
Proof. unfold name_shape. intros M. destruct (is_long_name k); [|auto]. intros (A & B). split; auto. Qed.

Lemma new_name_spec v t d : dict_pos d ->
  exists n d', new_num_const_cname v t d = UOk n d' /\ dict_pos d'
    /\ (forall x, dmem x d = true -> dmem x d' = true)
    /\ name_shape (v, t) n d'
    /\ (is_long_name (v, t) = true -> dmem n d = false).
Proof.
  intros Hp. unfold new_num_const_cname, new_num_const_cname_gen, name_shape, is_long_name, value_of.
  cbn [fst snd]. set (value := sanitize (eff_spelling v t)).
  destruct (name_limit <? Z.of_nat (length value)) eqn:L.
  - destruct (unique_const_cname_fresh (large_fmt t value) d Hp)
      as (n & d' & E & F & I & Mono & P & Sh).
    exists n, d'. split; [exact E|]. split; [exact P|]. split; [exact Mono|]. split; [|intros _; exact F].
    split; [exact I|]. destruct Sh as [->|(c & _ & ->)].
    + unfold fmt_base, large_fmt. cbn [f_pre f_post]. rewrite <- app_assoc. eexists. reflexivity.
    + unfold fmt_at, large_fmt. cbn [f_pre f_post f_sep]. rewrite <- app_assoc. eexists. reflexivity.
  - exists (prefix_of t ++ value), d. split; [reflexivity|]. split; [exact Hp|]. split; [auto|].
    split; [reflexivity|discriminate].
Qed.

Lemma prefix_split t1 t2 x y : prefix_of t1 ++ x = prefix_of t2 ++ y ->
  x = y /\ (t1 = PFloat <-> t2 = PFloat).
Proof.
  destruct t1, t2; cbn [prefix_of]; intros E;
    try (apply app_inv_head in E; split; [exact E|split; intros; (reflexivity || discriminate)]);
    exfalso; unfold pfx_int, pfx_float in E; cbn in E; discriminate.
Qed.

Lemma eff_sep_okw v t : spell_ok v = true -> sep_okw false (eff_spelling v t) = true.
Proof.
  intros H. apply sep_ok_w in H. destruct t; cbn [eff_spelling]; [exact H| |exact H].
  apply sep_okw_app_L. exact H.
Qed.

Lemma spell_ok_chars v c : spell_ok v = true -> In c v -> okc c = true.
Proof. intros H Hin. pose proof (sep_ok_chars _ _ H) as F. rewrite Forall_forall in F. exact (F c Hin). Qed.

(* two names of the short form *)
Lemma short_short k1 k2 : key_ok k1 = true -> key_ok k2 = true ->
  prefix_of (snd k1) ++ value_of k1 = prefix_of (snd k2) ++ value_of k2 -> k1 = k2.
Proof.
  destruct k1 as [v1 t1], k2 as [v2 t2]. unfold key_ok, value_of. cbn [fst snd]. intros O1 O2 E.
  apply prefix_split in E. destruct E as (E & Fl).
  apply (sanitize_inj_w _ _ false (eff_sep_okw v1 t1 O1) (eff_sep_okw v2 t2 O2)) in E.
  destruct t1, t2; cbn [eff_spelling] in E;
    try (subst; reflexivity);
    try (exfalso; destruct Fl as (F1 & F2); (discriminate (F1 eq_refl) || discriminate (F2 eq_refl))).
  - exfalso. assert (Hin : In 76 v1) by (rewrite E; apply in_or_app; right; left; reflexivity).
    pose proof (spell_ok_chars _ _ O1 Hin) as K. vm_compute in K. discriminate.
  - exfalso. assert (Hin : In 76 v2) by (rewrite <- E; apply in_or_app; right; left; reflexivity).
    pose proof (spell_ok_chars _ _ O2 Hin) as K. vm_compute in K. discriminate.
  - apply app_inv_tail in E. subst. reflexivity.
Qed.

(* a short name is never of the abbreviated form *)
Lemma short_large k1 t2 rest : key_ok k1 = true ->
  prefix_of (snd k1) ++ value_of k1 = prefix_of t2 ++ s_large ++ rest -> False.
Proof.
  destruct k1 as [v1 t1]. unfold key_ok, value_of. cbn [fst snd]. intros O1 E.
  apply prefix_split in E. destruct E as (E & _). unfold s_large in E. cbn [app] in E.
  destruct (sanitize_head _ _ _ E) as (c & r & D & Hc).
  assert (c = 108) by lia. subst c.
  assert (Hin : In 108 (eff_spelling v1 t1)) by (rewrite D; left; reflexivity).
  assert (Hv : In 108 v1).
  { destruct t1; cbn [eff_spelling] in Hin; try exact Hin.
    apply in_app_or in Hin. destruct Hin as [H|[H|[]]]; [exact H|discriminate]. }
  pose proof (spell_ok_chars _ _ O1 Hv) as K. vm_compute in K. discriminate.
Qed.

Lemma index_find_in k ix n : index_find k ix = Some n -> In (k, n) ix.
Proof.
  induction ix as [|[k' n'] r IH]; cbn; [discriminate|].
  destruct (nkey_eqb k k') eqn:E.
  - apply nkey_eqb_iff in E. intros H. inversion H; subst. left. reflexivity.
  - intros H. right. exact (IH H).
Qed.

Lemma index_find_none k ix : index_find k ix = None -> ~ In k (map fst ix).
Proof.
  induction ix as [|[k' n'] r IH]; cbn; [tauto|].
  destruct (nkey_eqb k k') eqn:E; [discriminate|]. intros H [Hk|Hin].
  - subst. rewrite nkey_eqb_refl in E. discriminate.
  - exact (IH H Hin).
Qed.

Lemma index_find_nodup k n ix : NoDup (map fst ix) -> In (k, n) ix -> index_find k ix = Some n.
Proof.
  induction ix as [|[k' n'] r IH]; cbn; intros ND Hin; [contradiction|].
  inversion ND as [|? ? Nk NDr]; subst. destruct Hin as [H|H].
  - inversion H; subst. rewrite nkey_eqb_refl. reflexivity.
  - destruct (nkey_eqb k k') eqn:E.
    + apply nkey_eqb_iff in E. subst. exfalso. apply Nk. apply in_map_iff. exists (k', n). auto.
    + exact (IH NDr H).
Qed.

Record Inv (p : pool) : Prop := {
  inv_pos : dict_pos (p_used p);
  inv_ok : forall k n, In (k, n) (p_index p) -> key_ok k = true /\ name_shape k n (p_used p);
  inv_inj : forall k1 k2 n, In (k1, n) (p_index p) -> In (k2, n) (p_index p) -> k1 = k2;
  inv_nodup : NoDup (map fst (p_index p)) }.

Lemma Inv_empty d0 : dict_pos d0 -> Inv {| p_index := []; p_used := d0 |}.
Proof. intros H. constructor; cbn; [exact H|tauto|tauto|constructor]. Qed.

(* the name given to a new key differs from the name of every older key *)
Lemma new_name_differs p k n d' k2 :
  Inv p -> key_ok k = true -> index_find k (p_index p) = None ->
  name_shape k n d' -> (is_long_name k = true -> dmem n (p_used p) = false) ->
  In (k2, n) (p_index p) -> False.
Proof.
  intros I Ok Nf Sh Fr Hin.
  destruct (inv_ok p I k2 n Hin) as (Ok2 & Sh2).
  unfold name_shape in Sh, Sh2.
  destruct (is_long_name k) eqn:L1; destruct (is_long_name k2) eqn:L2.
  - destruct Sh2 as (M2 & _). rewrite (Fr eq_refl) in M2. discriminate.
  - destruct Sh as (_ & (rest & En)). rewrite Sh2 in En. exact (short_large _ _ _ Ok2 En).
  - destruct Sh2 as (_ & (rest & En)). rewrite Sh in En. exact (short_large _ _ _ Ok En).
  - rewrite Sh in Sh2. apply short_short in Sh2; [|exact Ok|exact Ok2]. subst k2.
    rewrite (index_find_nodup _ _ _ (inv_nodup p I) Hin) in Nf. discriminate.
Qed.

Lemma get_num_const_step p k : Inv p -> key_ok k = true ->
  exists n p', get_num_const k p = Some (n, p') /\ Inv p'
    /\ index_find k (p_index p') = Some n
    /\ (forall k' n', index_find k' (p_index p) = Some n' -> index_find k' (p_index p') = Some n').
Proof.
  intros I Ok. unfold get_num_const, get_num_const_gen.
  destruct (index_find k (p_index p)) as [n|] eqn:F.
  - exists n, p. split; [reflexivity|]. split; [exact I|]. split; [exact F|]. auto.
  - destruct k as [v t].
    destruct (new_name_spec v t (p_used p) (inv_pos p I)) as (n & d' & E & P & Mono & Sh & Fr).
    cbn [fst snd]. unfold new_num_const_cname in E. rewrite E.
    exists n, {| p_index := ((v, t), n) :: p_index p; p_used := d' |}.
    split; [reflexivity|]. split; [|split].
    + constructor; cbn [p_index p_used].
      * exact P.
      * intros k0 n0 [H|H].
        { inversion H; subst. split; [exact Ok|exact Sh]. }
        { destruct (inv_ok p I k0 n0 H) as (A & B). split; [exact A|]. exact (name_shape_mono _ _ _ _ Mono B). }
      * intros k1 k2 m [H1|H1] [H2|H2].
        { inversion H1; inversion H2; subst. reflexivity. }
        { inversion H1; subst. exfalso. exact (new_name_differs p (v, t) m d' k2 I Ok F Sh Fr H2). }
        { inversion H2; subst. exfalso. exact (new_name_differs p (v, t) m d' k1 I Ok F Sh Fr H1). }
        { exact (inv_inj p I k1 k2 m H1 H2). }
      * cbn. constructor; [exact (index_find_none _ _ F)|exact (inv_nodup p I)].
    + cbn. rewrite nkey_eqb_refl. reflexivity.
    + intros k' n' H. cbn. destruct (nkey_eqb k' (v, t)) eqn:E'; [|exact H].
      apply nkey_eqb_iff in E'. subst. rewrite H in F. discriminate.
Qed.

Lemma uniq_event_step p f : Inv p ->
  exists n d', unique_const_cname f (p_used p) = UOk n d'
    /\ Inv {| p_index := p_index p; p_used := d' |}.
Proof.
  intros I. destruct (unique_const_cname_fresh f (p_used p) (inv_pos p I))
    as (n & d' & E & _ & _ & Mono & P & _).
  exists n, d'. split; [exact E|]. constructor; cbn [p_index p_used].
  - exact P.
  - intros k0 n0 H. destruct (inv_ok p I k0 n0 H) as (A & B). split; [exact A|].
    exact (name_shape_mono _ _ _ _ Mono B).
  - exact (inv_inj p I).
  - exact (inv_nodup p I).
Qed.

Definition ev_res (p : pool) (e : event) (n : str) : Prop :=
  match e with EReq k => index_find k (p_index p) = Some n | EUniq _ => True end.

Lemma run_events_spec : forall es p, Inv p -> forallb event_okb es = true ->
  exists ns p', run_events es p = Some (ns, p') /\ Inv p'
    /\ Forall2 (ev_res p') es ns
    /\ (forall k' n', index_find k' (p_index p) = Some n' -> index_find k' (p_index p') = Some n').
Proof.
  induction es as [|e r IH]; intros p I Ok.
  - exists [], p. split; [reflexivity|]. split; [exact I|]. split; [constructor|]. auto.
  - cbn [forallb] in Ok. apply andb_prop in Ok. destruct Ok as (Ok1 & Okr).
    unfold run_events in *. cbn [run_events_gen]. destruct e as [k|f]; cbn [step_event_gen].
    + destruct (get_num_const_step p k I Ok1) as (n & p1 & E & I1 & F1 & St1).
      destruct (IH p1 I1 Okr) as (ns & p2 & E2 & I2 & F2 & St2).
      exists (n :: ns), p2. unfold get_num_const in E. rewrite E, E2.
      split; [reflexivity|]. split; [exact I2|]. split.
      * constructor; [exact (St2 _ _ F1)|exact F2].
      * intros k' n' H. exact (St2 _ _ (St1 _ _ H)).
    + destruct (uniq_event_step p f I) as (n & d' & E & I1).
      destruct (IH _ I1 Okr) as (ns & p2 & E2 & I2 & F2 & St2).
      exists (n :: ns), p2. rewrite E, E2.
      split; [reflexivity|]. split; [exact I2|]. split.
      * constructor; [exact Logic.I|exact F2].
      * intros k' n' H. exact (St2 _ _ H).
Qed.

Lemma Inv_pool0 : Inv pool0.
Proof. constructor; cbn; [constructor|tauto|tauto|constructor]. Qed.

Lemma requested_found es ns p k : Forall2 (ev_res p) es ns -> In (EReq k) es ->
  exists n, index_find k (p_index p) = Some n.
Proof.
  induction 1 as [|e n es0 ns0 H0 F0 IH]; intros Hin; [contradiction|].
  destruct Hin as [->|Hin]; [exists n; exact H0|exact (IH Hin)].
Qed.

(* Theorem: whatever a module asks for -- numeric constants interleaved with the other users of
   the name registry --, every request gets the pool's name of its key, and in the pool two
   names are equal exactly if their keys are *)
Theorem num_const_names_injective es :
  forallb event_okb es = true ->
  exists ns p, run_events es pool0 = Some (ns, p)
    /\ Forall2 (ev_res p) es ns
    /\ forall k1 k2 n1 n2, index_find k1 (p_index p) = Some n1 -> index_find k2 (p_index p) = Some n2 ->
         (n1 = n2 <-> k1 = k2).
Proof.
  intros Ok. destruct (run_events_spec es _ Inv_pool0 Ok) as (ns & p & E & I & F & _).
  exists ns, p. split; [exact E|]. split; [exact F|]. intros k1 k2 n1 n2 H1 H2. split.
  - intros <-. exact (inv_inj p I k1 k2 n1 (index_find_in _ _ _ H1) (index_find_in _ _ _ H2)).
  - intros <-. rewrite H1 in H2. inversion H2. reflexivity.
Qed.

(* without the counter two different large constants share a name: 2**256 and 2**512 as spelled
   by IntNode.generate_evaluation_code (hex) *)
Definition hex_2_256 : str := [48; 120; 49] ++ repeat 48 64.
Definition hex_2_512 : str := [48; 120; 49] ++ repeat 48 128.
Theorem names_need_counter :
  event_okb (EReq (hex_2_256, PInt)) = true /\ event_okb (EReq (hex_2_512, PInt)) = true /\
  exists n p, run_events_gen false [EReq (hex_2_256, PInt); EReq (hex_2_512, PInt)] pool0
              = Some ([n; n], p).
Proof. split; [reflexivity|]. split; [reflexivity|]. eexists. eexists. vm_compute. reflexivity. Qed.

(* ------------------------------------------------------------------ *)
(* F. generate_num_constants: every constant resolves to its own slot  *)
(* ------------------------------------------------------------------ *)

Lemma nc_insert_perm x l : Permutation (nc_insert x l) (x :: l).
Proof.
  induction l as [|y r IH]; cbn; [apply Permutation_refl|].
  destruct (nc_le y x); [|apply Permutation_refl].
  eapply Permutation_trans; [apply perm_skip; exact IH|apply perm_swap].
Qed.

Lemma nc_sort_perm l : Permutation (nc_sort l) l.
Proof.
  unfold nc_sort.
  assert (G : forall l acc, Permutation (fold_left (fun a x => nc_insert x a) l acc) (l ++ acc)).
  { induction l0 as [|x r IH]; intros acc; cbn [fold_left app]; [apply Permutation_refl|].
    eapply Permutation_trans; [apply IH|].
    eapply Permutation_trans; [apply Permutation_app_head; apply nc_insert_perm|].
    apply Permutation_sym. apply Permutation_middle. }
  specialize (G l []). rewrite app_nil_r in G. exact G.
Qed.

Lemma three_way {A} (p1 p2 p3 : A -> bool) l :
  (forall x, (p1 x = true /\ p2 x = false /\ p3 x = false) \/
             (p1 x = false /\ p2 x = true /\ p3 x = false) \/
             (p1 x = false /\ p2 x = false /\ p3 x = true)) ->
  Permutation (filter p1 l ++ filter p2 l ++ filter p3 l) l.
Proof.
  intros Ex. induction l as [|x r IH]; [apply Permutation_refl|]. cbn [filter].
  destruct (Ex x) as [(A1 & A2 & A3)|[(A1 & A2 & A3)|(A1 & A2 & A3)]]; rewrite A1, A2, A3.
  - cbn. apply perm_skip. exact IH.
  - apply Permutation_sym. apply Permutation_cons_app. apply Permutation_sym. exact IH.
  - apply Permutation_sym. rewrite app_assoc. apply Permutation_cons_app. rewrite <- app_assoc.
    apply Permutation_sym. exact IH.
Qed.

Lemma class_exclusive c :
  (is_float c = true /\ is_small c = false /\ is_large c = false) \/
  (is_float c = false /\ is_small c = true /\ is_large c = false) \/
  (is_float c = false /\ is_small c = false /\ is_large c = true).
Proof. unfold is_large, is_small. destruct (is_float c); cbn; [auto|]. destruct (match _ with Some _ => _ | None => _ end); cbn; auto. Qed.

Lemma small_slots_names : forall l cur, map fst (small_slots cur l) = map nc_name l.
Proof.
  induction l as [|c r IH]; intros cur; [reflexivity|]. cbn [small_slots].
  destruct (emit_num cur (nc_text c)) as [[b v|t]|]; cbn [map fst]; rewrite IH; reflexivity.
Qed.

Lemma layout_names cs : Permutation (map fst (layout cs)) (map nc_name cs).
Proof.
  unfold layout. rewrite !map_app, small_slots_names, !map_map. cbn [fst large_slot].
  rewrite <- !map_app. apply Permutation_map.
  eapply Permutation_trans; [apply three_way; exact class_exclusive|apply nc_sort_perm].
Qed.

Lemma small_slot_value : forall l cur c v, In c l -> is_small c = true ->
  str_to_number (nc_text c) = Some v ->
  exists s, In (nc_name c, s) (small_slots cur l) /\ slot_value s = Some v.
Proof.
  induction l as [|c0 r IH]; intros cur c v Hin Sm Sv; [contradiction|]. cbn [small_slots].
  destruct Hin as [->|Hin].
  - unfold is_small in Sm. rewrite Sv in Sm. apply andb_prop in Sm. destruct Sm as (_ & Bl).
    unfold emit_num. rewrite Sv, Bl. eexists. split; [left; reflexivity|].
    cbn [slot_value decode_emitted]. rewrite c_array_fits by lia. reflexivity.
  - destruct (emit_num cur (nc_text c0)) as [[b v0|t]|];
      match goal with |- context [small_slots ?cc r] =>
        destruct (IH cc c v Hin Sm Sv) as (s & Hs & Vs); exists s; split; [right; exact Hs|exact Vs] end.
Qed.

Lemma large_slot_value c v : is_large c = true -> str_to_number (nc_text c) = Some v ->
  slot_value (snd (large_slot c)) = Some v.
Proof.
  unfold is_large, is_small. intros L Sv. rewrite Sv in L.
  destruct (is_float c); [discriminate|]. cbn in L.
  unfold large_slot, emit_num. rewrite Sv. cbn [snd].
  destruct (bit_length v <=? 63); [discriminate|].
  cbn [slot_value decode_emitted]. apply to_base32_roundtrip.
Qed.

Lemma resolve_from_notin : forall l i name acc,
  ~ In name (map fst l) -> resolve_from i name l acc = acc.
Proof.
  induction l as [|[n s] r IH]; intros i name acc Hn; [reflexivity|]. cbn [resolve_from].
  cbn in Hn. rewrite zlist_eqb_neq by (intros ->; apply Hn; left; reflexivity).
  apply IH. intros H. apply Hn. right. exact H.
Qed.

Lemma resolve_from_nodup : forall l i acc n s, NoDup (map fst l) -> In (n, s) l ->
  exists j, resolve_from i n l acc = Some (i + Z.of_nat j) /\ nth_error l j = Some (n, s).
Proof.
  induction l as [|[n0 s0] r IH]; intros i acc n s ND Hin; [contradiction|].
  cbn [map fst] in ND. inversion ND as [|? ? Nn NDr]; subst. cbn [resolve_from].
  destruct Hin as [H|H].
  - inversion H; subst. rewrite zlist_eqb_refl. exists O. split; [|reflexivity].
    rewrite resolve_from_notin by exact Nn. f_equal. lia.
  - destruct (IH (i + 1) (if zlist_eqb n n0 then Some i else acc) n s NDr H) as (j & R & Nt).
    exists (S j). split; [|exact Nt]. rewrite R. f_equal. lia.
Qed.

(* Theorem: if the constants have pairwise different names, the #define of every integer
   constant selects a slot whose initialiser decodes to the constant's own value *)
Theorem layout_value cs c v :
  NoDup (map nc_name cs) -> In c cs -> nc_type c <> PFloat ->
  str_to_number (nc_text c) = Some v ->
  exists i s, resolve (nc_name c) (layout cs) = Some i
    /\ nth_error (layout cs) (Z.to_nat i) = Some (nc_name c, s) /\ slot_value s = Some v.
Proof.
  intros ND Hin Nf Sv.
  assert (NDl : NoDup (map fst (layout cs))).
  { eapply Permutation_NoDup; [apply Permutation_sym; apply layout_names|exact ND]. }
  assert (Hs : In c (nc_sort cs)).
  { eapply Permutation_in; [apply Permutation_sym; apply nc_sort_perm|exact Hin]. }
  assert (Ff : is_float c = false).
  { unfold is_float. destruct (nc_type c); [reflexivity|reflexivity|contradiction]. }
  assert (Hslot : exists s, In (nc_name c, s) (layout cs) /\ slot_value s = Some v).
  { unfold layout. destruct (class_exclusive c) as [(A & _)|[(_ & Sm & _)|(_ & _ & Lg)]].
    - rewrite A in Ff. discriminate.
    - destruct (small_slot_value (filter is_small (nc_sort cs)) 1 c v) as (s & Hs1 & Vs); auto.
      { apply filter_In. split; assumption. }
      exists s. split; [|exact Vs]. apply in_or_app. right. apply in_or_app. left. exact Hs1.
    - exists (snd (large_slot c)). split; [|exact (large_slot_value c v Lg Sv)].
      apply in_or_app. right. apply in_or_app. right. apply in_map_iff. exists c.
      split; [reflexivity|]. apply filter_In. split; assumption. }
  destruct Hslot as (s & Hs1 & Vs).
  destruct (resolve_from_nodup (layout cs) 0 None (nc_name c) s NDl Hs1) as (j & R & Nt).
  exists (Z.of_nat j), s. unfold resolve. rewrite R. rewrite Nat2Z.id. auto.
Qed.

Lemma names_nodup ix :
  NoDup (map fst ix) -> (forall k1 k2 n, In (k1, n) ix -> In (k2, n) ix -> k1 = k2) ->
  NoDup (map (@snd nkey str) ix).
Proof.
  induction ix as [|[k n] r IH]; intros ND Inj; cbn; [constructor|].
  cbn in ND. inversion ND as [|? ? Nk NDr]; subst. constructor.
  - intros Hin. apply in_map_iff in Hin. destruct Hin as ([k' n'] & En & Hin). cbn in En. subst n'.
    assert (k' = k) by (apply (Inj k' k n); [right; exact Hin|left; reflexivity]). subst k'.
    apply Nk. apply in_map_iff. exists (k, n). auto.
  - apply IH; [exact NDr|]. intros k1 k2 m H1 H2. apply (Inj k1 k2 m); right; assumption.
Qed.

(* Theorem (end to end): after any sequence of events, the integer constant requested under
   the text t evaluates, through its C name, the #define table and the slot initialiser, to
   the value of t *)
Theorem pool_const_value es ns p code_of k v :
  forallb event_okb es = true ->
  run_events es pool0 = Some (ns, p) ->
  In (EReq k) es -> snd k <> PFloat -> str_to_number (fst k) = Some v ->
  const_value p code_of k = Some v.
Proof.
  intros Ok Run Hin Nf Sv.
  destruct (run_events_spec es _ Inv_pool0 Ok) as (ns' & p' & E & I & F & _).
  rewrite Run in E. inversion E; subst ns' p'. clear E.
  destruct (requested_found _ _ _ _ F Hin) as (n & Fk).
  unfold const_value. rewrite Fk.
  set (c := {| nc_name := n; nc_text := fst k; nc_type := snd k; nc_code := code_of k |}).
  assert (Hc : In c (pool_consts p code_of)).
  { unfold pool_consts. apply in_map_iff. exists (k, n). split; [reflexivity|exact (index_find_in _ _ _ Fk)]. }
  assert (ND : NoDup (map nc_name (pool_consts p code_of))).
  { unfold pool_consts. rewrite map_map. cbn [nc_name].
    exact (names_nodup _ (inv_nodup p I) (inv_inj p I)). }
  destruct (layout_value _ c v ND Hc Nf Sv) as (i & s & R & Nt & Vs).
  cbn [nc_name c] in R, Nt. rewrite R, Nt. exact Vs.
Qed.

(* the texts IntNode.generate_evaluation_code hands to the pool are spellings of the theorems *)
Definition plainc (c : Z) : Prop := okc c = true /\ c <> 43 /\ c <> 46.

Lemma plain_sep_ok s : Forall plainc s -> forall p, sep_ok p s = true.
Proof.
  induction 1 as [|c r (K & N1 & N2) F IH]; intros p; [reflexivity|]. cbn [sep_ok].
  rewrite K, IH. destruct (Z.eqb_spec c 43); [contradiction|]. destruct (Z.eqb_spec c 46); [contradiction|].
  reflexivity.
Qed.

Lemma digits_plain b l : 2 <= b <= 16 ->
  Forall (fun c => exists d, 0 <= d < b /\ c = digit_char d) l -> Forall plainc l.
Proof.
  intros Hb F. eapply Forall_impl; [|exact F]. intros c (d & Hd & ->).
  unfold plainc, okc, digit_char. destruct (Z.ltb_spec d 10); lia.
Qed.

Lemma py_hex_plain v : Forall plainc (py_hex v).
Proof.
  unfold py_hex.
  assert (D : Forall plainc (if v =? 0 then [ch_0] else to_digits_pow2 4 (Z.abs v))).
  { destruct (Z.eqb_spec v 0).
    - constructor; [|constructor]. unfold plainc, okc, ch_0. lia.
    - rewrite to_digits_pow2_eq by lia.
      destruct (to_digits_spec (2 ^ 4) (Z.abs v) ltac:(lia) ltac:(lia)) as (_ & F & _).
      apply (digits_plain (2 ^ 4)); [lia|exact F]. }
  apply Forall_app. split.
  - destruct (v <? 0); constructor; [|constructor]. unfold plainc, okc, ch_minus. lia.
  - apply Forall_app. split; [|exact D].
    constructor; [unfold plainc, okc, ch_0; lia|]. constructor; [unfold plainc, okc; lia|constructor].
Qed.

Lemma py_str_plain v s : py_str v = Some s -> Forall plainc s.
Proof.
  unfold py_str. destruct (Z.eqb_spec v 0).
  - intros E. inversion E. constructor; [|constructor]. unfold plainc, okc, ch_0. lia.
  - destruct (pow10_limit <=? Z.abs v); [discriminate|]. intros E. inversion E. subst s. clear E.
    destruct (to_digits_spec 10 (Z.abs v) ltac:(lia) ltac:(lia)) as (_ & F & _).
    pose proof (digits_plain 10 _ ltac:(lia) F) as P.
    destruct (v <? 0); [|exact P]. constructor; [|exact P]. unfold plainc, okc, ch_minus. lia.
Qed.

Lemma int_const_text_spell_ok a v t : int_const_text a v = Some t -> spell_ok t = true.
Proof.
  unfold int_const_text, spell_ok. destruct (_ >? _).
  - intros E. inversion E. destruct (py_hex_roundtrip v) as (S & _). rewrite S.
    apply plain_sep_ok. apply py_hex_plain.
  - destruct (py_str v) as [s|] eqn:PS; [|discriminate]. intros E. inversion E.
    destruct (py_str_roundtrip v s PS) as (S & _). rewrite S.
    apply plain_sep_ok. exact (py_str_plain v s PS).
Qed.

Lemma int_const_text_value a v t : int_const_text a v = Some t -> str_to_number t = Some v.
Proof.
  unfold int_const_text. destruct (_ >? _).
  - intros E. inversion E. destruct (py_hex_roundtrip v) as (S & R). rewrite S. exact R.
  - destruct (py_str v) as [s|] eqn:PS; [|discriminate]. intros E. inversion E.
    destruct (py_str_roundtrip v s PS) as (S & R). rewrite S. exact R.
Qed.

(* Theorem: a Python int constant of value v -- spelled by IntNode.generate_evaluation_code, pooled
   under that text, named, numbered, #defined and initialised -- evaluates to v at run time,
   whatever else the module pools before and after it *)
Theorem int_constant_value a es ns p code_of v t :
  forallb event_okb es = true -> run_events es pool0 = Some (ns, p) ->
  int_const_text a v = Some t -> In (EReq (t, PInt)) es ->
  const_value p code_of (t, PInt) = Some v.
Proof.
  intros Ok Run T Hin.
  apply (pool_const_value es ns p code_of (t, PInt) v Ok Run Hin); cbn [fst snd];
    [discriminate|exact (int_const_text_value a v t T)].
Qed.
