(* Proofs for Model/M_Cmp.v, part 3 (SwitchTransform). *)
From Coq Require Import ZArith List Bool Lia.
From CyVerif Require Import Lib.CInt Model.M_Cmp.
Import ListNotations.
Open Scope Z_scope.

(* ---------- sorted(set(chars)) keeps the members ---------- *)
Lemma ins_sorted_mem : forall v x l,
  existsb (Z.eqb v) (ins_sorted x l) = (v =? x) || existsb (Z.eqb v) l.
Proof.
  intros v x l. induction l as [|y r IH]; [reflexivity|].
  cbn [ins_sorted]. destruct (x <? y); [reflexivity|].
  destruct (Z.eqb_spec x y) as [->|Hne].
  - cbn [existsb]. destruct (v =? y); reflexivity.
  - cbn [existsb]. rewrite IH. destruct (v =? y); destruct (v =? x); reflexivity.
Qed.

Lemma sort_dedup_mem : forall v l, existsb (Z.eqb v) (sort_dedup l) = existsb (Z.eqb v) l.
Proof.
  intros v l. unfold sort_dedup. induction l as [|x r IH]; [reflexivity|].
  cbn [fold_right existsb]. rewrite ins_sorted_mem, IH. reflexivity.
Qed.

Lemma memv_string_labels : forall v isb chars,
  memv v (string_labels isb chars) = existsb (Z.eqb v) chars.
Proof.
  intros v isb chars. unfold string_labels, memv. rewrite <- (sort_dedup_mem v chars).
  induction (sort_dedup chars) as [|c r IH]; [reflexivity|].
  cbn [map existsb l_val]. rewrite IH, (Z.eqb_sym c v). reflexivity.
Qed.

Lemma memv_app : forall v a b, memv v (a ++ b) = memv v a || memv v b.
Proof. intros. unfold memv. apply existsb_app. Qed.

Lemma zlist_eqb_eq : forall a b, zlist_eqb a b = true -> a = b.
Proof.
  induction a as [|x a IH]; intros [|y b] H; try discriminate; [reflexivity|].
  cbn in H. apply andb_true_iff in H. destruct H as [H1 H2].
  apply Z.eqb_eq in H1. subst. f_equal. apply IH. exact H2.
Qed.

Section SwitchProofs.
  Variable envv : list Z -> Z.
  Variable envo : Z -> Z.
  Variable envb : Z -> bool.

  Notation esop := (eval_sop envv envo).
  Notation econd := (eval_cond envv envo envb).

  (* the environment gives constant names their value *)
  Definition sop_wf (s : sop) : Prop :=
    match s with SConst n l => envv [n] = l_val l | _ => True end.

  Fixpoint cond_wf (c : cond) : Prop :=
    match c with
    | CCmpC _ a b _ => sop_wf a /\ sop_wf b
    | CInStr _ a _ _ => sop_wf a
    | COr a b => cond_wf a /\ cond_wf b
    | CAnd a b => cond_wf a /\ cond_wf b
    | CWrap c' => cond_wf c'
    | COther _ => True
    | CSw _ s _ => sop_wf s
    end.

  Lemma path_eval : forall s p, sop_wf s -> sop_path s = Some p -> esop s = ([], envv p).
  Proof.
    intros [p' py t|l|n l|id t] p Hwf Hp; cbn in Hp; try discriminate.
    - destruct (py && _); inversion Hp; subst. reflexivity.
    - inversion Hp; subst. cbn in Hwf. cbn. rewrite Hwf. reflexivity.
  Qed.

  Lemma common_eval : forall a b, sop_wf a -> sop_wf b -> is_common a b = true ->
    exists p, esop a = ([], envv p) /\ esop b = ([], envv p).
  Proof.
    intros a b Ha Hb H. unfold is_common in H.
    destruct (sop_path a) as [p|] eqn:Pa; [|discriminate].
    destruct (sop_path b) as [q|] eqn:Pb; [|discriminate].
    apply zlist_eqb_eq in H. subst q. exists p. split; apply path_eval; assumption.
  Qed.

  Lemma as_label_eval : forall s l, as_label s = Some l -> esop s = ([], l_val l).
  Proof. intros [p py t|l'|n l'|id t] l H; inversion H; subst; reflexivity. Qed.

  Definition sem (ni : bool) (s : sop) (ls : list label) : list event * bool :=
    (fst (esop s), xorb ni (memv (snd (esop s)) ls)).

  Lemma extract_sound : forall c allow ni s ls,
    cond_wf c -> extract true c allow = Some (ni, s, ls) ->
    sop_wf s /\ econd c = sem ni s ls.
  Proof.
    induction c as [op a b casc|neg a isb chars|a IHa b IHb|a IHa b IHb|c IH|id|ni0 s0 ls0];
      intros allow ni s ls Hwf He; cbn [extract] in He; try discriminate.
    - (* comparison *)
      destruct Hwf as [Hwa Hwb].
      destruct casc; [discriminate|].
      destruct (is_obj (sop_ty a) || is_obj (sop_ty b)); [discriminate|].
      destruct (match op with CopEq => Some false | CopNe => if allow then Some true else None
                         | CopOther => None end) as [ni'|] eqn:Eop; [|discriminate].
      assert (Hop : (op = CopEq /\ ni' = false) \/ (op = CopNe /\ ni' = true)).
      { destruct op; [left|right|discriminate].
        - inversion Eop; subst; auto.
        - destruct allow; inversion Eop; subst; auto. }
      destruct (if is_common a a then as_label b else None) as [l|] eqn:E1.
      + injection He as Hn Hs Hl; subst ni s ls. destruct (is_common a a) eqn:Ca; [|discriminate].
        destruct (common_eval a a Hwa Hwa Ca) as [p [Hp _]].
        split; [exact Hwa|]. unfold sem. cbn [eval_cond]. rewrite Hp, (as_label_eval b l E1).
        cbn [fst snd app memv existsb l_val]. rewrite ?orb_false_r.
        destruct Hop as [[-> ->]|[-> ->]]; rewrite ?xorb_false_l, ?xorb_true_l;
          first [reflexivity | rewrite (Z.eqb_sym (l_val l)); reflexivity].
      + destruct (if is_common b b then as_label a else None) as [l|] eqn:E2; [|discriminate].
        injection He as Hn Hs Hl; subst ni s ls. destruct (is_common b b) eqn:Cb; [|discriminate].
        destruct (common_eval b b Hwb Hwb Cb) as [p [Hp _]].
        split; [exact Hwb|]. unfold sem. cbn [eval_cond]. rewrite Hp, (as_label_eval a l E2).
        cbn [fst snd app memv existsb l_val]. rewrite ?orb_false_r.
        destruct Hop as [[-> ->]|[-> ->]]; rewrite ?xorb_false_l, ?xorb_true_l;
          first [reflexivity | rewrite (Z.eqb_sym (l_val l)); reflexivity].
    - (* in string literal *)
      destruct (is_int (sop_ty a)); [|discriminate].
      destruct (neg && negb allow); [discriminate|]. injection He as Hn Hs Hl; subst ni s ls.
      split; [exact Hwf|]. unfold sem. cbn [eval_cond]. rewrite memv_string_labels.
      destruct (esop a). reflexivity.
    - (* or *)
      destruct Hwf as [Hwa Hwb].
      destruct (extract true a false) as [[[n1 t1] c1]|] eqn:Ea; [|discriminate].
      destruct (extract true b false) as [[[n2 t2] c2]|] eqn:Eb; [|discriminate].
      destruct (Bool.eqb n1 n2 && is_common t1 t2) eqn:Ec; [|discriminate].
      destruct (negb n1) eqn:En; [|discriminate]. injection He as Hn Hs Hl; subst ni s ls.
      apply andb_true_iff in Ec. destruct Ec as [Enn Ecm]. apply eqb_prop in Enn. subst n2.
      destruct n1; [discriminate|].
      destruct (IHa _ _ _ _ Hwa Ea) as [W1 S1]. destruct (IHb _ _ _ _ Hwb Eb) as [W2 S2].
      destruct (common_eval _ _ W1 W2 Ecm) as [p [P1 P2]].
      split; [exact W1|]. cbn [eval_cond]. rewrite S1, S2. unfold sem. rewrite P1, P2.
      cbn [fst snd]. rewrite memv_app, !xorb_false_l. destruct (memv (envv p) c1); reflexivity.
    - (* and *)
      destruct Hwf as [Hwa Hwb]. destruct allow; [|discriminate].
      destruct (extract true a true) as [[[n1 t1] c1]|] eqn:Ea; [|discriminate].
      destruct (extract true b true) as [[[n2 t2] c2]|] eqn:Eb; [|discriminate].
      destruct (Bool.eqb n1 n2 && is_common t1 t2) eqn:Ec; [|discriminate].
      destruct n1; [|discriminate]. injection He as Hn Hs Hl; subst ni s ls.
      apply andb_true_iff in Ec. destruct Ec as [Enn Ecm]. apply eqb_prop in Enn. subst n2.
      destruct (IHa _ _ _ _ Hwa Ea) as [W1 S1]. destruct (IHb _ _ _ _ Hwb Eb) as [W2 S2].
      destruct (common_eval _ _ W1 W2 Ecm) as [p [P1 P2]].
      split; [exact W1|]. cbn [eval_cond]. rewrite S1, S2. unfold sem. rewrite P1, P2.
      cbn [fst snd]. rewrite memv_app, !xorb_true_l. destruct (memv (envv p) c1); reflexivity.
    - (* wrapper *)
      cbn [eval_cond]. eapply IH; eassumption.
  Qed.

  (* with allow_not_in = False the extracted condition is never negated *)
  Lemma extract_noallow : forall fa c ni s ls,
    extract fa c false = Some (ni, s, ls) -> ni = false.
  Proof.
    intros fa. induction c as [op a b casc|neg a isb chars|a IHa b IHb|a IHa b IHb|c IH|id|ni0 s0 ls0];
      intros ni s ls He; cbn [extract] in He; try discriminate.
    - destruct casc; [discriminate|].
      destruct (is_obj (sop_ty a) || is_obj (sop_ty b)); [discriminate|].
      destruct op; try discriminate.
      destruct (if is_common a a then as_label b else None).
      + inversion He. reflexivity.
      + destruct (if is_common b b then as_label a else None); inversion He. reflexivity.
    - destruct (is_int (sop_ty a)); [|discriminate].
      destruct neg; cbn in He; [discriminate|]. inversion He. reflexivity.
    - destruct (extract fa a false) as [[[n1 t1] c1]|]; [|discriminate].
      destruct (extract fa b false) as [[[n2 t2] c2]|]; [|discriminate].
      destruct (Bool.eqb n1 n2 && is_common t1 t2); [|discriminate].
      destruct n1; cbn in He; [discriminate|]. inversion He. reflexivity.
    - eapply IH; eassumption.
  Qed.

  Lemma extract_common_some : forall fa common c allow ni s ls,
    extract_common fa common c allow = Some (ni, s, ls) ->
    extract fa c allow = Some (ni, s, ls) /\
    (forall c0, common = Some c0 -> is_common s c0 = true).
  Proof.
    intros fa common c allow ni s ls H. unfold extract_common in H.
    destruct (extract fa c allow) as [[[n v] l]|]; [|discriminate].
    destruct (match common with Some cv => negb (is_common v cv) | None => false end) eqn:E1; [discriminate|].
    destruct (negb (is_intlike (sop_ty v)) || _); [discriminate|]. inversion H; subst.
    split; [reflexivity|]. intros c0 ->. apply negb_false_iff in E1. exact E1.
  Qed.

  (* ---- expressions ---- *)
  Lemma try_expr_sound : forall c c',
    cond_wf c -> try_expr true c = Some c' -> cond_wf c' /\ econd c' = econd c.
  Proof.
    intros c c' Hwf H. unfold try_expr in H.
    destruct (extract_common true None c true) as [[[ni v] ls]|] eqn:E; [|discriminate].
    destruct ((Z.of_nat (length ls) <? 2) || has_dup [] ls); [discriminate|]. inversion H; subst.
    apply extract_common_some in E. destruct E as [E _].
    destruct (extract_sound _ _ _ _ _ Hwf E) as [W S]. split; [exact W|].
    rewrite S. unfold sem. cbn [eval_cond]. destruct (esop v). reflexivity.
  Qed.

  Lemma xform_sound : forall c, cond_wf c -> cond_wf (xform true c) /\ econd (xform true c) = econd c.
  Proof.
    induction c as [op a b casc|neg a isb chars|a IHa b IHb|a IHa b IHb|c IH|id|ni0 s0 ls0];
      intros Hwf; cbn [xform];
      match goal with |- context [try_expr true ?c] =>
        destruct (try_expr true c) as [c'|] eqn:Et;
        [exact (try_expr_sound _ _ Hwf Et)|] end; try (split; [exact Hwf|reflexivity]).
    - destruct Hwf as [Ha Hb]. destruct (IHa Ha) as [Wa Sa]. destruct (IHb Hb) as [Wb Sb].
      split; [split; assumption|]. cbn [eval_cond]. rewrite Sa, Sb. reflexivity.
    - destruct Hwf as [Ha Hb]. destruct (IHa Ha) as [Wa Sa]. destruct (IHb Hb) as [Wb Sb].
      split; [split; assumption|]. cbn [eval_cond]. rewrite Sa, Sb. reflexivity.
    - destruct (IH Hwf) as [W S]. split; [exact W|]. cbn [eval_cond]. exact S.
  Qed.

  (* ---- statements ---- *)
  Definition sel (v : Z) (cases : list (list label * Z)) (els : option Z) : option Z :=
    match find_case v cases with Some b => Some b | None => els end.

  Definition clauses_wf (cls : list clause) : Prop := Forall (fun cl => cond_wf (c_cond cl)) cls.

  Lemma collect_sound : forall cls common cv' cases els,
    clauses_wf cls -> (forall c0, common = Some c0 -> sop_wf c0) -> cls <> [] ->
    collect true common cls = Some (cv', cases) ->
    exists cv, cv' = Some cv /\ sop_wf cv /\
      exec_clauses envv envo envb cls els = (fst (esop cv), sel (snd (esop cv)) cases els) /\
      (forall c0, common = Some c0 -> esop cv = esop c0 /\ fst (esop c0) = []).
  Proof.
    induction cls as [|cl rest IH]; intros common cv' cases els Hwf Hc0 Hne Hcol; [congruence|].
    inversion Hwf as [|? ? Hcl Hrest]; subst. cbn [collect] in Hcol.
    destruct (extract_common true common (c_cond cl) false) as [[[ni v] ls]|] eqn:E; [|discriminate].
    destruct (collect true (Some v) rest) as [[cv2 cases2]|] eqn:Ecol; [|discriminate].
    injection Hcol as Hcv Hcs; subst cv' cases.
    apply extract_common_some in E. destruct E as [E Ecm].
    pose proof (extract_noallow _ _ _ _ _ E) as Hni. subst ni.
    destruct (extract_sound _ _ _ _ _ Hcl E) as [Wv Sv].
    assert (Hcommon : forall c0, common = Some c0 -> esop v = esop c0 /\ fst (esop c0) = []).
    { intros c0 Hc. destruct (common_eval _ _ Wv (Hc0 c0 Hc) (Ecm c0 Hc)) as [p [P1 P2]].
      rewrite P1, P2. split; reflexivity. }
    destruct rest as [|cl2 rest'].
    - cbn in Ecol. injection Ecol as Hcv Hcs; subst cv2 cases2. exists v. split; [reflexivity|]. split; [exact Wv|].
      split; [|exact Hcommon].
      cbn [exec_clauses]. rewrite Sv. unfold sem, sel. cbn [find_case]. rewrite xorb_false_l.
      destruct (memv (snd (esop v)) ls); [reflexivity|]. rewrite app_nil_r. reflexivity.
    - destruct (IH (Some v) cv2 cases2 els Hrest) as [cv [-> [Wcv [Sx Hc]]]]; try assumption.
      { intros c0 Hc. inversion Hc; subst. exact Wv. }
      { discriminate. }
      destruct (Hc v eq_refl) as [Hev Hnil].
      exists cv. split; [reflexivity|]. split; [exact Wcv|]. split.
      + cbn [exec_clauses] in *. rewrite Sv. unfold sem. rewrite xorb_false_l.
        rewrite Sx. unfold sel. cbn [find_case]. rewrite Hev, Hnil.
        destruct (memv (snd (esop v)) ls); reflexivity.
      + intros c0 Hc'. destruct (Hcommon c0 Hc') as [H1 H2]. rewrite Hev. split; assumption.
  Qed.

  Lemma to_switch_sound : forall cls els s,
    clauses_wf cls -> to_switch true cls els = Some s ->
    exec_stmt envv envo envb s = exec_clauses envv envo envb cls els.
  Proof.
    intros cls els s Hwf H. unfold to_switch in H.
    destruct (collect true None cls) as [[[cv|] cases]|] eqn:Ec; try discriminate.
    destruct ((Z.of_nat (length (all_labels cases)) <? 2) || has_dup [] (all_labels cases)); [discriminate|].
    inversion H; subst.
    destruct cls as [|cl rest]; [cbn in Ec; discriminate|].
    assert (Hn : forall c0 : sop, @None sop = Some c0 -> sop_wf c0) by discriminate.
    assert (Hne : cl :: rest <> []) by discriminate.
    destruct (collect_sound _ None _ _ els Hwf Hn Hne Ec) as [cv2 [Hcv [W [S _]]]].
    inversion Hcv; subst. rewrite S. cbn [exec_stmt]. destruct (esop cv2). reflexivity.
  Qed.

  Lemma exec_clauses_xform : forall cls els,
    clauses_wf cls ->
    exec_clauses envv envo envb (map (fun cl => mkC (xform true (c_cond cl)) (c_body cl)) cls) els
    = exec_clauses envv envo envb cls els.
  Proof.
    induction cls as [|cl rest IH]; intros els Hwf; [reflexivity|].
    inversion Hwf; subst. cbn [map exec_clauses c_cond c_body].
    destruct (xform_sound _ H1) as [_ ->]. rewrite IH by assumption. reflexivity.
  Qed.

  Lemma visit_if_sound : forall cls els,
    clauses_wf cls ->
    exec_stmt envv envo envb (visit_if true cls els) = exec_clauses envv envo envb cls els.
  Proof.
    intros cls els Hwf. unfold visit_if. destruct (to_switch true cls els) as [s|] eqn:E.
    - eapply to_switch_sound; eassumption.
    - cbn [exec_stmt]. apply exec_clauses_xform. exact Hwf.
  Qed.
End SwitchProofs.

(* ---------- has_duplicate_values and the C requirement ---------- *)
Definition faithful (ls : list label) : Prop :=
  forall l1 l2, In l1 ls -> In l2 ls -> key_eqb (l_key l1) (l_key l2) = false -> l_val l1 <> l_val l2.

Lemma has_dup_seen : forall ls seen,
  has_dup seen ls = false ->
  forall l k, In l ls -> In k seen -> key_eqb (l_key l) k = false.
Proof.
  induction ls as [|l0 rest IH]; intros seen H l k Hl Hk; [contradiction|].
  cbn [has_dup] in H.
  assert (Hs : existsb (key_eqb (l_key l0)) seen = false /\ has_dup (l_key l0 :: seen) rest = false).
  { destruct (l_key l0); try discriminate;
      match type of H with (if ?e then _ else _) = _ => destruct e eqn:E; [discriminate|split; [reflexivity|exact H]] end. }
  destruct Hs as [H1 H2]. destruct Hl as [->|Hl].
  - destruct (key_eqb (l_key l) k) eqn:E; [|reflexivity].
    assert (existsb (key_eqb (l_key l)) seen = true) by (apply existsb_exists; exists k; auto). congruence.
  - apply (IH _ H2 l k Hl). right. exact Hk.
Qed.

Lemma has_dup_nodup : forall ls seen,
  has_dup seen ls = false -> faithful ls -> nodupz (map l_val ls) = true.
Proof.
  induction ls as [|l0 rest IH]; intros seen H Hf; [reflexivity|].
  pose proof (has_dup_seen _ _ H) as Hseen. cbn [has_dup] in H.
  assert (H2 : has_dup (l_key l0 :: seen) rest = false).
  { destruct (l_key l0); try discriminate;
      match type of H with (if ?e then _ else _) = _ => destruct e; [discriminate|exact H] end. }
  cbn [map nodupz]. apply andb_true_iff. split.
  - apply negb_true_iff. destruct (existsb (Z.eqb (l_val l0)) (map l_val rest)) eqn:E; [|reflexivity].
    apply existsb_exists in E. destruct E as [v [Hin Hv]]. apply Z.eqb_eq in Hv. subst v.
    apply in_map_iff in Hin. destruct Hin as [l' [Hv' Hin']].
    exfalso. apply (Hf l' l0); [right; exact Hin'|left; reflexivity| |exact Hv'].
    apply (has_dup_seen _ _ H2 l' (l_key l0) Hin'). left. reflexivity.
  - apply (IH _ H2). intros l1 l2 H1 H2'. apply Hf; right; assumption.
Qed.

Lemma lit_labels_faithful_l : forall ls, Forall (fun l => label_lit l = true) ls -> faithful ls.
Proof.
  intros ls Hall l1 l2 H1 H2 Hk Hv. rewrite Forall_forall in Hall.
  pose proof (Hall _ H1) as L1. pose proof (Hall _ H2) as L2. unfold label_lit in *.
  destruct (l_key l1); try discriminate. destruct (l_key l2); try discriminate.
  apply Z.eqb_eq in L1, L2. cbn in Hk. apply Z.eqb_neq in Hk. congruence.
Qed.

Lemma switch_valid_l : forall fa cls els subj cases els',
  to_switch fa cls els = Some (SSwitch subj cases els') ->
  faithful (all_labels cases) ->
  stmt_valid (SSwitch subj cases els') = true /\ (2 <= length (all_labels cases))%nat.
Proof.
  intros fa cls els subj cases els' H Hf. unfold to_switch in H.
  destruct (collect fa None cls) as [[[cv|] cs]|]; try discriminate.
  destruct (Z.of_nat (length (all_labels cs)) <? 2) eqn:E1; [discriminate|].
  destruct (has_dup [] (all_labels cs)) eqn:E2; [discriminate|]. inversion H; subst.
  split; [|apply Z.ltb_ge in E1; lia]. cbn [stmt_valid]. eapply has_dup_nodup; eassumption.
Qed.

Lemma expr_valid_l : forall fa c ni s ls,
  try_expr fa c = Some (CSw ni s ls) -> faithful ls ->
  nodupz (map l_val ls) = true /\ (2 <= length ls)%nat.
Proof.
  intros fa c ni s ls H Hf. unfold try_expr in H.
  destruct (extract_common fa None c true) as [[[n v] l]|]; [|discriminate].
  destruct (Z.of_nat (length l) <? 2) eqn:E1; [discriminate|].
  destruct (has_dup [] l) eqn:E2; [discriminate|]. inversion H; subst.
  split; [|apply Z.ltb_ge in E1; lia]. eapply has_dup_nodup; eassumption.
Qed.

(* the transform declines as soon as two labels have the same key *)
Lemma declines_on_duplicates_l : forall fa cls els l1 l2 pre mid post cv cases,
  collect fa None cls = Some (cv, cases) ->
  all_labels cases = pre ++ l1 :: mid ++ l2 :: post ->
  key_eqb (l_key l1) (l_key l2) = true ->
  to_switch fa cls els = None.
Proof.
  intros fa cls els l1 l2 pre mid post cv cases Hc Hl Hk. unfold to_switch. rewrite Hc.
  destruct cv; [|reflexivity].
  destruct (has_dup [] (all_labels cases)) eqn:E; [rewrite orb_true_r; reflexivity|].
  exfalso. rewrite Hl in E.
  assert (G : forall ls seen, has_dup seen (ls ++ l1 :: mid ++ l2 :: post) = false -> False).
  { induction ls as [|x r IH]; intros seen Hd.
    - cbn [app has_dup] in Hd.
      assert (H2 : has_dup (l_key l1 :: seen) (mid ++ l2 :: post) = false).
      { destruct (l_key l1); try discriminate;
          match type of Hd with (if ?e then _ else _) = _ => destruct e; [discriminate|exact Hd] end. }
      pose proof (has_dup_seen _ _ H2 l2 (l_key l1)) as Hs.
      assert (key_eqb (l_key l2) (l_key l1) = false).
      { apply Hs; [apply in_or_app; right; left; reflexivity|left; reflexivity]. }
      destruct (l_key l1), (l_key l2); cbn in *; try discriminate;
        rewrite Z.eqb_sym in Hk; congruence.
    - cbn [app has_dup] in Hd.
      destruct (l_key x); try discriminate;
        match type of Hd with (if ?e then _ else _) = _ => destruct e; [discriminate|apply (IH _ Hd)] end. }
  exact (G pre [] E).
Qed.

(* ---------- the code as it is (fix_and = false) ---------- *)
Fixpoint and_free (c : cond) : Prop :=
  match c with
  | CAnd _ _ => False
  | COr a b => and_free a /\ and_free b
  | CWrap c' => and_free c'
  | _ => True
  end.

Lemma extract_and_free : forall c allow, and_free c -> extract false c allow = extract true c allow.
Proof.
  induction c as [op a b casc|neg a isb chars|a IHa b IHb|a IHa b IHb|c IH|id|ni0 s0 ls0];
    intros allow H; cbn [extract]; try reflexivity.
  - destruct H as [Ha Hb]. rewrite (IHa false Ha), (IHb false Hb). reflexivity.
  - contradiction.
  - apply IH. exact H.
Qed.

Lemma try_expr_and_free : forall c, and_free c -> try_expr false c = try_expr true c.
Proof. intros c H. unfold try_expr, extract_common. rewrite extract_and_free by exact H. reflexivity. Qed.

Lemma xform_and_free : forall c, and_free c -> xform false c = xform true c.
Proof.
  induction c as [op a b casc|neg a isb chars|a IHa b IHb|a IHa b IHb|c IH|id|ni0 s0 ls0];
    intros H; cbn [xform]; rewrite try_expr_and_free by exact H; try reflexivity.
  - destruct H as [Ha Hb]. rewrite (IHa Ha), (IHb Hb). reflexivity.
  - contradiction.
  - rewrite (IH H). reflexivity.
Qed.

Lemma collect_and_free : forall cls common,
  Forall (fun cl => and_free (c_cond cl)) cls -> collect false common cls = collect true common cls.
Proof.
  induction cls as [|cl rest IH]; intros common H; [reflexivity|]. inversion H; subst.
  cbn [collect]. unfold extract_common. rewrite extract_and_free by assumption.
  destruct (extract true (c_cond cl) false) as [[[ni v] ls]|]; [|reflexivity].
  destruct (match common with Some cv => negb (is_common v cv) | None => false end); [reflexivity|].
  destruct (negb (is_intlike (sop_ty v)) || _); [reflexivity|]. rewrite IH by assumption. reflexivity.
Qed.

Lemma visit_if_and_free : forall cls els,
  Forall (fun cl => and_free (c_cond cl)) cls -> visit_if false cls els = visit_if true cls els.
Proof.
  intros cls els H. unfold visit_if, to_switch. rewrite collect_and_free by exact H.
  destruct (collect true None cls) as [[[cv|] cases]|]; try (f_equal; apply map_ext_in; intros cl Hin;
    rewrite Forall_forall in H; rewrite (xform_and_free _ (H cl Hin)); reflexivity).
  destruct ((Z.of_nat (length (all_labels cases)) <? 2) || has_dup [] (all_labels cases)); [|reflexivity].
  f_equal. apply map_ext_in. intros cl Hin. rewrite Forall_forall in H.
  rewrite (xform_and_free _ (H cl Hin)). reflexivity.
Qed.

(* ---------- closed statements ---------- *)
Theorem switch_eq : forall envv envo envb cls els,
  clauses_wf envv cls ->
  exec_stmt envv envo envb (visit_if true cls els) = exec_clauses envv envo envb cls els.
Proof. intros. apply visit_if_sound. assumption. Qed.

Theorem switch_accept_eq : forall envv envo envb cls els s,
  clauses_wf envv cls -> to_switch true cls els = Some s ->
  exec_stmt envv envo envb s = exec_clauses envv envo envb cls els.
Proof. intros. eapply to_switch_sound; eassumption. Qed.

Theorem switch_expr_eq : forall envv envo envb c,
  cond_wf envv c -> eval_cond envv envo envb (xform true c) = eval_cond envv envo envb c.
Proof. intros. apply xform_sound. assumption. Qed.

Theorem switch_old_eq_partial : forall envv envo envb cls els,
  clauses_wf envv cls -> Forall (fun cl => and_free (c_cond cl)) cls ->
  exec_stmt envv envo envb (visit_if false cls els) = exec_clauses envv envo envb cls els.
Proof. intros. rewrite visit_if_and_free by assumption. apply visit_if_sound. assumption. Qed.

Definition w_x : sop := SVar [1] false TyInt.
Definition w_l (z : Z) : sop := SLit (mkL (KInt z) z TyInt).

Theorem switch_and_old_refuted : exists envv envo envb c,
  cond_wf envv c /\ eval_cond envv envo envb (xform false c) <> eval_cond envv envo envb c.
Proof.
  exists (fun _ => 1), (fun _ => 0), (fun _ => false),
    (CAnd (CCmpC CopEq w_x (w_l 1) false) (CCmpC CopEq w_x (w_l 2) false)).
  split; [cbn; auto|]. vm_compute. intros H. inversion H.
Qed.

Theorem switch_labels_distinct : forall fa cls els subj cases els',
  to_switch fa cls els = Some (SSwitch subj cases els') ->
  faithful (all_labels cases) ->
  stmt_valid (SSwitch subj cases els') = true /\ (2 <= length (all_labels cases))%nat.
Proof. exact switch_valid_l. Qed.

Theorem switch_expr_labels_distinct : forall fa c ni s ls,
  try_expr fa c = Some (CSw ni s ls) -> faithful ls ->
  nodupz (map l_val ls) = true /\ (2 <= length ls)%nat.
Proof. exact expr_valid_l. Qed.

Theorem lit_labels_faithful : forall ls, Forall (fun l => label_lit l = true) ls -> faithful ls.
Proof. exact lit_labels_faithful_l. Qed.

Theorem declines_on_duplicates : forall fa cls els l1 l2 pre mid post cv cases,
  collect fa None cls = Some (cv, cases) ->
  all_labels cases = pre ++ l1 :: mid ++ l2 :: post ->
  key_eqb (l_key l1) (l_key l2) = true ->
  to_switch fa cls els = None.
Proof. exact declines_on_duplicates_l. Qed.

(* the duplicate test compares keys: a bytes character label (CharNode built from a bytes
   literal, key = the bytes object) and an integer label with the same C value pass it *)
Theorem switch_labels_unfaithful_refuted : exists cls els subj cases els',
  to_switch true cls els = Some (SSwitch subj cases els') /\
  stmt_valid (SSwitch subj cases els') = false.
Proof.
  exists [mkC (CInStr false w_x true [97; 98]) 1; mkC (CCmpC CopEq w_x (w_l 97) false) 2], None.
  eexists. eexists. eexists. split; [vm_compute; reflexivity|]. vm_compute. reflexivity.
Qed.
