(* Proofs about Model/M_CIntConv.v (CIntFromPy / CIntToPy of TypeConversion.c). *)
From Coq Require Import ZArith List Bool Lia ZifyBool.
From CyVerif Require Import Lib.CInt Lib.PyLong Model.M_CIntConv.
Import ListNotations.
Open Scope Z_scope.

(* ---- configurations the theorems quantify over ---- *)
Definition cfg_ok (c : cfg) : Prop :=
  1 <= c_sh c /\ c_sh c < c_compact c /\ 2 <= c_int c /\ c_int c <= c_long c /\
  c_long c <= c_llong c /\ 32 <= c_long c /\ 2 <= c_ssize c.

Definition overflow_kind (e : err) : bool :=
  match e with
  | Overflow | NegOverflow | CPyOverflow | CPyBytesOverflow => true
  | _ => false
  end.

(* the property for one conversion of an integer value v to the type (w,s):
   exact when it fits; otherwise OverflowError signalled correctly ((T)-1 + error indicator),
   with the "negative" message for a negative value and an unsigned target *)
Definition good (w : Z) (s : bool) (v : Z) (r : cres) : Prop :=
  if in_rangeb w s v then observe w s r = Ok v
  else exists e, observe w s r = Err e /\ overflow_kind e = true /\
                 (s = false -> v < 0 -> e = NegOverflow).

(* ---- powers of two ---- *)
Lemma pow2_le a b : 0 <= a <= b -> 2 ^ a <= 2 ^ b.
Proof. intros. apply Z.pow_le_mono_r; lia. Qed.

Lemma pow2_lt a b : 0 <= a < b -> 2 ^ a < 2 ^ b.
Proof. intros. apply Z.pow_lt_mono_r; lia. Qed.

Lemma pow2_gt0 a : 0 <= a -> 0 < 2 ^ a.
Proof. intros. apply Z.pow_pos_nonneg; lia. Qed.

(* ---- wrap ---- *)
Lemma wrap_m1_s w : 1 <= w -> wrap w true (-1) = -1.
Proof.
  intros. apply wrap_id; [lia|]. unfold in_range, min_int, max_int.
  pose proof (pow2_gt0 (w - 1) ltac:(lia)). lia.
Qed.

Lemma wrap_u_neg fw u : 0 <= fw -> - 2 ^ fw <= u < 0 -> wrap fw false u = u + 2 ^ fw.
Proof.
  intros Hw Hu. unfold wrap. symmetry. apply Z.mod_unique with (-1); lia.
Qed.

Lemma wrap_m1_u w : 1 <= w -> wrap w false (-1) = 2 ^ w - 1.
Proof.
  intros. rewrite wrap_u_neg; [lia | lia |]. pose proof (pow2_gt0 w ltac:(lia)). lia.
Qed.

Lemma observe_err w s e : observe w s (Ret (wrap w s (-1)) (Some e)) = Err e.
Proof. cbn [observe]. rewrite Z.eqb_refl. reflexivity. Qed.

Lemma in_range_u w v : 0 <= v < 2 ^ w -> in_range w false v.
Proof. unfold in_range, min_int, max_int. lia. Qed.

Lemma in_range_s w v : - 2 ^ (w - 1) <= v < 2 ^ (w - 1) -> in_range w true v.
Proof. unfold in_range, min_int, max_int. lia. Qed.

Lemma in_rangeb_false w s v : in_rangeb w s v = false <-> ~ in_range w s v.
Proof. rewrite <- in_rangeb_spec. destruct (in_rangeb w s v); intuition congruence. Qed.

(* ---- __PYX__VERIFY_RETURN_INT on a value without pending error ---- *)
Definition verify_spec (w : Z) (s : bool) (v : Z) : outcome :=
  if in_rangeb w s v then Ok v else Err (if negb s && (v <? 0) then NegOverflow else Overflow).

Lemma verify_plain w s fw fs exc v :
  1 <= w -> 1 <= fw -> in_range fw fs v ->
  (fs = false -> s = true -> v < 2 ^ (fw - 1)) ->
  (fs = true -> s = false -> fw <= w -> 0 <= v) ->
  observe w s (verify w s fw fs exc (v, None)) = verify_spec w s v.
Proof.
  intros Hw Hfw Hr H1 H2. unfold verify, verify_spec.
  pose proof (pow2_gt0 (w - 1) ltac:(lia)) as Pw1. pose proof (pow2_split w Hw) as Sw.
  pose proof (pow2_gt0 (fw - 1) ltac:(lia)) as Pf1. pose proof (pow2_split fw Hfw) as Sf.
  destruct (Z.ltb_spec w fw) as [Hlt|Hge].
  - pose proof (pow2_le w (fw - 1) ltac:(lia)) as Mle.
    destruct (in_rangeb w s v) eqn:Ein.
    + apply in_rangeb_spec in Ein. rewrite (wrap_id w s v Hw Ein), (wrap_id fw fs v Hfw Hr).
      rewrite Z.eqb_refl. reflexivity.
    + apply in_rangeb_false in Ein.
      assert (Hne : (v =? wrap fw fs (wrap w s v)) = false).
      { apply Z.eqb_neq. intros Heq.
        pose proof (wrap_in_range w s v Hw) as Hu. set (u := wrap w s v) in *.
        assert (Huv : u <> v) by (intros E; apply Ein; rewrite <- E; exact Hu).
        unfold in_range, min_int, max_int in Hu, Hr, Ein.
        destruct fs.
        - (* signed func type: u is representable in it *)
          rewrite wrap_id in Heq; [congruence | lia |].
          unfold in_range, min_int, max_int. destruct s; lia.
        - destruct (Z.ltb_spec u 0) as [Hneg|Hpos].
          + rewrite wrap_u_neg in Heq by (destruct s; lia).
            destruct s; [specialize (H1 eq_refl eq_refl); lia | lia].
          + rewrite wrap_id in Heq; [congruence | lia |].
            unfold in_range, min_int, max_int. destruct s; lia. }
      rewrite Hne. cbn [negb is_some]. rewrite andb_false_r.
      destruct (negb s && (v <? 0)); unfold raise_neg_overflow, raise_overflow; apply observe_err.
  - assert (Hin : in_range w s v).
    { pose proof (pow2_le (fw - 1) (w - 1) ltac:(lia)) as Mle.
      unfold in_range, min_int, max_int in *.
      destruct fs, s; try lia;
        try (specialize (H2 eq_refl eq_refl Hge); lia); try (specialize (H1 eq_refl eq_refl); lia). }
    rewrite (proj2 (in_rangeb_spec w s v) Hin). rewrite (wrap_id w s v Hw Hin). reflexivity.
Qed.

Lemma verify_spec_good w s v r : observe w s r = verify_spec w s v -> good w s v r.
Proof.
  intros Hr. unfold good, verify_spec in *. destruct (in_rangeb w s v); [exact Hr|].
  eexists. split; [exact Hr|]. split.
  - destruct (negb s && (v <? 0)); reflexivity.
  - intros -> Hv. cbn [negb andb]. destruct (Z.ltb_spec v 0); [reflexivity | lia].
Qed.

(* ---- the C-API fall-through: __PYX_VERIFY_RETURN_INT_EXC(T, long, PyLong_AsLong(x)) ---- *)
Lemma verify_api_signed w fw v :
  1 <= w -> w <= fw ->
  good w true v (verify w true fw true true (api_as_signed fw v)).
Proof.
  intros Hw Hle. unfold api_as_signed.
  destruct (in_rangeb fw true v) eqn:Ein.
  - apply in_rangeb_spec in Ein. apply verify_spec_good.
    apply verify_plain; try lia; try congruence.
  - apply in_rangeb_false in Ein.
    assert (Hout : in_rangeb w true v = false).
    { apply in_rangeb_false. intros Hin. apply Ein.
      pose proof (pow2_le (w - 1) (fw - 1) ltac:(lia)).
      unfold in_range, min_int, max_int in *. lia. }
    unfold good. rewrite Hout. exists CPyOverflow. split; [|split; [reflexivity | congruence]].
    unfold verify. rewrite !wrap_m1_s by lia. change (-1 =? -1) with true.
    destruct (w <? fw); cbn [negb observe]; rewrite wrap_m1_s by lia; reflexivity.
Qed.

Lemma wrap_u_allones w fw : 0 <= w <= fw -> wrap w false (2 ^ fw - 1) = 2 ^ w - 1.
Proof.
  intros H. unfold wrap. symmetry. apply Z.mod_unique with (2 ^ (fw - w) - 1).
  - pose proof (pow2_gt0 w ltac:(lia)). lia.
  - replace fw with (w + (fw - w)) at 1 by lia. rewrite Z.pow_add_r by lia. ring.
Qed.

Lemma verify_api_unsigned w fw v :
  1 <= w -> w <= fw -> 0 <= v ->
  good w false v (verify w false fw false true (api_as_unsigned fw v)).
Proof.
  intros Hw Hle Hv. unfold api_as_unsigned.
  destruct (Z.ltb_spec v 0); [lia|].
  destruct (in_rangeb fw false v) eqn:Ein.
  - apply in_rangeb_spec in Ein. apply verify_spec_good.
    apply verify_plain; try lia; try congruence.
  - apply in_rangeb_false in Ein.
    pose proof (pow2_le w fw ltac:(lia)) as Mle. pose proof (pow2_gt0 w ltac:(lia)) as Pw.
    assert (Hout : in_rangeb w false v = false).
    { apply in_rangeb_false. intros Hin. apply Ein.
      unfold in_range, min_int, max_int in *. lia. }
    unfold good. rewrite Hout. exists CPyOverflow. split; [|split; [reflexivity | lia]].
    unfold verify. rewrite (wrap_m1_u fw) by lia. rewrite (wrap_u_allones w fw) by lia.
    destruct (Z.ltb_spec w fw) as [Hlt|Hge].
    + pose proof (pow2_lt w fw ltac:(lia)) as Mlt.
      rewrite (wrap_id fw false (2 ^ w - 1)) by (try lia; apply in_range_u; lia).
      destruct (Z.eqb_spec (2 ^ fw - 1) (2 ^ w - 1)); [lia|].
      rewrite Z.eqb_refl. cbn [negb andb is_some]. apply observe_err.
    + rewrite <- (wrap_m1_u w) by lia. apply observe_err.
Qed.

(* ---- facts about a well-formed int ---- *)
Lemma wf_facts sh x : 0 <= sh -> wf sh x ->
  let m := mag sh (pl_digits x) in
  0 <= m < 2 ^ (sh * ndigits x) /\
  (pl_digits x <> [] -> 2 ^ (sh * (ndigits x - 1)) <= m) /\
  (pl_neg x = true -> value sh x = - m /\ 0 < m) /\
  (pl_neg x = false -> value sh x = m).
Proof.
  intros Hsh (Ok & La & Z0). cbv zeta. unfold ndigits, value. repeat split.
  - apply mag_nonneg; exact Ok.
  - apply mag_lt; assumption.
  - intros Hne. apply mag_ge; assumption.
  - rewrite H. reflexivity.
  - destruct (pl_digits x) eqn:E; [rewrite Z0 in H by reflexivity; discriminate|].
    apply mag_pos; try assumption. congruence.
  - intros ->. reflexivity.
Qed.

Lemma some_inj {A} (a b : A) : Some a = Some b -> a = b.
Proof. congruence. Qed.

Lemma chain_good (P : cres -> Prop) bs r :
  Forall (fun gb : bool * option cres => fst gb = true -> forall r, snd gb = Some r -> P r) bs ->
  chain bs = Some r -> P r.
Proof.
  induction 1 as [|[g b] rest Hgb _ IH]; cbn [chain]; [discriminate|].
  destruct g eqn:Eg; [|exact IH]. intros Hb. apply (Hgb eq_refl). exact Hb.
Qed.

Lemma good_ok w s v : in_range w s v -> 1 <= w -> good w s v (Ret (wrap w s v) None).
Proof.
  intros Hin Hw. unfold good. rewrite (proj2 (in_rangeb_spec w s v) Hin).
  cbn [observe]. rewrite wrap_id by assumption. reflexivity.
Qed.

Lemma good_neg w v : 1 <= w -> v < 0 -> good w false v (raise_neg_overflow w false).
Proof.
  intros Hw Hv. unfold good.
  assert (E : in_rangeb w false v = false).
  { apply in_rangeb_false. unfold in_range, min_int, max_int. lia. }
  rewrite E. exists NegOverflow. split; [apply observe_err | split; reflexivity].
Qed.

(* the large path, stated as a requirement on the configuration; discharged below *)
Definition large_ok (c : cfg) : Prop :=
  forall w s v, 1 <= w -> (s = false -> 0 <= v) -> good w s v (large c w s v).

Section WithInt.
  Variable c : cfg.
  Variable w : Z.
  Variable x : pylong.
  Hypothesis Hc : cfg_ok c.
  Hypothesis Hw : 1 <= w.
  Hypothesis Hwf : wf (c_sh c) x.
  Hypothesis Hlarge : large_ok c.

  Let sh := c_sh c.
  Let v := value (c_sh c) x.
  Let m := mag (c_sh c) (pl_digits x).

  Lemma ulong_branch_good k r : pl_neg x = false ->
    fst (ulong_branch c w x k) = true -> snd (ulong_branch c w x k) = Some r ->
    good w false v r.
  Proof.
    intros Hpos. unfold ulong_branch. cbn [fst snd]. cbv zeta. intros Hg.
    destruct Hc as (Hsh & Hcw & Hi & Hil & Hll & Hl32 & Hz).
    destruct (wf_facts (c_sh c) x ltac:(lia) Hwf) as (Hm & _ & _ & Hv). specialize (Hv Hpos).
    fold m in Hm, Hv. fold v in Hv.
    assert (Hn : ndigits x = Z.of_nat k) by lia.
    assert (Hlen : length (pl_digits x) = k) by (unfold ndigits in Hn; lia).
    rewrite Hn in Hm. destruct Hwf as (Hok & _).
    destruct (Z.ltb_spec (Z.of_nat k * c_sh c) (c_long c)) as [Hb|Hb].
    - intros Hr; apply some_inj in Hr; subst r. rewrite (join_c_exact (c_long c) false (c_sh c) k x) by (try assumption; lia).
      unfold of_join. apply verify_spec_good. rewrite Hv.
      pose proof (pow2_le (c_sh c * Z.of_nat k) (c_long c) ltac:(nia)).
      apply verify_plain; try lia; try congruence. apply in_range_u. lia.
    - destruct (Z.leb_spec (Z.of_nat k * c_sh c) w) as [Hb2|Hb2]; [|discriminate].
      intros Hr; apply some_inj in Hr; subst r. rewrite (join_c_exact w false (c_sh c) k x) by (try assumption; lia).
      unfold of_join. rewrite Hv. apply good_ok; [|lia].
      pose proof (pow2_le (c_sh c * Z.of_nat k) w ltac:(nia)). apply in_range_u. lia.
  Qed.

  Lemma pyulong_good : (c_internals c = true -> pl_neg x = false) -> good w false v (pyulong c w x).
  Proof.
    intros Hint. unfold pyulong. cbv zeta.
    assert (Hapi : 0 <= v ->
      good w false v
        (if w <=? c_long c then verify w false (c_long c) false true (api_as_unsigned (c_long c) v)
         else if w <=? c_llong c then verify w false (c_llong c) false true (api_as_unsigned (c_llong c) v)
         else large c w false v)).
    { intros Hv0. destruct (Z.leb_spec w (c_long c)); [apply verify_api_unsigned; lia|].
      destruct (Z.leb_spec w (c_llong c)); [apply verify_api_unsigned; lia|].
      apply Hlarge; [lia | intros _; exact Hv0]. }
    destruct (c_internals c) eqn:Ei.
    - specialize (Hint eq_refl).
      assert (Hv0 : 0 <= v).
      { destruct Hc as (Hsh & _).
        destruct (wf_facts (c_sh c) x ltac:(lia) Hwf) as (Hm & _ & _ & Hv). subst v. rewrite (Hv Hint). lia. }
      destruct (chain _) as [r|] eqn:Ech; [|apply Hapi; exact Hv0].
      apply (chain_good (good w false v) _ r) in Ech; [exact Ech|].
      repeat constructor; intros Hg r' Hr'; eapply ulong_branch_good; eassumption.
    - fold v. destruct (Z.ltb_spec v 0) as [Hn|Hn]; [apply good_neg; lia | apply Hapi; exact Hn].
  Qed.

  Lemma slong_pos_branch_good k r : pl_neg x = false ->
    fst (slong_pos_branch c w x k) = true -> snd (slong_pos_branch c w x k) = Some r ->
    good w true v r.
  Proof.
    intros Hpos. unfold slong_pos_branch. cbn [fst snd]. cbv zeta. intros Hg.
    destruct Hc as (Hsh & Hcw & Hi & Hil & Hll & Hl32 & Hz).
    destruct (wf_facts (c_sh c) x ltac:(lia) Hwf) as (Hm & _ & _ & Hv). specialize (Hv Hpos).
    fold m in Hm, Hv. fold v in Hv.
    assert (Hn : ndigits x = Z.of_nat k) by lia.
    assert (Hlen : length (pl_digits x) = k) by (unfold ndigits in Hn; lia).
    rewrite Hn in Hm. destruct Hwf as (Hok & _).
    destruct (Z.ltb_spec (Z.of_nat k * c_sh c) (c_long c)) as [Hb|Hb].
    - intros Hr; apply some_inj in Hr; subst r. rewrite (join_c_exact (c_long c) false (c_sh c) k x) by (try assumption; lia).
      unfold of_join. apply verify_spec_good. rewrite Hv.
      pose proof (pow2_le (c_sh c * Z.of_nat k) (c_long c - 1) ltac:(nia)).
      pose proof (pow2_split (c_long c) ltac:(lia)).
      apply verify_plain; try lia; try congruence. apply in_range_u. lia.
    - destruct (Z.ltb_spec (Z.of_nat k * c_sh c) (w - 1)) as [Hb2|Hb2]; [|discriminate].
      intros Hr; apply some_inj in Hr; subst r. rewrite (join_c_exact w true (c_sh c) k x) by (try assumption; lia).
      unfold of_join. rewrite Hv. apply good_ok; [|lia].
      pose proof (pow2_le (c_sh c * Z.of_nat k) (w - 1) ltac:(nia)). apply in_range_s. lia.
  Qed.

  Lemma slong_neg_branch_good k r : pl_neg x = true ->
    fst (slong_neg_branch c w x k) = true -> snd (slong_neg_branch c w x k) = Some r ->
    good w true v r.
  Proof.
    intros Hneg. unfold slong_neg_branch. cbn [fst snd]. cbv zeta. intros Hg.
    destruct Hc as (Hsh & Hcw & Hi & Hil & Hll & Hl32 & Hz).
    destruct (wf_facts (c_sh c) x ltac:(lia) Hwf) as (Hm & _ & Hv & _). specialize (Hv Hneg).
    fold m in Hm, Hv. fold v in Hv. destruct Hv as (Hv & Hm0).
    assert (Hn : ndigits x = Z.of_nat k) by lia.
    assert (Hlen : length (pl_digits x) = k) by (unfold ndigits in Hn; lia).
    rewrite Hn in Hm. destruct Hwf as (Hok & _).
    destruct (Z.ltb_spec (Z.of_nat k * c_sh c) (c_long c)) as [Hb|Hb].
    - intros Hr; apply some_inj in Hr; subst r. rewrite (join_c_exact (c_long c) false (c_sh c) k x) by (try assumption; lia).
      unfold of_join. fold m.
      pose proof (pow2_le (c_sh c * Z.of_nat k) (c_long c - 1) ltac:(nia)).
      pose proof (pow2_gt0 (c_long c - 1) ltac:(lia)).
      rewrite (wrap_id (c_long c) true m) by (try lia; apply in_range_s; lia).
      unfold min_int. destruct (Z.eqb_spec m (- 2 ^ (c_long c - 1))); [lia|].
      apply verify_spec_good. rewrite Hv.
      apply verify_plain; try lia; try congruence. apply in_range_s. lia.
    - destruct (Z.ltb_spec (Z.of_nat k * c_sh c) (w - 1)) as [Hb2|Hb2]; [|discriminate].
      intros Hr; apply some_inj in Hr; subst r. rewrite (join_c_exact w true (c_sh c) k x) by (try assumption; lia).
      unfold of_join. fold m.
      pose proof (pow2_le (c_sh c * Z.of_nat k) (w - 1) ltac:(nia)).
      assert (Hin : in_range w true (- m)) by (apply in_range_s; lia).
      rewrite (proj2 (in_rangeb_spec _ _ _) Hin). rewrite Hv. apply good_ok; [exact Hin | lia].
  Qed.

  Lemma pyslong_good : good w true v (pyslong c w x).
  Proof.
    unfold pyslong. cbv zeta. fold v.
    assert (Hapi : good w true v
      (if c_asint c && (w <=? c_int c) && (c_int c <? c_long c)
       then verify w true (c_int c) true true (api_as_signed (c_int c) v)
       else if w <=? c_long c then verify w true (c_long c) true true (api_as_signed (c_long c) v)
       else if w <=? c_llong c then verify w true (c_llong c) true true (api_as_signed (c_llong c) v)
       else large c w true v)).
    { destruct (c_asint c && (w <=? c_int c) && (c_int c <? c_long c)) eqn:Ea.
      - apply verify_api_signed; lia.
      - destruct (Z.leb_spec w (c_long c)); [apply verify_api_signed; lia|].
        destruct (Z.leb_spec w (c_llong c)); [apply verify_api_signed; lia|].
        apply Hlarge; [lia | congruence]. }
    destruct (c_internals c); [|exact Hapi].
    destruct (pl_neg x) eqn:En.
    - destruct (chain _) as [r|] eqn:Ech; [|exact Hapi].
      apply (chain_good (good w true v) _ r) in Ech; [exact Ech|].
      repeat constructor; intros Hg r' Hr'; eapply slong_neg_branch_good; eassumption.
    - destruct (chain _) as [r|] eqn:Ech; [|exact Hapi].
      apply (chain_good (good w true v) _ r) in Ech; [exact Ech|].
      repeat constructor; intros Hg r' Hr'; eapply slong_pos_branch_good; eassumption.
  Qed.

  (* compact (at most one digit) values *)
  Lemma compact_facts : is_compact x = true ->
    compact_value x = v /\ (pl_neg x = false -> compact_uvalue x = v) /\ - 2 ^ c_sh c < v < 2 ^ c_sh c.
  Proof.
    unfold is_compact, ndigits, compact_value, compact_uvalue, digit. intros Hcmp.
    destruct Hc as (Hsh & _). destruct Hwf as (Hok & _ & Hz).
    unfold v, value. pose proof (pow2_gt0 (c_sh c) ltac:(lia)).
    destruct (pl_digits x) as [|d [|d' r']] eqn:E; cbn [length nth mag] in *.
    - rewrite (Hz eq_refl). lia.
    - inversion Hok as [|? ? Hd _]; subst. unfold digit_ok in Hd.
      destruct (pl_neg x); repeat split; try lia; intros; try discriminate; lia.
    - lia.
  Qed.

  Theorem from_py_good s : good w s v (from_py c w s x).
  Proof.
    unfold from_py. destruct Hc as (Hsh & Hcw & Hi & Hil & Hll & Hl32 & Hz).
    destruct s; cbn [negb].
    - destruct (c_internals c && is_compact x) eqn:E; [|apply pyslong_good].
      apply andb_true_iff in E. destruct E as [_ Ecmp].
      destruct (compact_facts Ecmp) as (Hcv & _ & Hb). rewrite Hcv.
      pose proof (pow2_le (c_sh c) (c_compact c - 1) ltac:(lia)).
      apply verify_spec_good. apply verify_plain; try lia; try congruence. apply in_range_s. lia.
    - destruct (c_internals c) eqn:Ei; [|apply pyulong_good; congruence].
      destruct (pl_neg x) eqn:En.
      + destruct (wf_facts (c_sh c) x ltac:(lia) Hwf) as (_ & _ & Hv & _).
        destruct (Hv En) as (Hv1 & Hv2). apply good_neg; [lia|]. fold v in Hv1. lia.
      + destruct (is_compact x) eqn:Ecmp; [|apply pyulong_good; intros _; exact En].
        destruct (compact_facts Ecmp) as (_ & Hcu & Hb). rewrite (Hcu En).
        destruct (wf_facts (c_sh c) x ltac:(lia) Hwf) as (Hm & _ & _ & Hv). specialize (Hv En). fold v in Hv.
        pose proof (pow2_le (c_sh c) (c_compact c) ltac:(lia)).
        apply verify_spec_good. apply verify_plain; try lia; try congruence. apply in_range_u. lia.
  Qed.
End WithInt.

(* ---- __Pyx_LargePyLong_: the _PyLong_AsByteArray variant ---- *)
Lemma large_bytearray_good w s v : 1 <= w -> (s = false -> 0 <= v) -> good w s v (large_bytearray w s v).
Proof.
  intros Hw Hs. unfold large_bytearray, good.
  assert (E : negb s && (v <? 0) = false).
  { destruct s; [reflexivity|]. specialize (Hs eq_refl). cbn [negb andb]. lia. }
  rewrite E. destruct (in_rangeb w s v) eqn:Ein.
  - reflexivity.
  - exists CPyBytesOverflow. split; [apply observe_err | split; [reflexivity|]].
    intros -> Hv. specialize (Hs eq_refl). lia.
Qed.

Lemma large_ok_bytearray c : c_chunks c = false -> large_ok c.
Proof. intros Hc w s v Hw Hs. unfold large. rewrite Hc. apply large_bytearray_good; assumption. Qed.

(* ---- __Pyx_LargePyLong_: the chunk loop through the C-API (Limited API / PyPy) ---- *)
Lemma land_signbit a n : 0 <= n -> 0 <= a < 2 ^ n -> Z.land a (- 2 ^ n) = 0.
Proof.
  intros Hn Ha. replace (- 2 ^ n) with (Z.shiftl (-1) n) by (rewrite Z.shiftl_mul_pow2 by lia; lia).
  rewrite Z.land_comm. apply land_shiftl_low; assumption.
Qed.

Lemma lor_low_high lo hi n : 0 <= n -> 0 <= lo < 2 ^ n -> Z.lor lo (hi * 2 ^ n) = lo + hi * 2 ^ n.
Proof.
  intros Hn Hlo. rewrite <- Z.shiftl_mul_pow2 by lia. rewrite Z.lor_comm.
  rewrite shiftl_lor_add by assumption. rewrite Z.shiftl_mul_pow2 by lia. lia.
Qed.

Lemma land_mask a n : 0 <= n -> Z.land a (2 ^ n - 1) = a mod 2 ^ n.
Proof.
  intros Hn. replace (2 ^ n - 1) with (Z.ones n) by (rewrite Z.ones_equiv; lia).
  apply Z.land_ones. exact Hn.
Qed.

Section Chunks.
  Variables (lw w : Z) (s : bool) (chunk : Z).
  Hypothesis Hw : 1 <= w.
  Hypothesis Hchunk : 1 <= chunk <= lw - 2.

  Lemma or_shifted_exact val d bits :
    0 <= bits -> 0 <= val < 2 ^ bits -> 0 <= d ->
    (d + 1) * 2 ^ bits <= 2 ^ (w - (if s then 1 else 0)) ->
    or_shifted w s val d bits = Some (val + d * 2 ^ bits).
  Proof.
    intros Hb Hval Hd Hfit. unfold or_shifted. cbv zeta.
    pose proof (pow2_gt0 bits Hb) as Pb.
    pose proof (pow2_gt0 (w - 1) ltac:(lia)) as Pw1. pose proof (pow2_split w Hw) as Sw.
    assert (R : forall t, 0 <= t < 2 ^ (w - (if s then 1 else 0)) -> in_range w s t).
    { intros t Ht. destruct s; [apply in_range_s | apply in_range_u]; rewrite ?Z.sub_0_r in Ht; lia. }
    assert (Hdr : in_range w s d) by (apply R; nia).
    rewrite (wrap_id w s d Hw Hdr). rewrite Z.shiftl_mul_pow2 by lia.
    assert (Hsr : in_range w s (d * 2 ^ bits)) by (apply R; nia).
    rewrite (proj2 (in_rangeb_spec _ _ _) Hsr). cbn [negb]. rewrite andb_false_r.
    rewrite (wrap_id w s _ Hw Hsr). rewrite lor_low_high by assumption. reflexivity.
  Qed.

  Lemma chunk_loop_spec fuel : forall bits stepval val,
    0 <= bits -> 0 <= stepval -> 0 <= val < 2 ^ bits -> (bits = 0 \/ bits < w) ->
    w - bits < Z.of_nat fuel ->
    exists bits' stepval' val',
      chunk_loop fuel lw w s chunk bits stepval val = Some (inr (bits', stepval', val')) /\
      val' + stepval' * 2 ^ bits' = val + stepval * 2 ^ bits /\
      0 <= val' < 2 ^ bits' /\ 0 <= stepval' /\ 0 <= bits' /\ w - chunk <= bits' /\
      (bits' = 0 \/ bits' < w).
  Proof.
    induction fuel as [|f IH]; intros bits stepval val Hb Hs Hv Hbw Hf.
    - cbn in Hf. lia.
    - cbn [chunk_loop]. destruct (Z.ltb_spec bits (w - chunk)) as [Hlt|Hge].
      + rewrite land_mask by lia.
        pose proof (pow2_gt0 chunk ltac:(lia)) as Pc. pose proof (pow2_gt0 bits Hb) as Pb.
        pose proof (Z.mod_pos_bound stepval (2 ^ chunk) Pc) as Hd.
        pose proof (Z.div_mod stepval (2 ^ chunk) ltac:(lia)) as DM.
        set (d := stepval mod 2 ^ chunk) in *.
        unfold api_as_signed.
        pose proof (pow2_le chunk (lw - 1) ltac:(lia)) as Ml.
        assert (Hdin : in_rangeb lw true d = true).
        { apply in_rangeb_spec. apply in_range_s. pose proof (pow2_gt0 (lw - 1) ltac:(lia)). lia. }
        rewrite Hdin. destruct (Z.ltb_spec d 0); [lia|].
        assert (Hfit : (d + 1) * 2 ^ bits <= 2 ^ (w - (if s then 1 else 0))).
        { apply Z.le_trans with (2 ^ chunk * 2 ^ bits); [nia|].
          rewrite <- Z.pow_add_r by lia. apply pow2_le. destruct s; lia. }
        rewrite (or_shifted_exact val d bits Hb Hv ltac:(lia) Hfit).
        rewrite Z.shiftr_div_pow2 by lia.
        assert (Hq : 0 <= stepval / 2 ^ chunk) by (apply Z.div_pos; lia).
        destruct (IH (bits + chunk) (stepval / 2 ^ chunk) (val + d * 2 ^ bits))
          as (b' & s' & v' & E & Htot & Hv' & Hs' & Hb' & Hge' & Hbw'); try lia.
        * rewrite Z.pow_add_r by lia. nia.
        * exists b', s', v'. rewrite E. repeat split; try lia.
          rewrite Htot. rewrite Z.pow_add_r by lia. nia.
      + exists bits, stepval, val. repeat split; try lia.
  Qed.
End Chunks.

Lemma large_chunks_good c w s v : cfg_ok c -> 1 <= w -> (s = false -> 0 <= v) ->
  good w s v (large_chunks c w s v).
Proof.
  intros (Hsh & Hcw & Hi & Hil & Hll & Hl32 & Hz) Hw Hs. unfold large_chunks. cbv zeta.
  set (chunk := if c_long c <? 64 then 30 else 62).
  assert (Hchunk : 1 <= chunk <= c_long c - 2) by (subst chunk; destruct (Z.ltb_spec (c_long c) 64); lia).
  assert (E : negb s && (v <? 0) = false).
  { destruct s; [reflexivity|]. specialize (Hs eq_refl). cbn [negb andb]. lia. }
  rewrite E.
  set (step0 := if v <? 0 then Z.lnot v else v).
  assert (H0 : 0 <= step0) by (subst step0; unfold Z.lnot; destruct (Z.ltb_spec v 0); lia).
  set (R := w - (if s then 1 else 0)).
  assert (HR : in_range w s v <-> step0 < 2 ^ R).
  { subst step0 R. unfold Z.lnot, in_range, min_int, max_int.
    pose proof (pow2_gt0 (w - 1) ltac:(lia)). pose proof (pow2_split w Hw).
    destruct s; [|specialize (Hs eq_refl); rewrite Z.sub_0_r]; destruct (Z.ltb_spec v 0); lia. }
  destruct (chunk_loop_spec (c_long c) w s chunk Hw Hchunk (S (Z.to_nat w)) 0 step0 0)
    as (b' & s' & v' & Eloop & Htot & Hv' & Hs' & Hb' & Hge' & Hbw'); try lia.
  rewrite Eloop. rewrite Z.pow_0_r, Z.mul_1_r, Z.add_0_l in Htot.
  pose proof (pow2_gt0 b' Hb') as Pb.
  unfold api_as_signed. destruct (in_rangeb (c_long c) true s') eqn:Ein.
  - (* the remaining bits fit a long *)
    apply in_rangeb_spec in Ein. destruct (Z.ltb_spec s' 0); [lia|].
    set (rem := w - b' - (if s then 1 else 0)).
    assert (Hrem : 0 <= rem <= chunk) by (subst rem; destruct s; lia).
    destruct (Z.ltb_spec rem 0); [lia|]. destruct (Z.leb_spec (c_long c - 1) rem); [lia|].
    cbn [orb].
    assert (HRb : 2 ^ R = 2 ^ rem * 2 ^ b').
    { rewrite <- Z.pow_add_r by lia. f_equal. subst R rem. lia. }
    pose proof (pow2_gt0 rem ltac:(lia)) as Pr.
    destruct (Z.leb_spec (2 ^ rem) s') as [Hov|Hfit].
    + (* idigit >= 1L << remaining_bits : overflow *)
      unfold good. rewrite (proj2 (in_rangeb_false w s v)) by (rewrite HR; nia).
      exists Overflow. split; [apply observe_err | split; [reflexivity|]].
      intros -> Hv. specialize (Hs eq_refl). lia.
    + assert (Hin : in_range w s v) by (apply HR; nia).
      rewrite (or_shifted_exact (c_long c) w s chunk Hw Hchunk v' s' b' Hb' Hv' ltac:(lia)) by (fold R; nia).
      rewrite Htot. unfold good. rewrite (proj2 (in_rangeb_spec _ _ _) Hin).
      destruct s.
      * rewrite Z.shiftl_mul_pow2 by lia. rewrite Z.mul_1_l.
        assert (Ew : wrap w true (2 ^ (w - 1)) = - 2 ^ (w - 1)).
        { unfold wrap. pose proof (pow2_split w Hw) as Sw.
          replace (2 ^ (w - 1) + 2 ^ (w - 1)) with (2 ^ w) by lia.
          rewrite Z.mod_same by (pose proof (pow2_gt0 w ltac:(lia)); lia). lia. }
        rewrite Ew. rewrite land_signbit; [| lia |].
        2:{ subst R. apply HR in Hin. lia. }
        cbn [Z.eqb negb observe]. subst step0. destruct (Z.ltb_spec v 0).
        -- rewrite Z.lnot_involutive. rewrite wrap_id by assumption. reflexivity.
        -- reflexivity.
      * cbn [observe]. subst step0. specialize (Hs eq_refl). destruct (Z.ltb_spec v 0); [lia | reflexivity].
  - (* PyLong_AsLong(stepval) itself overflows *)
    apply in_rangeb_false in Ein. change (-1 <? 0) with true. cbv iota.
    assert (Hbig : 2 ^ (c_long c - 1) <= s').
    { unfold in_range, min_int, max_int in Ein. pose proof (pow2_gt0 (c_long c - 1) ltac:(lia)). lia. }
    assert (Hout : 2 ^ R <= step0).
    { apply Z.le_trans with (2 ^ (c_long c - 1) * 2 ^ b'); [|nia].
      rewrite <- Z.pow_add_r by lia. apply pow2_le. subst R. destruct s; lia. }
    unfold good. rewrite (proj2 (in_rangeb_false w s v)) by (rewrite HR; lia).
    exists CPyOverflow. split; [apply observe_err | split; [reflexivity|]].
    intros -> Hv. specialize (Hs eq_refl). lia.
Qed.

Theorem large_ok_all c : cfg_ok c -> large_ok c.
Proof.
  intros Hc w s v Hw Hs. unfold large. destruct (c_chunks c).
  - apply large_chunks_good; assumption.
  - apply large_bytearray_good; assumption.
Qed.

(* ---- CIntToPy ---- *)
Lemma to_py_exact c w s v : cfg_ok c -> 1 <= w -> in_range w s v -> to_py c w s v = v.
Proof.
  intros (Hsh & Hcw & Hi & Hil & Hll & Hl32 & Hz) Hw Hin. unfold to_py.
  pose proof (pow2_gt0 (w - 1) ltac:(lia)) as P1. pose proof (pow2_split w Hw) as S1.
  destruct s; cbn [negb].
  - destruct (Z.leb_spec w (c_long c)).
    + apply wrap_id; [lia|]. pose proof (pow2_le (w - 1) (c_long c - 1) ltac:(lia)).
      unfold in_range, min_int, max_int in *. lia.
    + destruct (Z.leb_spec w (c_llong c)); [|apply wrap_id; assumption].
      apply wrap_id; [lia|]. pose proof (pow2_le (w - 1) (c_llong c - 1) ltac:(lia)).
      unfold in_range, min_int, max_int in *. lia.
  - destruct (Z.ltb_spec w (c_long c)).
    + apply wrap_id; [lia|]. pose proof (pow2_le w (c_long c - 1) ltac:(lia)).
      unfold in_range, min_int, max_int in *. lia.
    + destruct (Z.leb_spec w (c_long c)).
      * apply wrap_id; [lia|]. pose proof (pow2_le w (c_long c) ltac:(lia)).
        unfold in_range, min_int, max_int in *. lia.
      * destruct (Z.leb_spec w (c_llong c)); [|apply wrap_id; assumption].
        apply wrap_id; [lia|]. pose proof (pow2_le w (c_llong c) ltac:(lia)).
        unfold in_range, min_int, max_int in *. lia.
Qed.

(* ---- the statements used by Prop/C05.v ---- *)
Theorem from_py_exact c w s x :
  cfg_ok c -> large_ok c -> 1 <= w -> wf (c_sh c) x -> in_range w s (value (c_sh c) x) ->
  observe w s (from_py c w s x) = Ok (value (c_sh c) x).
Proof.
  intros Hc Hl Hw Hwf Hin. pose proof (from_py_good c w x Hc Hw Hwf Hl s) as G.
  unfold good in G. rewrite (proj2 (in_rangeb_spec _ _ _) Hin) in G. exact G.
Qed.

Theorem from_py_overflow c w s x :
  cfg_ok c -> large_ok c -> 1 <= w -> wf (c_sh c) x -> ~ in_range w s (value (c_sh c) x) ->
  exists e, observe w s (from_py c w s x) = Err e /\ overflow_kind e = true /\
            (s = false -> value (c_sh c) x < 0 -> e = NegOverflow).
Proof.
  intros Hc Hl Hw Hwf Hin. pose proof (from_py_good c w x Hc Hw Hwf Hl s) as G.
  unfold good in G. rewrite (proj2 (in_rangeb_false _ _ _) Hin) in G. exact G.
Qed.

Theorem to_from c w s v :
  cfg_ok c -> large_ok c -> 1 <= w -> in_range w s v ->
  observe w s (from_py c w s (of_Z (c_sh c) (to_py c w s v))) = Ok v.
Proof.
  intros Hc Hl Hw Hin. rewrite (to_py_exact c w s v Hc Hw Hin).
  pose proof Hc as (Hsh & _).
  rewrite <- (value_of_Z (c_sh c) v Hsh) at 2.
  apply from_py_exact; try assumption.
  - apply wf_of_Z; assumption.
  - rewrite value_of_Z by assumption. exact Hin.
Qed.

Theorem roundtrip_exact c w s x :
  cfg_ok c -> large_ok c -> 1 <= w -> wf (c_sh c) x -> in_range w s (value (c_sh c) x) ->
  roundtrip c w s x = Ok (value (c_sh c) x).
Proof.
  intros Hc Hl Hw Hwf Hin. unfold roundtrip. rewrite from_py_exact by assumption.
  rewrite to_py_exact by assumption. reflexivity.
Qed.

(* two build variants never disagree on an int: same value, or both OverflowError *)
Definition same_verdict (o1 o2 : outcome) : Prop :=
  match o1, o2 with
  | Ok a, Ok b => a = b
  | Err e1, Err e2 => overflow_kind e1 = true /\ overflow_kind e2 = true
  | _, _ => False
  end.

Theorem variants_agree c1 c2 w s x :
  cfg_ok c1 -> cfg_ok c2 -> large_ok c1 -> large_ok c2 -> c_sh c1 = c_sh c2 ->
  1 <= w -> wf (c_sh c1) x ->
  same_verdict (observe w s (from_py c1 w s x)) (observe w s (from_py c2 w s x)).
Proof.
  intros H1 H2 L1 L2 Hsh Hw Hwf.
  pose proof (from_py_good c1 w x H1 Hw Hwf L1 s) as G1.
  assert (Hwf2 : wf (c_sh c2) x) by (rewrite <- Hsh; exact Hwf).
  pose proof (from_py_good c2 w x H2 Hw Hwf2 L2 s) as G2.
  unfold good in *. rewrite <- Hsh in G2.
  destruct (in_rangeb w s (value (c_sh c1) x)).
  - rewrite G1, G2. reflexivity.
  - destruct G1 as (e1 & -> & K1 & _). destruct G2 as (e2 & -> & K2 & _). split; assumption.
Qed.

(* ---- Py_ssize_t: __Pyx_PyLong_AsSsize_t ---- *)
Definition ssize_spec (zw v : Z) : outcome := if in_rangeb zw true v then Ok v else Err CPyOverflow.

Lemma ssize_api zw v : 1 <= zw ->
  observe zw true (let (r, e) := api_as_signed zw v in Ret r e) = ssize_spec zw v.
Proof.
  intros Hz. unfold api_as_signed, ssize_spec. destruct (in_rangeb zw true v); [reflexivity|].
  cbn [observe]. rewrite wrap_m1_s by lia. reflexivity.
Qed.

Lemma ssize_branch_good c x k r : cfg_ok c -> wf (c_sh c) x ->
  fst (ssize_branch c x k) = true -> snd (ssize_branch c x k) = Some r ->
  observe (c_ssize c) true r = ssize_spec (c_ssize c) (value (c_sh c) x).
Proof.
  intros (Hsh & Hcw & Hi & Hil & Hll & Hl32 & Hz) Hwf. unfold ssize_branch. cbn [fst snd]. cbv zeta.
  intros Hg Hr. apply some_inj in Hr. subst r.
  destruct (wf_facts (c_sh c) x ltac:(lia) Hwf) as (Hm & _ & Hvn & Hvp).
  assert (Hn : ndigits x = Z.of_nat k) by lia.
  assert (Hlen : length (pl_digits x) = k) by (unfold ndigits in Hn; lia).
  rewrite Hn in Hm. destruct Hwf as (Hok & _).
  rewrite (join_c_exact (c_ssize c) false (c_sh c) k x) by (try assumption; lia).
  unfold of_join. set (m := mag (c_sh c) (pl_digits x)) in *.
  pose proof (pow2_le (c_sh c * Z.of_nat k) (c_ssize c - 1) ltac:(nia)).
  pose proof (pow2_gt0 (c_ssize c - 1) ltac:(lia)).
  rewrite (wrap_id (c_ssize c) true m) by (try lia; apply in_range_s; lia).
  unfold ssize_spec. destruct (pl_neg x) eqn:En.
  - destruct (Hvn eq_refl) as (Hv & Hm0). rewrite Hv.
    unfold min_int. destruct (Z.eqb_spec m (- 2 ^ (c_ssize c - 1))); [lia|].
    rewrite (proj2 (in_rangeb_spec _ _ _)); [reflexivity | apply in_range_s; lia].
  - rewrite (Hvp eq_refl).
    rewrite (proj2 (in_rangeb_spec _ _ _)); [reflexivity | apply in_range_s; lia].
Qed.

Theorem ssize_exact c x : cfg_ok c -> wf (c_sh c) x ->
  observe (c_ssize c) true (pylong_as_ssize_t c x) = ssize_spec (c_ssize c) (value (c_sh c) x).
Proof.
  intros Hc Hwf. unfold pylong_as_ssize_t. cbv zeta.
  pose proof Hc as (Hsh & Hcw & Hi & Hil & Hll & Hl32 & Hz).
  destruct (c_internals c); [|apply ssize_api; lia].
  destruct (Z.eqb_spec (ndigits x) 0) as [H0|H0].
  - assert (E : pl_digits x = []) by (unfold ndigits in H0; destruct (pl_digits x); [reflexivity | cbn in H0; lia]).
    destruct Hwf as (_ & _ & Hz0). unfold value. rewrite E, (Hz0 E). cbn [mag observe]. unfold ssize_spec.
    rewrite (proj2 (in_rangeb_spec _ _ _)); [reflexivity|].
    pose proof (pow2_gt0 (c_ssize c - 1) ltac:(lia)). apply in_range_s. lia.
  - destruct (chain _) as [r|] eqn:Ech; [|apply ssize_api; lia].
    apply (chain_good (fun r => observe (c_ssize c) true r = ssize_spec (c_ssize c) (value (c_sh c) x)) _ r) in Ech;
      [exact Ech|].
    repeat constructor; intros Hg r' Hr'; eapply ssize_branch_good; eassumption.
Qed.

(* ---- objects that are not ints ---- *)
(* the rule of the property text / of CPython's own PyLong_As* (>= 3.10): an object is an
   integer exactly when it implements __index__ *)
Definition index_rule_outcome (c : cfg) (w : Z) (s : bool) (k : objkind) : outcome :=
  match pynumber_index k with
  | inl x => observe w s (from_py c w s x)
  | inr e => Err e
  end.

Definition float_1_5 : objkind := ObjKind (Some (SR_int (of_Z 30 1))) None.

(* F24: the converter asks nb_int, so 1.5 becomes 1 where TypeError is required *)
Theorem nonint_dispatch_refuted :
  exists k, observe 32 true (from_py_obj lp64_internals 32 true (PObj k)) = Ok 1 /\
            index_rule_outcome lp64_internals 32 true k = Err TypeErr.
Proof. exists float_1_5. split; vm_compute; reflexivity. Qed.

(* what does hold for every object kind: when nb_int is absent the answer is TypeError with
   type slots, and with nb_int = nb_index the converter follows the __index__ rule *)
Theorem nonint_dispatch_partial c w s k :
  (nb_int k = None -> c_slots c = true ->
     observe w s (from_py_obj c w s (PObj k)) = Err TypeErr) /\
  (nb_int k = nb_index k ->
     observe w s (from_py_obj c w s (PObj k)) = index_rule_outcome c w s k).
Proof.
  unfold from_py_obj, index_rule_outcome, pynumber_long, pynumber_index. split.
  - intros -> ->. apply observe_err.
  - intros ->. destruct (nb_index k) as [r|].
    + destruct (run_slot r); [reflexivity | apply observe_err].
    + destruct (c_slots c); apply observe_err.
Qed.

Theorem int_object_is_from_py c w s x : from_py_obj c w s (PInt x) = from_py c w s x.
Proof. reflexivity. Qed.

(* Py_ssize_t follows the __index__ rule for every object *)
Theorem ssize_obj_index_rule c k : cfg_ok c ->
  observe (c_ssize c) true (pyindex_as_ssize_t c (PObj k)) =
  match pynumber_index k with
  | inl x => observe (c_ssize c) true (pylong_as_ssize_t c x)
  | inr e => Err e
  end.
Proof.
  intros (Hsh & Hcw & Hi & Hil & Hll & Hl32 & Hz). unfold pyindex_as_ssize_t.
  destruct (pynumber_index k); [reflexivity|].
  rewrite <- (wrap_m1_s (c_ssize c)) by lia. apply observe_err.
Qed.

Theorem bint_truth c x : bint_from_py c x = if value (c_sh c) x =? 0 then 0 else 1.
Proof. unfold bint_from_py. destruct (value (c_sh c) x =? 0); reflexivity. Qed.

Lemma cfg_ok_lp64 : cfg_ok lp64_internals /\ cfg_ok lp64_nointernals /\ cfg_ok lp64_limited.
Proof. unfold cfg_ok; cbn; lia. Qed.

(* ---- unconditional forms (every configuration satisfying cfg_ok) ---- *)
Theorem from_py_exact_all c w s x :
  cfg_ok c -> 1 <= w -> wf (c_sh c) x -> in_range w s (value (c_sh c) x) ->
  observe w s (from_py c w s x) = Ok (value (c_sh c) x).
Proof. intros Hc. apply from_py_exact; [exact Hc | apply large_ok_all; exact Hc]. Qed.

Theorem from_py_overflow_all c w s x :
  cfg_ok c -> 1 <= w -> wf (c_sh c) x -> ~ in_range w s (value (c_sh c) x) ->
  exists e, observe w s (from_py c w s x) = Err e /\ overflow_kind e = true /\
            (s = false -> value (c_sh c) x < 0 -> e = NegOverflow).
Proof. intros Hc. apply from_py_overflow; [exact Hc | apply large_ok_all; exact Hc]. Qed.

Theorem to_from_all c w s v :
  cfg_ok c -> 1 <= w -> in_range w s v ->
  observe w s (from_py c w s (of_Z (c_sh c) (to_py c w s v))) = Ok v.
Proof. intros Hc. apply to_from; [exact Hc | apply large_ok_all; exact Hc]. Qed.

Theorem roundtrip_all c w s x :
  cfg_ok c -> 1 <= w -> wf (c_sh c) x -> in_range w s (value (c_sh c) x) ->
  roundtrip c w s x = Ok (value (c_sh c) x).
Proof. intros Hc. apply roundtrip_exact; [exact Hc | apply large_ok_all; exact Hc]. Qed.

Theorem variants_agree_all c1 c2 w s x :
  cfg_ok c1 -> cfg_ok c2 -> c_sh c1 = c_sh c2 -> 1 <= w -> wf (c_sh c1) x ->
  same_verdict (observe w s (from_py c1 w s x)) (observe w s (from_py c2 w s x)).
Proof. intros H1 H2. apply variants_agree; try assumption; apply large_ok_all; assumption. Qed.
