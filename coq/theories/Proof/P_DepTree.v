(* Proofs about Model/M_DepTree.v: the memoised, cycle-aware transitive merge computes the
   reflexive-transitive closure, for every finite graph, every stack discipline state and
   every history of queries on the shared cache. *)
From Coq Require Import List Arith Bool ZArith Lia.
From CyVerif Require Import Model.M_DepTree.
Import ListNotations.

Ltac splits := repeat match goal with |- _ /\ _ => split end.

(* ---------- sets as lists ---------- *)
Lemma mem_In x l : mem x l = true <-> In x l.
Proof.
  induction l as [|y t IH]; simpl.
  - split; [discriminate | tauto].
  - destruct (Nat.eqb_spec x y) as [->|Hne].
    + split; auto.
    + rewrite IH. split; [auto | intros [H|H]; [congruence | exact H]].
Qed.

Lemma union_In x a b : In x (union a b) <-> In x a \/ In x b.
Proof.
  unfold union. rewrite in_app_iff, filter_In. cbv beta. split.
  - intros [H|[H _]]; auto.
  - intros [H|H]; auto.
    destruct (mem x a) eqn:E.
    + left. apply mem_In; exact E.
    + right. split; [exact H | reflexivity].
Qed.

Lemma lookup_cons_eq {A} k (v : A) l : lookup k ((k, v) :: l) = Some v.
Proof. simpl. now rewrite Nat.eqb_refl. Qed.

Lemma lookup_cons_ne {A} k k' (v : A) l : k <> k' -> lookup k ((k', v) :: l) = lookup k l.
Proof. intros H. simpl. destruct (Nat.eqb_spec k k'); [contradiction | reflexivity]. Qed.

Lemma lookup_In_keys {A} k (l : list (node * A)) v : lookup k l = Some v -> In k (map fst l).
Proof.
  induction l as [|[k' v'] t IH]; simpl; [discriminate|].
  destruct (Nat.eqb_spec k k'); intros H; [left; auto | right; auto].
Qed.

Lemma lookup_None_keys {A} k (l : list (node * A)) : lookup k l = None -> ~ In k (map fst l).
Proof.
  induction l as [|[k' v'] t IH]; simpl; [tauto|].
  destruct (Nat.eqb_spec k k'); [discriminate|]. intros H [E|I]; [congruence | now apply IH].
Qed.

Section Graph.
  Variable outgoing : node -> list node.
  Variable extract : node -> nset.

  (* ---------- reachability ---------- *)
  Inductive reach : node -> node -> Prop :=
  | reach_refl n : reach n n
  | reach_step n c m : In c (outgoing n) -> reach c m -> reach n m.

  (* reachability inside the graph with the nodes of A removed *)
  Inductive reach_av (A : node -> Prop) : node -> node -> Prop :=
  | ra_refl n : ~ A n -> reach_av A n n
  | ra_step n c m : ~ A n -> In c (outgoing n) -> reach_av A c m -> reach_av A n m.

  (* x is an item of the closure of n *)
  Definition closure (n : node) (x : nat) : Prop := exists m, reach n m /\ In x (extract m).

  Lemma reach_trans a b c : reach a b -> reach b c -> reach a c.
  Proof. induction 1; intros; [assumption | econstructor; eauto]. Qed.

  Lemma reach_av_reach A n m : reach_av A n m -> reach n m.
  Proof. induction 1; [constructor | econstructor; eauto]. Qed.

  Lemma reach_av_mono (A B : node -> Prop) n m :
    (forall x, B x -> A x) -> reach_av A n m -> reach_av B n m.
  Proof.
    intros HBA H. induction H as [n Hn | n c m Hn Hc _ IH].
    - apply ra_refl. intros HB; apply Hn; auto.
    - eapply ra_step; eauto.
  Qed.

  Lemma reach_reach_av n m : reach n m -> reach_av (fun _ => False) n m.
  Proof. induction 1; [apply ra_refl; tauto | eapply ra_step; eauto]. Qed.

  (* first step out of n, then never through n again *)
  Lemma reach_av_split (A : node -> Prop) n x m :
    reach_av A x m ->
    reach_av (fun y => A y \/ y = n) x m \/ m = n \/
    exists c, In c (outgoing n) /\ reach_av (fun y => A y \/ y = n) c m.
  Proof.
    induction 1 as [x Hx | x c m Hx Hc _ IH].
    - destruct (Nat.eq_dec x n) as [->|Hne]; [right; left; reflexivity|].
      left. apply ra_refl. intros [H|H]; auto.
    - destruct IH as [IH|[IH|IH]]; [|right; left; exact IH|right; right; exact IH].
      destruct (Nat.eq_dec x n) as [->|Hne].
      + right; right. exists c; auto.
      + left. eapply ra_step; eauto. intros [H|H]; auto.
  Qed.

  Lemma reach_av_first (A : node -> Prop) n m :
    reach_av A n m ->
    m = n \/ exists c, In c (outgoing n) /\ reach_av (fun y => A y \/ y = n) c m.
  Proof.
    intros H. destruct (reach_av_split A n n m H) as [H1|[H1|H1]]; auto.
    exfalso. inversion H1; subst; match goal with H : ~ (_ \/ _) |- _ => apply H; right; reflexivity end.
  Qed.

  (* ---------- invariants ---------- *)
  (* every cache entry is exactly the closure of its key *)
  Definition cache_ok (seen : cache) : Prop :=
    forall k d, lookup k seen = Some d -> forall x, In x d <-> closure k x.

  Variable V : list node.       (* the finite node universe *)

  (* the stack dict: distinct keys inside V, depth indices below its length *)
  Definition stack_ok (st : stk) : Prop :=
    NoDup (map fst st) /\ incl (map fst st) V /\ forall s d, lookup s st = Some d -> d < length st.

  (* stack nodes at depth >= depth of loop: what a result with this `loop` may have stopped at *)
  Definition blocked (st : stk) (loop : option node) (s : node) : Prop :=
    match loop with
    | None => False
    | Some l => exists dl ds, lookup l st = Some dl /\ lookup s st = Some ds /\ dl <= ds
    end.

  Definition loop_ok (st : stk) (n : node) (loop : option node) : Prop :=
    forall l, loop = Some l -> (exists d, lookup l st = Some d) /\ reach n l.

  (* contract of one helper call (stack st) *)
  Definition call_spec (st : stk) (n : node) (r : result) : Prop :=
    exists deps loop seen',
      r = Ok deps loop seen' /\ cache_ok seen' /\
      (forall x, In x deps -> closure n x) /\
      (forall m, reach_av (blocked st loop) n m -> incl (extract m) deps) /\
      loop_ok st n loop.

  Lemma blocked_choose st loop sub loop1 :
    choose_loop st loop sub = Some loop1 ->
    (forall s, blocked st loop s -> blocked st loop1 s) /\
    (forall s, blocked st sub s -> blocked st loop1 s) /\
    (loop1 = loop \/ loop1 = sub).
  Proof.
    unfold choose_loop. destruct sub as [sl|].
    - destruct loop as [l|].
      + destruct (lookup l st) as [dl|] eqn:El; [|discriminate].
        destruct (lookup sl st) as [ds|] eqn:Es; [|discriminate].
        destruct (Nat.ltb_spec dl ds) as [Hlt|Hge]; intros H; inversion H; subst; clear H.
        * splits; auto. intros s (d1 & d2 & H1 & H2 & H3). simpl.
          rewrite Es in H1. inversion H1; subst. exists dl, d2. splits; auto. lia.
        * splits; auto. intros s (d1 & d2 & H1 & H2 & H3). simpl.
          rewrite El in H1. inversion H1; subst. exists ds, d2. splits; auto. lia.
      + intros H; inversion H; subst. splits; auto. intros s [].
    - intros H; inversion H; subst. splits; auto. intros s [].
  Qed.

  Lemma choose_loop_total st loop sub :
    (forall l, loop = Some l -> exists d, lookup l st = Some d) ->
    (forall l, sub = Some l -> exists d, lookup l st = Some d) ->
    exists loop1, choose_loop st loop sub = Some loop1.
  Proof.
    intros H1 H2. unfold choose_loop. destruct sub as [sl|]; [|eauto]. destruct loop as [l|]; [|eauto].
    destruct (H1 l eq_refl) as [dl ->]. destruct (H2 sl eq_refl) as [ds ->].
    destruct (dl <? ds); eauto.
  Qed.

  (* ---------- the children loop ---------- *)
  Lemma children_spec (rec : node -> cache -> result) (st : stk) (parent : node) :
    (forall c seen, In c V -> cache_ok seen -> call_spec st c (rec c seen)) ->
    forall l deps0 loop0 seen0,
      incl l V -> incl l (outgoing parent) -> cache_ok seen0 ->
      (forall l0, loop0 = Some l0 -> (exists d, lookup l0 st = Some d) /\ reach parent l0) ->
      exists deps loop seen',
        children rec st l deps0 loop0 seen0 = Ok deps loop seen' /\ cache_ok seen' /\
        incl deps0 deps /\
        (forall x, In x deps -> In x deps0 \/ exists c, In c l /\ closure c x) /\
        (forall c m, In c l -> reach_av (blocked st loop) c m -> incl (extract m) deps) /\
        (forall s, blocked st loop0 s -> blocked st loop s) /\
        (forall l1, loop = Some l1 -> (exists d, lookup l1 st = Some d) /\ reach parent l1).
  Proof.
    intros Hrec. induction l as [|c tl IH]; intros deps0 loop0 seen0 HV Hout Hc Hl0; simpl.
    - exists deps0, loop0, seen0. splits; auto using incl_refl.
      intros c m [].
    - assert (HcV : In c V) by (apply HV; left; reflexivity).
      destruct (Hrec c seen0 HcV Hc) as (sd & sl & seen1 & -> & Hc1 & Hsound & Hcompl & Hsl).
      destruct (choose_loop_total st loop0 sl) as [loop1 Hch].
      { intros l0 E. apply (Hl0 l0 E). }
      { intros l0 E. apply (Hsl l0 E). }
      rewrite Hch. destruct (blocked_choose _ _ _ _ Hch) as (Hb0 & Hbs & Hor).
      destruct (IH (union deps0 sd) loop1 seen1) as (deps & loop & seen' & Heq & Hc' & Hincl & Hsnd & Hcmp & Hbl & Hlp).
      { intros x Hx; apply HV; right; exact Hx. }
      { intros x Hx; apply Hout; right; exact Hx. }
      { exact Hc1. }
      { intros l1 E. destruct Hor as [->| ->].
        - apply (Hl0 l1 E).
        - destruct (Hsl l1 E) as [Hd Hr]. split; [exact Hd|].
          econstructor; [apply Hout; left; reflexivity | exact Hr]. }
      exists deps, loop, seen'. split; [exact Heq|]. split; [exact Hc'|]. split; [|split; [|split; [|split]]].
      + intros x Hx. apply Hincl. apply union_In. left; exact Hx.
      + intros x Hx. destruct (Hsnd x Hx) as [H|(c' & Hc'in & Hcl)].
        * apply union_In in H. destruct H as [H|H]; [left; exact H|].
          right. exists c. split; [left; reflexivity | apply Hsound; exact H].
        * right. exists c'. split; [right; exact Hc'in | exact Hcl].
      + intros c' m [<-|Hin] Hr.
        * intros x Hx. apply Hincl. apply union_In. right.
          apply (Hcompl m); [|exact Hx].
          eapply reach_av_mono; [|exact Hr]. intros s Hs. apply Hbl. apply Hbs. exact Hs.
        * apply (Hcmp c' m Hin Hr).
      + intros s Hs. apply Hbl. apply Hb0. exact Hs.
      + exact Hlp.
  Qed.

  Lemma opt_is_spec o n : opt_is o n = true <-> o = Some n.
  Proof.
    destruct o as [l|]; simpl; [|split; discriminate].
    destruct (Nat.eqb_spec l n); split; intros H; try congruence; try discriminate.
  Qed.

  Hypothesis V_closed : forall v, In v V -> incl (outgoing v) V.

  Lemma call_spec_intro st n deps loop seen' :
    cache_ok seen' ->
    (forall x, In x deps -> closure n x) ->
    (forall m, reach_av (blocked st loop) n m -> incl (extract m) deps) ->
    loop_ok st n loop ->
    call_spec st n (Ok deps loop seen').
  Proof. intros H1 H2 H3 H4. exists deps, loop, seen'. splits; auto. Qed.

  Lemma loop_ok_None st n : loop_ok st n None.
  Proof. intros l E; discriminate. Qed.

  Lemma cache_ok_add seen n deps :
    cache_ok seen -> (forall x, In x deps <-> closure n x) -> cache_ok ((n, deps) :: seen).
  Proof.
    intros Hc Hd k d. simpl. destruct (Nat.eqb_spec k n) as [->|Hne].
    - intros E; inversion E; subst d. exact Hd.
    - apply Hc.
  Qed.

  (* ---------- the helper ---------- *)
  Lemma tmh_spec : forall fuel n seen st,
    In n V -> cache_ok seen -> stack_ok st -> length V + 1 <= fuel + length st ->
    call_spec st n (tmh outgoing extract fuel n seen st).
  Proof.
    induction fuel as [|f IH]; intros n seen st HnV Hc (Hnd & HinV & Hdepth) Hfuel.
    - (* the stack never holds more than |V| nodes *)
      exfalso. assert (length (map fst st) <= length V) by (apply NoDup_incl_length; auto).
      rewrite map_length in *. lia.
    - simpl. destruct (lookup n seen) as [d|] eqn:Eseen.
      { (* cached *)
        apply call_spec_intro.
        - exact Hc.
        - intros x Hx. apply (Hc n d Eseen). exact Hx.
        - intros m Hr x Hx. apply (Hc n d Eseen). exists m. split; [eapply reach_av_reach; eauto | exact Hx].
        - apply loop_ok_None. }
      destruct (lookup n st) as [dn|] eqn:Estack.
      { (* on the stack: its own items, loop = n *)
        apply call_spec_intro.
        - exact Hc.
        - intros x Hx. exists n. split; [constructor | exact Hx].
        - intros m Hr. exfalso.
          assert (Hb : blocked st (Some n) n) by (exists dn, dn; auto).
          inversion Hr; subst; contradiction.
        - intros l E. inversion E; subst l. split; [eauto | constructor]. }
      (* a new node *)
      set (st1 := (n, length st) :: st).
      assert (Hnotin : ~ In n (map fst st)) by (apply lookup_None_keys; exact Estack).
      assert (Hst1 : stack_ok st1).
      { unfold st1. split; [|split].
        - simpl. constructor; assumption.
        - simpl. intros x [<-|Hx]; [exact HnV | apply HinV; exact Hx].
        - intros s d. simpl. destruct (Nat.eqb_spec s n).
          + intros E; inversion E; subst. lia.
          + intros E. apply Hdepth in E. lia. }
      assert (Hfuel1 : length V + 1 <= f + length st1) by (unfold st1; simpl; lia).
      destruct (children_spec (fun c s => tmh outgoing extract f c s st1) st1 n) with
          (l := outgoing n) (deps0 := extract n) (loop0 := @None node) (seen0 := seen)
        as (deps & loop & seen' & Heq & Hc' & Hincl & Hsnd & Hcmp & _ & Hlp).
      { intros c s HcV Hcs. apply IH; auto. }
      { apply V_closed; exact HnV. }
      { apply incl_refl. }
      { exact Hc. }
      { intros l0 E; discriminate. }
      rewrite Heq.
      (* soundness of the merged set *)
      assert (Hsound : forall x, In x deps -> closure n x).
      { intros x Hx. destruct (Hsnd x Hx) as [H|(c & Hcin & m & Hr & Hm)].
        - exists n. split; [constructor | exact H].
        - exists m. split; [econstructor; eauto | exact Hm]. }
      (* completeness: everything reachable without entering B, when blocked(loop) is within B + {n} *)
      assert (Hcomplete : forall (B : node -> Prop),
                 (forall s, blocked st1 loop s -> B s \/ s = n) ->
                 forall m, reach_av B n m -> incl (extract m) deps).
      { intros B HB m Hr. destruct (reach_av_first B n m Hr) as [->|(c & Hcin & Hrc)].
        - exact Hincl.
        - apply (Hcmp c m Hcin). eapply reach_av_mono; [|exact Hrc]. exact HB. }
      assert (Hcached : (forall s, blocked st1 loop s -> s = n) ->
                 call_spec st n (Ok deps None ((n, deps) :: seen'))).
      { intros Hbn.
        assert (Hall : forall m, reach n m -> incl (extract m) deps).
        { intros m Hr. apply (Hcomplete (fun _ => False)); [|apply reach_reach_av; exact Hr].
          intros s Hs. right. apply Hbn. exact Hs. }
        apply call_spec_intro.
        - apply cache_ok_add; [exact Hc'|]. intros x. split; [apply Hsound|].
          intros (m & Hr & Hm). apply (Hall m Hr). exact Hm.
        - exact Hsound.
        - intros m Hr. apply Hall. eapply reach_av_reach; eauto.
        - apply loop_ok_None. }
      destruct (opt_is loop n) eqn:Eis.
      { (* loop == node: n heads every cycle met below it; complete, cached *)
        apply opt_is_spec in Eis. subst loop. apply Hcached.
        intros s (dl & ds & H1 & H2 & H3).
        unfold st1 in H1, H2. rewrite lookup_cons_eq in H1. inversion H1; subst dl.
        simpl in H2. destruct (Nat.eqb_spec s n); [assumption|].
        apply Hdepth in H2. lia. }
      destruct loop as [l|].
      { (* an enclosing stack node is the head: not cached *)
        assert (Hln : l <> n).
        { intros ->. rewrite (proj2 (opt_is_spec (Some n) n) eq_refl) in Eis. discriminate. }
        destruct (Hlp l eq_refl) as [[dl Hdl] Hrl].
        assert (Hdl' : lookup l st = Some dl).
        { unfold st1 in Hdl. rewrite lookup_cons_ne in Hdl; auto. }
        apply call_spec_intro.
        - exact Hc'.
        - exact Hsound.
        - intros m Hr. apply (Hcomplete (blocked st (Some l))); [|exact Hr].
          intros s (d1 & d2 & H1 & H2 & H3).
          destruct (Nat.eq_dec s n) as [->|Hsn]; [right; reflexivity|]. left.
          unfold st1 in H1, H2. rewrite lookup_cons_ne in H1, H2; auto.
          exists d1, d2. auto.
        - intros l' E. inversion E; subst l'. split; [eauto | exact Hrl]. }
      (* no cycle through the stack: complete, cached *)
      apply Hcached. intros s [].
  Qed.


  Lemma stack_ok_nil : stack_ok [].
  Proof. split; [constructor | split; [intros x [] | intros s d; discriminate]]. Qed.

  Lemma cache_ok_nil : cache_ok [].
  Proof. intros k d; discriminate. Qed.

  (* one top-level query on any cache produced so far *)
  Lemma transitive_merge_correct seen q :
    In q V -> cache_ok seen ->
    exists deps seen',
      transitive_merge outgoing extract (fuel_for V) seen q = Ok deps None seen' /\
      cache_ok seen' /\ forall x, In x deps <-> closure q x.
  Proof.
    intros Hq Hc. unfold transitive_merge, fuel_for.
    destruct (tmh_spec (S (length V)) q seen [] Hq Hc stack_ok_nil) as
        (deps & loop & seen' & Heq & Hc' & Hsound & Hcompl & Hlp).
    { simpl. lia. }
    assert (loop = None) as ->.
    { destruct loop as [l|]; [|reflexivity]. destruct (Hlp l eq_refl) as [[d Hd] _]. discriminate. }
    exists deps, seen'. split; [exact Heq|]. split; [exact Hc'|].
    intros x. split; [apply Hsound|]. intros (m & Hr & Hm).
    apply (Hcompl m); [|exact Hm]. eapply reach_av_mono; [|apply reach_reach_av; exact Hr].
    intros s [].
  Qed.

  (* answers of a query sequence: pointwise the closure *)
  Definition answers_ok (qs : list node) (ans : list nset) : Prop :=
    Forall2 (fun q d => forall x, In x d <-> closure q x) qs ans.

  Lemma run_queries_correct : forall qs seen,
    incl qs V -> cache_ok seen ->
    exists ans seen',
      run_queries outgoing extract (fuel_for V) seen qs = QOk ans seen' /\
      cache_ok seen' /\ answers_ok qs ans.
  Proof.
    induction qs as [|q tl IH]; intros seen HV Hc; simpl.
    - exists [], seen. splits; auto. constructor.
    - destruct (transitive_merge_correct seen q) as (d & seen1 & -> & Hc1 & Hd); auto.
      { apply HV; left; reflexivity. }
      destruct (IH seen1) as (ans & seen2 & -> & Hc2 & Hans); auto.
      { intros x Hx; apply HV; right; exact Hx. }
      exists (d :: ans), seen2. splits; auto. constructor; auto.
  Qed.

  Theorem closure_correct qs :
    incl qs V ->
    exists ans seen',
      run_queries outgoing extract (fuel_for V) [] qs = QOk ans seen' /\
      cache_ok seen' /\ answers_ok qs ans.
  Proof. intros H. apply run_queries_correct; auto using cache_ok_nil. Qed.

  (* the contract of the helper in any well-formed state, in the words of the code *)
  Theorem helper_contract n seen st :
    In n V -> cache_ok seen -> stack_ok st ->
    exists deps loop seen',
      tmh outgoing extract (fuel_for V) n seen st = Ok deps loop seen' /\
      cache_ok seen' /\
      (forall x, In x deps -> closure n x) /\
      (forall m, reach_av (blocked st loop) n m -> incl (extract m) deps) /\
      (forall l, loop = Some l -> (exists d, lookup l st = Some d) /\ reach n l) /\
      (loop = None -> forall x, In x deps <-> closure n x).
  Proof.
    intros Hn Hc Hst.
    destruct (tmh_spec (fuel_for V) n seen st Hn Hc Hst) as
        (deps & loop & seen' & Heq & Hc' & Hsound & Hcompl & Hlp).
    { unfold fuel_for. lia. }
    exists deps, loop, seen'. splits; auto.
    intros -> x. split; [apply Hsound|].
    intros (m & Hr & Hm). apply (Hcompl m); [|exact Hm].
    eapply reach_av_mono; [|apply reach_reach_av; exact Hr]. intros s [].
  Qed.
End Graph.

(* the answer to a query does not depend on what was asked before *)
Theorem order_independent outgoing extract V qs1 qs2 q :
  (forall v, In v V -> incl (outgoing v) V) -> incl qs1 V -> incl qs2 V -> In q V ->
  exists a1 a2 ans1 ans2 s1 s2,
    run_queries outgoing extract (fuel_for V) [] (qs1 ++ [q]) = QOk (ans1 ++ [a1]) s1 /\
    run_queries outgoing extract (fuel_for V) [] (qs2 ++ [q]) = QOk (ans2 ++ [a2]) s2 /\
    forall x, In x a1 <-> In x a2.
Proof.
  intros Hcl H1 H2 Hq.
  assert (Hgen : forall qs, incl qs V -> exists a ans s,
    run_queries outgoing extract (fuel_for V) [] (qs ++ [q]) = QOk (ans ++ [a]) s /\
    forall x, In x a <-> closure outgoing extract q x).
  { intros qs Hqs.
    destruct (closure_correct outgoing extract V Hcl (qs ++ [q])) as (ans & s & Heq & _ & Hans).
    { intros x Hx. apply in_app_iff in Hx. destruct Hx as [Hx|[<-|[]]]; auto. }
    unfold answers_ok in Hans. apply Forall2_app_inv_l in Hans.
    destruct Hans as (l1 & l2 & _ & Hl2 & ->). inversion Hl2 as [|? a ? l2' Ha Hnil]; subst.
    inversion Hnil; subst. exists a, l1, s. split; auto. }
  destruct (Hgen qs1 H1) as (a1 & ans1 & s1 & E1 & C1).
  destruct (Hgen qs2 H2) as (a2 & ans2 & s2 & E2 & C2).
  exists a1, a2, ans1, ans2, s1, s2. split; [exact E1|]. split; [exact E2|].
  intros x. rewrite C1, C2. tauto.
Qed.

(* ---------- rebuild decision ---------- *)
Open Scope Z_scope.

Lemma fold_max_ge (ts : nat -> Z) l a : a <= fold_left (fun acc x => Z.max acc (ts x)) l a.
Proof. revert a. induction l as [|y t IH]; intros a; simpl; [lia|]. specialize (IH (Z.max a (ts y))). lia. Qed.

Lemma fold_max_spec (ts : nat -> Z) l a :
  let r := fold_left (fun acc x => Z.max acc (ts x)) l a in
  (forall x, In x l -> ts x <= r) /\ (r = a \/ exists x, In x l /\ r = ts x).
Proof.
  revert a. induction l as [|y t IH]; intros a; simpl.
  - split; [intros x [] | left; reflexivity].
  - destruct (IH (Z.max a (ts y))) as [Hub Hwit]. split.
    + intros x [<-|Hx]; [|apply Hub; exact Hx].
      pose proof (fold_max_ge ts t (Z.max a (ts y))). lia.
    + destruct Hwit as [E|(x & Hx & E)].
      * destruct (Z.max_spec a (ts y)) as [[_ Em]|[_ Em]].
        -- right. exists y. split; [left; reflexivity | rewrite E; exact Em].
        -- left. rewrite E; exact Em.
      * right. exists x. auto.
Qed.

Lemma newest_spec ts deps :
  deps <> [] ->
  exists t, newest ts deps = Some t /\ (forall x, In x deps -> ts x <= t) /\ exists x, In x deps /\ t = ts x.
Proof.
  destruct deps as [|d tl]; [congruence|]. intros _. simpl.
  destruct (fold_max_spec ts tl (ts d)) as [Hub Hwit]. eexists. split; [reflexivity|]. split.
  - intros x [<-|Hx]; [apply fold_max_ge | apply Hub; exact Hx].
  - destruct Hwit as [E|(x & Hx & E)]; [exists d | exists x]; auto.
Qed.

(* without force: regenerate exactly when some dependency is newer than the C file *)
Theorem rebuild_iff_newer c_ts ts source deps :
  In source deps ->
  exists b, rebuild_decision false c_ts ts source deps = Some b /\
            (b = true <-> exists x, In x deps /\ c_ts < ts x).
Proof.
  intros Hs. unfold rebuild_decision.
  destruct (Z.ltb_spec c_ts (ts source)) as [Hlt|Hge].
  - exists true. split; [reflexivity|]. split; auto. intros _. exists source. auto.
  - destruct (newest_spec ts deps) as (t & -> & Hub & x & Hx & Et).
    { intros ->. contradiction. }
    exists (c_ts <? t). split; [reflexivity|]. simpl. rewrite Z.ltb_lt. split.
    + intros H. exists x. subst t. auto.
    + intros (y & Hy & H). specialize (Hub y Hy). lia.
Qed.

Theorem rebuild_forced c_ts ts source deps :
  In source deps -> rebuild_decision true c_ts ts source deps = Some true.
Proof.
  intros Hs. unfold rebuild_decision.
  destruct (Z.ltb_spec c_ts (ts source)); [reflexivity|].
  destruct (newest_spec ts deps) as (t & -> & _). { intros ->. contradiction. }
  reflexivity.
Qed.
Close Scope Z_scope.

(* ---------- end to end: the decision on the answer of any query history ---------- *)
Theorem cythonize_exact outgoing extract V (before : list node) q (c_ts : Z) (ts : nat -> Z) :
  (forall v, In v V -> incl (outgoing v) V) -> incl before V -> In q V ->
  In q (extract q) ->                       (* immediate_dependencies contains the file itself *)
  exists ans d seen b,
    run_queries outgoing extract (fuel_for V) [] (before ++ [q]) = QOk (ans ++ [d]) seen /\
    rebuild_decision false c_ts ts q d = Some b /\
    (b = true <-> exists n x, reach outgoing q n /\ In x (extract n) /\ (c_ts < ts x)%Z).
Proof.
  intros Hcl Hb Hq Hself.
  destruct (closure_correct outgoing extract V Hcl (before ++ [q])) as (ans & s & Heq & _ & Hans).
  { intros x Hx. apply in_app_iff in Hx. destruct Hx as [Hx|[<-|[]]]; auto. }
  unfold answers_ok in Hans. apply Forall2_app_inv_l in Hans.
  destruct Hans as (l1 & l2 & _ & Hl2 & ->). inversion Hl2 as [|? d ? l2' Hd Hnil]; subst.
  inversion Hnil; subst.
  assert (Hin : In q d). { apply Hd. exists q. split; [constructor | exact Hself]. }
  destruct (rebuild_iff_newer c_ts ts q d Hin) as (b & Hb1 & Hb2).
  exists l1, d, s, b. split; [exact Heq|]. split; [exact Hb1|]. rewrite Hb2. split.
  - intros (x & Hx & Hlt). apply Hd in Hx. destruct Hx as (n & Hr & Hn). exists n, x. auto.
  - intros (n & x & Hr & Hn & Hlt). exists x. split; [|exact Hlt]. apply Hd. exists n. auto.
Qed.

(* ---------- finding from_cimport_submodule_untracked ---------- *)
(* The code as it is: pk/q0.pxd (2) is read by the compiler but is not in all_dependencies(m.pyx),
   and touching it (timestamp 30 > C file 20 > everything else 10) does not regenerate m. *)
Lemma from_cimport_scan_refuted :
  exists ans seen x,
    run_queries (wit_out false) (wit_ext false) (fuel_for [0; 1; 2]) [] [0] = QOk [ans] seen /\
    In x wit_files_read /\ ~ In x ans /\
    wit_rebuild false 20 (fun f => if Nat.eqb f 2 then 30 else 10)%Z = Some false.
Proof.
  exists [0; 1], [(0, [0; 1]); (1, [1])], 2. split; [reflexivity|]. split; [simpl; tauto|].
  split; [|reflexivity]. simpl. intros [H|[H|[]]]; discriminate.
Qed.

(* After the repair: the answer is the set of files read, and the module is regenerated exactly when
   one of the files read is newer than the C file. *)
Lemma from_cimport_scan_fixed :
  exists ans seen,
    run_queries (wit_out true) (wit_ext true) (fuel_for [0; 1; 2]) [] [0] = QOk [ans] seen /\
    (forall x, In x ans <-> In x wit_files_read) /\
    forall c_ts ts, exists b, wit_rebuild true c_ts ts = Some b /\
      (b = true <-> exists x, In x wit_files_read /\ (c_ts < ts x)%Z).
Proof.
  exists [0; 1; 2], [(0, [0; 1; 2]); (2, [2]); (1, [1])]. split; [reflexivity|]. split.
  - intros x. simpl. tauto.
  - intros c_ts ts. unfold wit_rebuild.
    change (run_queries (wit_out true) (wit_ext true) (fuel_for [0; 1; 2]) [] [0])
      with (QOk [[0; 1; 2]] [(0, [0; 1; 2]); (2, [2]); (1, [1])]).
    apply rebuild_iff_newer. simpl. tauto.
Qed.
