(* Proofs about Model/M_DepScan.v (C46: extraction of the dependency graph from sources). *)
From Coq Require Import List Arith Bool Lia.
From CyVerif Require Import Model.M_DepScan.
Import ListNotations.

(* a name component: not empty, contains no dot *)
Definition nodot (w : str) : Prop := ~ In DOT w.
Definition ident (w : str) : Prop := w <> [] /\ nodot w.
Definition idents (l : list str) : Prop := Forall ident l.

(* ------------------------------------------------------------------ split / join *)
Lemma split_nodot : forall w, nodot w -> split_dots w = [w].
Proof.
  induction w as [|c r IH]; intros H; [reflexivity|].
  cbn [split_dots]. destruct (Nat.eqb_spec c DOT) as [->|Hc].
  - exfalso. apply H. left. reflexivity.
  - rewrite IH; [reflexivity|]. intros Hin. apply H. right. exact Hin.
Qed.

Lemma split_app_dot : forall w s, nodot w -> split_dots (w ++ DOT :: s) = w :: split_dots s.
Proof.
  induction w as [|c r IH]; intros s H.
  - reflexivity.
  - cbn [app split_dots]. destruct (Nat.eqb_spec c DOT) as [->|Hc].
    + exfalso. apply H. left. reflexivity.
    + rewrite IH; [reflexivity|]. intros Hin. apply H. right. exact Hin.
Qed.

Lemma split_join : forall l, l <> [] -> Forall nodot l -> split_dots (join_dots l) = l.
Proof.
  induction l as [|x r IH]; intros Hne Hf; [congruence|].
  inversion Hf as [|? ? Hx Hr]; subst.
  destruct r as [|y r'].
  - cbn [join_dots]. apply split_nodot. exact Hx.
  - change (join_dots (x :: y :: r')) with (x ++ DOT :: join_dots (y :: r')).
    rewrite split_app_dot by exact Hx. rewrite IH; [reflexivity|discriminate|exact Hr].
Qed.

Lemma split_repeat : forall n s, split_dots (repeat DOT n ++ s) = repeat [] n ++ split_dots s.
Proof.
  induction n as [|n IH]; intros s; [reflexivity|].
  cbn [repeat app split_dots]. rewrite Nat.eqb_refl. rewrite IH. reflexivity.
Qed.

Lemma idents_nodot : forall l, idents l -> Forall nodot l.
Proof. intros l H. eapply Forall_impl; [|exact H]. intros a [_ Ha]. exact Ha. Qed.

Lemma join_snoc : forall p w, p <> [] -> join_dots (p ++ [w]) = join_dots p ++ DOT :: w.
Proof.
  induction p as [|x r IH]; intros w Hne; [congruence|].
  destruct r as [|y r'].
  - reflexivity.
  - change (join_dots ((x :: y :: r') ++ [w])) with (x ++ DOT :: join_dots ((y :: r') ++ [w])).
    rewrite IH by discriminate.
    change (join_dots (x :: y :: r')) with (x ++ DOT :: join_dots (y :: r')).
    rewrite <- app_assoc. reflexivity.
Qed.

(* ------------------------------------------------------------------ endswith / startswith *)
Lemma ends_with_dot_snoc : forall s c, ends_with_dot (s ++ [c]) = Nat.eqb c DOT.
Proof.
  induction s as [|a r IH]; intros c; [reflexivity|].
  cbn [app ends_with_dot]. destruct (r ++ [c]) eqn:E.
  - destruct r; discriminate.
  - rewrite <- E. apply IH.
Qed.

Lemma ends_with_dot_repeat : forall n, ends_with_dot (repeat DOT (S n)) = true.
Proof.
  intros n. replace (S n) with (n + 1) by lia. rewrite repeat_app. cbn [repeat].
  rewrite ends_with_dot_snoc. reflexivity.
Qed.

(* the last component of a non-empty path of identifiers ends the rendered string with a non-dot *)
Lemma render_ends_nodot : forall level path, path <> [] -> idents path ->
  ends_with_dot (render level path) = false.
Proof.
  intros level path Hne Hid.
  destruct (exists_last Hne) as (p' & w & ->).
  apply Forall_app in Hid. destruct Hid as [_ Hw]. inversion Hw as [|? ? [Hwne Hwnd] _]; subst.
  destruct (exists_last Hwne) as (w' & c & ->).
  assert (Hc : c <> DOT). { intros ->. apply Hwnd. apply in_or_app. right. left. reflexivity. }
  unfold render.
  assert (E : exists Y, repeat DOT level ++ join_dots (p' ++ [w' ++ [c]]) = Y ++ [c]).
  { destruct p' as [|x r].
    - exists (repeat DOT level ++ w'). cbn [app join_dots]. rewrite app_assoc. reflexivity.
    - rewrite join_snoc by discriminate.
      exists (repeat DOT level ++ join_dots (x :: r) ++ DOT :: w').
      rewrite <- !app_assoc. reflexivity. }
  destruct E as [Y E].
  transitivity (ends_with_dot (Y ++ [c])); [f_equal; exact E|].
  rewrite ends_with_dot_snoc. apply Nat.eqb_neq. exact Hc.
Qed.

Lemma starts_with_dot_render_S : forall k path, starts_with_dot (render (S k) path) = true.
Proof. reflexivity. Qed.

Lemma starts_with_dot_join : forall path, path <> [] -> idents path ->
  starts_with_dot (join_dots path) = false.
Proof.
  intros [|x r] Hne Hid; [congruence|].
  inversion Hid as [|? ? [Hxne Hxnd] _]; subst.
  destruct x as [|c x']; [congruence|].
  assert (Hc : c <> DOT). { intros ->. apply Hxnd. left. reflexivity. }
  destruct r; cbn [join_dots app starts_with_dot]; apply Nat.eqb_neq; exact Hc.
Qed.

(* ------------------------------------------------------------------ the candidate strings *)
(* "from <level dots><path> cimport w" records <from> + sep + w, which is the rendering of
   (level, path ++ [w]) *)
Lemma candidate_is_render : forall level path w,
  1 <= level + length path -> idents path ->
  render level path ++ sep_of SepEndsWithDot (render level path) ++ w = render level (path ++ [w]).
Proof.
  intros level path w Hpos Hid. unfold sep_of.
  destruct path as [|x r].
  - destruct level as [|k]; [cbn in Hpos; lia|].
    unfold render at 2. cbn [join_dots]. rewrite app_nil_r. rewrite ends_with_dot_repeat.
    unfold render. cbn [join_dots app]. rewrite app_nil_r. reflexivity.
  - rewrite render_ends_nodot by (try discriminate; exact Hid).
    unfold render. rewrite join_snoc by discriminate. rewrite <- app_assoc. reflexivity.
Qed.

Lemma scan_from_cimports : forall level path names,
  1 <= level + length path -> idents path ->
  from_candidates SepEndsWithDot (render level path) names
  = render level path :: map (fun w => render level (path ++ [w])) names.
Proof.
  intros level path names Hpos Hid. unfold from_candidates. f_equal.
  apply map_ext. intros w. apply candidate_is_render; assumption.
Qed.

(* ------------------------------------------------------------------ find_pxd *)
Definition no_leading_empty (rest : list str) : Prop :=
  match rest with [] :: _ => False | _ => True end.

Lemma strip_levels_repeat : forall k p rest, no_leading_empty rest ->
  strip_levels p (repeat [] k ++ rest) = if k <=? length p then Some (skipn k p, rest) else None.
Proof.
  induction k as [|k IH]; intros p rest Hr.
  - cbn [repeat app]. destruct rest as [|h t]; [reflexivity|].
    destruct h; [contradiction|]. reflexivity.
  - cbn [repeat app strip_levels]. destruct p as [|a p']; [reflexivity|].
    rewrite IH by exact Hr. reflexivity.
Qed.

Lemma idents_no_leading_empty : forall path, idents path -> no_leading_empty path.
Proof.
  intros [|x r] H; [exact I|]. inversion H as [|? ? [Hne _] _]; subst. destruct x; [congruence|exact I].
Qed.

Lemma base_of_skipn : forall k (pkg : list str),
  rev (skipn k (rev pkg)) = firstn (length pkg - k) pkg.
Proof. intros. rewrite skipn_rev. apply rev_involutive. Qed.

Lemma drop_trailing_empty_ident : forall l w, w <> [] -> drop_trailing_empty (l ++ [w]) = l ++ [w].
Proof.
  intros l w Hw. unfold drop_trailing_empty. rewrite rev_app_distr. cbn [rev app].
  destruct w; [congruence|reflexivity].
Qed.

Lemma drop_trailing_empty_path : forall k path, path <> [] -> idents path ->
  drop_trailing_empty (repeat [] k ++ path) = repeat [] k ++ path.
Proof.
  intros k path Hne Hid. destruct (exists_last Hne) as (p' & w & ->).
  apply Forall_app in Hid. destruct Hid as [_ Hw]. inversion Hw as [|? ? [Hwne _] _]; subst.
  rewrite app_assoc. apply drop_trailing_empty_ident. exact Hwne.
Qed.

Lemma drop_trailing_empty_dots : forall k, drop_trailing_empty (repeat ([] : str) k ++ [[]]) = repeat [] k.
Proof.
  intros k. unfold drop_trailing_empty. rewrite rev_app_distr. cbn [rev app]. apply rev_involutive.
Qed.

(* a relative cimport with a module part: exactly one candidate, the name the import rule gives *)
Theorem resolve_relative : forall fixed level path pkg,
  1 <= level -> level <= length pkg -> path <> [] -> idents path ->
  exists q, import_rule level path pkg = Some q /\
            find_pxd_cands fixed (render level path) pkg = Some [join_dots q].
Proof.
  intros fixed level path pkg Hl Hle Hne Hid.
  destruct level as [|k]; [lia|].
  exists (firstn (length pkg - k) pkg ++ path). split.
  - cbn [import_rule]. destruct (Nat.ltb_spec k (length pkg)); [reflexivity|lia].
  - unfold find_pxd_cands. rewrite starts_with_dot_render_S.
    unfold render. rewrite split_repeat. rewrite split_join by (try exact Hne; apply idents_nodot; exact Hid).
    cbn [repeat app tl].
    assert (E : (if true && fixed then drop_trailing_empty (repeat [] k ++ path) else repeat [] k ++ path)
                = repeat [] k ++ path).
    { destruct fixed; cbn [andb]; [apply drop_trailing_empty_path; assumption|reflexivity]. }
    rewrite E. rewrite strip_levels_repeat by (apply idents_no_leading_empty; exact Hid).
    rewrite rev_length. destruct (Nat.leb_spec k (length pkg)); [|lia].
    rewrite base_of_skipn. reflexivity.
Qed.

(* an absolute cimport: the package of the importing file first, then the name itself *)
Theorem resolve_absolute : forall fixed path pkg,
  path <> [] -> idents path ->
  find_pxd_cands fixed (render 0 path) pkg = Some [join_dots (pkg ++ path); join_dots path].
Proof.
  intros fixed path pkg Hne Hid. unfold find_pxd_cands, render. cbn [repeat app].
  rewrite starts_with_dot_join by assumption. cbn [andb].
  rewrite split_join by (try exact Hne; apply idents_nodot; exact Hid).
  change path with (repeat [] 0 ++ path) at 1.
  rewrite strip_levels_repeat by (apply idents_no_leading_empty; exact Hid).
  cbn [Nat.leb skipn]. rewrite rev_involutive. reflexivity.
Qed.

(* dots only ("from .. cimport x" records ".."): the package itself, in the repaired variant *)
Theorem resolve_dots_only_fixed : forall level pkg,
  1 <= level -> level <= length pkg ->
  exists q, import_rule level [] pkg = Some q /\
            find_pxd_cands true (render level []) pkg = Some [join_dots q].
Proof.
  intros level pkg Hl Hle. destruct level as [|k]; [lia|].
  exists (firstn (length pkg - k) pkg ++ []). split.
  - cbn [import_rule]. destruct (Nat.ltb_spec k (length pkg)); [reflexivity|lia].
  - unfold find_pxd_cands. rewrite starts_with_dot_render_S. unfold render.
    rewrite split_repeat. cbn [join_dots split_dots repeat app tl andb].
    rewrite drop_trailing_empty_dots.
    rewrite <- (app_nil_r (repeat [] k)).
    rewrite strip_levels_repeat by exact I.
    rewrite rev_length. destruct (Nat.leb_spec k (length pkg)); [|lia].
    rewrite base_of_skipn. reflexivity.
Qed.

(* the code as it is treats the '' after the last dot as one more level *)
Theorem resolve_dots_only_as_is : forall level pkg,
  1 <= level ->
  find_pxd_cands false (render level []) pkg
  = if level <=? length pkg then Some [join_dots (firstn (length pkg - level) pkg)] else None.
Proof.
  intros level pkg Hl. destruct level as [|k]; [lia|].
  unfold find_pxd_cands. rewrite starts_with_dot_render_S. unfold render.
  rewrite split_repeat. cbn [join_dots split_dots repeat app tl andb].
  change (repeat [] k ++ [[]]) with (repeat ([] : str) k ++ repeat [] 1).
  rewrite <- repeat_app. rewrite <- (app_nil_r (repeat [] (k + 1))).
  rewrite strip_levels_repeat by exact I.
  rewrite rev_length. replace (k + 1) with (S k) by lia.
  destruct (S k <=? length pkg); [|reflexivity].
  rewrite base_of_skipn. rewrite app_nil_r. reflexivity.
Qed.

Lemma ident_single : forall n, n <> 0 -> ident [n].
Proof. intros n Hn. split; [discriminate|]. intros [H|[]]. unfold DOT in H. congruence. Qed.

Lemma idents_w_pkg : idents w_pkg.
Proof. constructor; [apply ident_single; discriminate|]. constructor; [apply ident_single; discriminate|constructor]. Qed.

Theorem dots_only_refuted :
  exists level pkg q, 1 <= level /\ level <= length pkg /\ idents pkg /\
    import_rule level [] pkg = Some q /\
    find_pxd_cands false (render level []) pkg <> Some [join_dots q].
Proof.
  exists 1, w_pkg, w_pkg.
  split; [cbn; lia|]. split; [cbn; lia|]. split; [exact idents_w_pkg|]. split; [reflexivity|].
  vm_compute. discriminate.
Qed.

(* every name listed after "from ... cimport" has its "package.name" candidate recorded, and that
   candidate resolves to the name the import rule gives -- for every level and every module path,
   the empty one included *)
Theorem from_cimport_submodule_tracked : forall fixed level path names pkg w,
  1 <= level -> level <= length pkg -> idents path -> ident w -> In w names ->
  exists c q,
    In c (sc_cimports (scan SepEndsWithDot [SFrom (render level path) names])) /\
    import_rule level (path ++ [w]) pkg = Some q /\
    find_pxd_cands fixed c pkg = Some [join_dots q].
Proof.
  intros fixed level path names pkg w Hl Hle Hid Hw Hin.
  destruct (resolve_relative fixed level (path ++ [w]) pkg Hl Hle) as (q & Hq & Hc).
  { destruct path; discriminate. }
  { apply Forall_app. split; [exact Hid|]. constructor; [exact Hw|constructor]. }
  exists (render level (path ++ [w])), q. split; [|split; assumption].
  cbn [scan fold_left scan_stmt sc_cimports app].
  rewrite scan_from_cimports by (try exact Hid; lia).
  right. apply in_map_iff. exists w. split; [reflexivity|exact Hin].
Qed.

Theorem from_cimport_submodule_tracked_abs : forall fixed path names pkg w,
  path <> [] -> idents path -> ident w -> In w names ->
  exists c,
    In c (sc_cimports (scan SepEndsWithDot [SFrom (render 0 path) names])) /\
    find_pxd_cands fixed c pkg = Some [join_dots (pkg ++ path ++ [w]); join_dots (path ++ [w])].
Proof.
  intros fixed path names pkg w Hne Hid Hw Hin.
  exists (render 0 (path ++ [w])). split.
  - cbn [scan fold_left scan_stmt sc_cimports app].
    rewrite scan_from_cimports by (first [exact Hid | destruct path; [congruence|cbn; lia]]).
    right. apply in_map_iff. exists w. split; [reflexivity|exact Hin].
  - rewrite resolve_absolute.
    + reflexivity.
    + destruct path; discriminate.
    + apply Forall_app. split; [exact Hid|]. constructor; [exact Hw|constructor].
Qed.

(* the module named after "from" itself is the first recorded candidate *)
Theorem from_cimport_module_tracked : forall level path names,
  In (render level path) (sc_cimports (scan SepEndsWithDot [SFrom (render level path) names])).
Proof. intros. cbn. left. reflexivity. Qed.

(* the variant separator rule (sep = '' only when <from> is exactly "."): "from .. cimport s" in
   package p.q records "...s"; no recorded candidate resolves to p.s *)
Theorem sep_only_one_dot_refuted :
  exists level path names pkg w q,
    1 <= level /\ level <= length pkg /\ idents path /\ ident w /\ In w names /\ idents pkg /\
    import_rule level (path ++ [w]) pkg = Some q /\
    forall fixed c, In c (sc_cimports (scan SepOnlyOneDot [SFrom (render level path) names])) ->
                    find_pxd_cands fixed c pkg <> Some [join_dots q].
Proof.
  exists 2, [], [w_name], w_pkg, w_name, [[1]; [3]].
  split; [lia|]. split; [cbn; lia|]. split; [constructor|].
  split; [apply ident_single; discriminate|]. split; [left; reflexivity|].
  split; [exact idents_w_pkg|]. split; [reflexivity|].
  intros fixed c Hc. vm_compute in Hc.
  destruct Hc as [<-|[<-|[]]]; destruct fixed; vm_compute; discriminate.
Qed.

(* ------------------------------------------------------------------ against the compiler's rule *)
Theorem find_pxd_relative_matches_compiler : forall fixed ll3 fs level path pkg,
  1 <= level -> level <= length pkg -> path <> [] -> idents path ->
  find_pxd fixed fs (render level path) pkg = compiler_resolve ll3 fs level path pkg.
Proof.
  intros fixed ll3 fs level path pkg Hl Hle Hne Hid.
  destruct (resolve_relative fixed level path pkg Hl Hle Hne Hid) as (q & Hq & Hc).
  unfold find_pxd. rewrite Hc. unfold compiler_resolve. destruct level; [lia|]. rewrite Hq. reflexivity.
Qed.

Theorem find_pxd_dots_only_matches_compiler_fixed : forall ll3 fs level pkg,
  1 <= level -> level <= length pkg ->
  find_pxd true fs (render level []) pkg = compiler_resolve ll3 fs level [] pkg.
Proof.
  intros ll3 fs level pkg Hl Hle.
  destruct (resolve_dots_only_fixed level pkg Hl Hle) as (q & Hq & Hc).
  unfold find_pxd. rewrite Hc. unfold compiler_resolve. destruct level; [lia|]. rewrite Hq. reflexivity.
Qed.

(* absolute names: same file as the compiler under language_level 2 always; under language_level 3
   unless a module of that name also exists inside the importing file's own package *)
Theorem find_pxd_absolute_matches_compiler_partial : forall fixed ll3 fs path pkg,
  path <> [] -> idents path ->
  ll3 = false \/ pkg = [] \/ fs (join_dots (pkg ++ path)) = false ->
  find_pxd fixed fs (render 0 path) pkg = compiler_resolve ll3 fs 0 path pkg.
Proof.
  intros fixed ll3 fs path pkg Hne Hid H.
  unfold find_pxd. rewrite resolve_absolute by assumption. unfold compiler_resolve.
  destruct ll3; [|reflexivity].
  destruct H as [H|[->|H]]; [discriminate| |].
  - cbn [app find]. destruct (fs (join_dots path)); reflexivity.
  - cbn [find]. rewrite H. reflexivity.
Qed.

(* full statement for language_level 3 is false: finding absolute_cimport_shadowed_by_package_sibling *)
Theorem find_pxd_absolute_ll3_refuted :
  exists fs path pkg, path <> [] /\ idents path /\ idents pkg /\
    forall fixed, find_pxd fixed fs (render 0 path) pkg <> compiler_resolve true fs 0 path pkg.
Proof.
  exists (fun _ => true), [w_name], w_pkg.
  split; [discriminate|]. split; [constructor; [apply ident_single; discriminate|constructor]|].
  split; [exact idents_w_pkg|].
  intros fixed. destruct fixed; vm_compute; discriminate.
Qed.

(* ------------------------------------------------------------------ package(filename) *)
(* the package path is the maximal run of package directories directly above the file *)
Theorem package_of_spec : forall dirs,
  exists n, n <= length dirs /\
    package_of dirs = rev (map fst (firstn n dirs)) /\
    Forall (fun d => snd d = true) (firstn n dirs) /\
    (forall d, nth_error dirs n = Some d -> snd d = false).
Proof.
  unfold package_of. induction dirs as [|[name b] up IH].
  - exists 0. split; [cbn; lia|]. split; [reflexivity|]. split; [constructor|].
    intros d H. discriminate.
  - destruct b.
    + destruct IH as (n & Hn & He & Hf & Hl). exists (S n).
      split; [cbn; lia|]. split; [|split].
      * cbn [package_rev firstn map fst rev]. f_equal. exact He.
      * cbn [firstn]. constructor; [reflexivity|exact Hf].
      * exact Hl.
    + exists 0. split; [cbn; lia|]. split; [reflexivity|]. split; [constructor|].
      intros d H. cbn in H. inversion H. reflexivity.
Qed.
