From Coq Require Import ZArith List Bool Lia ZifyBool.
From CyVerif Require Import Lib.CInt Model.M_IntPow Proof.P_IntPow.
Open Scope Z_scope.

(* --- no signed overflow inside the helper whenever the result fits (C36 share) ------------- *)

Lemma max_int_pos w : 2 <= w -> 0 < max_int w true.
Proof.
  intros Hw. unfold max_int. pose proof (pow2_split (w - 1) ltac:(lia)). pose proof (pow2_pos (w - 2) ltac:(lia)).
  replace (w - 1 - 1) with (w - 2) in * by lia. lia.
Qed.

Lemma mulc_signed_ok w x y : 2 <= w -> Z.abs (x * y) <= max_int w true -> mulc w true x y = Some (x * y).
Proof.
  intros Hw H. unfold mulc. replace (in_rangeb w true (x * y)) with true; [reflexivity|].
  symmetry. apply in_rangeb_spec. unfold in_range, min_int, max_int in *. lia.
Qed.

Lemma abs_pow_ge_1 b e : b <> 0 -> 0 <= e -> 1 <= Z.abs b ^ e.
Proof.
  intros Hb He. assert (1 <= Z.abs b) by lia.
  replace 1 with (1 ^ e) by (apply Z.pow_1_l; exact He). apply Z.pow_le_mono_l. lia.
Qed.

Lemma odd_mod2 e : Z.odd e = (e mod 2 =? 1).
Proof.
  rewrite Zodd_mod. assert (H : e mod 2 = 0 \/ e mod 2 = 1) by (Z.to_euclidean_division_equations; lia).
  destruct H as [E|E]; rewrite E; reflexivity.
Qed.

Lemma bnd_A T P F M : 1 <= P -> 0 <= T -> 0 <= F -> T * (P * F) <= M -> T * F <= M.
Proof.
  intros HP HT HF HM. assert (H0 : 0 <= T * F) by nia. assert (H1 : T * F <= (T * F) * P) by nia.
  replace (T * (P * F)) with ((T * F) * P) in HM by ring. lia.
Qed.
Lemma bnd_B T P F Q M : 1 <= T -> 1 <= F -> 0 <= Q <= P -> T * (P * F) <= M -> Q <= M.
Proof.
  intros HT HF HQ HM. assert (H1 : P <= P * F) by nia. assert (H2 : P * F <= T * (P * F)) by nia. lia.
Qed.
Lemma bnd_C T P F M : T * (P * F) <= M -> T * F * P <= M.
Proof. intros. nia. Qed.
Lemma sq_ne0 b : b <> 0 -> b * b <> 0.
Proof. intros. nia. Qed.
Lemma sq_ne0_inv b : b * b <> 0 -> b <> 0.
Proof. intros H E. subst. apply H. reflexivity. Qed.

Lemma pow_loop_ck_signed fuel : forall w t b e,
  2 <= w -> 0 <= e < 2 ^ Z.of_nat fuel ->
  Z.abs t <= max_int w true -> Z.abs t * Z.abs b ^ e <= max_int w true -> (b <> 0 -> t <> 0) ->
  pow_loop_ck true fuel w true t b e = PVal (t * b ^ e).
Proof.
  induction fuel as [|f IH]; intros w t b e Hw He Ht Hbound Hnz.
  - assert (e = 0) by (cbn in He; lia). subst e. cbn. rewrite Z.mul_1_r. reflexivity.
  - cbn [pow_loop_ck]. destruct (Z.eqb_spec e 0) as [->|Hne]; [now rewrite Z.pow_0_r, Z.mul_1_r|].
    pose proof (max_int_pos w Hw) as Hm.
    rewrite Z.shiftr_div_pow2 by lia. change (2 ^ 1) with 2.
    pose proof (Z.div_mod e 2 ltac:(lia)) as Ediv.
    assert (Hmod : e mod 2 = 0 \/ e mod 2 = 1) by (Z.to_euclidean_division_equations; lia).
    rewrite odd_mod2. set (fac := if e mod 2 =? 1 then b else 1).
    assert (Hsplit : b ^ e = (b * b) ^ (e / 2) * fac) by (apply pow_split; lia).
    assert (Habs_split : Z.abs b ^ e = (Z.abs b * Z.abs b) ^ (e / 2) * Z.abs fac).
    { rewrite (pow_split (Z.abs b) e) by lia. f_equal. unfold fac. destruct (e mod 2 =? 1); reflexivity. }
    assert (He2 : 0 <= e / 2) by (clear - He; apply Z.div_pos; lia).
    assert (He2lt : e / 2 < 2 ^ Z.of_nat f).
    { clear - He. rewrite Nat2Z.inj_succ, Z.pow_succ_r in He by lia. apply Z.div_lt_upper_bound; lia. }
    assert (Hsq : Z.abs b * Z.abs b = Z.abs (b * b)) by (rewrite Z.abs_mul; reflexivity).
    (* t' = t * fac fits, and is non-zero when b is *)
    assert (Ht' : Z.abs (t * fac) <= max_int w true).
    { rewrite Z.abs_mul. destruct (Z.eq_dec b 0) as [->|Hb].
      - unfold fac. destruct (e mod 2 =? 1); [rewrite Z.abs_0; lia | change (Z.abs 1) with 1; lia].
      - assert (HP : 1 <= (Z.abs b * Z.abs b) ^ (e / 2)) by (rewrite Hsq; apply abs_pow_ge_1; [apply sq_ne0; exact Hb|lia]).
        rewrite Habs_split in Hbound.
        apply (bnd_A (Z.abs t) ((Z.abs b * Z.abs b) ^ (e / 2)) (Z.abs fac)); [exact HP| apply Z.abs_nonneg | apply Z.abs_nonneg | exact Hbound]. }
    rewrite (mulc_signed_ok w t fac Hw Ht').
    assert (Hnz' : b * b <> 0 -> t * fac <> 0).
    { intros Hbb. pose proof (sq_ne0_inv b Hbb) as Hb0. specialize (Hnz Hb0). unfold fac.
      destruct (e mod 2 =? 1); [apply Z.neq_mul_0; split; assumption | now rewrite Z.mul_1_r]. }
    destruct (Z.eqb_spec (e / 2) 0) as [E0|E0]; cbn [andb].
    + (* last bit: no squaring *)
      rewrite E0 in *. destruct f; cbn [pow_loop_ck]; cbn [Z.eqb]; rewrite Hsplit, Z.pow_0_r; f_equal; ring.
    + (* more bits: b*b is needed and fits *)
      assert (Hbb : Z.abs (b * b) <= max_int w true).
      { destruct (Z.eq_dec b 0) as [->|Hb]; [cbn; lia|].
        assert (1 <= Z.abs t) by (specialize (Hnz Hb); clear - Hnz; lia).
        assert (Hle : Z.abs (b * b) <= Z.abs (b * b) ^ (e / 2)).
        { pose proof (sq_ne0 b Hb) as Hbb0.
          rewrite <- (Z.pow_1_r (Z.abs (b * b))) at 1. apply Z.pow_le_mono_r; clear - Hbb0 E0 He2; lia. }
        assert (HF : 1 <= Z.abs fac) by (subst fac; clear - Hb; destruct (e mod 2 =? 1); lia).
        rewrite Habs_split, Hsq in Hbound.
        apply (bnd_B (Z.abs t) (Z.abs (b * b) ^ (e / 2)) (Z.abs fac) (Z.abs (b * b))); [lia | exact HF | split; [apply Z.abs_nonneg|exact Hle] | exact Hbound]. }
      rewrite (mulc_signed_ok w b b Hw Hbb).
      assert (Hbnd' : Z.abs (t * fac) * Z.abs (b * b) ^ (e / 2) <= max_int w true).
      { rewrite <- Hsq, (Z.abs_mul t fac). rewrite Habs_split in Hbound. apply bnd_C. exact Hbound. }
      rewrite (IH w (t * fac) (b * b) (e / 2) Hw (conj He2 He2lt) Ht' Hbnd' Hnz').
      f_equal. rewrite Hsplit. ring.
Qed.

(* For every signed width, base and exponent whose power fits with magnitude at most MAX, the
   current helper computes it exactly without any signed overflow in its own multiplications *)
Theorem int_pow_ck_no_overflow w b e :
  2 <= w -> in_range w true b -> in_range w true e -> 0 <= e -> Z.abs (b ^ e) <= max_int w true ->
  int_pow_ck true w true b e = PVal (b ^ e).
Proof.
  intros Hw Hb He He0 Hfit. unfold int_pow_ck. pose proof (max_int_pos w Hw) as Hm.
  destruct (Z.eqb_spec e 3) as [->|N3].
  { assert (E : b ^ 3 = b * b * b) by ring. rewrite E in *.
    assert (Z.abs (b * b) <= max_int w true).
    { destruct (Z.eq_dec b 0) as [->|Hb0]; [cbn; lia|]. rewrite !Z.abs_mul in *.
      assert (1 <= Z.abs b) by lia. clear - Hfit H. nia. }
    rewrite (mulc_signed_ok w b b Hw H), (mulc_signed_ok w (b * b) b Hw Hfit). reflexivity. }
  destruct (Z.eqb_spec e 2) as [->|N2].
  { assert (E : b ^ 2 = b * b) by ring. rewrite E in *. rewrite (mulc_signed_ok w b b Hw Hfit). reflexivity. }
  destruct (Z.eqb_spec e 1) as [->|N1]; [now rewrite Z.pow_1_r|].
  destruct (Z.eqb_spec e 0) as [->|N0]; [now rewrite Z.pow_0_r|].
  replace (true && (e <? 0)) with false by lia.
  rewrite pow_loop_ck_signed; try assumption.
  - now rewrite Z.mul_1_l.
  - split; [lia|]. eapply in_range_lt_pow; eassumption.
  - change (Z.abs 1) with 1. lia.
  - rewrite Z.abs_pow in Hfit. change (Z.abs 1) with 1. lia.
  - intros _. lia.
Qed.

(* finding: before the repair the helper squared the base once more than needed: 200 ** 4 fits
   C int (1.6e9) but the next b *= b overflowed *)
Theorem int_pow_ck_old_needless_square_refuted :
  exists w b e, in_range w true b /\ in_range w true e /\ 0 <= e /\ Z.abs (b ^ e) <= max_int w true /\
                int_pow_ck false w true b e = PUB.
Proof. exists 32, 200, 4. unfold in_range. vm_compute. intuition congruence. Qed.
