(* Pieces of the dict-convention keyword loops (__Pyx_ParseKeywordDict / DictToDict):
   the duplicate test and the unknown-keyword report, characterised exactly.  These are the
   error-side halves of the obligation parser_ok PDict of Prop/C24.v. *)
From Coq Require Import List Bool Arith Lia.
From CyVerif Require Import Model.M_ArgBind Proof.P_ArgBind.
Import ListNotations.

Lemma dict_get_In : forall V n (d : list (key * V)) kv,
  In kv d -> key_eq (fst kv) n = true -> dict_get n d <> None.
Proof.
  intros V n d; induction d as [|[k x] r IH]; intros kv I E; [contradiction|].
  cbn [dict_get]. destruct (key_eq k n) eqn:Ek; [discriminate|].
  destruct I as [<-|I]; [cbn [fst] in E; congruence|]. exact (IH kv I E).
Qed.

(* __Pyx_ValidateDuplicatePosArgs reports a duplicate exactly when some keyword names a parameter
   that was already filled positionally *)
Lemma validate_dup_exact : forall V (kws : list (key * V)) names first,
  NoDup names ->
  validate_dup kws names first = existsb (fun kv => kw_dup names first (fst kv)) kws.
Proof.
  intros V kws names first ND. apply eq_true_iff_eq. unfold validate_dup. split.
  - intros H. apply existsb_firstn in H as [i [L1 [L2 E]]].
    destruct (dict_get (nth i names 0) kws) as [v|] eqn:G; [|discriminate].
    destruct (dict_get_Some_In _ _ _ _ G) as [kv [I Ek]].
    apply existsb_exists. exists kv. split; [exact I|].
    unfold kw_dup. rewrite (midx_unique _ _ _ ND L2 Ek).
    apply negb_true_iff, Nat.leb_gt. exact L1.
  - intros H. apply existsb_exists in H as [kv [I D]]. unfold kw_dup in D.
    destruct (midx (fst kv) names) as [i|] eqn:M; [|discriminate].
    apply negb_true_iff, Nat.leb_gt in D. destruct (midx_Some _ _ _ M) as [L E].
    apply existsb_firstn. exists i. repeat split; try assumption.
    pose proof (dict_get_In _ _ _ _ I E) as NN.
    destruct (dict_get (nth i names 0) kws); [reflexivity|congruence].
Qed.

(* __Pyx_RejectUnknownKeyword always finds a keyword to blame when one is bad (duplicate or
   unknown), so the impossible fall-through (returning without an exception set) is unreachable *)
Lemma reject_unknown_blames : forall V (kws : list (key * V)) names first,
  NoDup names -> all_str kws ->
  existsb (fun kv => kw_bad names first true (fst kv)) kws = true ->
  reject_unknown kws names first <> EImpossible.
Proof.
  intros V kws names first ND; induction kws as [|[k v] rest IH]; intros AS H; [discriminate|].
  apply all_str_cons in AS as [S AS']. cbn [fst] in S.
  cbn [reject_unknown].
  pose proof (tuple_find_spec k names first ND S) as T. unfold tuple_find in T.
  cbn [existsb fst] in H. apply orb_true_iff in H.
  assert (HB : kw_bad names first true k = (match midx k names with Some j => negb (first <=? j) | None => true end)).
  { unfold kw_bad, kw_dup, kw_unknown. destruct (midx k names); [apply orb_false_r|reflexivity]. }
  rewrite HB in H.
  destruct (find_from (key_is k) first names) as [i|] eqn:F.
  - destruct (midx k names) as [j|] eqn:M; [|discriminate].
    destruct (first <=? j) eqn:C; [|discriminate]. cbn in H.
    destruct H as [H|H]; [discriminate|]. apply IH; assumption.
  - rewrite T. destruct (midx k names) as [j|] eqn:M.
    + destruct (first <=? j) eqn:C; [|discriminate]. cbn in H.
      destruct H as [H|H]; [discriminate|]. apply IH; assumption.
    + discriminate.
Qed.

(* ---------- the pop loop of __Pyx_ParseKeywordDictToDict ---------- *)
Lemma key_eq_two : forall k n n', key_eq k n = true -> key_eq k n' = true -> n = n'.
Proof.
  intros k n n' A B. apply key_eq_name in A as [A _]. apply key_eq_name in B as [B _]. congruence.
Qed.

Lemma dict_get_del_other : forall V n n' (d : list (key * V)), n <> n' ->
  dict_get n' (dict_del n d) = dict_get n' d.
Proof.
  intros V n n' d NE; induction d as [|[k v] r IH]; [reflexivity|].
  cbn [dict_del dict_get]. destruct (key_eq k n) eqn:E.
  - destruct (key_eq k n') eqn:E'; [exfalso; apply NE; exact (key_eq_two _ _ _ E E')|reflexivity].
  - cbn [dict_get]. rewrite IH. reflexivity.
Qed.

Lemma existsb_false_In : forall A (f : A -> bool) l x, existsb f l = false -> In x l -> f x = false.
Proof.
  intros A f l x H I. destruct (f x) eqn:E; [|reflexivity].
  assert (existsb f l = true) by (apply existsb_exists; exists x; auto). congruence.
Qed.

(* with distinct keys, deleting a name removes exactly the keys equal to it *)
Lemma dict_del_filter : forall V n (d : list (key * V)), keys_nodup d = true ->
  dict_del n d = filter (fun kv => negb (key_eq (fst kv) n)) d.
Proof.
  intros V n d; induction d as [|[k v] r IH]; intros KN; [reflexivity|].
  cbn [keys_nodup] in KN. apply andb_true_iff in KN as [K1 K2]. apply negb_true_iff in K1.
  cbn [dict_del filter fst]. destruct (key_eq k n) eqn:E; cbn [negb].
  - symmetry. clear IH K2. induction r as [|[k' v'] r' IHr]; [reflexivity|].
    cbn [existsb fst] in K1. apply orb_false_iff in K1 as [S1 S2].
    cbn [filter fst]. destruct (key_eq k' n) eqn:E'.
    + rewrite (key_eq_same _ _ _ E E') in S1. discriminate.
    + cbn [negb]. f_equal. apply IHr. exact S2.
  - f_equal. apply IH. exact K2.
Qed.

Lemma keys_nodup_filter : forall V (f : key * V -> bool) (d : list (key * V)),
  keys_nodup d = true -> keys_nodup (filter f d) = true.
Proof.
  intros V f d; induction d as [|[k v] r IH]; intros KN; [reflexivity|].
  cbn [keys_nodup] in KN. apply andb_true_iff in KN as [K1 K2]. apply negb_true_iff in K1.
  cbn [filter]. destruct (f (k, v)); [|apply IH; exact K2].
  cbn [keys_nodup]. apply andb_true_iff. split; [|apply IH; exact K2].
  apply negb_true_iff. destruct (existsb (fun kv => key_same k (fst kv)) (filter f r)) eqn:X; [|reflexivity].
  apply existsb_exists in X as [kv [I S]]. apply filter_In in I as [I _].
  rewrite (existsb_false_In _ _ _ _ K1 I) in S. discriminate.
Qed.

Lemma filter_filter : forall A (f g : A -> bool) l,
  filter g (filter f l) = filter (fun x => f x && g x) l.
Proof.
  intros A f g l; induction l as [|x r IH]; [reflexivity|]. cbn [filter].
  destruct (f x); cbn [filter andb]; [destruct (g x); rewrite IH; reflexivity|exact IH].
Qed.

(* what the pop loop computes: every name that some key equals gets that key's value, and exactly
   those keys leave the dict (order of the rest preserved) *)
Lemma dict_pop_all_spec : forall V ns idx off (values : list (option V)) d,
  NoDup ns -> keys_nodup d = true ->
  let '(values', d') := dict_pop_all ns idx off values d in
  length values' = length values /\
  (forall a, nth a values' None =
     if (off + idx <=? a) && (a <? off + idx + length ns) && (a <? length values)
     then match dict_get (nth (a - off - idx) ns 0) d with Some v => Some v | None => nth a values None end
     else nth a values None) /\
  d' = filter (fun kv => negb (existsb (key_eq (fst kv)) ns)) d.
Proof.
  intros V ns; induction ns as [|n ns IH]; intros idx off values d ND KN.
  - cbn [dict_pop_all length existsb negb]. split; [reflexivity|]. split.
    + intros a. replace (a <? off + idx + 0) with (negb (off + idx + 0 <=? a))
        by (destruct (Nat.ltb_spec a (off + idx + 0)), (Nat.leb_spec (off + idx + 0) a); auto; lia).
      rewrite Nat.add_0_r. destruct (off + idx <=? a); reflexivity.
    + symmetry. clear. induction d as [|x r IHd]; [reflexivity|]. cbn [filter]. f_equal. exact IHd.
  - inversion ND as [|? ? NI ND']; subst. cbn [dict_pop_all].
    destruct (dict_get n d) as [v|] eqn:G.
    + specialize (IH (S idx) off (upd (off + idx) (Some v) values) (dict_del n d) ND').
      rewrite (dict_del_filter _ n d KN) in IH at 1.
      specialize (IH (keys_nodup_filter _ _ _ KN)).
      destruct (dict_pop_all ns (S idx) off (upd (off + idx) (Some v) values) (dict_del n d)) as [values' d'].
      destruct IH as [L [P D]]. rewrite upd_length in L. split; [exact L|]. split.
      * intros a. rewrite P, upd_length, nth_upd. cbn [length].
        destruct (Nat.eq_dec a (off + idx)) as [->|NE].
        { replace (off + S idx <=? off + idx) with false by (symmetry; apply Nat.leb_gt; lia).
          cbn [andb]. rewrite Nat.eqb_refl, Nat.leb_refl.
          replace (off + idx <? off + idx + S (length ns)) with true by (symmetry; apply Nat.ltb_lt; lia).
          cbn [andb]. replace (off + idx - off - idx) with 0 by lia. cbn [nth]. rewrite G.
          destruct (off + idx <? length values); reflexivity. }
        replace (a =? off + idx) with false by (symmetry; apply Nat.eqb_neq; exact NE). cbn [andb].
        destruct (Nat.leb_spec (off + S idx) a) as [LE|GT].
        { replace (off + idx <=? a) with true by (symmetry; apply Nat.leb_le; lia).
          replace (a <? off + S idx + length ns) with (a <? off + idx + S (length ns))
            by (destruct (Nat.ltb_spec a (off + S idx + length ns)), (Nat.ltb_spec a (off + idx + S (length ns))); auto; lia).
          cbn [andb]. destruct (a <? off + idx + S (length ns)) eqn:B; [|reflexivity]. cbn [andb].
          destruct (a <? length values); [|reflexivity].
          apply Nat.ltb_lt in B.
          replace (a - off - idx) with (S (a - off - S idx)) by lia. cbn [nth].
          rewrite dict_get_del_other; [reflexivity|].
          intros ->. apply NI. apply nth_In. lia. }
        { replace (off + idx <=? a) with false by (symmetry; apply Nat.leb_gt; lia). reflexivity. }
      * rewrite D, (dict_del_filter _ n d KN), filter_filter. apply filter_ext. intros [k x].
        cbn [existsb fst]. rewrite negb_orb. reflexivity.
    + specialize (IH (S idx) off values d ND' KN).
      destruct (dict_pop_all ns (S idx) off values d) as [values' d'].
      destruct IH as [L [P D]]. split; [exact L|]. split.
      * intros a. rewrite P. cbn [length].
        destruct (Nat.eq_dec a (off + idx)) as [->|NE].
        { replace (off + S idx <=? off + idx) with false by (symmetry; apply Nat.leb_gt; lia).
          cbn [andb]. rewrite Nat.leb_refl.
          replace (off + idx <? off + idx + S (length ns)) with true by (symmetry; apply Nat.ltb_lt; lia).
          cbn [andb]. replace (off + idx - off - idx) with 0 by lia. cbn [nth]. rewrite G.
          destruct (off + idx <? length values); reflexivity. }
        destruct (Nat.leb_spec (off + S idx) a) as [LE|GT].
        { replace (off + idx <=? a) with true by (symmetry; apply Nat.leb_le; lia).
          replace (a <? off + S idx + length ns) with (a <? off + idx + S (length ns))
            by (destruct (Nat.ltb_spec a (off + S idx + length ns)), (Nat.ltb_spec a (off + idx + S (length ns))); auto; lia).
          cbn [andb]. destruct (a <? off + idx + S (length ns)) eqn:B; [|reflexivity]. cbn [andb].
          destruct (a <? length values); [|reflexivity].
          apply Nat.ltb_lt in B.
          replace (a - off - idx) with (S (a - off - S idx)) by lia. reflexivity. }
        { replace (off + idx <=? a) with false by (symmetry; apply Nat.leb_gt; lia). reflexivity. }
      * rewrite D. apply filter_ext_in. intros [k x] I. cbn [existsb fst].
        destruct (key_eq k n) eqn:E; [|reflexivity].
        exfalso. pose proof (dict_get_In _ n d (k, x) I E) as Q. congruence.
Qed.

(* ---------- __Pyx_ParseKeywordDictToDict agrees with the reference loop ---------- *)
Definition matched_from (names : list nat) (first : nat) (k : key) : bool :=
  match midx k names with Some i => first <=? i | None => false end.

Lemma existsb_skipn_midx : forall k names first, NoDup names ->
  existsb (key_eq k) (skipn first names) = matched_from names first k.
Proof.
  intros k names first ND. apply eq_true_iff_eq. unfold matched_from. split.
  - intros H. apply existsb_exists in H as [n [I E]].
    destruct (In_nth _ _ 0 I) as [j [L N]]. rewrite skipn_length in L. rewrite nth_skipn in N.
    rewrite <- N in E. rewrite (midx_unique k names (first + j) ND ltac:(lia) E).
    apply Nat.leb_le. lia.
  - intros H. destruct (midx k names) as [i|] eqn:M; [|discriminate].
    apply Nat.leb_le in H. destruct (midx_Some _ _ _ M) as [L E].
    apply existsb_exists. exists (nth i names 0). split; [|exact E].
    replace i with (first + (i - first)) by lia. rewrite <- nth_skipn. apply nth_In.
    rewrite skipn_length. lia.
Qed.

Lemma all_str_nonstr : forall V (kws : list (key * V)), all_str kws -> nonstr_in kws = false.
Proof.
  intros V kws AS. unfold nonstr_in. destruct (existsb _ kws) eqn:X; [|reflexivity].
  apply existsb_exists in X as [kv [I E]]. rewrite (AS kv I) in E. discriminate.
Qed.

Lemma existsb_bad_lenient : forall V (kws : list (key * V)) names first,
  existsb (fun kv => kw_bad names first false (fst kv)) kws = existsb (fun kv => kw_dup names first (fst kv)) kws.
Proof.
  intros V kws names first; induction kws as [|kv r IH]; [reflexivity|]. cbn [existsb]. rewrite IH.
  unfold kw_bad. cbn [andb]. rewrite orb_false_r. reflexivity.
Qed.

Theorem parser_ok_dict2dict : forall V (kws : list (key * V)) names first off ignore values,
  NoDup names -> all_str kws -> keys_nodup kws = true -> first <= length names ->
  sim (parse_keywords PDict kws names first off ignore values (Some []))
      (parse_ref kws names first off ignore values (Some [])).
Proof.
  intros V kws names first off ignore values ND AS KN FL.
  cbn [parse_keywords]. unfold parse_dict2dict. rewrite (all_str_nonstr _ _ AS).
  rewrite (dict_update_fresh V kws [] KN) by (intros ? ? ? []). cbn [app].
  pose proof (dict_pop_all_spec V (skipn first names) first off values kws) as S.
  assert (NDs : NoDup (skipn first names)).
  { rewrite <- (firstn_skipn first names) in ND. apply NoDup_app_r in ND. exact ND. }
  specialize (S NDs KN).
  destruct (dict_pop_all (skipn first names) first off values kws) as [values' d2].
  destruct S as [L [P D]].
  pose proof (parse_ref_ok V kws names first off ignore values (Some []) ND AS KN) as R.
  specialize (R ltac:(intros d [= <-] ? ? ? [])).
  cbn [strict_of] in R. rewrite existsb_bad_lenient in R.
  rewrite (validate_dup_exact V kws names first ND).
  assert (D2 : d2 = filter (fun kv => negb (matched_from names first (fst kv))) kws).
  { rewrite D. apply filter_ext. intros kv. rewrite existsb_skipn_midx by exact ND. reflexivity. }
  destruct (parse_ref kws names first off ignore values (Some [])) as [e|[vals' kw']].
  - destruct R as [_ B]. rewrite B.
    assert (NE : (0 <? length d2) = true).
    { apply existsb_exists in B as [kv [I Dp]].
      assert (I2 : In kv d2).
      { rewrite D2. apply filter_In. split; [exact I|]. unfold kw_dup in Dp. unfold matched_from.
        destruct (midx (fst kv) names); [exact Dp|reflexivity]. }
      destruct d2; [contradiction|reflexivity]. }
    rewrite NE. cbn [sim]. discriminate.
  - destruct R as [B [L' [P' K']]]. rewrite B.
    assert (EV : values' = vals').
    { apply (nth_ext _ _ None None); [congruence|]. intros a _. rewrite P, P'. unfold ref_at.
      rewrite skipn_length.
      replace (off + first + (length names - first)) with (off + length names) by lia.
      destruct ((off + first <=? a) && (a <? off + length names) && (a <? length values)) eqn:C; [|reflexivity].
      apply andb_true_iff in C as [C _]. apply andb_true_iff in C as [C _]. apply Nat.leb_le in C.
      rewrite nth_skipn. replace (first + (a - off - first)) with (a - off) by lia. reflexivity. }
    assert (ED : Some d2 = kw').
    { rewrite K'. cbn [option_map app]. f_equal. rewrite D2. apply filter_ext_in. intros kv I.
      pose proof (existsb_false_In _ _ _ _ B I) as Q. cbn beta in Q.
      unfold kw_dup in Q. unfold matched_from, kw_unknown.
      destruct (midx (fst kv) names); [rewrite Q; reflexivity|reflexivity]. }
    destruct (0 <? length d2); cbn [sim]; rewrite EV, ED; reflexivity.
Qed.

Lemma parser_ok_sel_dict_some : parser_ok_sel PDict true.
Proof.
  intros V kws names first off ignore values kw0 ND AS KN FL _ _ ->.
  apply parser_ok_dict2dict; assumption.
Qed.

(* FULL statement, no obligation left, for every signature whose body uses its **kwargs: all four
   calling conventions, the kwds-dict convention included *)
Theorem call_eq_starstar : forall V vc pth s (c : call V),
  wf_sig s = true -> wf_path pth s = true -> wf_entry vc pth = true -> keys_nodup (c_kws c) = true ->
  s_starstar s && s_kwused s = true ->
  erase s (call_cy vc pth s c) = erase s (call_py s c).
Proof.
  intros V vc pth s c WS WP WE KN H. apply call_eq_sel; auto. intros _. rewrite H.
  destruct pth; try (apply parser_ok_sel_of, parser_ok_tuple; discriminate).
  apply parser_ok_sel_dict_some.
Qed.

(* ---------- __Pyx_ParseKeywordDict: the extraction loop with its counting early exit ---------- *)
Definition hit {V} (kws : list (key * V)) (n : nat) : bool :=
  match dict_get n kws with Some _ => true | None => false end.
Definition cnt {V} (kws : list (key * V)) (ns : list nat) : nat := length (filter (hit kws) ns).

Lemma NoDup_filter : forall A (f : A -> bool) l, NoDup l -> NoDup (filter f l).
Proof.
  intros A f l; induction l as [|x r IH]; intros ND; [constructor|]. inversion ND; subst. cbn [filter].
  destruct (f x); [constructor; [rewrite filter_In; tauto|auto]|auto].
Qed.

Lemma hit_name : forall V (kws : list (key * V)) n, hit kws n = true -> In n (map (fun kv => k_name (fst kv)) kws).
Proof.
  intros V kws n H. unfold hit in H. destruct (dict_get n kws) as [v|] eqn:G; [|discriminate].
  destruct (dict_get_Some_In _ _ _ _ G) as [kv [I E]]. apply key_eq_name in E as [E _].
  apply in_map_iff. exists kv. split; assumption.
Qed.

(* pigeonhole: distinct names hit by keys are at most as many as the keys *)
Lemma cnt_le : forall V (kws : list (key * V)) ns, NoDup ns -> cnt kws ns <= length kws.
Proof.
  intros V kws ns ND. unfold cnt. rewrite <- (map_length (fun kv => k_name (fst kv)) kws).
  apply NoDup_incl_length; [apply NoDup_filter; exact ND|].
  intros n I. apply filter_In in I as [_ H]. apply hit_name. exact H.
Qed.

Lemma cnt_zero_miss : forall V (kws : list (key * V)) ns n, cnt kws ns = 0 -> In n ns -> dict_get n kws = None.
Proof.
  intros V kws ns n C I. unfold cnt in C. apply length_zero_iff_nil in C.
  destruct (dict_get n kws) eqn:G; [|reflexivity]. exfalso.
  assert (X : In n (filter (hit kws) ns)) by (apply filter_In; split; [exact I|unfold hit; rewrite G; reflexivity]).
  rewrite C in X. exact X.
Qed.

Lemma dict_extract_spec : forall V (kws : list (key * V)) nkw ns idx off e (values : list (option V)),
  NoDup ns -> e + cnt kws ns <= nkw ->
  let '(values', e') := dict_extract kws nkw ns idx off e values in
  e' = e + cnt kws ns /\ length values' = length values /\
  (forall a, nth a values' None =
     if (off + idx <=? a) && (a <? off + idx + length ns) && (a <? length values)
     then match dict_get (nth (a - off - idx) ns 0) kws with Some v => Some v | None => nth a values None end
     else nth a values None).
Proof.
  intros V kws nkw ns; induction ns as [|n ns IH]; intros idx off e values ND B.
  - cbn [dict_extract]. unfold cnt. cbn [filter length]. split; [lia|]. split; [reflexivity|].
    intros a. rewrite Nat.add_0_r.
    replace (a <? off + idx) with (negb (off + idx <=? a))
      by (destruct (Nat.ltb_spec a (off + idx)), (Nat.leb_spec (off + idx) a); auto; lia).
    destruct (off + idx <=? a); reflexivity.
  - inversion ND as [|? ? NI ND']; subst. cbn [dict_extract].
    assert (CS : cnt kws (n :: ns) = (if hit kws n then 1 else 0) + cnt kws ns).
    { unfold cnt. cbn [filter]. destruct (hit kws n); reflexivity. }
    destruct (Nat.ltb_spec e nkw) as [LT|GE].
    + unfold hit in CS. destruct (dict_get n kws) as [v|] eqn:G.
      * specialize (IH (S idx) off (S e) (upd (off + idx) (Some v) values) ND' ltac:(lia)).
        destruct (dict_extract kws nkw ns (S idx) off (S e) (upd (off + idx) (Some v) values)) as [values' e'].
        destruct IH as [E [L P]]. rewrite upd_length in L. split; [lia|]. split; [exact L|].
        intros a. rewrite P, upd_length, nth_upd. cbn [length].
        destruct (Nat.eq_dec a (off + idx)) as [->|NE].
        { replace (off + S idx <=? off + idx) with false by (symmetry; apply Nat.leb_gt; lia).
          cbn [andb]. rewrite Nat.eqb_refl, Nat.leb_refl.
          replace (off + idx <? off + idx + S (length ns)) with true by (symmetry; apply Nat.ltb_lt; lia).
          cbn [andb]. replace (off + idx - off - idx) with 0 by lia. cbn [nth]. rewrite G.
          destruct (off + idx <? length values); reflexivity. }
        replace (a =? off + idx) with false by (symmetry; apply Nat.eqb_neq; exact NE). cbn [andb].
        destruct (Nat.leb_spec (off + S idx) a) as [LE|GT].
        { replace (off + idx <=? a) with true by (symmetry; apply Nat.leb_le; lia).
          replace (a <? off + S idx + length ns) with (a <? off + idx + S (length ns))
            by (destruct (Nat.ltb_spec a (off + S idx + length ns)), (Nat.ltb_spec a (off + idx + S (length ns))); auto; lia).
          cbn [andb]. destruct (a <? off + idx + S (length ns)) eqn:Bd; [|reflexivity]. cbn [andb].
          destruct (a <? length values); [|reflexivity].
          replace (a - off - idx) with (S (a - off - S idx)) by lia. reflexivity. }
        { replace (off + idx <=? a) with false by (symmetry; apply Nat.leb_gt; lia). reflexivity. }
      * specialize (IH (S idx) off e values ND' ltac:(lia)).
        destruct (dict_extract kws nkw ns (S idx) off e values) as [values' e'].
        destruct IH as [E [L P]]. split; [lia|]. split; [exact L|].
        intros a. rewrite P. cbn [length].
        destruct (Nat.eq_dec a (off + idx)) as [->|NE].
        { replace (off + S idx <=? off + idx) with false by (symmetry; apply Nat.leb_gt; lia).
          cbn [andb]. rewrite Nat.leb_refl.
          replace (off + idx <? off + idx + S (length ns)) with true by (symmetry; apply Nat.ltb_lt; lia).
          cbn [andb]. replace (off + idx - off - idx) with 0 by lia. cbn [nth]. rewrite G.
          destruct (off + idx <? length values); reflexivity. }
        destruct (Nat.leb_spec (off + S idx) a) as [LE|GT].
        { replace (off + idx <=? a) with true by (symmetry; apply Nat.leb_le; lia).
          replace (a <? off + S idx + length ns) with (a <? off + idx + S (length ns))
            by (destruct (Nat.ltb_spec a (off + S idx + length ns)), (Nat.ltb_spec a (off + idx + S (length ns))); auto; lia).
          cbn [andb]. destruct (a <? off + idx + S (length ns)) eqn:Bd; [|reflexivity]. cbn [andb].
          destruct (a <? length values); [|reflexivity].
          replace (a - off - idx) with (S (a - off - S idx)) by lia. reflexivity. }
        { replace (off + idx <=? a) with false by (symmetry; apply Nat.leb_gt; lia). reflexivity. }
    + (* the counter reached the number of keywords: nothing further can match *)
      assert (C0 : cnt kws (n :: ns) = 0) by lia.
      split; [lia|]. split; [reflexivity|]. intros a.
      destruct ((off + idx <=? a) && (a <? off + idx + length (n :: ns)) && (a <? length values)) eqn:C; [|reflexivity].
      apply andb_true_iff in C as [C _]. apply andb_true_iff in C as [C1 C2].
      apply Nat.leb_le in C1. apply Nat.ltb_lt in C2.
      rewrite (cnt_zero_miss _ kws (n :: ns) _ C0); [reflexivity|]. apply nth_In. lia.
Qed.

Lemma knames_nodup : forall V (kws : list (key * V)), all_str kws -> keys_nodup kws = true ->
  NoDup (map (fun kv => k_name (fst kv)) kws).
Proof.
  intros V kws; induction kws as [|[k v] r IH]; intros AS KN; [constructor|].
  apply all_str_cons in AS as [S AS']. cbn [fst] in S.
  cbn [keys_nodup] in KN. apply andb_true_iff in KN as [K1 K2]. apply negb_true_iff in K1.
  cbn [map fst]. constructor; [|apply IH; assumption].
  intros I. apply in_map_iff in I as [kv [E I]].
  pose proof (existsb_false_In _ _ _ _ K1 I) as Q. cbn beta in Q.
  unfold key_same in Q. rewrite S, (AS' kv I), E, Nat.eqb_refl in Q. discriminate.
Qed.

Lemma filter_length_lt : forall A (f : A -> bool) l x, In x l -> f x = false -> length (filter f l) < length l.
Proof.
  intros A f l; induction l as [|y r IH]; intros x I E; [contradiction|]. cbn [filter length].
  pose proof (filter_length_le _ f r) as LE.
  destruct I as [->|I].
  - rewrite E. lia.
  - specialize (IH x I E). destruct (f y); cbn [length]; lia.
Qed.

(* the counter of the extraction loop falls short of the number of keywords exactly when some
   keyword matches no name at or after [first] *)
Lemma extract_count : forall V (kws : list (key * V)) names first,
  NoDup names -> all_str kws -> keys_nodup kws = true ->
  (cnt kws (skipn first names) <? length kws) =
  existsb (fun kv => negb (matched_from names first (fst kv))) kws.
Proof.
  intros V kws names first ND AS KN.
  assert (NDs : NoDup (skipn first names)).
  { rewrite <- (firstn_skipn first names) in ND. apply NoDup_app_r in ND. exact ND. }
  destruct (existsb (fun kv => negb (matched_from names first (fst kv))) kws) eqn:X.
  - apply Nat.ltb_lt. apply existsb_exists in X as [kv0 [I0 M0]]. apply negb_true_iff in M0.
    apply Nat.le_lt_trans with (length (filter (fun kv => matched_from names first (fst kv)) kws));
      [|apply (filter_length_lt _ _ _ kv0 I0 M0)].
    rewrite <- (map_length (fun kv => k_name (fst kv))). unfold cnt.
    apply NoDup_incl_length; [apply NoDup_filter; exact NDs|].
    intros n I. apply filter_In in I as [I H]. unfold hit in H.
    destruct (dict_get n kws) as [v|] eqn:G; [|discriminate].
    destruct (dict_get_Some_In _ _ _ _ G) as [kv [Ik E]].
    apply in_map_iff. exists kv. split; [apply key_eq_name in E as [E _]; exact E|].
    apply filter_In. split; [exact Ik|]. rewrite <- existsb_skipn_midx by exact ND.
    apply existsb_exists. exists n. split; assumption.
  - apply Nat.ltb_ge. rewrite <- (map_length (fun kv => k_name (fst kv)) kws). unfold cnt.
    apply NoDup_incl_length; [apply knames_nodup; assumption|].
    intros n I. apply in_map_iff in I as [kv [E I]].
    pose proof (existsb_false_In _ _ _ _ X I) as Q. cbn beta in Q. apply negb_false_iff in Q.
    rewrite <- existsb_skipn_midx in Q by exact ND. apply existsb_exists in Q as [n' [I' E']].
    assert (n' = n) by (apply key_eq_name in E' as [E' _]; congruence). subst n'.
    apply filter_In. split; [exact I'|]. unfold hit.
    pose proof (dict_get_In _ n kws kv I E') as NN. destruct (dict_get n kws); [reflexivity|congruence].
Qed.

Lemma unmatched_split : forall names first k,
  negb (matched_from names first k) = kw_dup names first k || kw_unknown names k.
Proof.
  intros. unfold matched_from, kw_dup, kw_unknown. destruct (midx k names); [rewrite orb_false_r|]; reflexivity.
Qed.

Lemma existsb_unmatched_strict : forall V (kws : list (key * V)) names first,
  existsb (fun kv => negb (matched_from names first (fst kv))) kws =
  existsb (fun kv => kw_bad names first true (fst kv)) kws.
Proof.
  intros V kws names first; induction kws as [|kv r IH]; [reflexivity|]. cbn [existsb]. rewrite IH.
  rewrite unmatched_split. unfold kw_bad. cbn [andb]. reflexivity.
Qed.

(* __Pyx_ParseKeywordDict (kwds dict convention, no **kwargs dict to fill) agrees with the reference loop *)
Theorem parser_ok_dict_none : forall V (kws : list (key * V)) names first off ignore values,
  NoDup names -> all_str kws -> keys_nodup kws = true -> first <= length names ->
  sim (parse_keywords PDict kws names first off ignore values None)
      (parse_ref kws names first off ignore values None).
Proof.
  intros V kws names first off ignore values ND AS KN FL.
  cbn [parse_keywords]. unfold parse_dict. rewrite (all_str_nonstr _ _ AS).
  assert (NDs : NoDup (skipn first names)).
  { rewrite <- (firstn_skipn first names) in ND. apply NoDup_app_r in ND. exact ND. }
  pose proof (dict_extract_spec V kws (length kws) (skipn first names) first off 0 values NDs
                (cnt_le V kws _ NDs)) as S.
  destruct (dict_extract kws (length kws) (skipn first names) first off 0 values) as [values' ex].
  destruct S as [E [L P]]. cbn [Nat.add] in E. rewrite E.
  rewrite (extract_count V kws names first ND AS KN).
  rewrite (validate_dup_exact V kws names first ND).
  pose proof (parse_ref_ok V kws names first off ignore values None ND AS KN ltac:(intros d [=])) as R.
  cbn [strict_of] in R.
  destruct (parse_ref kws names first off ignore values None) as [e|[vals' kw']].
  - destruct R as [_ B]. destruct ignore; cbn [negb] in B.
    + rewrite existsb_bad_lenient in B. rewrite B.
      assert (U : existsb (fun kv => negb (matched_from names first (fst kv))) kws = true).
      { apply existsb_exists in B as [kv [I Dp]]. apply existsb_exists. exists kv. split; [exact I|].
        rewrite unmatched_split, Dp. reflexivity. }
      rewrite U. cbn [sim]. discriminate.
    + rewrite existsb_unmatched_strict, B. cbn [sim].
      apply reject_unknown_blames; assumption.
  - destruct R as [B [L' [P' K']]].
    assert (EV : values' = vals').
    { apply (nth_ext _ _ None None); [congruence|]. intros a _. rewrite P, P'. unfold ref_at.
      rewrite skipn_length.
      replace (off + first + (length names - first)) with (off + length names) by lia.
      destruct ((off + first <=? a) && (a <? off + length names) && (a <? length values)) eqn:C; [|reflexivity].
      apply andb_true_iff in C as [C _]. apply andb_true_iff in C as [C _]. apply Nat.leb_le in C.
      rewrite nth_skipn. replace (first + (a - off - first)) with (a - off) by lia. reflexivity. }
    cbn [option_map] in K'. subst kw' vals'.
    destruct ignore; cbn [negb] in B.
    + rewrite existsb_bad_lenient in B. rewrite B.
      destruct (existsb (fun kv => negb (matched_from names first (fst kv))) kws); cbn [sim]; reflexivity.
    + rewrite existsb_unmatched_strict, B. cbn [sim]. reflexivity.
Qed.

(* both dict loops: the obligation of Prop/C24.v is discharged *)
Theorem parser_ok_dict : parser_ok PDict.
Proof.
  intros V kws names first off ignore values kw0 ND AS KN FL _ _ [->| ->].
  - apply parser_ok_dict_none; assumption.
  - apply parser_ok_dict2dict; assumption.
Qed.

Theorem parser_ok_all : forall pth, parser_ok pth.
Proof.
  intros pth. destruct pth; try (apply parser_ok_tuple; discriminate). apply parser_ok_dict.
Qed.

(* the full statement of C24 *)
Theorem call_eq_full : forall V vc pth s (c : call V),
  wf_sig s = true -> wf_path pth s = true -> wf_entry vc pth = true -> keys_nodup (c_kws c) = true ->
  erase s (call_cy vc pth s c) = erase s (call_py s c).
Proof.
  intros V vc pth s c WS WP WE KN. apply call_eq_param; auto. intros _. apply parser_ok_all.
Qed.
