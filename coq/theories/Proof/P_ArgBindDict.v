(* Pieces of the dict-convention keyword loops (__Pyx_ParseKeywordDict / DictToDict):
   the duplicate test and the unknown-keyword report, characterised exactly.  These are the
   error-side halves of the obligation parser_ok PDict of Prop/C24.v. *)
From Coq Require Import List Bool Arith Lia.
From CyVerif Require Import Model.M_ArgBind Proof.P_ArgBind.
Import ListNotations.

Lemma dict_get_In : forall V n (d : list (key * V)) kv,
  In kv d -> key_eq (fst kv) n = true -> dict_get n d <> None.
Proof.
  intros V n d; induction d as [|[k x] r IH]; intros kv I E; [contradiction|].
  cbn [dict_get]. destruct (key_eq k n) eqn:Ek; [discriminate|].
  destruct I as [<-|I]; [cbn [fst] in E; congruence|]. exact (IH kv I E).
Qed.

(* __Pyx_ValidateDuplicatePosArgs reports a duplicate exactly when some keyword names a parameter
   that was already filled positionally *)
Lemma validate_dup_exact : forall V (kws : list (key * V)) names first,
  NoDup names ->
  validate_dup kws names first = existsb (fun kv => kw_dup names first (fst kv)) kws.
Proof.
  intros V kws names first ND. apply eq_true_iff_eq. unfold validate_dup. split.
  - intros H. apply existsb_firstn in H as [i [L1 [L2 E]]].
    destruct (dict_get (nth i names 0) kws) as [v|] eqn:G; [|discriminate].
    destruct (dict_get_Some_In _ _ _ _ G) as [kv [I Ek]].
    apply existsb_exists. exists kv. split; [exact I|].
    unfold kw_dup. rewrite (midx_unique _ _ _ ND L2 Ek).
    apply negb_true_iff, Nat.leb_gt. exact L1.
  - intros H. apply existsb_exists in H as [kv [I D]]. unfold kw_dup in D.
    destruct (midx (fst kv) names) as [i|] eqn:M; [|discriminate].
    apply negb_true_iff, Nat.leb_gt in D. destruct (midx_Some _ _ _ M) as [L E].
    apply existsb_firstn. exists i. repeat split; try assumption.
    pose proof (dict_get_In _ _ _ _ I E) as NN.
    destruct (dict_get (nth i names 0) kws); [reflexivity|congruence].
Qed.

(* __Pyx_RejectUnknownKeyword always finds a keyword to blame when one is bad (duplicate or
   unknown), so the impossible fall-through (returning without an exception set) is unreachable *)
Lemma reject_unknown_blames : forall V (kws : list (key * V)) names first,
  NoDup names -> all_str kws ->
  existsb (fun kv => kw_bad names first true (fst kv)) kws = true ->
  reject_unknown kws names first <> EImpossible.
Proof.
  intros V kws names first ND; induction kws as [|[k v] rest IH]; intros AS H; [discriminate|].
  apply all_str_cons in AS as [S AS']. cbn [fst] in S.
  cbn [reject_unknown].
  pose proof (tuple_find_spec k names first ND S) as T. unfold tuple_find in T.
  cbn [existsb fst] in H. apply orb_true_iff in H.
  assert (HB : kw_bad names first true k = (match midx k names with Some j => negb (first <=? j) | None => true end)).
  { unfold kw_bad, kw_dup, kw_unknown. destruct (midx k names); [apply orb_false_r|reflexivity]. }
  rewrite HB in H.
  destruct (find_from (key_is k) first names) as [i|] eqn:F.
  - destruct (midx k names) as [j|] eqn:M; [|discriminate].
    destruct (first <=? j) eqn:C; [|discriminate]. cbn in H.
    destruct H as [H|H]; [discriminate|]. apply IH; assumption.
  - rewrite T. destruct (midx k names) as [j|] eqn:M.
    + destruct (first <=? j) eqn:C; [|discriminate]. cbn in H.
      destruct H as [H|H]; [discriminate|]. apply IH; assumption.
    + discriminate.
Qed.
