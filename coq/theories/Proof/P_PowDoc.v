(* C07 -- the destination rule of a ** b (PowNode.compute_c_result_type + PowNode.coerce_to):
   proofs about Model/M_PowDoc.v.  Every domain here is a finite product of enumerations; the
   statements are universally quantified and proved by exhaustive case analysis. *)
From Coq Require Import List Bool.
From CyVerif Require Import Model.M_PowDoc.
Import ListNotations.

Ltac all_cases :=
  repeat match goal with
         | x : cpow3 |- _ => destruct x
         | x : opnd |- _ => destruct x
         | x : ekind |- _ => destruct x
         | x : atype |- _ => destruct x
         | x : bkind |- _ => destruct x
         | x : dest |- _ => destruct x
         | x : bool |- _ => destruct x
         end.

(* the deterministic type function stays inside the documented (relational) table *)
Lemma pow_type_in_doc : forall cpow a b, doc_allows cpow a b (pow_type cpow (OC a) (EC b)) = true.
Proof. intros. all_cases; reflexivity. Qed.

(* model of the code = rule read from the documentation side *)
Lemma pow_coerced_eq_doc : forall c a b d, pow_coerced c a b d = doc_coerced c a b d.
Proof. intros. all_cases; reflexivity. Qed.

(* an explicit directive value fixes the type; the destination never changes it, never warns *)
Lemma explicit_dest_independent : forall c a b d,
  c <> CUnset ->
  o_type (pow_coerced c a b d) = pow_type (eff_cpow c) a b /\ o_warned (pow_coerced c a b d) = false.
Proof. intros c a b d H. destruct c; [congruence| |]; split; reflexivity. Qed.

(* a compile error is reported exactly when the (final) type is not assignable *)
Lemma rejected_iff_not_assignable : forall c a b d,
  o_rejected (pow_coerced c a b d) = negb (assignable (o_type (pow_coerced c a b d)) d).
Proof. reflexivity. Qed.

(* unset: either exactly the cpow=False rule, or the warned fallback, which needs a direct C
   int/float destination and C real operands, and then gives the cpow=True column *)
Lemma unset_is_false_or_fallback : forall a b d,
  (o_warned (pow_coerced CUnset a b d) = false /\ pow_coerced CUnset a b d = pow_coerced CFalse a b d) \/
  (o_warned (pow_coerced CUnset a b d) = true /\ is_direct_c_real d = true /\
   o_is_c_real a = true /\ e_is_c_real b = true /\
   o_type (pow_coerced CUnset a b d) = pow_type true a b /\ pow_type true a b <> pow_type false a b).
Proof.
  intros. all_cases; first [ left; split; reflexivity
                           | right; repeat (split; try reflexivity); discriminate ].
Qed.

(* base known non-negative, or exponent known integral: a real base cannot give a complex power *)
Definition provably_real (a : opnd) (b : ekind) : bool :=
  match a, b with
  | OC AUInt, EC _ | OPosFloat, EC _ | OPosIntConst, EC _ => true
  | OC _, EC k => b_is_int k || match k with BIntegralFloatConst => true | _ => false end
  | _, _ => false
  end.
Definition exponent_nonneg (b : ekind) : bool :=
  match b with EC BNonNegIntConst | EC BRuntimeUnsignedInt => true | _ => false end.

(* cpow=False (explicit): C semantics are only ever delivered where they coincide with Python's:
   C pow() only for provably real results, the C integer helper only for exponents known >= 0,
   whatever the destination *)
Lemma explicit_false_c_semantics_safe : forall a b d real,
  match deliver (o_type (pow_coerced CFalse a b d)) d real with
  | VFloat => provably_real a b = true
  | VInt => exponent_nonneg b = true
  | _ => True
  end.
Proof. intros. all_cases; cbn; auto. Qed.

(* cpow=False (explicit), type soft complex: a non-real result never reaches a C real silently *)
Lemma explicit_false_nonreal_raises : forall a b,
  pow_type false a b = RSoftComplex ->
  deliver (o_type (pow_coerced CFalse a b DCFloat)) DCFloat false = VTypeError /\
  o_rejected (pow_coerced CFalse a b DCInt) = true /\
  deliver (o_type (pow_coerced CFalse a b DPyObj)) DPyObj false = VPyComplex /\
  deliver (o_type (pow_coerced CFalse a b DNone)) DNone false = VPyComplex.
Proof. intros a b H. all_cases; try discriminate H; repeat split; reflexivity. Qed.

(* cpow=True (explicit): never soft complex, never a TypeError, destination-independent type *)
Lemma explicit_true_no_softcomplex : forall a b d real,
  o_type (pow_coerced CTrue a b d) <> RSoftComplex /\
  (deliver (o_type (pow_coerced CTrue a b d)) d real = VTypeError -> o_type (pow_coerced CTrue a b d) = RObj).
Proof. intros. all_cases; split; try discriminate; cbn; auto; discriminate. Qed.

Lemma crow_ok_model : forall row, crow_ok row = crow_model_ok row.
Proof. intros [[[[c a] b] d] [[r rej] w]]. unfold crow_ok, crow_model_ok. rewrite pow_coerced_eq_doc. reflexivity. Qed.
