(* Proofs for Model/M_CmpNot.v: `not (a in b)` -> `a not in b` etc. keeps value, exception and
   operand evaluations. *)
From Coq Require Import ZArith List Bool Lia.
From CyVerif Require Import Lib.CInt Model.M_Cmp Proof.P_Cmp Model.M_CmpFold Model.M_CmpNot.
Import ListNotations.
Open Scope Z_scope.

Definition quiet (v : val) : bool := false.

Section NotProofs.
  Variable cmp : Z -> val -> val -> val + exn.
  Variable truth : val -> bool + exn.
  Variable vbool : bool -> val.

  Hypothesis Htruth : forall b, truth (vbool b) = inl b.
  (* `a not in b` is `not (a in b)`, `a is not b` is `not (a is b)` (language reference 6.10.2,
     6.10.3): same exception, negated bool *)
  Hypothesis Hneg : forall op op' a b, negate_op op = Some op' ->
    match cmp op a b with
    | inr x => cmp op' a b = inr x
    | inl r => exists bb, r = vbool bb /\ cmp op' a b = inl (vbool (negb bb))
    end.

  Lemma flt_ops_snoc : forall t e, is_opev e = false ->
    filter (keep quiet) (t ++ [e]) = filter (keep quiet) t.
  Proof.
    intros. rewrite filter_app. cbn [filter].
    destruct e; cbn in *; try discriminate; rewrite app_nil_r; reflexivity.
  Qed.

  Theorem handle_not_correct : forall ns,
    obs quiet (eval_nexpr cmp truth vbool (handle_not ns)) =
    obs quiet (eval_nexpr cmp truth vbool (NNot ns)).
  Proof.
    intros ns. unfold handle_not.
    destruct ns as [|n [|n2 ns]]; try reflexivity.
    2:{ destruct n as [b|[h [|[op r] [|l2 ls]]]]; reflexivity. }
    destruct n as [b|[h ls]].
    - cbn [eval_nexpr eval_nodes eval_node]. rewrite Htruth. unfold obs. cbn [fst snd app filter keep quiet].
      reflexivity.
    - destruct ls as [|[op r] [|l2 ls]]; try reflexivity.
      destruct (negate_op op) as [op'|] eqn:Hn; [|reflexivity].
      cbn [eval_nexpr eval_nodes eval_node fst snd app].
      destruct (o_res h) as [v0|x]; [|reflexivity].
      rewrite !ref_links_cons.
      destruct (o_res r) as [vr|x]; [|reflexivity].
      specialize (Hneg op op' v0 vr Hn).
      destruct (cmp op v0 vr) as [res|x].
      + destruct Hneg as [bb [Hb Hc]]. subst res. rewrite Hc. cbn [ref_after]. rewrite Htruth.
        unfold obs. cbn [fst snd]. f_equal.
        rewrite !flt_ops_snoc by reflexivity. reflexivity.
      + rewrite Hneg. unfold obs. cbn [fst snd]. f_equal.
        rewrite !flt_ops_snoc by reflexivity. reflexivity.
  Qed.
End NotProofs.

(* without the operator swap the rewrite would be wrong: negate_op is what makes it right *)
Theorem handle_not_nonvacuous :
  handle_not [FCasc (mkOp 0 true (inl 1), [(8, mkOp 1 true (inl 7))])] =
    NPlain [FCasc (mkOp 0 true (inl 1), [(9, mkOp 1 true (inl 7))])] /\
  handle_not [FCasc (mkOp 0 true (inl 1), [(0, mkOp 1 true (inl 7))])] =
    NNot [FCasc (mkOp 0 true (inl 1), [(0, mkOp 1 true (inl 7))])] /\
  handle_not [FBool true] = NPlain [FBool false].
Proof. repeat split; reflexivity. Qed.
