From Coq Require Import ZArith List Bool Lia.
From CyVerif Require Import Model.M_Pickle.
Import ListNotations.

Lemma placeholder : True. Proof. exact I. Qed.
