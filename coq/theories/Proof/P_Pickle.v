(* C29 - proofs about the model of automatic pickling (Model/M_Pickle.v). *)
From Coq Require Import ZArith List Bool Lia Permutation Sorted.
From CyVerif Require Import Model.M_Pickle.
Import ListNotations.

(* ------------------------------------------------------------------ names *)
Lemma name_eqb_eq : forall a b, name_eqb a b = true <-> a = b.
Proof.
  induction a as [|x a IH]; destruct b as [|y b]; simpl; split; intro H; try reflexivity; try discriminate.
  - apply andb_true_iff in H. destruct H as [H1 H2]. apply N.eqb_eq in H1. apply IH in H2. subst. reflexivity.
  - injection H as -> ->. apply andb_true_iff. split. apply N.eqb_refl. apply IH. reflexivity.
Qed.

Lemma name_eqb_refl : forall a, name_eqb a a = true.
Proof. intro a. apply name_eqb_eq. reflexivity. Qed.

Lemma name_eqb_neq : forall a b, a <> b -> name_eqb a b = false.
Proof.
  intros a b H. destruct (name_eqb a b) eqn:E; [|reflexivity]. apply name_eqb_eq in E. contradiction.
Qed.

Lemma name_leb_total : forall a b, name_leb a b = true \/ name_leb b a = true.
Proof.
  induction a as [|x a IH]; destruct b as [|y b]; simpl; auto.
  destruct (N.ltb_spec x y); auto. destruct (N.ltb_spec y x); auto.
Qed.

Lemma name_leb_refl : forall a, name_leb a a = true.
Proof. intro a. destruct (name_leb_total a a); assumption. Qed.

Lemma name_leb_antisym : forall a b, name_leb a b = true -> name_leb b a = true -> a = b.
Proof.
  induction a as [|x a IH]; destruct b as [|y b]; simpl; intros H1 H2; try reflexivity; try discriminate.
  destruct (N.ltb_spec x y) as [L|L].
  - destruct (N.ltb_spec y x) as [L2|L2]; [lia|]. destruct (N.ltb_spec x y); [discriminate|lia].
  - destruct (N.ltb_spec y x) as [L2|L2]; [discriminate|].
    assert (x = y) by lia. subst. f_equal. apply IH; assumption.
Qed.

Lemma name_leb_trans : forall a b c, name_leb a b = true -> name_leb b c = true -> name_leb a c = true.
Proof.
  induction a as [|x a IH]; intros b c H1 H2; [reflexivity|].
  destruct b as [|y b]; [discriminate|]. destruct c as [|z c]; [simpl in H2; discriminate|].
  simpl in *.
  destruct (N.ltb_spec x y) as [L1|L1].
  - destruct (N.ltb_spec y z) as [L2|L2].
    + destruct (N.ltb_spec x z); [reflexivity|lia].
    + destruct (N.ltb_spec z y); [discriminate|]. destruct (N.ltb_spec x z); [reflexivity|lia].
  - destruct (N.ltb_spec y x) as [L1'|L1']; [discriminate|]. assert (x = y) by lia. subst y.
    destruct (N.ltb_spec x z) as [L2|L2]; [reflexivity|].
    destruct (N.ltb_spec z x) as [L3|L3]; [discriminate|]. eapply IH; eassumption.
Qed.

(* ------------------------------------------------------------------ sorting *)
Definition mle (a b : member) : Prop := name_leb (m_name a) (m_name b) = true.

Lemma insert_perm : forall x l, Permutation (insert_m x l) (x :: l).
Proof.
  intros x l. induction l as [|y r IH]; simpl; [apply Permutation_refl|].
  destruct (name_leb (m_name x) (m_name y)); [apply Permutation_refl|].
  eapply Permutation_trans; [apply perm_skip; exact IH|apply perm_swap].
Qed.

Lemma sort_perm : forall l, Permutation (sort_m l) l.
Proof.
  induction l as [|x r IH]; simpl; [constructor|].
  eapply Permutation_trans; [apply insert_perm|apply perm_skip; exact IH].
Qed.

Lemma insert_sorted : forall x l, StronglySorted mle l -> StronglySorted mle (insert_m x l).
Proof.
  intros x l H. induction H as [|y r Hs IH Hall]; simpl.
  - constructor; constructor.
  - destruct (name_leb (m_name x) (m_name y)) eqn:E.
    + constructor. constructor; assumption.
      constructor; [exact E|]. eapply Forall_impl; [|exact Hall].
      intros a Ha. unfold mle in *. eapply name_leb_trans; eassumption.
    + constructor; [exact IH|].
      assert (Hyx : mle y x).
      { unfold mle. destruct (name_leb_total (m_name y) (m_name x)) as [T|T]; [exact T|congruence]. }
      eapply Permutation_Forall; [apply Permutation_sym; apply insert_perm|].
      constructor; assumption.
Qed.

Lemma sort_sorted : forall l, StronglySorted mle (sort_m l).
Proof.
  induction l as [|x r IH]; simpl; [constructor|]. apply insert_sorted. exact IH.
Qed.

(* two sorted lists with the same elements and pairwise distinct names are equal *)
Lemma sorted_perm_eq : forall l1 l2,
  StronglySorted mle l1 -> StronglySorted mle l2 -> Permutation l1 l2 ->
  NoDup (map m_name l1) -> l1 = l2.
Proof.
  induction l1 as [|a r1 IH]; intros l2 S1 S2 P ND.
  - apply Permutation_nil in P. subst. reflexivity.
  - destruct l2 as [|b r2]; [apply Permutation_sym in P; apply Permutation_nil in P; discriminate|].
    inversion S1 as [|? ? S1r A1]; subst. inversion S2 as [|? ? S2r A2]; subst.
    assert (Hab : a = b).
    { assert (Ia : In a (b :: r2)) by (eapply Permutation_in; [exact P|left; reflexivity]).
      assert (Ib : In b (a :: r1)) by (eapply Permutation_in; [apply Permutation_sym; exact P|left; reflexivity]).
      destruct Ia as [->|Ia]; [reflexivity|]. destruct Ib as [->|Ib]; [reflexivity|].
      rewrite Forall_forall in A1, A2. specialize (A1 b Ib). specialize (A2 a Ia). unfold mle in *.
      assert (En : m_name a = m_name b) by (apply name_leb_antisym; assumption).
      exfalso. simpl in ND. inversion ND as [|? ? Hn _]; subst. apply Hn. rewrite En. apply in_map. exact Ib. }
    subst b. f_equal. apply IH; try assumption.
    + eapply Permutation_cons_inv. exact P.
    + simpl in ND. inversion ND; assumption.
Qed.

Lemma sort_m_unique : forall l1 l2,
  Permutation l1 l2 -> NoDup (map m_name l1) -> sort_m l1 = sort_m l2.
Proof.
  intros l1 l2 P ND. apply sorted_perm_eq; try apply sort_sorted.
  - eapply Permutation_trans; [apply sort_perm|]. eapply Permutation_trans; [exact P|].
    apply Permutation_sym. apply sort_perm.
  - eapply Permutation_NoDup; [|exact ND]. apply Permutation_map. apply Permutation_sym. apply sort_perm.
Qed.

Lemma all_members_perm : forall h, Permutation (all_members h) (gather h).
Proof. intro h. apply sort_perm. Qed.

Lemma all_members_sorted : forall h, StronglySorted mle (all_members h).
Proof. intro h. apply sort_sorted. Qed.

(* the layout (hence the checksum and the state order) depends only on the SET of members of the
   class and its bases: re-ordering declarations or moving them between base and subclass keeps it *)
Lemma layout_invariant : forall h1 h2,
  Permutation (gather h1) (gather h2) -> NoDup (map m_name (gather h1)) -> all_members h1 = all_members h2.
Proof. intros. apply sort_m_unique; assumption. Qed.

Lemma in_all_members : forall h m, In m (all_members h) <-> In m (gather h).
Proof.
  intros h m. split; intro H.
  - eapply Permutation_in; [apply all_members_perm|exact H].
  - eapply Permutation_in; [apply Permutation_sym; apply all_members_perm|exact H].
Qed.

Lemma in_gather : forall h m,
  In m (gather h) <-> exists c, In c h /\ In m (c_members c) /\ special (m_name m) = false.
Proof.
  intros h m. unfold gather. rewrite in_flat_map. split.
  - intros [c [Hc Hm]]. unfold own_members in Hm. apply filter_In in Hm. destruct Hm as [Hm Hs].
    exists c. repeat split; try assumption. apply negb_true_iff in Hs. exact Hs.
  - intros [c [Hc [Hm Hs]]]. exists c. split; [exact Hc|]. unfold own_members. apply filter_In.
    split; [exact Hm|]. rewrite Hs. reflexivity.
Qed.

(* ------------------------------------------------------------------ eligibility *)
Definition quiet (f : flags) (e : modenv) : Prop :=
  fx_lookup f = true \/ (g_cinit e = false /\ g_reduce e = false).

Lemma quiet_cinit : forall f e, quiet f e -> negb (fx_lookup f) && g_cinit e = false.
Proof. intros f e [H|[H _]]; rewrite H; [reflexivity|apply andb_false_r]. Qed.

Lemma quiet_reduce : forall f e, quiet f e -> negb (fx_lookup f) && g_reduce e = false.
Proof. intros f e [H|[_ H]]; rewrite H; [reflexivity|apply andb_false_r]. Qed.

Lemma filter_nil_iff : forall (A : Type) (p : A -> bool) l,
  filter p l = [] <-> forall x, In x l -> p x = false.
Proof.
  intros A p l. induction l as [|a r IH]; simpl; split; intro H.
  - intros x [].
  - reflexivity.
  - destruct (p a) eqn:E; [discriminate|]. intros x [->|Hx]; [exact E|]. apply IH; assumption.
  - destruct (p a) eqn:E.
    + rewrite (H a (or_introl eq_refl)) in E. discriminate.
    + apply IH. intros x Hx. apply H. right. exact Hx.
Qed.

(* the documented rule: "generate __reduce__ iff each member is convertible to Python and there
   is no __cinit__"; structs need auto_pickle(True); auto_pickle(False) / a user __reduce__ switch
   it off *)
Definition documented_rule (f : flags) (c : cls) (bs : list cls) : Prop :=
  existsb c_reduce (c :: bs) = false /\
  c_auto c <> Some false /\
  existsb c_cinit (c :: bs) = false /\
  (forall m, In m (all_members (c :: bs)) -> non_py f (m_kind m) = false) /\
  ((forall m, In m (all_members (c :: bs)) -> is_struct (m_kind m) = false) \/ c_auto c = Some true).

Lemma decide_pickle_iff : forall f e c bs,
  quiet f e ->
  ((exists ms, decide f e (c :: bs) = InjectPickle ms) <-> documented_rule f c bs).
Proof.
  intros f e c bs Q. unfold documented_rule, decide, reduce_in_scope.
  rewrite (quiet_reduce f e Q). rewrite orb_false_r.
  destruct (existsb c_reduce (c :: bs)) eqn:ER.
  { split; [intros [ms H]; discriminate|intros [H _]; discriminate]. }
  assert (Hon : (exists ms, decide_on f e (c :: bs) = InjectPickle ms) <->
                (existsb c_cinit (c :: bs) = false /\
                 (forall m, In m (all_members (c :: bs)) -> non_py f (m_kind m) = false) /\
                 ((forall m, In m (all_members (c :: bs)) -> is_struct (m_kind m) = false) \/
                  c_auto c = Some true))).
  { unfold decide_on. rewrite (quiet_cinit f e Q). rewrite orb_false_r.
    destruct (existsb c_cinit (c :: bs)) eqn:EC.
    { split; [intros [ms H]; discriminate|intros [H _]; discriminate]. }
    destruct (filter (fun m => non_py f (m_kind m)) (all_members (c :: bs))) as [|np1 npr] eqn:ENP.
    2:{ split; [intros [ms H]; discriminate|].
        intros [_ [H _]]. exfalso.
        assert (I : In np1 (filter (fun m => non_py f (m_kind m)) (all_members (c :: bs)))) by (rewrite ENP; left; reflexivity).
        apply filter_In in I. destruct I as [I1 I2]. rewrite (H _ I1) in I2. discriminate. }
    pose proof (proj1 (filter_nil_iff _ _ _) ENP) as HNP.
    destruct (filter (fun m => is_struct (m_kind m)) (all_members (c :: bs))) as [|s1 sr] eqn:EST.
    { pose proof (proj1 (filter_nil_iff _ _ _) EST) as HST.
      split; [intros _|intros _; eexists; reflexivity].
      split; [reflexivity|]. split; [exact HNP|]. left. exact HST. }
    simpl head_auto.
    destruct (c_auto c) as [[|]|] eqn:EA.
    - split; [intros _|intros _; eexists; reflexivity].
      split; [reflexivity|]. split; [exact HNP|]. right. reflexivity.
    - split; [intros [ms H]; discriminate|]. intros [_ [_ [H|H]]]; [|discriminate].
      exfalso. assert (I : In s1 (filter (fun m => is_struct (m_kind m)) (all_members (c :: bs)))) by (rewrite EST; left; reflexivity).
      apply filter_In in I. destruct I as [I1 I2]. rewrite (H _ I1) in I2. discriminate.
    - split; [intros [ms H]; discriminate|]. intros [_ [_ [H|H]]]; [|discriminate].
      exfalso. assert (I : In s1 (filter (fun m => is_struct (m_kind m)) (all_members (c :: bs)))) by (rewrite EST; left; reflexivity).
      apply filter_In in I. destruct I as [I1 I2]. rewrite (H _ I1) in I2. discriminate. }
  destruct (c_auto c) as [[|]|] eqn:EA.
  - rewrite Hon. split.
    + intros [A [B C]]. split; [reflexivity|]. split; [discriminate|]. split; [exact A|]. split; [exact B|exact C].
    + intros [_ [_ [A [B C]]]]. split; [exact A|]. split; [exact B|exact C].
  - split; [intros [ms H]; discriminate|]. intros [_ [H _]]. exfalso. apply H. reflexivity.
  - rewrite Hon. split.
    + intros [A [B C]]. split; [reflexivity|]. split; [discriminate|]. split; [exact A|]. split; [exact B|exact C].
    + intros [_ [_ [A [B C]]]]. split; [exact A|]. split; [exact B|exact C].
Qed.

Lemma decide_pickle_members : forall f e h ms,
  decide f e h = InjectPickle ms -> ms = all_members h.
Proof.
  intros f e h ms H. destruct h as [|c bs]; [discriminate|]. unfold decide in H.
  destruct (reduce_in_scope f e (c :: bs)); [discriminate|].
  assert (Hon : decide_on f e (c :: bs) = InjectPickle ms -> ms = all_members (c :: bs)).
  { unfold decide_on. intro D.
    destruct (existsb c_cinit (c :: bs) || negb (fx_lookup f) && g_cinit e); [discriminate|].
    destruct (filter (fun m => non_py f (m_kind m)) (all_members (c :: bs))); [|discriminate].
    destruct (filter (fun m => is_struct (m_kind m)) (all_members (c :: bs))).
    - injection D as <-. reflexivity.
    - destruct (match head_auto (c :: bs) with Some true => true | _ => false end); [|discriminate].
      injection D as <-. reflexivity. }
  destruct (c_auto c) as [[|]|]; [apply Hon; exact H|discriminate|apply Hon; exact H].
Qed.

(* precedence of the refusal reasons: __cinit__, then unconvertible members, then structs *)
Lemma decide_refusal : forall f e c bs r ns,
  decide f e (c :: bs) = InjectRaise r ns ->
  match r with
  | RCinit => existsb c_cinit (c :: bs) || negb (fx_lookup f) && g_cinit e = true
  | RNonPy => existsb c_cinit (c :: bs) = false /\ ns <> [] /\
              ns = map m_name (filter (fun m => non_py f (m_kind m)) (all_members (c :: bs)))
  | RStruct => existsb c_cinit (c :: bs) = false /\ c_auto c <> Some true /\ ns <> [] /\
               (forall m, In m (all_members (c :: bs)) -> non_py f (m_kind m) = false) /\
               ns = map m_name (filter (fun m => is_struct (m_kind m)) (all_members (c :: bs)))
  end.
Proof.
  intros f e c bs r ns H. unfold decide in H.
  destruct (reduce_in_scope f e (c :: bs)); [discriminate|].
  assert (Hon : decide_on f e (c :: bs) = InjectRaise r ns -> c_auto c <> Some false ->
    match r with
    | RCinit => existsb c_cinit (c :: bs) || negb (fx_lookup f) && g_cinit e = true
    | RNonPy => existsb c_cinit (c :: bs) = false /\ ns <> [] /\
                ns = map m_name (filter (fun m => non_py f (m_kind m)) (all_members (c :: bs)))
    | RStruct => existsb c_cinit (c :: bs) = false /\ c_auto c <> Some true /\ ns <> [] /\
                 (forall m, In m (all_members (c :: bs)) -> non_py f (m_kind m) = false) /\
                 ns = map m_name (filter (fun m => is_struct (m_kind m)) (all_members (c :: bs)))
    end).
  { unfold decide_on. intros D _.
    destruct (existsb c_cinit (c :: bs) || negb (fx_lookup f) && g_cinit e) eqn:EC.
    { injection D as <- <-. reflexivity. }
    apply orb_false_iff in EC. destruct EC as [EC _].
    destruct (filter (fun m => non_py f (m_kind m)) (all_members (c :: bs))) as [|a r0] eqn:ENP.
    2:{ injection D as <- <-. split; [exact EC|]. split; [discriminate|reflexivity]. }
    pose proof (proj1 (filter_nil_iff _ _ _) ENP) as HNP.
    destruct (filter (fun m => is_struct (m_kind m)) (all_members (c :: bs))) as [|s1 sr] eqn:EST; [discriminate|].
    simpl head_auto in D.
    destruct (c_auto c) as [[|]|] eqn:EA; [discriminate| |].
    - injection D as <- <-. split; [exact EC|]. split; [discriminate|]. split; [discriminate|]. split; [exact HNP|reflexivity].
    - injection D as <- <-. split; [exact EC|]. split; [discriminate|]. split; [discriminate|]. split; [exact HNP|reflexivity]. }
  destruct (c_auto c) as [[|]|] eqn:EA; [apply Hon; [exact H|discriminate]|discriminate|apply Hon; [exact H|discriminate]].
Qed.

(* with the repaired lookup the module environment is irrelevant *)
Lemma decide_fx_lookup_env : forall f e1 e2 h, fx_lookup f = true -> decide f e1 h = decide f e2 h.
Proof.
  intros f e1 e2 h F. destruct h as [|c bs]; [reflexivity|].
  unfold decide, reduce_in_scope, decide_on. rewrite F. simpl negb. simpl andb. reflexivity.
Qed.

(* with the repaired pointer rule an eligible class has no pointer member *)
Lemma eligible_fx_ptr_no_ptr : forall f e h ms m cv st,
  fx_ptr f = true -> decide f e h = InjectPickle ms -> In m (all_members h) ->
  m_kind m <> KC cv st true.
Proof.
  intros f e h ms m cv st F D I K. destruct h as [|c bs]; [discriminate|].
  assert (N : non_py f (m_kind m) = false).
  { unfold decide in D. destruct (reduce_in_scope f e (c :: bs)); [discriminate|].
    assert (Hon : decide_on f e (c :: bs) = InjectPickle ms -> non_py f (m_kind m) = false).
    { unfold decide_on. intro D'.
      destruct (existsb c_cinit (c :: bs) || negb (fx_lookup f) && g_cinit e); [discriminate|].
      destruct (filter (fun m => non_py f (m_kind m)) (all_members (c :: bs))) eqn:ENP; [|discriminate].
      apply (proj1 (filter_nil_iff _ _ _) ENP). exact I. }
    destruct (c_auto c) as [[|]|]; [apply Hon; exact D|discriminate|apply Hon; exact D]. }
  rewrite K in N. simpl in N. rewrite F in N. rewrite orb_true_r in N. discriminate.
Qed.

(* ------------------------------------------------------------------ checksums *)
Lemma pad3_head : forall f cs acc a, pad3 f cs = Some acc -> hd_error cs = Some a -> In a acc.
Proof.
  intros f cs acc a H Hd. destruct cs as [|x [|y [|z [|w r]]]]; simpl in *; try discriminate.
  - injection Hd as ->. destruct (fx_pad f); [|discriminate]. injection H as <-. left. reflexivity.
  - injection Hd as ->. destruct (fx_pad f); [|discriminate]. injection H as <-. left. reflexivity.
  - injection Hd as ->. injection H as <-. left. reflexivity.
Qed.

Lemma pad3_fx_total : forall f cs, fx_pad f = true -> (1 <= length cs <= 3)%nat -> exists acc, pad3 f cs = Some acc.
Proof.
  intros f cs F L. destruct cs as [|x [|y [|z [|w r]]]]; simpl in *; try lia; rewrite ?F; eexists; reflexivity.
Qed.

Lemma pad3_incl : forall f cs acc x, pad3 f cs = Some acc -> In x acc -> In x cs.
Proof.
  intros f cs acc x H I. destruct cs as [|a [|b [|c [|w r]]]]; simpl in *; try discriminate.
  - destruct (fx_pad f); [|discriminate]. injection H as <-. simpl in I. intuition.
  - destruct (fx_pad f); [|discriminate]. injection H as <-. simpl in I. intuition.
  - injection H as <-. exact I.
Qed.

Section Dyn.
Variable atom : Type.
Variable cv : Type.
Variable to_py : kind -> cv -> atom.
Variable from_py : kind -> atom -> option cv.
Variable czero : cv.
Variable atom_truth : atom -> bool.
Variable hash : nat -> list name -> Z.
Variable atom_eqb : atom -> atom -> bool.

Notation obj := (obj atom cv).
Notation sval := (sval atom cv).
Notation pv := (pv atom).
Notation unpickle := (unpickle atom cv from_py czero atom_truth hash atom_eqb).
Notation load := (load atom cv from_py czero atom_truth hash atom_eqb).
Notation load_into := (load_into atom cv from_py czero atom_truth hash atom_eqb).
Notation set_state := (set_state atom cv from_py atom_truth atom_eqb).
Notation assign := (assign atom cv from_py).
Notation update_dict := (update_dict atom cv atom_truth atom_eqb).
Notation reduce := (reduce atom cv to_py hash).
Notation reduce_cython := (reduce_cython atom cv to_py hash).
Notation read_state := (read_state atom cv to_py).
Notation item_of := (item_of atom cv to_py).
Notation conv_in := (conv_in atom cv from_py).
Notation new_obj := (new_obj atom cv czero).
Notation accepted := (accepted hash).

Lemma existsb_eqb_false : forall chk acc, ~ In chk acc -> existsb (Z.eqb chk) acc = false.
Proof.
  intros chk acc H. induction acc as [|a r IH]; [reflexivity|]. simpl.
  destruct (Z.eqb_spec chk a) as [->|N]; [exfalso; apply H; left; reflexivity|].
  apply IH. intro I. apply H. right. exact I.
Qed.

Lemma existsb_eqb_true : forall chk acc, In chk acc -> existsb (Z.eqb chk) acc = true.
Proof.
  intros chk acc H. apply existsb_exists. exists chk. split; [exact H|apply Z.eqb_refl].
Qed.

(* a checksum that is not one of the accepted ones raises PickleError, whatever the state *)
Lemma unpickle_bad_checksum : forall avail f owner t chk st acc,
  accepted avail f (all_names owner) = Some acc -> ~ In chk acc ->
  unpickle avail f owner t chk st = Err EPickle.
Proof.
  intros avail f owner t chk st acc A N. unfold M_Pickle.unpickle. rewrite A.
  rewrite (existsb_eqb_false _ _ N). reflexivity.
Qed.

Lemma load_into_bad_checksum : forall avail f e owner t rv acc,
  accepted avail f (all_names owner) = Some acc -> ~ In (rv_chk atom rv) acc ->
  load_into avail f e owner t rv = Err EPickle.
Proof.
  intros avail f e owner t rv acc A N. unfold M_Pickle.load_into, M_Pickle.load. simpl.
  rewrite (unpickle_bad_checksum _ _ _ _ _ _ _ A N). reflexivity.
Qed.

(* ---- slots ---- *)
Definition set_all (sl : member -> sval) (ms : list member) (o : obj) : obj :=
  fold_left (fun o m => set_slot atom cv o (m_name m) (sl m)) ms o.

Lemma set_all_type : forall sl ms o, o_type atom cv (set_all sl ms o) = o_type atom cv o.
Proof. intros sl ms. induction ms as [|m r IH]; intro o; simpl; [reflexivity|]. rewrite IH. reflexivity. Qed.

Lemma set_all_dict : forall sl ms o, o_dict atom cv (set_all sl ms o) = o_dict atom cv o.
Proof. intros sl ms. induction ms as [|m r IH]; intro o; simpl; [reflexivity|]. rewrite IH. reflexivity. Qed.

Lemma get_set_all_notin : forall sl ms o n,
  ~ In n (map m_name ms) ->
  get atom cv (o_slots atom cv (set_all sl ms o)) n = get atom cv (o_slots atom cv o) n.
Proof.
  intros sl ms. induction ms as [|m r IH]; intros o n H; simpl; [reflexivity|].
  rewrite IH.
  - simpl. rewrite name_eqb_neq; [reflexivity|]. intro E. apply H. left. exact E.
  - intro I. apply H. right. exact I.
Qed.

Lemma get_set_all_in : forall sl ms o m,
  NoDup (map m_name ms) -> In m ms ->
  get atom cv (o_slots atom cv (set_all sl ms o)) (m_name m) = Some (sl m).
Proof.
  intros sl ms. induction ms as [|a r IH]; intros o m ND I; [destruct I|].
  simpl in ND. inversion ND as [|? ? Hn ND']; subst. simpl.
  destruct I as [->|I].
  - rewrite get_set_all_notin; [|exact Hn]. simpl. rewrite name_eqb_refl. reflexivity.
  - apply IH; assumption.
Qed.

Lemma assign_spec : forall (sl : member -> sval) ms i st o,
  (forall j m, nth_error ms j = Some m -> nth_error st (i + j) = Some (item_of m (sl m))) ->
  (forall m, In m ms -> conv_in m (item_of m (sl m)) = Some (sl m)) ->
  assign ms i st o = Ok (set_all sl ms o).
Proof.
  intros sl ms. induction ms as [|a r IH]; intros i st o Hn Hc; [reflexivity|].
  simpl. pose proof (Hn 0%nat a eq_refl) as H0. rewrite Nat.add_0_r in H0. rewrite H0.
  rewrite (Hc a (or_introl eq_refl)). apply IH.
  - intros j m Hj. replace (S i + j)%nat with (i + S j)%nat by lia. apply Hn. exact Hj.
  - intros m Hm. apply Hc. right. exact Hm.
Qed.

(* ---- well-formed objects ---- *)
Definition slot_ok (m : member) (v : sval) : Prop :=
  match m_kind m, v with
  | KObj, SObj _ => True
  | KC _ _ false, SC c => from_py (m_kind m) (to_py (m_kind m) c) = Some c
  | _, _ => False
  end.

Definition slot_of (o : obj) (m : member) : sval :=
  match get atom cv (o_slots atom cv o) (m_name m) with Some v => v | None => SObj PNone end.

Definition wf_obj (o : obj) : Prop :=
  (forall m, In m (all_members (t_hier (o_type atom cv o))) ->
     exists v, get atom cv (o_slots atom cv o) (m_name m) = Some v /\ slot_ok m v) /\
  (o_dict atom cv o = None <-> has_dict (o_type atom cv o) = false).

Lemma slot_ok_conv : forall m v, slot_ok m v -> conv_in m (item_of m v) = Some v.
Proof.
  intros m v H. unfold slot_ok in H. unfold M_Pickle.conv_in, M_Pickle.item_of.
  destruct (m_kind m) as [|c s p] eqn:K; [destruct v; try contradiction; reflexivity|].
  destruct p; destruct v as [q|c0|]; try contradiction.
  rewrite H. reflexivity.
Qed.

Lemma slot_ok_not_dangling : forall m, ~ slot_ok m SDangling.
Proof. intros m H. unfold slot_ok in H. destruct (m_kind m) as [|c s [|]]; exact H. Qed.

Lemma read_state_spec : forall ms o,
  (forall m, In m ms -> exists v, get atom cv (o_slots atom cv o) (m_name m) = Some v /\ slot_ok m v) ->
  read_state ms o = Ok (map (fun m => item_of m (slot_of o m)) ms).
Proof.
  intros ms o. induction ms as [|a r IH]; intro H; [reflexivity|]. simpl.
  destruct (H a (or_introl eq_refl)) as [v [G S]]. unfold slot_of at 1. rewrite G.
  rewrite IH; [|intros m Hm; apply H; right; exact Hm].
  destruct v; try reflexivity. exfalso. eapply slot_ok_not_dangling. exact S.
Qed.

Lemma nth_error_map_app : forall (A B : Type) (g : A -> B) l extra j x,
  nth_error l j = Some x -> nth_error (map g l ++ extra) (0 + j) = Some (g x).
Proof.
  intros A B g l extra j x H. simpl. rewrite nth_error_app1.
  - apply map_nth_error. exact H.
  - rewrite map_length. apply nth_error_Some. rewrite H. discriminate.
Qed.

(* set_state on a fresh object with the state written by reduce *)
Lemma set_state_fresh : forall h o0 (src : obj) extra,
  NoDup (all_names h) ->
  (forall m, In m (all_members h) -> exists v, get atom cv (o_slots atom cv src) (m_name m) = Some v /\ slot_ok m v) ->
  assign (all_members h) 0 (map (fun m => item_of m (slot_of src m)) (all_members h) ++ extra) o0
    = Ok (set_all (slot_of src) (all_members h) o0).
Proof.
  intros h o0 src extra ND W. apply assign_spec.
  - intros j m Hj. apply (nth_error_map_app _ _ (fun m0 => item_of m0 (slot_of src m0))). exact Hj.
  - intros m Hm. destruct (W m Hm) as [v [G S]]. unfold slot_of. rewrite G. apply slot_ok_conv. exact S.
Qed.

Lemma dict_update_nil : forall d, dict_update atom atom_eqb [] d = d.
Proof. intro d. unfold dict_update. simpl. apply app_nil_r. Qed.

Definition same_attrs (h : hierarchy) (o1 o2 : obj) : Prop :=
  o_type atom cv o1 = o_type atom cv o2 /\
  o_dict atom cv o1 = o_dict atom cv o2 /\
  forall m, In m (all_members h) ->
    get atom cv (o_slots atom cv o1) (m_name m) = get atom cv (o_slots atom cv o2) (m_name m).

Lemma effective_own : forall f e c bs ms,
  decide f e (c :: bs) = InjectPickle ms ->
  existsb c_getstate (c :: bs) = false -> existsb c_setstate (c :: bs) = false ->
  effective_reduce f e (c :: bs) = RPickle (c :: bs) /\
  effective_setstate f e (c :: bs) = SSet (c :: bs).
Proof.
  intros f e c bs ms D G S.
  assert (R : c_reduce c = false).
  { unfold decide in D. destruct (reduce_in_scope f e (c :: bs)) eqn:E; [discriminate|].
    unfold reduce_in_scope in E. apply orb_false_iff in E. destruct E as [E _]. simpl in E.
    apply orb_false_iff in E. apply E. }
  simpl in S. apply orb_false_iff in S. destruct S as [S1 S2].
  split.
  - cbn [effective_reduce]. rewrite R, D. unfold installed. rewrite G. reflexivity.
  - cbn [effective_setstate]. rewrite S1, D. unfold installed. rewrite G, S2. reflexivity.
Qed.

(* MAIN: for every layout (any number of members, any inheritance depth), every well-formed
   object of an eligible class: what pickle/copy rebuild from reduce(o) has the type, the __dict__
   and every member (inherited ones included) of o *)
Theorem roundtrip : forall avail f e (o : obj) c bs ms acc,
  t_hier (o_type atom cv o) = c :: bs ->
  decide f e (c :: bs) = InjectPickle ms ->
  existsb c_getstate (c :: bs) = false -> existsb c_setstate (c :: bs) = false ->
  NoDup (all_names (c :: bs)) ->
  wf_obj o ->
  accepted avail f (all_names (c :: bs)) = Some acc -> hd_error avail = Some 0%nat ->
  exists rv o',
    reduce f e o = Ok rv /\ load avail f e rv = Ok o' /\ same_attrs (c :: bs) o' o.
Proof.
  intros avail f e o c bs ms acc TH D G S ND [W WD] A HD.
  destruct (effective_own f e c bs ms D G S) as [ER ES].
  set (h := c :: bs) in *.
  assert (RS := read_state_spec (all_members h) o).
  rewrite TH in W. specialize (RS W).
  assert (CHK : In (hash 0 (map m_name (all_members h))) acc).
  { unfold M_Pickle.accepted in A. eapply pad3_head; [exact A|].
    destruct avail as [|a r]; [discriminate|]. simpl in HD. injection HD as ->. reflexivity. }
  assert (NEWT : forall t, o_type atom cv (new_obj t) = t) by reflexivity.
  unfold M_Pickle.reduce. rewrite TH, ER. unfold M_Pickle.reduce_cython. rewrite RS.
  set (st := map (fun m => item_of m (slot_of o m)) (all_members h)).
  assert (LEN : length st = length (all_members h)) by (unfold st; apply map_length).
  (* common part: set_state of the fresh object *)
  assert (SS : forall extra, assign (all_members h) 0 (st ++ extra) (new_obj (o_type atom cv o)) =
                 Ok (set_all (slot_of o) (all_members h) (new_obj (o_type atom cv o)))).
  { intro extra. apply set_state_fresh; assumption. }
  assert (ATTR : forall m, In m (all_members h) ->
            get atom cv (o_slots atom cv (set_all (slot_of o) (all_members h) (new_obj (o_type atom cv o)))) (m_name m)
            = get atom cv (o_slots atom cv o) (m_name m)).
  { intros m Hm. rewrite get_set_all_in; [|exact ND|exact Hm].
    destruct (W m Hm) as [v [Gv _]]. unfold slot_of. rewrite Gv. reflexivity. }
  assert (HDT : o_dict atom cv o <> None -> has_dict (o_type atom cv o) = true).
  { intro NN. destruct (has_dict (o_type atom cv o)) eqn:E; [reflexivity|]. exfalso. apply NN. apply WD. reflexivity. }
  assert (HDF : o_dict atom cv o = None -> has_dict (o_type atom cv o) = false) by apply WD.
  clear WD.
  destruct (o_dict atom cv o) as [[|kv d]|] eqn:OD.
  - (* empty dict *)
    assert (HDICT : has_dict (o_type atom cv o) = true) by (apply HDT; discriminate).
    destruct (any_notnone atom (all_members h) st) eqn:AN.
    + eexists. eexists. split; [reflexivity|]. split.
      * unfold M_Pickle.load. simpl rv_owner. simpl rv_type. simpl rv_chk. simpl rv_arg_state. simpl rv_state.
        unfold M_Pickle.unpickle. fold h. unfold all_names in A. unfold all_names. rewrite A.
        rewrite (existsb_eqb_true _ _ CHK). rewrite NEWT, TH, ES.
        unfold M_Pickle.set_state. rewrite <- (app_nil_r st) at 1. rewrite SS.
        unfold M_Pickle.update_dict. rewrite LEN. rewrite Nat.leb_refl. reflexivity.
      * split; [rewrite set_all_type; reflexivity|]. split; [|exact ATTR].
        rewrite set_all_dict. unfold M_Pickle.new_obj. simpl. rewrite HDICT. symmetry. exact OD.
    + eexists. eexists. split; [reflexivity|]. split.
      * unfold M_Pickle.load. simpl rv_owner. simpl rv_type. simpl rv_chk. simpl rv_arg_state. simpl rv_state.
        unfold M_Pickle.unpickle. fold h. unfold all_names in A. unfold all_names. rewrite A.
        rewrite (existsb_eqb_true _ _ CHK).
        unfold M_Pickle.set_state. rewrite <- (app_nil_r st) at 1. rewrite SS.
        unfold M_Pickle.update_dict. rewrite LEN. rewrite Nat.leb_refl. reflexivity.
      * split; [rewrite set_all_type; reflexivity|]. split; [|exact ATTR].
        rewrite set_all_dict. unfold M_Pickle.new_obj. simpl. rewrite HDICT. symmetry. exact OD.
  - (* non-empty dict: appended to the state, restored by __setstate__ *)
    assert (HDICT : has_dict (o_type atom cv o) = true) by (apply HDT; discriminate).
    eexists. eexists. split; [reflexivity|]. split.
    + unfold M_Pickle.load. simpl rv_owner. simpl rv_type. simpl rv_chk. simpl rv_arg_state. simpl rv_state.
      unfold M_Pickle.unpickle. fold h. unfold all_names in A. unfold all_names. rewrite A.
      rewrite (existsb_eqb_true _ _ CHK). rewrite NEWT, TH, ES.
      unfold M_Pickle.set_state. rewrite SS.
      unfold M_Pickle.update_dict. rewrite app_length. simpl length.
      replace (Nat.leb (length st + 1) (length (all_members h))) with false
        by (symmetry; apply Nat.leb_gt; lia).
      rewrite nth_error_app2 by lia. rewrite LEN, Nat.sub_diag. simpl nth_error. simpl truthy.
      rewrite set_all_dict. unfold M_Pickle.new_obj at 1. simpl o_dict. rewrite HDICT.
      rewrite dict_update_nil. reflexivity.
    + split; [simpl; rewrite set_all_type; reflexivity|]. split; [simpl; symmetry; exact OD|]. simpl. exact ATTR.
  - (* no dict *)
    assert (HDICT : has_dict (o_type atom cv o) = false) by (apply HDF; reflexivity).
    destruct (any_notnone atom (all_members h) st) eqn:AN.
    + eexists. eexists. split; [reflexivity|]. split.
      * unfold M_Pickle.load. simpl rv_owner. simpl rv_type. simpl rv_chk. simpl rv_arg_state. simpl rv_state.
        unfold M_Pickle.unpickle. fold h. unfold all_names in A. unfold all_names. rewrite A.
        rewrite (existsb_eqb_true _ _ CHK). rewrite NEWT, TH, ES.
        unfold M_Pickle.set_state. rewrite <- (app_nil_r st) at 1. rewrite SS.
        unfold M_Pickle.update_dict. rewrite LEN. rewrite Nat.leb_refl. reflexivity.
      * split; [rewrite set_all_type; reflexivity|]. split; [|exact ATTR].
        rewrite set_all_dict. unfold M_Pickle.new_obj. simpl. rewrite HDICT. symmetry. exact OD.
    + eexists. eexists. split; [reflexivity|]. split.
      * unfold M_Pickle.load. simpl rv_owner. simpl rv_type. simpl rv_chk. simpl rv_arg_state. simpl rv_state.
        unfold M_Pickle.unpickle. fold h. unfold all_names in A. unfold all_names. rewrite A.
        rewrite (existsb_eqb_true _ _ CHK).
        unfold M_Pickle.set_state. rewrite <- (app_nil_r st) at 1. rewrite SS.
        unfold M_Pickle.update_dict. rewrite LEN. rewrite Nat.leb_refl. reflexivity.
      * split; [rewrite set_all_type; reflexivity|]. split; [|exact ATTR].
        rewrite set_all_dict. unfold M_Pickle.new_obj. simpl. rewrite HDICT. symmetry. exact OD.
Qed.

(* the state written by reduce is the member list in sorted order, followed by the dict if any *)
Theorem reduce_state_order : forall f e (o : obj) c bs ms rv,
  t_hier (o_type atom cv o) = c :: bs ->
  decide f e (c :: bs) = InjectPickle ms ->
  existsb c_getstate (c :: bs) = false -> existsb c_setstate (c :: bs) = false ->
  wf_obj o -> reduce f e o = Ok rv ->
  let st := map (fun m => item_of m (slot_of o m)) (all_members (c :: bs)) in
  rv_chk atom rv = hash 0 (all_names (c :: bs)) /\
  StronglySorted mle (all_members (c :: bs)) /\
  ((rv_arg_state atom rv = Some st /\ rv_state atom rv = None) \/
   (rv_arg_state atom rv = None /\ rv_state atom rv = Some st) \/
   (exists d, o_dict atom cv o = Some d /\ d <> [] /\
              rv_arg_state atom rv = None /\ rv_state atom rv = Some (st ++ [PDict d]))).
Proof.
  intros f e o c bs ms rv TH D G S [W WD] R st.
  destruct (effective_own f e c bs ms D G S) as [ER _].
  rewrite TH in W. pose proof (read_state_spec (all_members (c :: bs)) o W) as RS.
  unfold M_Pickle.reduce in R. rewrite TH, ER in R. unfold M_Pickle.reduce_cython in R. rewrite RS in R.
  split; [|split; [apply all_members_sorted|]].
  - destruct (o_dict atom cv o) as [[|kv d]|]; [destruct (any_notnone _ _ _)| |destruct (any_notnone _ _ _)];
      injection R as <-; reflexivity.
  - destruct (o_dict atom cv o) as [[|kv d]|] eqn:OD.
    + destruct (any_notnone _ _ _); injection R as <-; [right; left|left]; split; reflexivity.
    + injection R as <-. right. right. exists (kv :: d). split; [reflexivity|]. split; [discriminate|].
      split; reflexivity.
    + destruct (any_notnone _ _ _); injection R as <-; [right; left|left]; split; reflexivity.
Qed.

(* loading a pickle written for layout h1 into a build with layout h2: PickleError unless the
   writer's checksum is one of the (up to three) accepted by the reader *)
Theorem cross_layout : forall avail f e (o : obj) h1 h2 t2 rv acc2,
  reduce_cython h1 o = Ok rv ->
  accepted avail f (all_names h2) = Some acc2 ->
  ~ In (hash 0 (all_names h1)) acc2 ->
  load_into avail f e h2 t2 rv = Err EPickle.
Proof.
  intros avail f e o h1 h2 t2 rv acc2 R A N. eapply load_into_bad_checksum; [exact A|].
  unfold M_Pickle.reduce_cython in R. destruct (read_state (all_members h1) o); [|discriminate].
  destruct (o_dict atom cv o) as [[|kv d]|]; [destruct (any_notnone _ _ _)| |destruct (any_notnone _ _ _)];
    injection R as <-; exact N.
Qed.

(* if the hash happens to separate the two layouts, a changed layout is always detected *)
Corollary cross_layout_injective : forall avail f e (o : obj) h1 h2 t2 rv acc2,
  reduce_cython h1 o = Ok rv ->
  accepted avail f (all_names h2) = Some acc2 ->
  (forall a, In a avail -> hash a (all_names h2) <> hash 0 (all_names h1)) ->
  load_into avail f e h2 t2 rv = Err EPickle.
Proof.
  intros avail f e o h1 h2 t2 rv acc2 R A SEP. eapply cross_layout; [exact R|exact A|].
  intro I. unfold M_Pickle.accepted in A. apply (pad3_incl _ _ _ _ A) in I.
  apply in_map_iff in I. destruct I as [a [E Ia]]. apply (SEP a Ia). exact E.
Qed.

End Dyn.

(* ------------------------------------------------------------------ refutations (as-is model) *)
Definition F0 : flags := {| fx_lookup := false; fx_ptr := false; fx_pad := false |}.
Definition E0 : modenv := {| g_cinit := false; g_reduce := false |}.
Definition mk_cls (id : N) (ms : list member) (auto : option bool) : cls :=
  {| c_id := id; c_members := ms; c_cinit := false; c_reduce := false; c_getstate := false;
     c_setstate := false; c_auto := auto |}.
Definition nA : name := [97%N].
Definition nB : name := [98%N].
Definition kint : kind := KC true false false.
Definition kcharp : kind := KC true false true.

(* concrete instantiation: atoms and C values are integers *)
Definition zload := load Z Z (fun _ a => Some a) 0%Z (fun a => negb (Z.eqb a 0)) (fun _ _ => 5%Z) Z.eqb.
Definition zreduce := reduce Z Z (fun _ c => c) (fun _ _ => 5%Z).

(* 1. a module-level name __cinit__ makes a plain class unpicklable *)
Lemma module_name_refuted :
  exists h, documented_rule F0 (hd (mk_cls 0 [] None) h) (tl h) /\
            decide F0 {| g_cinit := true; g_reduce := false |} h = InjectRaise RCinit [].
Proof.
  exists [mk_cls 1 [{| m_name := nA; m_kind := kint |}] None]. split; [|reflexivity].
  unfold documented_rule. simpl. repeat split; try discriminate.
  - intros m [<-|[]]. reflexivity.
  - left. intros m [<-|[]]. reflexivity.
Qed.

(* 2. auto_pickle(False) on a subclass of an auto-pickled class: the base's reduce is used and the
      subclass attribute is reset *)
Definition off_h : hierarchy :=
  [mk_cls 2 [{| m_name := nB; m_kind := kint |}] (Some false);
   mk_cls 1 [{| m_name := nA; m_kind := kint |}] None].
Definition off_o : obj Z Z :=
  {| o_type := {| t_hier := off_h; t_pydict := false |};
     o_slots := [(nA, SC 7%Z); (nB, SC 9%Z)]; o_dict := None |}.

Lemma autopickle_off_refuted :
  exists rv o', zreduce F0 E0 off_o = Ok rv /\ zload [0;1;2]%nat F0 E0 rv = Ok o' /\
                get Z Z (o_slots Z Z off_o) nB = Some (SC 9%Z) /\
                get Z Z (o_slots Z Z o') nB = Some (SC 0%Z).
Proof. eexists. eexists. split; [vm_compute; reflexivity|]. split; [vm_compute; reflexivity|]. split; reflexivity. Qed.

(* 3. a char* member is accepted and comes back as a dangling pointer *)
Definition ptr_h : hierarchy := [mk_cls 1 [{| m_name := nA; m_kind := kcharp |}] None].
Definition ptr_o : obj Z Z :=
  {| o_type := {| t_hier := ptr_h; t_pydict := false |}; o_slots := [(nA, SC 7%Z)]; o_dict := None |}.

Lemma char_ptr_refuted :
  (exists ms, decide F0 E0 ptr_h = InjectPickle ms) /\
  exists rv o', zreduce F0 E0 ptr_o = Ok rv /\ zload [0;1;2]%nat F0 E0 rv = Ok o' /\
                get Z Z (o_slots Z Z o') nA = Some SDangling.
Proof.
  split; [eexists; vm_compute; reflexivity|].
  eexists. eexists. split; [vm_compute; reflexivity|]. split; [vm_compute; reflexivity|]. reflexivity.
Qed.

(* 4. with one hash algorithm missing the generated module does not compile *)
Lemma pad_refuted : forall (hash : nat -> list name -> Z) ns, accepted hash [0; 1]%nat F0 ns = None.
Proof. intros. reflexivity. Qed.
