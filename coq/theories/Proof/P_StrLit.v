(* P_StrLit -- proofs for C10 (model in Model/M_StrLit.v). *)
From Coq Require Import NArith ZArith List Bool Lia ZifyBool ZifyN.
From CyVerif Require Import Lib.CInt Model.M_StrLit.
From CyVerif Require Model.M_CStr Model.M_LZSS Proof.P_CStr Proof.P_LZSS.
Import ListNotations.
Open Scope N_scope.
Ltac Zify.zify_post_hook ::= Z.to_euclidean_division_equations.

(* ------------------------------------------------------------------ small facts *)
Lemma rev'_rev {A} (l : list A) : rev' l = rev l.
Proof. unfold rev'. now rewrite rev_append_rev, app_nil_r. Qed.

Lemma hexv_oct d : is_octd d = true -> hexv d = d - 48 /\ d - 48 < 8.
Proof. unfold is_octd, hexv. intros H. destruct (N.leb_spec d 57); lia. Qed.

Lemma hexv_hex d : is_hexd d = true -> hexv d < 16.
Proof.
  unfold is_hexd, hexv. intros H.
  destruct (N.leb_spec d 57); [lia|]. destruct (N.leb_spec d 70); lia.
Qed.

Lemma oct_not_special e : is_octd e = true ->
  e <> 92 /\ e <> 10 /\ e <> 78 /\ e <> 117 /\ e <> 120 /\ e <> 85 /\ simple_escape e = None.
Proof.
  unfold is_octd. intros H. repeat split; try lia.
  unfold simple_escape.
  repeat match goal with |- context [if ?a =? ?b then _ else _] => destruct (N.eqb_spec a b); [lia|] end.
  reflexivity.
Qed.

(* ------------------------------------------------------------------ the loop, one step *)
Lemma dec_nil f fx k raw s : dec (S f) fx k raw [] s = finish k s.
Proof. reflexivity. Qed.

Lemma dec_plain f fx k raw c r s : c <> 92 ->
  dec (S f) fx k raw (c :: r) s =
  dec f fx k raw r {| st_err := st_err s; st_nonascii := st_nonascii s || (128 <=? c);
                      st_b := b_append [c] (st_b s); st_u := c :: st_u s |}.
Proof. intros H. cbn [dec]. destruct (N.eqb_spec c 92); [contradiction|reflexivity]. Qed.

Lemma dec_esc f fx k raw r s :
  dec (S f) fx k raw (92 :: r) s =
  match do_action fx k (if raw then AChars (fst (lex_escape r)) else append_escape_sequence k (fst (lex_escape r))) s with
  | SNext s' => dec f fx k raw (snd (lex_escape r)) s'
  | SStop d => d
  end.
Proof.
  cbn [dec]. change (92 =? 92) with true. cbv iota. destruct (lex_escape r) as [esc r']. reflexivity.
Qed.

(* the rest after a token is never longer than the text *)
Lemma span_upto_len p n l : (length (snd (span_upto p n l)) <= length l)%nat.
Proof.
  revert l. induction n as [|n IH]; intros [|c r]; cbn [span_upto]; try (cbn; lia).
  destruct (p c); [|cbn; lia]. specialize (IH r). destruct (span_upto p n r). cbn in *. lia.
Qed.
Lemma span_all_len p l : (length (snd (span_all p l)) <= length l)%nat.
Proof.
  induction l as [|c r IH]; cbn [span_all]; [cbn; lia|].
  destruct (p c); [|cbn; lia]. destruct (span_all p r). cbn in *. lia.
Qed.
Lemma take_exact_len p n l a b : take_exact p n l = Some (a, b) -> (length b <= length l)%nat.
Proof.
  unfold take_exact. pose proof (span_upto_len p n l) as H. destruct (span_upto p n l) as [x y].
  destruct (Nat.eqb (length x) n); [|discriminate]. intros [= <- <-]. exact H.
Qed.
Lemma lex_named_len r t r' : lex_named r = Some (t, r') -> (length r' <= length r)%nat.
Proof.
  unfold lex_named. destruct r as [|c r1]; [discriminate|].
  destruct (c =? 123); [|discriminate].
  pose proof (span_all_len is_namech r1) as H. destruct (span_all is_namech r1) as [nm r2].
  destruct r2 as [|d r3]; [discriminate|]. destruct (d =? 125); [|discriminate].
  intros [= <- <-]. cbn in *. lia.
Qed.
Lemma lex_escape_len r : (length (snd (lex_escape r)) <= length r)%nat.
Proof.
  unfold lex_escape. destruct r as [|c r]; [cbn; lia|].
  destruct (is_octd c).
  { pose proof (span_upto_len is_octd 2 r). destruct (span_upto is_octd 2 r). cbn in *. lia. }
  destruct (c =? 78).
  { destruct (lex_named r) as [[t r']|] eqn:E; [apply lex_named_len in E|]; cbn; lia. }
  destruct (c =? 117).
  { destruct (take_exact is_hexd 4 r) as [[t r']|] eqn:E; [apply take_exact_len in E|]; cbn; lia. }
  destruct (c =? 120).
  { destruct (take_exact is_hexd 2 r) as [[t r']|] eqn:E; [apply take_exact_len in E|]; cbn; lia. }
  destruct (c =? 85).
  { destruct (take_exact is_hexd 8 r) as [[t r']|] eqn:E; [apply take_exact_len in E|]; cbn; lia. }
  destruct (is_esc2 c); cbn; lia.
Qed.

(* ------------------------------------------------------------------ named escapes are excluded *)
(* a backslash, N, left brace in a row anywhere in the body *)
Fixpoint has_named (l : list N) : bool :=
  match l with
  | a :: r => (match r with b :: c :: _ => (a =? 92) && (b =? 78) && (c =? 123) | _ => false end) || has_named r
  | [] => false
  end.
Lemma has_named_tl a r : has_named (a :: r) = false -> has_named r = false.
Proof. cbn [has_named]. intros H. apply orb_false_iff in H. tauto. Qed.
Lemma has_named_skip l r : has_named (l ++ r) = false -> has_named r = false.
Proof. induction l as [|a l IH]; [auto|]. intros H. apply IH. eapply has_named_tl. exact H. Qed.

(* the text is token ++ rest *)
Lemma span_upto_app p n l : fst (span_upto p n l) ++ snd (span_upto p n l) = l.
Proof.
  revert l. induction n as [|n IH]; intros [|c r]; cbn [span_upto]; try reflexivity.
  destruct (p c); [|reflexivity]. specialize (IH r). destruct (span_upto p n r). cbn in *. now rewrite IH.
Qed.
Lemma span_all_app p l : fst (span_all p l) ++ snd (span_all p l) = l.
Proof.
  induction l as [|c r IH]; cbn [span_all]; [reflexivity|].
  destruct (p c); [|reflexivity]. destruct (span_all p r). cbn in *. now rewrite IH.
Qed.
Lemma take_exact_app p n l a b : take_exact p n l = Some (a, b) -> l = a ++ b /\ length a = n.
Proof.
  unfold take_exact. pose proof (span_upto_app p n l) as H. destruct (span_upto p n l) as [x y].
  destruct (Nat.eqb_spec (length x) n); [|discriminate]. intros [= <- <-]. cbn in H. auto.
Qed.
Lemma lex_escape_app r : fst (lex_escape r) ++ snd (lex_escape r) = 92 :: r.
Proof.
  unfold lex_escape. destruct r as [|c r]; [reflexivity|].
  destruct (is_octd c).
  { pose proof (span_upto_app is_octd 2 r). destruct (span_upto is_octd 2 r). cbn in *. congruence. }
  destruct (c =? 78) eqn:E78.
  { apply N.eqb_eq in E78. subst c. unfold lex_named. destruct r as [|c r1]; [reflexivity|].
    destruct (N.eqb_spec c 123); [|reflexivity]. subst c.
    pose proof (span_all_app is_namech r1) as H. destruct (span_all is_namech r1) as [nm r2].
    destruct r2 as [|d r3]; [reflexivity|]. destruct (N.eqb_spec d 125); [|reflexivity]. subst d.
    cbn in *. rewrite <- H, <- app_assoc. reflexivity. }
  destruct (c =? 117) eqn:E1.
  { apply N.eqb_eq in E1. subst c.
    destruct (take_exact is_hexd 4 r) as [[t r']|] eqn:E; [apply take_exact_app in E as [-> _]|]; reflexivity. }
  destruct (c =? 120) eqn:E2.
  { apply N.eqb_eq in E2. subst c.
    destruct (take_exact is_hexd 2 r) as [[t r']|] eqn:E; [apply take_exact_app in E as [-> _]|]; reflexivity. }
  destruct (c =? 85) eqn:E3.
  { apply N.eqb_eq in E3. subst c.
    destruct (take_exact is_hexd 8 r) as [[t r']|] eqn:E; [apply take_exact_app in E as [-> _]|]; reflexivity. }
  destruct (is_esc2 c); reflexivity.
Qed.

Lemma has_named_rest r : has_named (92 :: r) = false -> has_named (snd (lex_escape r)) = false.
Proof. intros H. rewrite <- lex_escape_app in H. eapply has_named_skip. exact H. Qed.

(* ------------------------------------------------------------------ errors are sticky *)
(* tx = the kind is a text kind; a state is doomed when an error is recorded, or (bytes) a
   non-ASCII character was seen *)
Definition doomed (k : kind) (s : bstate) : bool :=
  st_err s || (match k with KBytes => st_nonascii s | _ => false end).

Lemma finish_doomed k s : doomed k s = true -> finish k s = DError.
Proof.
  unfold doomed, finish. destruct k; intros H.
  - rewrite orb_false_r in H. now rewrite H.
  - rewrite orb_false_r in H. now rewrite H.
  - rewrite orb_comm in H. now rewrite H.
  - rewrite orb_false_r in H. now rewrite H.
Qed.

Lemma do_action_doomed fx k a s s' : doomed k s = true -> do_action fx k a s = SNext s' -> doomed k s' = true.
Proof.
  unfold doomed. intros H. destruct a; cbn [do_action]; try (intros [= <-]; cbn; try exact H; destruct k; cbn in *; lia); try discriminate.
  destruct k; try (intros [= <-]; exact H);
    (destruct ((n <? 256) || fx); [intros [= <-]; exact H|discriminate]).
Qed.

(* the only stopping results (fix in place, no name lookup) *)
Lemma do_action_stop k a s d : do_action true k a s = SStop d -> a <> AUnmodelled -> d = DError.
Proof.
  destruct a; cbn [do_action]; try discriminate.
  - destruct k; try discriminate; rewrite orb_true_r; discriminate.
  - intros [= <-]. reflexivity.
  - intros _ H. contradiction.
Qed.

Lemma lex_named_brace r t r' : lex_named r = Some (t, r') -> exists r1, r = 123 :: r1.
Proof.
  unfold lex_named. destruct r as [|c r1]; [discriminate|].
  destruct (N.eqb_spec c 123); [|discriminate]. subst. eauto.
Qed.

Lemma no_unmodelled k r : has_named (92 :: r) = false ->
  append_escape_sequence k (fst (lex_escape r)) <> AUnmodelled.
Proof.
  intros Hn. unfold lex_escape. destruct r as [|c r]; [discriminate|].
  destruct (is_octd c) eqn:Eo.
  { destruct (span_upto is_octd 2 r). cbn [fst append_escape_sequence]. rewrite Eo. discriminate. }
  destruct (N.eqb_spec c 78).
  { subst c. destruct (lex_named r) as [[t r']|] eqn:E.
    - apply lex_named_brace in E as [r1 ->]. cbn in Hn. discriminate.
    - cbn. destruct (kind_is_text k); discriminate. }
  assert (Hgen : forall rest, append_escape_sequence k (92 :: c :: rest) <> AUnmodelled).
  { intros rest. cbn [append_escape_sequence]. rewrite Eo.
    destruct ((c =? 39) || (c =? 34) || (c =? 92)); [discriminate|].
    destruct (is_abfnrtv c); [discriminate|]. destruct (c =? 10); [discriminate|].
    destruct (c =? 120); [destruct (Nat.eqb _ 4); discriminate|].
    destruct (((c =? 78) || (c =? 85) || (c =? 117)) && kind_is_text k); [|discriminate].
    destruct (N.eqb_spec c 78); [contradiction|].
    destruct (Nat.eqb _ 6 || Nat.eqb _ 10); [|discriminate].
    destruct (1114111 <? of_base 16 rest); discriminate. }
  destruct (N.eqb_spec c 117) as [->|]. { destruct (take_exact is_hexd 4 r) as [[t r']|]; cbn [fst]; apply Hgen. }
  destruct (N.eqb_spec c 120) as [->|]. { destruct (take_exact is_hexd 2 r) as [[t r']|]; cbn [fst]; apply Hgen. }
  destruct (N.eqb_spec c 85) as [->|]. { destruct (take_exact is_hexd 8 r) as [[t r']|]; cbn [fst]; apply Hgen. }
  destruct (is_esc2 c); cbn [fst]; [apply Hgen|]. cbn. discriminate.
Qed.

Lemma dec_doomed : forall n k body s,
  (length body < n)%nat -> has_named body = false -> doomed k s = true ->
  dec n true k false body s = DError.
Proof.
  induction n as [|f IH]; intros k body s Hlen Hn Hd; [lia|].
  destruct body as [|c r].
  - rewrite dec_nil. now apply finish_doomed.
  - destruct (N.eq_dec c 92) as [->|Hc].
    + rewrite dec_esc. cbv iota.
      destruct (do_action true k (append_escape_sequence k (fst (lex_escape r))) s) as [s'|d] eqn:E.
      * apply IH.
        -- pose proof (lex_escape_len r). cbn in Hlen. lia.
        -- now apply has_named_rest.
        -- eapply do_action_doomed; eauto.
      * eapply do_action_stop; eauto. now apply no_unmodelled.
    + rewrite dec_plain by exact Hc. apply IH.
      * cbn in Hlen. lia.
      * eapply has_named_tl; eauto.
      * unfold doomed in *. cbn [st_err st_nonascii]. destruct (st_err s); [reflexivity|].
        destruct k; cbn in *; try discriminate. now rewrite Hd.
Qed.

(* ------------------------------------------------------------------ decoder = specification *)
Definition sval (t : bool) (s : bstate) : list N := if t then st_u s else st_b s.

(* s' is s with the values w appended to the visible accumulator, flags unchanged *)
Definition good (t : bool) (s s' : bstate) (w : list N) : Prop :=
  sval t s' = rev_append w (sval t s) /\ st_err s' = st_err s /\ (t = false -> st_nonascii s' = st_nonascii s).

Definition papp (w : list N) (r : pyres) : pyres := fold_right pcons r w.

Lemma papp_value w v : papp w (PyValue v) = PyValue (w ++ v).
Proof. induction w as [|a w IH]; cbn; [reflexivity|]. unfold papp in IH. now rewrite IH. Qed.
Lemma papp_other w r : (forall v, r <> PyValue v) -> papp w r = r.
Proof. intros H. induction w as [|a w IH]; cbn; [reflexivity|]. unfold papp in IH. rewrite IH. destruct r; try reflexivity. now destruct (H v). Qed.

Lemma rev_append_app {A} (w v a : list A) : rev_append (w ++ v) a = rev_append v (rev_append w a).
Proof. rewrite !rev_append_rev, rev_app_distr, app_assoc. reflexivity. Qed.

Lemma good_refl t s : good t s s [].
Proof. unfold good. cbn. auto. Qed.
Lemma good_trans t s s1 s2 w v : good t s s1 w -> good t s1 s2 v -> good t s s2 (w ++ v).
Proof.
  unfold good. intros (A & B & C) (A' & B' & C'). repeat split.
  - rewrite rev_append_app, <- A. exact A'.
  - congruence.
  - intros Ht. rewrite C', C; auto.
Qed.

Definition concl (n : nat) (k : kind) (body : list N) (s : bstate) : Prop :=
  match py_lit (kind_is_text k) body with
  | PyValue v => exists s', dec n true k false body s = finish k s' /\ good (kind_is_text k) s s' v
  | PyReject => dec n true k false body s = DError
  | _ => True
  end.

Lemma step_ok k f body rest s s1 w :
  dec (S f) true k false body s = dec f true k false rest s1 ->
  good (kind_is_text k) s s1 w ->
  py_lit (kind_is_text k) body = papp w (py_lit (kind_is_text k) rest) ->
  concl f k rest s1 -> concl (S f) k body s.
Proof.
  unfold concl. intros Hd Hg Hp. rewrite Hp, Hd.
  destruct (py_lit (kind_is_text k) rest) as [v| | |].
  - rewrite papp_value. intros (s' & E & G). exists s'. split; [exact E|]. eapply good_trans; eauto.
  - rewrite papp_other by discriminate. auto.
  - rewrite papp_other by discriminate. auto.
  - rewrite papp_other by discriminate. auto.
Qed.

Lemma step_err k f body rest s s1 :
  dec (S f) true k false body s = dec f true k false rest s1 ->
  doomed k s1 = true -> (length rest < f)%nat -> has_named rest = false ->
  py_lit (kind_is_text k) body = PyReject ->
  concl (S f) k body s.
Proof.
  unfold concl. intros Hd Hdo Hl Hn ->. rewrite Hd. now apply dec_doomed.
Qed.

(* states after the builder calls *)
Definition push_chars (cs : list N) (s : bstate) : bstate :=
  {| st_err := st_err s; st_nonascii := st_nonascii s;
     st_b := b_append cs (st_b s); st_u := rev_append cs (st_u s) |}.
Definition push_val (k : kind) (n : N) (s : bstate) : bstate :=
  match k with
  | KUni => {| st_err := st_err s; st_nonascii := st_nonascii s; st_b := st_b s; st_u := n :: st_u s |}
  | _ => {| st_err := st_err s; st_nonascii := st_nonascii s; st_b := (n mod 256) :: st_b s; st_u := n :: st_u s |}
  end.
Definition set_err (s : bstate) : bstate :=
  {| st_err := true; st_nonascii := st_nonascii s; st_b := st_b s; st_u := st_u s |}.

Lemma act_chars k cs s : do_action true k (AChars cs) s = SNext (push_chars cs s).
Proof. reflexivity. Qed.
Lemma act_val k n s : do_action true k (ACharval n) s = SNext (push_val k n s).
Proof. unfold do_action, push_val. destruct k; try reflexivity; now rewrite orb_true_r. Qed.
Lemma act_err k s : do_action true k AError s = SNext (set_err s).
Proof. reflexivity. Qed.

Lemma ascii_enc cs : forallb (fun c => c <? 128) cs = true -> flat_map enc_char cs = cs.
Proof.
  induction cs as [|c cs IH]; [reflexivity|]. cbn [forallb flat_map]. intros H.
  apply andb_true_iff in H as [H1 H2]. rewrite IH by exact H2. unfold enc_char. now rewrite H1.
Qed.

Lemma good_chars t cs s : (t = false -> forallb (fun c => c <? 128) cs = true) -> good t s (push_chars cs s) cs.
Proof.
  intros H. unfold good, push_chars, sval. cbn. destruct t; repeat split; auto.
  unfold b_append. now rewrite ascii_enc by auto.
Qed.
Lemma good_val k n s : (kind_is_text k = false -> n < 256) ->
  good (kind_is_text k) s (push_val k n s) [n].
Proof.
  intros H. unfold good, push_val, sval. destruct k; cbn in *; repeat split; auto;
    rewrite N.mod_small by auto; reflexivity.
Qed.

Lemma doomed_set_err k s : doomed k (set_err s) = true.
Proof. reflexivity. Qed.

(* the token, case by case *)
Lemma lx_oct e r : is_octd e = true ->
  lex_escape (e :: r) = (92 :: e :: fst (span_upto is_octd 2 r), snd (span_upto is_octd 2 r)).
Proof. intros H. unfold lex_escape. rewrite H. now destruct (span_upto is_octd 2 r). Qed.
Lemma lx_two e r : is_octd e = false -> e <> 78 -> e <> 117 -> e <> 120 -> e <> 85 -> is_esc2 e = true ->
  lex_escape (e :: r) = ([92; e], r).
Proof.
  intros H0 H1 H2 H3 H4 H5. unfold lex_escape. rewrite H0, H5.
  destruct (N.eqb_spec e 78); [contradiction|]. destruct (N.eqb_spec e 117); [contradiction|].
  destruct (N.eqb_spec e 120); [contradiction|]. destruct (N.eqb_spec e 85); [contradiction|]. reflexivity.
Qed.
Lemma lx_unknown e r : is_octd e = false -> is_esc2 e = false -> lex_escape (e :: r) = ([92], e :: r).
Proof.
  intros H0 H5. unfold lex_escape. rewrite H0, H5.
  unfold is_esc2 in H5. cbn [existsb] in H5.
  destruct (N.eqb_spec e 78); [subst; discriminate|]. destruct (N.eqb_spec e 117); [subst; discriminate|].
  destruct (N.eqb_spec e 120); [subst; discriminate|]. destruct (N.eqb_spec e 85); [subst; discriminate|].
  reflexivity.
Qed.

(* ---- specification, one step ---- *)
Lemma py_lit_nonascii t c r : negb t && (128 <=? c) = true -> py_lit t (c :: r) = PyReject.
Proof. intros H. cbn [py_lit]. now rewrite H. Qed.
Lemma py_lit_plain t c r : negb t && (128 <=? c) = false -> c <> 92 -> py_lit t (c :: r) = pcons c (py_lit t r).
Proof. intros H Hc. cbn [py_lit]. rewrite H. destruct (N.eqb_spec c 92); [contradiction|reflexivity]. Qed.
Lemma py_lit_run t h r : Forall (fun c => c < 128 /\ c <> 92) h -> py_lit t (h ++ r) = papp h (py_lit t r).
Proof.
  induction 1 as [|c h [H1 H2] _ IH]; [reflexivity|]. cbn [app papp fold_right].
  rewrite py_lit_plain; [|destruct t; cbn; lia|exact H2]. now rewrite IH.
Qed.

Definition esc_body (t : bool) (e : N) (r r1 : list N) : pyres :=
      if e =? 10 then py_lit t r1 else
      match simple_escape e with
      | Some v => pcons v (py_lit t r1)
      | None =>
        if is_octd e then
          match r1 with
          | d2 :: r2 =>
            if is_octd d2 then
              match r2 with
              | d3 :: r3 =>
                if is_octd d3 then
                  let v := 64 * (e - 48) + 8 * (d2 - 48) + (d3 - 48) in
                  pcons (if t then v else v mod 256) (py_lit t r3)
                else pcons (8 * (e - 48) + (d2 - 48)) (py_lit t r2)
              | [] => pcons (8 * (e - 48) + (d2 - 48)) (py_lit t r2)
              end
            else pcons (e - 48) (py_lit t r1)
          | [] => pcons (e - 48) (py_lit t r1)
          end
        else if e =? 120 then
          match r1 with
          | h1 :: h2 :: r2 =>
            if is_hexd h1 && is_hexd h2 then pcons (hex2 h1 h2) (py_lit t r2) else PyReject
          | _ => PyReject
          end
        else if t && (e =? 117) then
          match r1 with
          | h1 :: h2 :: h3 :: h4 :: r2 =>
            if is_hexd h1 && is_hexd h2 && is_hexd h3 && is_hexd h4
            then pcons (hex4 h1 h2 h3 h4) (py_lit t r2) else PyReject
          | _ => PyReject
          end
        else if t && (e =? 85) then
          match r1 with
          | h1 :: h2 :: h3 :: h4 :: h5 :: h6 :: h7 :: h8 :: r2 =>
            if is_hexd h1 && is_hexd h2 && is_hexd h3 && is_hexd h4
               && is_hexd h5 && is_hexd h6 && is_hexd h7 && is_hexd h8
            then let v := 65536 * hex4 h1 h2 h3 h4 + hex4 h5 h6 h7 h8 in
                 if v <? 1114112 then pcons v (py_lit t r2) else PyReject
            else PyReject
          | _ => PyReject
          end
        else if t && (e =? 78) then
          match r1 with
          | b :: r2 => if (b =? 123) && has_rbrace r2 then PyNamed else PyReject
          | [] => PyReject
          end
        else pcons 92 (py_lit t r)
      end.

Lemma py_lit_esc t e r1 : py_lit t (92 :: e :: r1) = esc_body t e (e :: r1) r1.
Proof.
  cbn [py_lit]. change (128 <=? 92) with false. rewrite andb_false_r.
  change (92 =? 92) with true. cbv [negb]. reflexivity.
Qed.

Lemma simple_cases e v : simple_escape e = Some v ->
  is_octd e = false /\ e <> 78 /\ e <> 117 /\ e <> 120 /\ e <> 85 /\ is_esc2 e = true /\ e <> 10 /\ v <? 128 = true
  /\ forall k, append_escape_sequence k [92; e] = AChars [v].
Proof.
  unfold simple_escape.
  repeat match goal with |- context [if ?a =? ?b then _ else _] => destruct (N.eqb_spec a b); [subst|] end;
    try discriminate; intros [= <-]; (repeat split; try lia; try reflexivity; try discriminate).
Qed.

(* take_exact, both outcomes *)
Lemma span_upto_all p n l : forallb p (fst (span_upto p n l)) = true.
Proof.
  revert l. induction n as [|n IH]; intros [|c r]; cbn [span_upto]; try reflexivity.
  destruct (p c) eqn:E; [|reflexivity]. specialize (IH r). destruct (span_upto p n r). cbn in *. now rewrite E.
Qed.
Lemma take_exact_some p n l a b : take_exact p n l = Some (a, b) -> l = a ++ b /\ length a = n /\ forallb p a = true.
Proof.
  intros H. destruct (take_exact_app _ _ _ _ _ H) as [H1 H2]. repeat split; auto.
  unfold take_exact in H. pose proof (span_upto_all p n l) as Ha. destruct (span_upto p n l) as [x y].
  destruct (Nat.eqb (length x) n); [|discriminate]. injection H as <- <-. exact Ha.
Qed.
Lemma span_upto_pref p n a b : length a = n -> forallb p a = true -> span_upto p n (a ++ b) = (a, b).
Proof.
  revert a. induction n as [|n IH]; intros [|c a] Hl Hp; try discriminate; [reflexivity|].
  cbn in Hl, Hp. apply andb_true_iff in Hp as [H1 H2]. cbn [app span_upto]. rewrite H1, IH by (auto; lia). reflexivity.
Qed.
Lemma take_exact_none p n l : take_exact p n l = None -> forall a b, l = a ++ b -> length a = n -> forallb p a = false.
Proof.
  intros H a b -> Hl. destruct (forallb p a) eqn:E; [|reflexivity].
  unfold take_exact in H. rewrite span_upto_pref in H by auto. rewrite Hl, Nat.eqb_refl in H. discriminate.
Qed.

Lemma aes_oct k e ds : is_octd e = true -> append_escape_sequence k (92 :: e :: ds) = ACharval (of_base 8 (e :: ds)).
Proof. intros H. cbn [append_escape_sequence]. now rewrite H. Qed.
Lemma aes_x k h : length h = 2%nat -> append_escape_sequence k (92 :: 120 :: h) = ACharval (of_base 16 h).
Proof. destruct h as [|h1 [|h2 [|]]]; try discriminate. reflexivity. Qed.
Lemma aes_x_bad k : append_escape_sequence k [92; 120] = AError.
Proof. reflexivity. Qed.
Lemma aes_u k h : kind_is_text k = true -> length h = 4%nat ->
  append_escape_sequence k (92 :: 117 :: h) =
  if 1114111 <? of_base 16 h then AFatal else AUescape (of_base 16 h) (92 :: 117 :: h).
Proof. intros Hk. destruct h as [|h1 [|h2 [|h3 [|h4 [|]]]]]; try discriminate. intros _. cbn. rewrite Hk. reflexivity. Qed.
Lemma aes_U k h : kind_is_text k = true -> length h = 8%nat ->
  append_escape_sequence k (92 :: 85 :: h) =
  if 1114111 <? of_base 16 h then AFatal else AUescape (of_base 16 h) (92 :: 85 :: h).
Proof.
  intros Hk. destruct h as [|h1 [|h2 [|h3 [|h4 [|h5 [|h6 [|h7 [|h8 [|]]]]]]]]]; try discriminate.
  intros _. cbn. rewrite Hk. reflexivity.
Qed.
Lemma aes_two_text k c : kind_is_text k = true -> c = 78 \/ c = 117 \/ c = 85 ->
  append_escape_sequence k [92; c] = AError.
Proof. intros Hk [->|[->| ->]]; cbn; rewrite Hk; reflexivity. Qed.
Lemma aes_verbatim_bytes k c rest : kind_is_text k = false -> c = 78 \/ c = 117 \/ c = 85 ->
  append_escape_sequence k (92 :: c :: rest) = AChars (92 :: c :: rest).
Proof. intros Hk [->|[->| ->]]; cbn; rewrite Hk; reflexivity. Qed.

Lemma of_base8_1 e : is_octd e = true -> of_base 8 [e] = e - 48.
Proof. intros H. destruct (hexv_oct _ H). unfold of_base. cbn [fold_left]. lia. Qed.
Lemma of_base8_2 e d : is_octd e = true -> is_octd d = true -> of_base 8 [e; d] = 8 * (e - 48) + (d - 48).
Proof. intros H1 H2. destruct (hexv_oct _ H1), (hexv_oct _ H2). unfold of_base. cbn [fold_left]. lia. Qed.
Lemma of_base8_3 e d c : is_octd e = true -> is_octd d = true -> is_octd c = true ->
  of_base 8 [e; d; c] = 64 * (e - 48) + 8 * (d - 48) + (c - 48).
Proof.
  intros H1 H2 H3. destruct (hexv_oct _ H1), (hexv_oct _ H2), (hexv_oct _ H3). unfold of_base. cbn [fold_left]. lia.
Qed.
Lemma of_base16_2 a b : of_base 16 [a; b] = hex2 a b.
Proof. unfold of_base, hex2. cbn [fold_left]. lia. Qed.
Lemma of_base16_4 a b c d : of_base 16 [a; b; c; d] = hex4 a b c d.
Proof. unfold of_base, hex4, hex2. cbn [fold_left]. lia. Qed.
Lemma of_base16_8 a b c d e f g h : of_base 16 [a; b; c; d; e; f; g; h] = 65536 * hex4 a b c d + hex4 e f g h.
Proof. unfold of_base, hex4, hex2. cbn [fold_left]. lia. Qed.
Lemma hex2_bound a b : is_hexd a = true -> is_hexd b = true -> hex2 a b < 256.
Proof. intros H1 H2. pose proof (hexv_hex _ H1). pose proof (hexv_hex _ H2). unfold hex2. lia. Qed.
Lemma hex4_bound a b c d : is_hexd a = true -> is_hexd b = true -> is_hexd c = true -> is_hexd d = true ->
  hex4 a b c d < 65536.
Proof. intros. pose proof (hex2_bound a b). pose proof (hex2_bound c d). unfold hex4. lia. Qed.

Lemma hexd_plain c : is_hexd c = true -> c < 128 /\ c <> 92.
Proof. unfold is_hexd. lia. Qed.

Lemma good_val' k n s :
  good (kind_is_text k) s (push_val k n s) [if kind_is_text k then n else n mod 256].
Proof. unfold good, push_val, sval. destruct k; cbn; repeat split; auto. Qed.
Lemma good_uesc n txt s :
  good true s {| st_err := st_err s; st_nonascii := st_nonascii s; st_b := b_append txt (st_b s); st_u := n :: st_u s |} [n].
Proof. unfold good, sval. cbn. repeat split; auto; discriminate. Qed.

Lemma kind_cases k : k <> KChar -> (kind_is_text k = false -> k = KBytes).
Proof. destruct k; cbn; intros; try discriminate; try reflexivity; contradiction. Qed.


Definition is_uUN (e : N) : bool := (e =? 117) || (e =? 85) || (e =? 78).
Lemma lx_x r : lex_escape (120 :: r) =
  match take_exact is_hexd 2 r with Some (h, r') => (92 :: 120 :: h, r') | None => ([92; 120], r) end.
Proof. reflexivity. Qed.
Lemma lx_u r : lex_escape (117 :: r) =
  match take_exact is_hexd 4 r with Some (h, r') => (92 :: 117 :: h, r') | None => ([92; 117], r) end.
Proof. reflexivity. Qed.
Lemma lx_U r : lex_escape (85 :: r) =
  match take_exact is_hexd 8 r with Some (h, r') => (92 :: 85 :: h, r') | None => ([92; 85], r) end.
Proof. reflexivity. Qed.
Lemma lx_N r : lex_escape (78 :: r) =
  match lex_named r with Some (t, r') => (92 :: 78 :: t, r') | None => ([92; 78], r) end.
Proof. reflexivity. Qed.
Lemma simple_none e : simple_escape e = None ->
  e <> 92 /\ e <> 39 /\ e <> 34 /\ e <> 97 /\ e <> 98 /\ e <> 102 /\ e <> 110 /\ e <> 114 /\ e <> 116 /\ e <> 118.
Proof.
  unfold simple_escape.
  repeat match goal with |- context [if ?a =? ?b then _ else _] => destruct (N.eqb_spec a b); [discriminate|] end.
  intros _. repeat split; assumption.
Qed.
Lemma forallb_hexd_plain h : forallb is_hexd h = true -> Forall (fun c => c < 128 /\ c <> 92) h.
Proof.
  rewrite forallb_forall, Forall_forall. intros H x Hx. apply hexd_plain. auto.
Qed.
Lemma lex_uUN_bytes e r1 : is_uUN e = true -> has_named (92 :: e :: r1) = false ->
  exists h r', lex_escape (e :: r1) = (92 :: e :: h, r') /\ r1 = h ++ r' /\ Forall (fun c => c < 128 /\ c <> 92) h.
Proof.
  unfold is_uUN. intros He Hn.
  destruct (N.eqb_spec e 117) as [->|].
  { rewrite lx_u. destruct (take_exact is_hexd 4 r1) as [[h r']|] eqn:E.
    - destruct (take_exact_some _ _ _ _ _ E) as (-> & _ & Hp). exists h, r'. repeat split. now apply forallb_hexd_plain.
    - exists [], r1. repeat split. constructor. }
  destruct (N.eqb_spec e 85) as [->|].
  { rewrite lx_U. destruct (take_exact is_hexd 8 r1) as [[h r']|] eqn:E.
    - destruct (take_exact_some _ _ _ _ _ E) as (-> & _ & Hp). exists h, r'. repeat split. now apply forallb_hexd_plain.
    - exists [], r1. repeat split. constructor. }
  assert (e = 78) as -> by lia. rewrite lx_N.
  destruct (lex_named r1) as [[t r']|] eqn:E.
  - apply lex_named_brace in E as [r2 ->]. cbn in Hn. discriminate.
  - exists [], r1. repeat split. constructor.
Qed.

Lemma dec_main : forall n k body s, k <> KChar ->
  (length body < n)%nat -> has_named body = false -> concl n k body s.
Proof.
  induction n as [|f IH]; intros k body s Hk Hlen Hn; [lia|].
  destruct body as [|c r].
  { unfold concl. cbn [py_lit]. exists s. split; [apply dec_nil | apply good_refl]. }
  remember (kind_is_text k) as t eqn:Ht.
  assert (Hr : has_named r = false) by (eapply has_named_tl; eauto).
  assert (Hlr : (length r < f)%nat) by (cbn in Hlen; lia).
  destruct (negb t && (128 <=? c)) eqn:Ena.
  { assert (c <> 92) by lia.
    eapply step_err with (rest := r); [apply dec_plain; assumption| |assumption|assumption|].
    - assert (k = KBytes) by (apply kind_cases; [assumption|destruct t; [discriminate|auto]]). subst k.
      unfold doomed. cbn. destruct t; [discriminate|]. cbn in Ena. rewrite Ena. now rewrite !orb_true_r.
    - rewrite <- Ht. now apply py_lit_nonascii. }
  destruct (N.eq_dec c 92) as [->|Hc].
  2:{ eapply step_ok with (rest := r) (w := [c]); [apply dec_plain; assumption| | |apply IH; assumption].
      - rewrite <- Ht. unfold good, sval. cbn. destruct t; repeat split; auto; try discriminate.
        + unfold b_append, enc_char. cbn in Ena. cbn. destruct (N.ltb_spec c 128); [reflexivity|lia].
        + intros _. cbn in Ena. rewrite Ena. now rewrite orb_false_r.
      - rewrite <- Ht. now apply py_lit_plain. }
  destruct r as [|e r1].
  { unfold concl. rewrite <- Ht. cbn [py_lit]. rewrite Ena. exact I. }
  assert (Hr1 : has_named r1 = false) by (eapply has_named_tl; eauto).
  assert (Hlr1 : (length r1 < f)%nat) by (cbn in Hlr; lia).
  (* generic reduction of the goal to a model step and a spec step *)
  assert (Hspec : py_lit t (92 :: e :: r1) = esc_body t e (e :: r1) r1) by apply py_lit_esc.
  unfold esc_body in Hspec.
  (* line continuation *)
  destruct (N.eqb_spec e 10) as [->|Hnl].
  { eapply step_ok with (rest := r1) (w := []); [| apply good_refl | rewrite <- Ht; exact Hspec | apply IH; auto].
    rewrite dec_esc. reflexivity. }
  destruct (simple_escape e) as [v|] eqn:Hse.
  { destruct (simple_cases _ _ Hse) as (A1 & A2 & A3 & A4 & A5 & A6 & A7 & A8 & A9).
    eapply step_ok with (rest := r1) (w := [v]); [| | rewrite <- Ht; exact Hspec | apply IH; auto].
    - rewrite dec_esc, lx_two by assumption. cbn [fst snd]. cbv iota. rewrite A9, act_chars. reflexivity.
    - apply good_chars. intros _. cbn. now rewrite A8. }
  destruct (is_octd e) eqn:Ho.
  { subst t.
    assert (Hstep : forall ds rest, span_upto is_octd 2 r1 = (ds, rest) ->
              dec (S f) true k false (92 :: e :: r1) s = dec f true k false rest (push_val k (of_base 8 (e :: ds)) s)).
    { intros ds rest E. rewrite dec_esc, lx_oct by assumption. rewrite E. cbn [fst snd]. cbv iota.
      now rewrite aes_oct, act_val by assumption. }
    destruct r1 as [|d2 r2].
    { eapply step_ok with (rest := []) (w := [_]); [apply Hstep; reflexivity| apply good_val' | | apply IH; auto].
      rewrite Hspec, of_base8_1 by assumption. destruct (hexv_oct _ Ho).
      destruct (kind_is_text k); [reflexivity|]. rewrite N.mod_small by lia. reflexivity. }
    destruct (is_octd d2) eqn:Ho2.
    2:{ eapply step_ok with (rest := d2 :: r2) (w := [_]); [apply Hstep; cbn [span_upto]; now rewrite Ho2| apply good_val' | | apply IH; auto].
        rewrite Hspec, of_base8_1 by assumption. destruct (hexv_oct _ Ho).
        destruct (kind_is_text k); [reflexivity|]. rewrite N.mod_small by lia. reflexivity. }
    assert (Hr2 : has_named r2 = false) by (eapply has_named_tl; eauto).
    assert (Hlr2 : (length r2 < f)%nat) by (cbn in Hlr1; lia).
    destruct r2 as [|d3 r3].
    { eapply step_ok with (rest := []) (w := [_]); [apply Hstep; cbn [span_upto]; now rewrite Ho2| apply good_val' | | apply IH; auto].
      rewrite Hspec, of_base8_2 by assumption. destruct (hexv_oct _ Ho), (hexv_oct _ Ho2).
      destruct (kind_is_text k); [reflexivity|]. rewrite N.mod_small by lia. reflexivity. }
    destruct (is_octd d3) eqn:Ho3.
    2:{ eapply step_ok with (rest := d3 :: r3) (w := [_]); [apply Hstep; cbn [span_upto]; now rewrite Ho2, Ho3| apply good_val' | | apply IH; auto].
        rewrite Hspec, of_base8_2 by assumption. destruct (hexv_oct _ Ho), (hexv_oct _ Ho2).
        destruct (kind_is_text k); [reflexivity|]. rewrite N.mod_small by lia. reflexivity. }
    assert (Hr3 : has_named r3 = false) by (eapply has_named_tl; eauto).
    assert (Hlr3 : (length r3 < f)%nat) by (cbn in Hlr2; lia).
    eapply step_ok with (rest := r3) (w := [_]); [apply Hstep; cbn [span_upto]; now rewrite Ho2, Ho3| apply good_val' | | apply IH; auto].
    rewrite Hspec, of_base8_3 by assumption. reflexivity. }

  (* ---- hex escape *)
  destruct (N.eqb_spec e 120) as [->|Hx].
  { destruct (take_exact is_hexd 2 r1) as [[h r']|] eqn:E.
    - destruct (take_exact_some _ _ _ _ _ E) as (-> & Hl & Hp).
      destruct h as [|h1 [|h2 [|]]]; try discriminate. cbn [forallb] in Hp.
      apply andb_true_iff in Hp as [X1 Hp]. apply andb_true_iff in Hp as [X2 _]. cbn [app] in *.
      eapply step_ok with (rest := r') (w := [_]); [ | apply good_val' | | apply IH; auto].
      + rewrite dec_esc, lx_x, E. cbn [fst snd]. cbv iota. rewrite aes_x by reflexivity. now rewrite act_val.
      + subst t. rewrite Hspec, X1, X2. cbn [andb]. rewrite of_base16_2.
        destruct (kind_is_text k); [reflexivity|]. rewrite N.mod_small by (apply hex2_bound; auto). reflexivity.
      + cbn in Hlr1. lia.
      + apply (has_named_skip [h1; h2]). exact Hr1.
    - eapply step_err with (rest := r1) (s1 := set_err s); auto.
      + rewrite dec_esc, lx_x, E. cbn [fst snd]. cbv iota. now rewrite aes_x_bad, act_err.
      + subst t. rewrite Hspec. destruct r1 as [|h1 [|h2 r2]]; try reflexivity.
        pose proof (take_exact_none _ _ _ E [h1; h2] r2 eq_refl eq_refl) as Hf.
        cbn [forallb] in Hf. rewrite andb_true_r in Hf. now rewrite Hf. }
  (* ---- u, U, N *)
  destruct (is_uUN e) eqn:EuUN.
  { destruct t.
    - (* text kinds *)
      symmetry in Ht. cbn [andb] in Hspec.
      destruct (N.eqb_spec e 117) as [->|Hu].
      { destruct (take_exact is_hexd 4 r1) as [[h r']|] eqn:E.
        - destruct (take_exact_some _ _ _ _ _ E) as (-> & Hl & Hp).
          destruct h as [|h1 [|h2 [|h3 [|h4 [|]]]]]; try discriminate. cbn [forallb] in Hp.
          apply andb_true_iff in Hp as [X1 Hp]. apply andb_true_iff in Hp as [X2 Hp].
          apply andb_true_iff in Hp as [X3 Hp]. apply andb_true_iff in Hp as [X4 _]. cbn [app] in *.
          pose proof (hex4_bound _ _ _ _ X1 X2 X3 X4) as Hb.
          eapply step_ok with (rest := r') (w := [_]); [ | rewrite Ht; apply good_uesc | | apply IH; auto].
          + rewrite dec_esc, lx_u, E. cbn [fst snd]. cbv iota. rewrite aes_u by auto.
            rewrite of_base16_4. destruct (N.ltb_spec 1114111 (hex4 h1 h2 h3 h4)); [lia|]. reflexivity.
          + rewrite Ht, Hspec, X1, X2, X3, X4. reflexivity.
          + cbn in Hlr1. lia.
          + apply (has_named_skip [h1; h2; h3; h4]). exact Hr1.
        - eapply step_err with (rest := r1) (s1 := set_err s); auto.
          + rewrite dec_esc, lx_u, E. cbn [fst snd]. cbv iota. rewrite aes_two_text by auto. now rewrite act_err.
          + rewrite Ht, Hspec. destruct r1 as [|h1 [|h2 [|h3 [|h4 r2]]]]; try reflexivity.
            pose proof (take_exact_none _ _ _ E [h1; h2; h3; h4] r2 eq_refl eq_refl) as Hf.
            cbn [forallb] in Hf. rewrite andb_true_r, !andb_assoc in Hf. now rewrite Hf. }
      destruct (N.eqb_spec e 85) as [->|HU].
      { destruct (take_exact is_hexd 8 r1) as [[h r']|] eqn:E.
        - destruct (take_exact_some _ _ _ _ _ E) as (-> & Hl & Hp).
          destruct h as [|h1 [|h2 [|h3 [|h4 [|h5 [|h6 [|h7 [|h8 [|]]]]]]]]]; try discriminate. cbn [forallb] in Hp.
          apply andb_true_iff in Hp as [X1 Hp]. apply andb_true_iff in Hp as [X2 Hp].
          apply andb_true_iff in Hp as [X3 Hp]. apply andb_true_iff in Hp as [X4 Hp].
          apply andb_true_iff in Hp as [X5 Hp]. apply andb_true_iff in Hp as [X6 Hp].
          apply andb_true_iff in Hp as [X7 Hp]. apply andb_true_iff in Hp as [X8 _]. cbn [app] in *.
          rewrite X1, X2, X3, X4, X5, X6, X7, X8 in Hspec. cbn [andb] in Hspec. cbv zeta in Hspec.
          set (v := 65536 * hex4 h1 h2 h3 h4 + hex4 h5 h6 h7 h8) in *.
          assert (Hm : dec (S f) true k false (92 :: 85 :: h1 :: h2 :: h3 :: h4 :: h5 :: h6 :: h7 :: h8 :: r') s =
                       match (if 1114111 <? v then AFatal else AUescape v [92; 85; h1; h2; h3; h4; h5; h6; h7; h8]) with
                       | AFatal => DError
                       | a => match do_action true k a s with SNext s' => dec f true k false r' s' | SStop d => d end
                       end).
          { rewrite dec_esc, lx_U, E. cbn [fst snd]. cbv iota. rewrite aes_U by auto.
            rewrite of_base16_8. fold v. destruct (1114111 <? v); reflexivity. }
          destruct (N.ltb_spec v 1114112) as [Hv|Hv].
          + destruct (N.ltb_spec 1114111 v); [lia|].
            eapply step_ok with (rest := r') (w := [v]); [ rewrite Hm; reflexivity | rewrite Ht; apply good_uesc | | apply IH; auto].
            * rewrite Ht, Hspec. reflexivity.
            * cbn in Hlr1. lia.
            * apply (has_named_skip [h1; h2; h3; h4; h5; h6; h7; h8]). exact Hr1.
          + destruct (N.ltb_spec 1114111 v); [|lia].
            unfold concl. rewrite Ht, Hspec. exact Hm.
        - eapply step_err with (rest := r1) (s1 := set_err s); auto.
          + rewrite dec_esc, lx_U, E. cbn [fst snd]. cbv iota. rewrite aes_two_text by auto. now rewrite act_err.
          + rewrite Ht, Hspec. destruct r1 as [|h1 [|h2 [|h3 [|h4 [|h5 [|h6 [|h7 [|h8 r2]]]]]]]]; try reflexivity.
            pose proof (take_exact_none _ _ _ E [h1; h2; h3; h4; h5; h6; h7; h8] r2 eq_refl eq_refl) as Hf.
            cbn [forallb] in Hf. rewrite andb_true_r, !andb_assoc in Hf. now rewrite Hf. }
      assert (e = 78) as -> by (unfold is_uUN in EuUN; lia).
      change (78 =? 78) with true in Hspec. cbv iota in Hspec.
      assert (Hnone : lex_named r1 = None /\ py_lit true (92 :: 78 :: r1) = PyReject).
      { destruct r1 as [|b r2]; [split; [reflexivity|exact Hspec]|].
        destruct (N.eqb_spec b 123) as [->|Hb]; [cbn in Hn; discriminate|].
        split; [unfold lex_named; now destruct (N.eqb_spec b 123)|]. exact Hspec. }
      destruct Hnone as [E Hrej].
      eapply step_err with (rest := r1) (s1 := set_err s); auto.
      + rewrite dec_esc, lx_N, E. cbn [fst snd]. cbv iota. rewrite aes_two_text by auto. now rewrite act_err.
      + rewrite Ht. exact Hrej.
    - (* bytes: the token stays as it is *)
      symmetry in Ht. cbn [andb] in Hspec.
      destruct (lex_uUN_bytes e r1 EuUN Hn) as (h & r' & E & -> & Hh).
      assert (Hp : Forall (fun c => c < 128 /\ c <> 92) (e :: h)).
      { constructor; [unfold is_uUN in EuUN; lia|exact Hh]. }
      eapply step_ok with (rest := r') (w := 92 :: e :: h); [ | | | apply IH; auto].
      + rewrite dec_esc, E. cbn [fst snd]. cbv iota. rewrite aes_verbatim_bytes by (auto; unfold is_uUN in EuUN; lia).
        now rewrite act_chars.
      + rewrite Ht. apply good_chars. intros _. apply forallb_forall. intros x [<-|Hin]; [reflexivity|].
        rewrite Forall_forall in Hp. destruct (Hp x Hin). lia.
      + rewrite Ht, Hspec. change (e :: h ++ r') with ((e :: h) ++ r'). rewrite py_lit_run by exact Hp. reflexivity.
      + rewrite app_length in Hlr1. lia.
      + eapply has_named_skip. exact Hr1. }
  (* ---- unknown escape: the backslash stays *)
  assert (Hs : py_lit t (92 :: e :: r1) = pcons 92 (py_lit t (e :: r1))).
  { rewrite Hspec. unfold is_uUN in EuUN.
    destruct (N.eqb_spec e 117); [lia|]. destruct (N.eqb_spec e 85); [lia|]. destruct (N.eqb_spec e 78); [lia|].
    now rewrite !andb_false_r. }
  assert (He2 : is_esc2 e = false).
  { pose proof (simple_none _ Hse). unfold is_uUN in EuUN. unfold is_esc2. cbn [existsb]. lia. }
  eapply step_ok with (rest := e :: r1) (w := [92]); [ | apply good_chars; reflexivity | rewrite <- Ht; exact Hs | apply IH; auto].
  rewrite dec_esc, lx_unknown by assumption. cbn [fst snd]. cbv iota.
  change (append_escape_sequence k [92]) with (AChars [92]). now rewrite act_chars.
Qed.

(* ------------------------------------------------------------------ final decoder theorems *)
Lemma finish_good k s' v : k <> KChar ->
  good (kind_is_text k) st0 s' v -> visible k (finish k s') = Some v /\ exists b u, finish k s' = DOk b u.
Proof.
  unfold good, sval, st0. cbn [st_err st_nonascii st_b st_u]. intros Hk (A & B & C).
  destruct k; cbn in *; try contradiction; rewrite rev_append_rev, app_nil_r in A; rewrite B.
  - cbn. rewrite rev'_rev, A, rev_involutive. eauto.
  - cbn. rewrite rev'_rev, A, rev_involutive. eauto.
  - rewrite (C eq_refl). cbn. rewrite rev'_rev, A, rev_involutive. eauto.
Qed.

Theorem decoder_agrees_fixed : forall k body, k <> KChar -> has_named body = false ->
  match py_value k false body with
  | PyValue v => visible k (decode true k false body) = Some v /\ exists b u, decode true k false body = DOk b u
  | PyReject => decode true k false body = DError
  | _ => True
  end.
Proof.
  intros k body Hk Hn.
  pose proof (dec_main (S (length body)) k body st0 Hk (Nat.lt_succ_diag_r _) Hn) as H.
  unfold concl in H. unfold decode.
  assert (E : py_value k false body = py_lit (kind_is_text k) body) by (destruct k; try reflexivity; contradiction).
  rewrite E. destruct (py_lit (kind_is_text k) body); auto.
  destruct H as (s' & -> & G). now apply finish_good.
Qed.

(* totality: with the octal fix no body (any kind, raw or not) gives an internal error, and the
   fuel len+1 always suffices *)
Lemma do_action_stop' k a s d : do_action true k a s = SStop d -> d = DError \/ d = DUnmodelled.
Proof.
  destruct a; cbn [do_action]; try discriminate.
  - destruct k; try discriminate; rewrite orb_true_r; discriminate.
  - intros [= <-]. auto.
  - intros [= <-]. auto.
Qed.
Lemma finish_total k s : finish k s <> DInternal /\ finish k s <> DOutOfFuel.
Proof.
  unfold finish. destruct k;
    repeat match goal with |- context [if ?c then _ else _] => destruct c end; split; discriminate.
Qed.
Lemma dec_total : forall n k raw body s, (length body < n)%nat ->
  dec n true k raw body s <> DInternal /\ dec n true k raw body s <> DOutOfFuel.
Proof.
  induction n as [|f IH]; intros k raw body s Hl; [lia|].
  destruct body as [|c r]; [rewrite dec_nil; apply finish_total|].
  destruct (N.eq_dec c 92) as [->|Hc].
  - rewrite dec_esc.
    destruct (do_action true k _ s) as [s'|d] eqn:E.
    + apply IH. pose proof (lex_escape_len r). cbn in Hl. lia.
    + apply do_action_stop' in E as [->| ->]; split; discriminate.
  - rewrite dec_plain by exact Hc. apply IH. cbn in Hl. lia.
Qed.
Theorem decoder_total_fixed : forall k raw body,
  decode true k raw body <> DInternal /\ decode true k raw body <> DOutOfFuel.
Proof. intros. apply dec_total. lia. Qed.

Theorem decoder_total_refuted : exists body, decode false KStr false body = DInternal.
Proof. exists [92; 55; 55; 55]. vm_compute. reflexivity. Qed.
Theorem decoder_total_refuted_bytes : exists body, decode false KBytes false body = DInternal /\ py_value KBytes false body = PyValue [255].
Proof. exists [92; 55; 55; 55]. vm_compute. auto. Qed.

(* ------------------------------------------------------------------ UTF-8 *)
Lemma dec_utf8_1 b0 r : b0 < 128 -> decode_utf8 (b0 :: r) = ocons b0 (decode_utf8 r).
Proof. intros H. cbn [decode_utf8]. destruct (N.ltb_spec b0 128); [reflexivity|lia]. Qed.
Lemma dec_utf8_2 b0 b1 r : 194 <= b0 < 224 -> is_cont b1 = true ->
  decode_utf8 (b0 :: b1 :: r) = ocons ((b0 - 192) * 64 + (b1 - 128)) (decode_utf8 r).
Proof.
  intros H H1. cbn [decode_utf8]. destruct (N.ltb_spec b0 128); [lia|]. destruct (N.ltb_spec b0 194); [lia|].
  destruct (N.ltb_spec b0 224); [|lia]. now rewrite H1.
Qed.
Lemma dec_utf8_3 b0 b1 b2 r : 224 <= b0 < 240 ->
  ((if b0 =? 224 then 160 else 128) <=? b1) && (b1 <=? (if b0 =? 237 then 159 else 191)) && is_cont b2 = true ->
  decode_utf8 (b0 :: b1 :: b2 :: r) = ocons ((b0 - 224) * 4096 + (b1 - 128) * 64 + (b2 - 128)) (decode_utf8 r).
Proof.
  intros H H1. cbn [decode_utf8]. destruct (N.ltb_spec b0 128); [lia|]. destruct (N.ltb_spec b0 194); [lia|].
  destruct (N.ltb_spec b0 224); [lia|]. destruct (N.ltb_spec b0 240); [|lia]. now rewrite H1.
Qed.
Lemma dec_utf8_4 b0 b1 b2 b3 r : 240 <= b0 < 245 ->
  ((if b0 =? 240 then 144 else 128) <=? b1) && (b1 <=? (if b0 =? 244 then 143 else 191)) && is_cont b2 && is_cont b3 = true ->
  decode_utf8 (b0 :: b1 :: b2 :: b3 :: r) =
  ocons ((b0 - 240) * 262144 + (b1 - 128) * 4096 + (b2 - 128) * 64 + (b3 - 128)) (decode_utf8 r).
Proof.
  intros H H1. cbn [decode_utf8]. destruct (N.ltb_spec b0 128); [lia|]. destruct (N.ltb_spec b0 194); [lia|].
  destruct (N.ltb_spec b0 224); [lia|]. destruct (N.ltb_spec b0 240); [lia|]. destruct (N.ltb_spec b0 245); [|lia].
  now rewrite H1.
Qed.

Lemma decode_enc_char c r : is_scalar c = true -> decode_utf8 (enc_char c ++ r) = ocons c (decode_utf8 r).
Proof.
  unfold is_scalar, is_surrogate, enc_char. intros Hs.
  destruct (N.ltb_spec c 128). { cbn [app]. now apply dec_utf8_1. }
  destruct (N.ltb_spec c 2048).
  { cbn [app]. rewrite dec_utf8_2; [f_equal; lia|lia|unfold is_cont; lia]. }
  destruct (N.ltb_spec c 65536).
  { cbn [app]. rewrite dec_utf8_3; [f_equal; lia|lia|].
    unfold is_cont.
    destruct (N.eqb_spec (224 + c / 4096) 224); destruct (N.eqb_spec (224 + c / 4096) 237); lia. }
  cbn [app]. rewrite dec_utf8_4; [f_equal; lia|lia|].
  unfold is_cont.
  destruct (N.eqb_spec (240 + c / 262144) 240); destruct (N.eqb_spec (240 + c / 262144) 244); lia.
Qed.

Theorem utf8_roundtrip : forall cs bs, encode_utf8 cs = Some bs -> decode_utf8 bs = Some cs.
Proof.
  unfold encode_utf8. intros cs bs. destruct (forallb is_scalar cs) eqn:E; [|discriminate]. intros [= <-].
  induction cs as [|c cs IH]; [reflexivity|]. cbn [forallb] in E. apply andb_true_iff in E as [E1 E2].
  cbn [flat_map]. rewrite decode_enc_char by exact E1. now rewrite IH.
Qed.
Theorem utf8_encode_defined : forall cs,
  (encode_utf8 cs <> None <-> Forall (fun c => is_scalar c = true) cs)
  /\ (forall bs, encode_utf8 cs = Some bs -> Forall (fun b => b < 256) bs).
Proof.
  intros cs. unfold encode_utf8. split.
  - destruct (forallb is_scalar cs) eqn:E.
    + split; [intros _|discriminate]. apply Forall_forall. now apply forallb_forall.
    + split; [contradiction|]. intros H. rewrite Forall_forall in H. apply forallb_forall in H. congruence.
  - destruct (forallb is_scalar cs) eqn:E; [|discriminate]. intros bs [= <-].
    apply Forall_forall. intros b Hb. apply in_flat_map in Hb as (c & Hc & Hb).
    rewrite forallb_forall in E. specialize (E c Hc). unfold is_scalar in E. unfold enc_char in Hb.
    repeat match type of Hb with context [if ?a <? ?b then _ else _] => destruct (N.ltb_spec a b) end;
      unfold In in Hb; repeat (destruct Hb as [<-|Hb]; [lia|]); contradiction.
Qed.
Theorem utf8_surrogates_rejected : forall cs, contains_surrogates cs = true -> encode_utf8 cs = None.
Proof.
  unfold contains_surrogates, encode_utf8. intros cs H. apply existsb_exists in H as (c & Hc & Hs).
  destruct (forallb is_scalar cs) eqn:E; [|reflexivity]. rewrite forallb_forall in E. specialize (E c Hc).
  unfold is_scalar in E. rewrite Hs in E. cbn in E. now rewrite andb_false_r in E.
Qed.

(* ------------------------------------------------------------------ unicode_escape *)
Lemma hexdig_ok d : d < 16 -> is_hexd (hexdig d) = true /\ hexv (hexdig d) = d /\ hexdig d < 128.
Proof.
  intros H. unfold hexdig, is_hexd, hexv. destruct (N.ltb_spec d 10).
  - destruct (N.leb_spec (48 + d) 57); lia.
  - destruct (N.leb_spec (87 + d) 57); [lia|]. destruct (N.leb_spec (87 + d) 70); lia.
Qed.
Lemma split16 x : x = 16 * (x / 16) + x mod 16 /\ x mod 16 < 16.
Proof. split; [apply N.div_mod'|apply N.mod_lt; discriminate]. Qed.
Lemma div16 x k : x / (k * 16) = x / k / 16.
Proof. destruct (N.eq_dec k 0) as [->|Hk]; [now destruct x|]. now rewrite N.div_div by (auto; discriminate). Qed.

(* the hexadecimal digits of a code point, most significant first *)
Lemma digits2 c : c < 256 -> c / 16 < 16 /\ c mod 16 < 16 /\ 16 * (c / 16) + c mod 16 = c.
Proof.
  intros H. destruct (split16 c) as [S0 T0]. set (q1 := c / 16) in *. set (d0 := c mod 16) in *.
  clearbody q1 d0. lia.
Qed.
Lemma digits4 c : c < 65536 ->
  c / 4096 < 16 /\ (c / 256) mod 16 < 16 /\ (c / 16) mod 16 < 16 /\ c mod 16 < 16 /\
  256 * (16 * (c / 4096) + (c / 256) mod 16) + (16 * ((c / 16) mod 16) + c mod 16) = c.
Proof.
  intros H.
  change 4096 with (16 * 16 * 16). change (c / 256) with (c / (16 * 16)). rewrite !div16.
  destruct (split16 c) as [S0 T0]. destruct (split16 (c / 16)) as [S1 T1]. destruct (split16 (c / 16 / 16)) as [S2 T2].
  set (q1 := c / 16) in *. set (q2 := q1 / 16) in *. set (q3 := q2 / 16) in *.
  set (d0 := c mod 16) in *. set (d1 := q1 mod 16) in *. set (d2 := q2 mod 16) in *.
  clearbody q1 q2 q3 d0 d1 d2. lia.
Qed.
Lemma digits8 c : c < 1114112 ->
  c / 268435456 < 16 /\ (c / 16777216) mod 16 < 16 /\ (c / 1048576) mod 16 < 16 /\ (c / 65536) mod 16 < 16 /\
  (c / 4096) mod 16 < 16 /\ (c / 256) mod 16 < 16 /\ (c / 16) mod 16 < 16 /\ c mod 16 < 16 /\
  65536 * (256 * (16 * (c / 268435456) + (c / 16777216) mod 16) + (16 * ((c / 1048576) mod 16) + (c / 65536) mod 16))
  + (256 * (16 * ((c / 4096) mod 16) + (c / 256) mod 16) + (16 * ((c / 16) mod 16) + c mod 16)) = c.
Proof.
  intros H.
  change 268435456 with (16 * 16 * 16 * 16 * 16 * 16 * 16). change 16777216 with (16 * 16 * 16 * 16 * 16 * 16).
  change 1048576 with (16 * 16 * 16 * 16 * 16). change (c / 65536) with (c / (16 * 16 * 16 * 16)).
  change 4096 with (16 * 16 * 16). change (c / 256) with (c / (16 * 16)). rewrite !div16.
  destruct (split16 c) as [S0 T0]. destruct (split16 (c / 16)) as [S1 T1]. destruct (split16 (c / 16 / 16)) as [S2 T2].
  destruct (split16 (c / 16 / 16 / 16)) as [S3 T3]. destruct (split16 (c / 16 / 16 / 16 / 16)) as [S4 T4].
  destruct (split16 (c / 16 / 16 / 16 / 16 / 16)) as [S5 T5]. destruct (split16 (c / 16 / 16 / 16 / 16 / 16 / 16)) as [S6 T6].
  set (q1 := c / 16) in *. set (q2 := q1 / 16) in *. set (q3 := q2 / 16) in *. set (q4 := q3 / 16) in *.
  set (q5 := q4 / 16) in *. set (q6 := q5 / 16) in *. set (q7 := q6 / 16) in *.
  set (d0 := c mod 16) in *. set (d1 := q1 mod 16) in *. set (d2 := q2 mod 16) in *. set (d3 := q3 mod 16) in *.
  set (d4 := q4 mod 16) in *. set (d5 := q5 mod 16) in *. set (d6 := q6 mod 16) in *.
  clearbody q1 q2 q3 q4 q5 q6 q7 d0 d1 d2 d3 d4 d5 d6. lia.
Qed.

Lemma py_text_x h1 h2 r : is_hexd h1 = true -> is_hexd h2 = true ->
  py_lit true (92 :: 120 :: h1 :: h2 :: r) = pcons (hex2 h1 h2) (py_lit true r).
Proof. intros A B. rewrite py_lit_esc. unfold esc_body. change (120 =? 10) with false. cbv iota.
  change (simple_escape 120) with (@None N). cbv iota. change (is_octd 120) with false. cbv iota.
  change (120 =? 120) with true. cbv iota. now rewrite A, B. Qed.
Lemma py_text_u h1 h2 h3 h4 r : is_hexd h1 = true -> is_hexd h2 = true -> is_hexd h3 = true -> is_hexd h4 = true ->
  py_lit true (92 :: 117 :: h1 :: h2 :: h3 :: h4 :: r) = pcons (hex4 h1 h2 h3 h4) (py_lit true r).
Proof. intros A B C D. rewrite py_lit_esc. unfold esc_body. change (117 =? 10) with false. cbv iota.
  change (simple_escape 117) with (@None N). cbv iota. change (is_octd 117) with false. cbv iota.
  change (117 =? 120) with false. cbv iota. change (true && (117 =? 117)) with true. cbv iota.
  now rewrite A, B, C, D. Qed.
Lemma py_text_U h1 h2 h3 h4 h5 h6 h7 h8 r :
  is_hexd h1 = true -> is_hexd h2 = true -> is_hexd h3 = true -> is_hexd h4 = true ->
  is_hexd h5 = true -> is_hexd h6 = true -> is_hexd h7 = true -> is_hexd h8 = true ->
  65536 * hex4 h1 h2 h3 h4 + hex4 h5 h6 h7 h8 < 1114112 ->
  py_lit true (92 :: 85 :: h1 :: h2 :: h3 :: h4 :: h5 :: h6 :: h7 :: h8 :: r) =
  pcons (65536 * hex4 h1 h2 h3 h4 + hex4 h5 h6 h7 h8) (py_lit true r).
Proof. intros A B C D E F G H Hv. rewrite py_lit_esc. unfold esc_body. change (85 =? 10) with false. cbv iota.
  change (simple_escape 85) with (@None N). cbv iota. change (is_octd 85) with false. cbv iota.
  change (85 =? 120) with false. cbv iota. change (true && (85 =? 117)) with false. cbv iota.
  change (true && (85 =? 85)) with true. cbv iota.
  rewrite A, B, C, D, E, F, G, H. cbn [andb]. cbv zeta.
  destruct (N.ltb_spec (65536 * hex4 h1 h2 h3 h4 + hex4 h5 h6 h7 h8) 1114112); [reflexivity|lia]. Qed.

Lemma uesc_char_ok c r : c < 1114112 -> py_text (uesc_char c ++ r) = pcons c (py_text r).
Proof.
  intros Hc. unfold py_text, uesc_char.
  destruct (N.eqb_spec c 92) as [->|H92]. { cbn [app]. rewrite py_lit_esc. reflexivity. }
  destruct (N.eqb_spec c 9) as [->|H9]. { cbn [app]. rewrite py_lit_esc. reflexivity. }
  destruct (N.eqb_spec c 10) as [->|H10]. { cbn [app]. rewrite py_lit_esc. reflexivity. }
  destruct (N.eqb_spec c 13) as [->|H13]. { cbn [app]. rewrite py_lit_esc. reflexivity. }
  destruct ((32 <=? c) && (c <? 127)) eqn:Hp. { cbn [app]. now apply py_lit_plain. }
  destruct (N.ltb_spec c 256) as [H1|H1].
  { cbn [app]. destruct (digits2 c H1) as (X1 & X2 & X).
    destruct (hexdig_ok _ X1) as (A1 & A2 & _). destruct (hexdig_ok _ X2) as (B1 & B2 & _).
    rewrite py_text_x by assumption. unfold hex2. rewrite A2, B2, X. reflexivity. }
  destruct (N.ltb_spec c 65536) as [H2|H2].
  { cbn [app]. destruct (digits4 c H2) as (X1 & X2 & X3 & X4 & X).
    destruct (hexdig_ok _ X1) as (A1 & A2 & _). destruct (hexdig_ok _ X2) as (B1 & B2 & _).
    destruct (hexdig_ok _ X3) as (C1 & C2 & _). destruct (hexdig_ok _ X4) as (D1 & D2 & _).
    rewrite py_text_u by assumption. unfold hex4, hex2. rewrite A2, B2, C2, D2, X. reflexivity. }
  cbn [app]. destruct (digits8 c Hc) as (X1 & X2 & X3 & X4 & X5 & X6 & X7 & X8 & X).
  destruct (hexdig_ok _ X1) as (A1 & A2 & _). destruct (hexdig_ok _ X2) as (B1 & B2 & _).
  destruct (hexdig_ok _ X3) as (C1 & C2 & _). destruct (hexdig_ok _ X4) as (D1 & D2 & _).
  destruct (hexdig_ok _ X5) as (E1 & E2 & _). destruct (hexdig_ok _ X6) as (F1 & F2 & _).
  destruct (hexdig_ok _ X7) as (G1 & G2 & _). destruct (hexdig_ok _ X8) as (I1 & I2 & _).
  assert (V : 65536 * hex4 (hexdig (c / 268435456)) (hexdig ((c / 16777216) mod 16)) (hexdig ((c / 1048576) mod 16))
                       (hexdig ((c / 65536) mod 16))
              + hex4 (hexdig ((c / 4096) mod 16)) (hexdig ((c / 256) mod 16)) (hexdig ((c / 16) mod 16)) (hexdig (c mod 16)) = c).
  { unfold hex4, hex2. rewrite A2, B2, C2, D2, E2, F2, G2, I2. exact X. }
  rewrite py_text_U; try assumption; rewrite V; [reflexivity|exact Hc].
Qed.

Theorem unicode_escape_roundtrip : forall cs, Forall (fun c => c < 1114112) cs ->
  unicode_escape_decode (uesc_encode cs) = Some cs.
Proof.
  intros cs H. unfold unicode_escape_decode, uesc_encode.
  assert (E : py_text (flat_map uesc_char cs) = PyValue cs).
  { induction H as [|c cs Hc _ IH]; [reflexivity|]. cbn [flat_map]. rewrite uesc_char_ok by exact Hc. now rewrite IH. }
  now rewrite E.
Qed.

Lemma uesc_char_bytes c : c < 1114112 -> Forall (fun b => b < 256) (uesc_char c).
Proof.
  intros Hc. unfold uesc_char.
  destruct (c =? 92); [repeat constructor|]. destruct (c =? 9); [repeat constructor|].
  destruct (c =? 10); [repeat constructor|]. destruct (c =? 13); [repeat constructor|].
  destruct ((32 <=? c) && (c <? 127)) eqn:Hp; [repeat constructor; lia|].
  destruct (N.ltb_spec c 256) as [H1|H1].
  { destruct (digits2 c H1) as (X1 & X2 & X).
    destruct (hexdig_ok _ X1) as (_ & _ & A). destruct (hexdig_ok _ X2) as (_ & _ & B). repeat constructor; lia. }
  destruct (N.ltb_spec c 65536) as [H2|H2].
  { destruct (digits4 c H2) as (X1 & X2 & X3 & X4 & X).
    destruct (hexdig_ok _ X1) as (_ & _ & A). destruct (hexdig_ok _ X2) as (_ & _ & B).
    destruct (hexdig_ok _ X3) as (_ & _ & C). destruct (hexdig_ok _ X4) as (_ & _ & D).
    repeat constructor; try reflexivity; eapply N.lt_trans; eauto; reflexivity. }
  destruct (digits8 c Hc) as (X1 & X2 & X3 & X4 & X5 & X6 & X7 & X8 & X).
  destruct (hexdig_ok _ X1) as (_ & _ & A). destruct (hexdig_ok _ X2) as (_ & _ & B).
  destruct (hexdig_ok _ X3) as (_ & _ & C). destruct (hexdig_ok _ X4) as (_ & _ & D).
  destruct (hexdig_ok _ X5) as (_ & _ & E). destruct (hexdig_ok _ X6) as (_ & _ & F).
  destruct (hexdig_ok _ X7) as (_ & _ & G). destruct (hexdig_ok _ X8) as (_ & _ & I).
  repeat constructor; try reflexivity; eapply N.lt_trans; eauto; reflexivity.
Qed.
Lemma uesc_bytes cs : Forall (fun c => c < 1114112) cs -> Forall (fun b => b < 256) (uesc_encode cs).
Proof.
  intros H. unfold uesc_encode. induction H as [|c cs Hc _ IH]; [constructor|].
  cbn [flat_map]. apply Forall_app. split; [now apply uesc_char_bytes|exact IH].
Qed.

(* ------------------------------------------------------------------ the string table *)
Lemma max_list_ge l v : In v l -> v <= max_list l.
Proof. induction l as [|a l IH]; [contradiction|]. cbn [max_list fold_right]. intros [->|H]; [lia|]. specialize (IH H). unfold max_list in IH. lia. Qed.

Lemma size_bound n : n < 2 ^ 32 -> N.size n <= 32.
Proof.
  intros H. destruct (N.le_gt_cases (N.size n) 32) as [|Hgt]; [assumption|].
  pose proof (N.size_le n) as Hs.
  assert (2 ^ 33 <= 2 ^ N.size n) by (apply N.pow_le_mono_r; lia).
  change (2 ^ 33) with 8589934592 in *. change (2 ^ 32) with 4294967296 in *. unfold N.succ_double in Hs.
  destruct n; lia.
Qed.
Lemma size_pos n : 0 < n -> 0 < N.size n.
Proof. destruct n as [|p]; [lia|]. intros _. cbn. destruct p; cbn; lia. Qed.

(* idx describes real lengths below 2^32; the category is not "all empty" unless the width fix is in *)
Definition index_ok (fx : bool) (idx : list N) : Prop :=
  Forall (fun v => v < 2 ^ 32) idx /\ (fx = true \/ idx = [] \/ 0 < max_list idx).

Lemma index_decl_ok fx idx : index_ok fx idx ->
  index_decl fx idx <> ICompileError /\ stored_of (index_decl fx idx) = idx.
Proof.
  intros [Hb Hne]. unfold index_decl. destruct idx as [|a idx']; [split; [discriminate|reflexivity]|].
  set (idx := a :: idx') in *. set (w := index_width fx idx).
  assert (Hm : max_list idx < 2 ^ 32).
  { assert (In (max_list idx) idx \/ max_list idx = 0) as [Hi| ->]; [|rewrite Forall_forall in Hb; auto|reflexivity].
    clear. induction idx as [|x l IH]; [now right|]. cbn [max_list fold_right]. fold (max_list l).
    destruct (N.max_spec x (max_list l)) as [[_ ->]|[_ ->]]; [|left; now left].
    destruct IH as [IH|IH]; [left; now right|right; exact IH]. }
  assert (Hw32 : w <= 32).
  { unfold w, index_width, bit_length. pose proof (size_bound _ Hm). destruct fx; lia. }
  assert (Hw0 : 0 < w).
  { unfold w, index_width, bit_length. destruct Hne as [->|[Hne|Hne]]; [lia|discriminate|].
    pose proof (size_pos _ Hne). destruct fx; lia. }
  assert (Hfit : forall v, In v idx -> v < 2 ^ w).
  { intros v Hv. pose proof (max_list_ge _ _ Hv). pose proof (N.size_gt (max_list idx)).
    assert (2 ^ N.size (max_list idx) <= 2 ^ w).
    { apply N.pow_le_mono_r; [discriminate|]. unfold w, index_width, bit_length. destruct fx; lia. }
    lia. }
  destruct (N.eqb_spec w 0); [lia|]. destruct (N.ltb_spec 32 w); [lia|]. cbn [orb].
  split; [discriminate|]. cbn [stored_of].
  rewrite <- (map_id idx) at 2. apply map_ext_in. intros v Hv. apply N.mod_small. now apply Hfit.
Qed.

Lemma nlen_nat (l : list N) : N.to_nat (nlen l) = length l.
Proof. unfold nlen. apply Nat2N.id. Qed.

Lemma unpack_loop_ok dec1 parts vals rest :
  Forall2 (fun p v => dec1 p = Some v) parts vals ->
  unpack_loop dec1 (map nlen parts) (concat parts ++ rest) = Some (vals, rest).
Proof.
  induction 1 as [|p v parts vals Hpv _ IH]; [reflexivity|].
  cbn [map concat unpack_loop]. rewrite nlen_nat, <- app_assoc.
  destruct (Nat.ltb_spec (length (p ++ concat parts ++ rest)) (length p)) as [Hlt|_].
  { rewrite app_length in Hlt. lia. }
  rewrite firstn_app, Nat.sub_diag, firstn_all, firstn_O, app_nil_r, Hpv.
  rewrite skipn_app, Nat.sub_diag, skipn_all, skipn_O. cbn [app]. now rewrite IH.
Qed.

Lemma encode_all_ok texts : Forall (Forall (fun c => is_scalar c = true)) texts ->
  exists enc, encode_all texts = Some enc /\ Forall2 (fun e t => decode_utf8 e = Some t) enc texts
              /\ enc = map (flat_map enc_char) texts.
Proof.
  induction 1 as [|t texts Ht _ (enc & E & F & M)]; [exists []; repeat split; constructor|].
  cbn [encode_all]. destruct (encode_utf8 t) as [b|] eqn:Eb.
  - exists (b :: enc). rewrite E. repeat split.
    + constructor; [now apply utf8_roundtrip|exact F].
    + cbn [map]. rewrite <- M. f_equal. unfold encode_utf8 in Eb. destruct (forallb is_scalar t); [|discriminate]. now injection Eb.
  - exfalso. apply (proj1 (utf8_encode_defined t)) in Ht. contradiction.
Qed.

Definition utf8_len (t : list N) : N := nlen (flat_map enc_char t).

Theorem string_table_roundtrip : forall fx texts bstrs,
  Forall (Forall (fun c => is_scalar c = true)) texts ->
  index_ok fx (map utf8_len texts) -> index_ok fx (map nlen bstrs) ->
  exists t, gen_table fx texts bstrs = GOk t
            /\ t_data t = concat (map (flat_map enc_char) texts) ++ concat bstrs
            /\ unpack_table t (t_data t) = Some (texts, bstrs).
Proof.
  intros fx texts bstrs Hs Hi1 Hi2. destruct (encode_all_ok texts Hs) as (enc & E & F & M).
  unfold gen_table. rewrite E.
  assert (Hidx : map nlen enc = map utf8_len texts) by (rewrite M, map_map; reflexivity).
  rewrite Hidx.
  destruct (index_decl_ok fx _ Hi1) as [N1 S1]. destruct (index_decl_ok fx _ Hi2) as [N2 S2].
  set (si := index_decl fx (map utf8_len texts)) in *. set (bi := index_decl fx (map nlen bstrs)) in *.
  assert (G : (match si, bi with ICompileError, _ => GCompileError | _, ICompileError => GCompileError
               | _, _ => GOk {| t_str := si; t_bytes := bi; t_data := concat enc ++ concat bstrs |} end)
              = GOk {| t_str := si; t_bytes := bi; t_data := concat enc ++ concat bstrs |}).
  { destruct si, bi; try reflexivity; contradiction. }
  rewrite G. eexists. split; [reflexivity|]. cbn [t_data]. split; [now rewrite M|].
  unfold unpack_table. cbn [t_str t_bytes]. rewrite S1, S2, <- Hidx.
  rewrite (unpack_loop_ok decode_utf8 enc texts (concat bstrs) F).
  rewrite <- (app_nil_r (concat bstrs)).
  rewrite (unpack_loop_ok (fun b => Some b) bstrs bstrs []); [reflexivity|].
  clear. induction bstrs; constructor; auto.
Qed.

(* as the code is: a category in which every constant is empty gets a zero-width bit-field *)
Theorem string_table_refuted : gen_table false [] [[]] = GCompileError /\
  exists t, gen_table true [] [[]] = GOk t /\ unpack_table t (t_data t) = Some ([], [[]]).
Proof. split; [reflexivity|]. eexists. split; reflexivity. Qed.

(* ------------------------------------------------------------------ the pipeline *)
Definition bytesN (l : list N) : Prop := Forall (fun b => b < 256) l.

(* contract of zlib / bz2 / compression.zstd (trusted): what the compiler stored decompresses
   at run time to the original, and compressors return byte strings *)
Definition codec_ok (cd : codec) : Prop :=
  forall a d c, bytesN d -> ext_compress cd a d = Some c -> bytesN c /\ ext_decompress cd a c = Some d.

Lemma c_array_ok msvc bs : bytesN bs -> c_array_of msvc bs = Some bs.
Proof.
  intros Hb. unfold c_array_of.
  destruct (msvc && (65536 <=? nlen bs)) eqn:E.
  - apply andb_true_iff in E as [_ E]. apply P_CStr.char_array_form_equal; [exact Hb|].
    intros ->. cbn in E. discriminate.
  - destruct (P_CStr.emit_reads_back bs 2000 Hb) as (txt & E1 & E2); [lia|]. now rewrite E1.
Qed.

Lemma zn_roundtrip (l : list Z) : P_LZSS.bytes l -> map Z.of_N (map Z.to_N l) = l /\ bytesN (map Z.to_N l).
Proof.
  induction 1 as [|b l Hb _ [IH1 IH2]]; [split; constructor|].
  unfold P_LZSS.byte in Hb. cbn [map]. split.
  - rewrite IH1, Z2N.id by lia. reflexivity.
  - constructor; [lia|exact IH2].
Qed.
Lemma nz_roundtrip (l : list N) : bytesN l -> map Z.to_N (map Z.of_N l) = l /\ P_LZSS.bytes (map Z.of_N l).
Proof.
  induction 1 as [|b l Hb _ [IH1 IH2]]; [split; constructor|]. cbn [map]. split.
  - rewrite IH1, N2Z.id. reflexivity.
  - constructor; [unfold P_LZSS.byte; lia|exact IH2].
Qed.

(* every stored branch is the output of its compressor on the table data and saves >= 200 bytes *)
Lemma select_loop_in cd algs data ms a c :
  In (a, c) (select_loop cd algs data ms) -> compress_with cd a data = Some c /\ nlen c + 200 <= nlen data.
Proof.
  revert ms. induction algs as [|x algs IH]; intros ms; [contradiction|]. cbn [select_loop].
  destruct (compress_with cd x data) as [cx|] eqn:E; [|apply IH].
  destruct (N.ltb_spec (nlen data) (nlen cx + 200)); [apply IH|].
  destruct (match ms with None => true | Some m => nlen cx <? m end).
  - intros [[= <- <-]|H']; [split; [exact E|lia]|eapply IH; eauto].
  - destruct (x =? 90); [|apply IH]. intros [[= <- <-]|H']; [split; [exact E|lia]|eapply IH; eauto].
Qed.

Lemma choose_in comps m p a c : choose comps m p = Some (a, c) -> In (a, c) comps.
Proof. unfold choose. intros H. apply find_some in H as [H _]. now apply in_rev. Qed.

Lemma init_data_ok cd msvc py314 um data (comps : list (N * list N)) :
  codec_ok cd -> bytesN data ->
  (forall a c, In (a, c) comps -> compress_with cd a data = Some c /\ nlen c + 200 <= nlen data) ->
  forall tb, init_data cd msvc py314 um {| im_table := tb; im_comps := comps; im_len := nlen data; im_data := data |} = Some data.
Proof.
  intros Hcd Hb Hin tb. unfold init_data. cbn [im_comps im_data im_len].
  destruct (choose comps _ py314) as [[a c]|] eqn:Ech; [|now apply c_array_ok].
  apply choose_in in Ech. destruct (Hin a c Ech) as [Ec Hsz]. unfold compress_with in Ec.
  destruct (N.eqb_spec a 90) as [->|Ha].
  - (* LZSS: C12 *)
    unfold lzss_compress in Ec. destruct (nz_roundtrip data Hb) as [R1 R2].
    assert (Hne : map Z.of_N data <> []).
    { intros Hnil. apply (f_equal (@length Z)) in Hnil. rewrite map_length in Hnil. unfold nlen in Hsz. cbn in Hnil. lia. }
    destruct (P_LZSS.roundtrip _ Hne R2) as (cz & E1 & B1 & _).
    destruct (P_LZSS.string_wrapper _ Hne R2) as (cz' & E1' & W).
    rewrite E1 in E1'. injection E1' as <-. rewrite E1 in Ec. injection Ec as <-.
    destruct (zn_roundtrip cz B1) as [Z1 Z2]. rewrite (c_array_ok msvc _ Z2), Z1.
    unfold nlen. rewrite !map_length, !nat_N_Z. rewrite map_length in W. rewrite W. now rewrite R1.
  - destruct (Hcd a data c Hb Ec) as [Bc Dc]. now rewrite (c_array_ok msvc _ Bc).
Qed.

Lemma enc_char_bytes c : is_scalar c = true -> bytesN (enc_char c).
Proof.
  intros H. pose proof (proj2 (utf8_encode_defined [c])) as P. unfold encode_utf8 in P. cbn [forallb] in P.
  rewrite H in P. cbn [andb flat_map] in P. rewrite app_nil_r in P. now apply P.
Qed.

Theorem pipeline_identity : forall cd fx msvc py314 user_macro texts bstrs,
  codec_ok cd ->
  Forall (Forall (fun c => is_scalar c = true)) texts -> Forall bytesN bstrs ->
  index_ok fx (map utf8_len texts) -> index_ok fx (map nlen bstrs) ->
  exists im, gen_image fx cd texts bstrs = Some im
             /\ init_table cd msvc py314 user_macro im = Some (texts, bstrs).
Proof.
  intros cd fx msvc py314 um texts bstrs Hcd Hs Hb Hi1 Hi2.
  destruct (string_table_roundtrip fx texts bstrs Hs Hi1 Hi2) as (t & G & D & U).
  unfold gen_image. rewrite G. eexists. split; [reflexivity|].
  unfold init_table. cbn [im_table].
  assert (Hbytes : bytesN (t_data t)).
  { rewrite D. apply Forall_app. split.
    - apply Forall_concat. apply Forall_map. eapply Forall_impl; [|exact Hs]. intros tx Htx.
      apply Forall_flat_map. eapply Forall_impl; [|exact Htx]. intros c Hc. now apply enc_char_bytes.
    - now apply Forall_concat. }
  rewrite init_data_ok; auto.
  intros a c Hin. eapply select_loop_in. exact Hin.
Qed.
