(* C25, embedded-signature parameter list: proofs about Model/M_ArgList.v *)
From Coq Require Import List Bool Arith Lia.
From CyVerif Require Import Model.M_ArgList.
Import ListNotations.

Set Implicit Arguments.

Section Proofs.
Variable A : Type.
Notation tokA := (tok A).

(* ---------------- list.insert *)
Lemma insert_app : forall (X : Type) (a b : list X) (n : nat) (x : X),
  insert (length a + n) x (a ++ b) = a ++ insert n x b.
Proof.
  unfold insert. induction a as [|h a IH]; intros b n x; cbn [length app Nat.add firstn skipn].
  - reflexivity.
  - f_equal. apply IH.
Qed.

Lemma insert_app0 : forall (X : Type) (a b : list X) (x : X),
  insert (length a) x (a ++ b) = a ++ x :: b.
Proof.
  intros X a b x. rewrite <- (Nat.add_0_r (length a)). rewrite insert_app. reflexivity.
Qed.

Lemma insert_past_end : forall (X : Type) (l : list X) (n : nat) (x : X),
  length l <= n -> insert n x l = l ++ [x].
Proof.
  intros X l n x H. unfold insert. rewrite firstn_all2 by exact H. rewrite skipn_all2 by exact H. reflexivity.
Qed.

(* ---------------- hide_self filter *)
Lemma visible_plain : forall (hs : bool) (l : list A), visible hs (plain l) = plain l.
Proof.
  intros hs l. unfold visible, plain. induction l as [|a l IH]; cbn [map filter fst].
  - reflexivity.
  - rewrite andb_false_r. cbn [negb]. f_equal. exact IH.
Qed.

Lemma map_arg_plain : forall l : list A, map (fun a : argnode A => TArg (snd a)) (plain l) = map (@TArg A) l.
Proof. intro l. unfold plain. rewrite map_map. reflexivity. Qed.

Lemma adjust_plain : forall (hs : bool) (l : list A) npo np, adjust hs (plain l) npo np = (npo, np).
Proof.
  intros hs l. unfold plain. induction l as [|a l IH]; intros npo np; cbn [map adjust fst].
  - reflexivity.
  - rewrite andb_false_r. apply IH.
Qed.

(* ---------------- the layout of the code as it is *)
Lemma layout_star_then_slash : forall (po pk ko : list A) (va kw : option A),
  ins_opt (length po) (slash_tok A (length po))
    (ins_opt (length pk + length po) (star_tok va (length ko)) (map (@TArg A) (po ++ pk ++ ko))) ++ kw_toks kw
  = canon {| s_po := po; s_pk := pk; s_va := va; s_ko := ko; s_kw := kw |}.
Proof.
  intros po pk ko va kw. unfold canon. cbn [s_po s_pk s_va s_ko s_kw].
  rewrite !map_app.
  assert (Hstar : ins_opt (length pk + length po) (star_tok va (length ko))
                    (map (@TArg A) po ++ map (@TArg A) pk ++ map (@TArg A) ko)
                  = map (@TArg A) po ++ map (@TArg A) pk ++ opt_list (star_tok va (length ko)) ++ map (@TArg A) ko).
  { destruct (star_tok va (length ko)) as [t|]; cbn [ins_opt opt_list app]; [|reflexivity].
    rewrite Nat.add_comm.
    rewrite <- (map_length (@TArg A) po), <- (map_length (@TArg A) pk).
    rewrite insert_app. rewrite insert_app0. reflexivity. }
  rewrite Hstar. clear Hstar.
  unfold slash_tok. destruct po as [|p po].
  - cbn [length Nat.eqb ins_opt map app]. rewrite <- !app_assoc. reflexivity.
  - cbn [length Nat.eqb ins_opt].
    rewrite <- (map_length (@TArg A) po).
    change (S (length (map (@TArg A) po))) with (length (map (@TArg A) (p :: po))).
    rewrite insert_app0. rewrite <- !app_assoc. cbn [app]. rewrite <- !app_assoc. reflexivity.
Qed.

(* THE PROPERTY of _fmt_arglist: for every source signature the token list is the canonical rendering.
   Holds whenever no argument is hidden (every def / method / classmethod / staticmethod / cpdef
   function in every format; __init__ outside format c), with or without the repair. *)
Theorem arglist_canonical : forall (fx hs : bool) (s : sigsrc A),
  fmt_of StarThenSlash fx s hs = canon s.
Proof.
  intros fx hs [po pk va ko kw]. unfold fmt_of, fmt_arglist, args_of. cbn [s_po s_pk s_va s_ko s_kw].
  rewrite visible_plain, map_arg_plain.
  replace (if fx then adjust hs (plain (po ++ pk ++ ko)) (length po) (length pk) else (length po, length pk))
    with (length po, length pk) by (destruct fx; [rewrite adjust_plain|]; reflexivity).
  cbn [fst snd]. apply layout_star_then_slash.
Qed.

Theorem arglist_visible_self_canonical : forall (fx : bool) (self : A) (s : sigsrc A),
  fmt_of_self StarThenSlash fx self true s false
    = canon {| s_po := self :: s_po s; s_pk := s_pk s; s_va := s_va s; s_ko := s_ko s; s_kw := s_kw s |}
  /\ (s_po s = [] ->
      fmt_of_self StarThenSlash fx self false s false
      = canon {| s_po := []; s_pk := self :: s_pk s; s_va := s_va s; s_ko := s_ko s; s_kw := s_kw s |}).
Proof.
  intros fx self [po pk va ko kw]. cbn [s_po s_pk s_va s_ko s_kw]. split.
  - pose proof (arglist_canonical fx false
        {| s_po := self :: po; s_pk := pk; s_va := va; s_ko := ko; s_kw := kw |}) as H.
    unfold fmt_of, args_of in H. cbn [s_po s_pk s_va s_ko s_kw] in H. rewrite <- H.
    unfold fmt_of_self, fmt_arglist, args_of, visible, plain.
    cbn [s_po s_pk s_va s_ko s_kw andb negb filter fst map app length adjust]. destruct fx; reflexivity.
  - intros ->.
    pose proof (arglist_canonical fx false
        {| s_po := []; s_pk := self :: pk; s_va := va; s_ko := ko; s_kw := kw |}) as H.
    unfold fmt_of, args_of in H. cbn [s_po s_pk s_va s_ko s_kw] in H. rewrite <- H.
    unfold fmt_of_self, fmt_arglist, args_of, visible, plain.
    cbn [s_po s_pk s_va s_ko s_kw andb negb filter fst map app length adjust]. destruct fx; reflexivity.
Qed.

(* ---------------- hidden self (format c: the constructor signature  Class(args)  of __init__) *)
Lemma hidden_self_list : forall (self : A) (s : sigsrc A),
  map (fun a : argnode A => TArg (snd a)) (visible true ((true, self) :: args_of s))
  = map (@TArg A) (s_po s ++ s_pk s ++ s_ko s).
Proof.
  intros self s. unfold args_of. cbn [visible filter fst andb negb].
  change (filter _ (plain (s_po s ++ s_pk s ++ s_ko s))) with (visible true (plain (s_po s ++ s_pk s ++ s_ko s))).
  rewrite visible_plain. apply map_arg_plain.
Qed.

(* with the repair, the hidden self argument leaves the canonical rendering of the remaining
   parameters, wherever self stands (positional-only or not) *)
Theorem arglist_hidden_self_fixed : forall (self : A) (self_po : bool) (s : sigsrc A),
  (self_po = false -> s_po s = []) ->
  fmt_of_self StarThenSlash true self self_po s true = canon s.
Proof.
  intros self self_po s Hpo. unfold fmt_of_self, fmt_arglist. rewrite hidden_self_list.
  cbn [adjust fst andb].
  assert (Hadj : (if (if self_po then S (length (s_po s)) else length (s_po s)) =? 0
                  then adjust true (args_of s) (if self_po then S (length (s_po s)) else length (s_po s))
                                ((if self_po then length (s_pk s) else S (length (s_pk s))) - 1)
                  else adjust true (args_of s) ((if self_po then S (length (s_po s)) else length (s_po s)) - 1)
                                (if self_po then length (s_pk s) else S (length (s_pk s))))
                 = (length (s_po s), length (s_pk s))).
  { unfold args_of. destruct self_po.
    - cbn [Nat.eqb]. rewrite adjust_plain. f_equal. lia.
    - rewrite (Hpo eq_refl). cbn [length Nat.eqb]. rewrite adjust_plain. f_equal. lia. }
  rewrite Hadj. cbn [fst snd]. destruct s as [po pk va ko kw]. cbn [s_po s_pk s_va s_ko s_kw].
  apply layout_star_then_slash.
Qed.

(* the code as it is counts the hidden self for the marker positions; it is still right exactly when
   that does not matter: self not positional-only and no keyword-only parameters
   (the star marker, if any, is then appended at the end either way) *)
Theorem arglist_hidden_self_asis_partial : forall (self : A) (s : sigsrc A),
  s_po s = [] -> s_ko s = [] ->
  fmt_of_self StarThenSlash false self false s true = canon s.
Proof.
  intros self [po pk va ko kw]. cbn [s_po s_pk s_va s_ko s_kw]. intros -> ->.
  unfold fmt_of_self, fmt_arglist. rewrite hidden_self_list.
  cbn [s_po s_pk s_va s_ko s_kw fst snd length app Nat.add Nat.eqb slash_tok ins_opt canon map opt_list].
  rewrite app_nil_r. unfold slash_tok. cbn [Nat.eqb ins_opt].
  destruct (star_tok va 0) as [t|]; cbn [ins_opt opt_list]; [|reflexivity].
  rewrite insert_past_end by (rewrite map_length; lia). rewrite <- !app_assoc. reflexivity.
Qed.

(* ---------------- reading back *)
Lemma take_args_map : forall (l : list A) (r : list tokA),
  (match r with TArg _ :: _ => False | _ => True end) ->
  take_args (map (@TArg A) l ++ r) = (l, r).
Proof.
  induction l as [|a l IH]; intros r Hr; cbn [map app take_args].
  - destruct r as [|[x| | |x|x] r]; try reflexivity. contradiction.
  - rewrite (IH r Hr). reflexivity.
Qed.

Lemma read_tail_kw : forall (po pk ko : list A) (va kw : option A),
  read_tail po pk va ko (kw_toks kw) = Some {| s_po := po; s_pk := pk; s_va := va; s_ko := ko; s_kw := kw |}.
Proof. intros. destruct kw; reflexivity. Qed.

Lemma read_star_canon : forall (po pk ko : list A) (va kw : option A),
  read_star po pk (opt_list (star_tok va (length ko)) ++ map (@TArg A) ko ++ kw_toks kw)
  = Some {| s_po := po; s_pk := pk; s_va := va; s_ko := ko; s_kw := kw |}.
Proof.
  intros po pk ko va kw. unfold star_tok. destruct va as [v|].
  - cbn [opt_list app read_star]. rewrite take_args_map by (destruct kw; exact I).
    cbn [fst snd]. apply read_tail_kw.
  - destruct ko as [|k ko].
    + cbn [length Nat.eqb opt_list app map read_star]. destruct kw; reflexivity.
    + cbn [length Nat.eqb opt_list app read_star]. rewrite take_args_map by (destruct kw; exact I).
      cbn [fst snd]. apply read_tail_kw.
Qed.

Lemma tail_no_arg : forall (ko : list A) (va kw : option A),
  match opt_list (star_tok va (length ko)) ++ map (@TArg A) ko ++ kw_toks kw with TArg _ :: _ => False | _ => True end.
Proof.
  intros ko va kw. unfold star_tok. destruct va as [v|]; [exact I|].
  destruct ko as [|k ko]; cbn [length Nat.eqb opt_list app map]; [destruct kw; exact I|exact I].
Qed.

Lemma tail_no_slash : forall (ko : list A) (va kw : option A),
  match opt_list (star_tok va (length ko)) ++ map (@TArg A) ko ++ kw_toks kw with TSlash :: _ => False | _ => True end.
Proof.
  intros ko va kw. unfold star_tok. destruct va as [v|]; [exact I|].
  destruct ko as [|k ko]; cbn [length Nat.eqb opt_list app map]; [destruct kw; exact I|exact I].
Qed.

(* the canonical rendering reads back, by the Python parameter grammar, as exactly the source
   parameter list: names in order, kinds and both star parameters *)
Theorem canon_reads_back : forall s : sigsrc A, read_sig (canon s) = Some s.
Proof.
  intros [po pk va ko kw]. unfold canon, read_sig. cbn [s_po s_pk s_va s_ko s_kw].
  destruct po as [|p po].
  - cbn [map app]. rewrite take_args_map by apply tail_no_arg. cbn [fst snd].
    pose proof (read_star_canon [] pk ko va kw) as H.
    pose proof (tail_no_slash ko va kw) as Hns.
    destruct (opt_list (star_tok va (length ko)) ++ map (@TArg A) ko ++ kw_toks kw) as [|[x| | |x|x] r];
      try exact H. contradiction.
  - rewrite take_args_map by exact I. cbn [fst snd app].
    rewrite take_args_map by apply tail_no_arg.
    cbn [fst snd]. apply read_star_canon.
Qed.

(* the embedded parameter list parses to the same parameter list as the source *)
Theorem arglist_reads_back : forall (fx hs : bool) (s : sigsrc A),
  read_sig (fmt_of StarThenSlash fx s hs) = Some s.
Proof. intros. rewrite arglist_canonical. apply canon_reads_back. Qed.

Theorem arglist_hidden_self_fixed_reads_back : forall (self : A) (self_po : bool) (s : sigsrc A),
  (self_po = false -> s_po s = []) ->
  read_sig (fmt_of_self StarThenSlash true self self_po s true) = Some s.
Proof. intros. rewrite arglist_hidden_self_fixed by assumption. apply canon_reads_back. Qed.

End Proofs.

(* ---------------- refutations by witness *)
(* inserting '/' first and keeping the star index (the seeded order): f(a, /, b, *, c) comes out as
   f(a, /, *, b, c) - b silently becomes keyword-only - and h(a, b, /, *, c) as the unparsable
   h(a, b, *, /, c) *)
Theorem slash_first_refuted :
  fmt_of SlashThenStar false w_seed false = [TArg 1; TSlash; TStar; TArg 2; TArg 3] /\
  fmt_of SlashThenStar false w_seed false <> canon w_seed /\
  read_sig (fmt_of SlashThenStar false w_seed false)
    = Some {| s_po := [1]; s_pk := []; s_va := None; s_ko := [2; 3]; s_kw := None |} /\
  fmt_of SlashThenStar false w_seed2 false = [TArg 1; TArg 2; TStar; TSlash; TArg 3] /\
  read_sig (fmt_of SlashThenStar false w_seed2 false) = None /\
  fmt_of StarThenSlash false w_seed false = canon w_seed /\
  fmt_of StarThenSlash false w_seed2 false = canon w_seed2.
Proof. vm_compute. repeat split; try reflexivity. discriminate. Qed.

(* the code as it is, format c, cdef class K: def __init__(self, a, *, k): the class docstring starts
   K(a, k, [star])  (unparsable);  def __init__(self, a, *args, k):  K(a, k, *args)  (k not keyword-only);
   def __init__(self, /, a): K(a, /)  (a becomes positional-only) *)
Theorem hidden_self_asis_refuted :
  fmt_of_self StarThenSlash false 0 false w_init true = [TArg 1; TArg 2; TStar] /\
  read_sig (fmt_of_self StarThenSlash false 0 false w_init true) = None /\
  fmt_of_self StarThenSlash false 0 false w_init2 true = [TArg 1; TArg 2; TVarArgs 9] /\
  read_sig (fmt_of_self StarThenSlash false 0 false w_init2 true) <> Some w_init2 /\
  fmt_of_self StarThenSlash false 0 true
      {| s_po := []; s_pk := [1]; s_va := None; s_ko := []; s_kw := None |} true = [TArg 1; TSlash] /\
  fmt_of_self StarThenSlash true 0 false w_init true = canon w_init /\
  fmt_of_self StarThenSlash true 0 false w_init2 true = canon w_init2.
Proof. vm_compute. repeat split; try reflexivity. discriminate. Qed.
