(* C21 - proofs about the reaching-definitions iteration and check_definitions (Model/M_Flow.v) *)
From Coq Require Import NArith List Bool Arith Lia ZifyBool.
From CyVerif Require Import Model.M_Flow.
Import ListNotations.

(* ------------------------------------------------------------------ bit sets *)
Definition sub (a b : N) : Prop := forall k, N.testbit a k = true -> N.testbit b k = true.
Definition le_outs (o1 o2 : list N) : Prop := forall i, sub (getN o1 i) (getN o2 i).
Definition bits_below (nbits : nat) (x : N) : Prop :=
  forall k, N.testbit x k = true -> (k < N.of_nat nbits)%N.

Lemma sub_refl a : sub a a. Proof. intros k H; exact H. Qed.
Lemma sub_trans a b c : sub a b -> sub b c -> sub a c.
Proof. intros H1 H2 k H; auto. Qed.
Lemma le_outs_refl o : le_outs o o. Proof. intros i; apply sub_refl. Qed.
Lemma le_outs_trans a b c : le_outs a b -> le_outs b c -> le_outs a c.
Proof. intros H1 H2 i; eapply sub_trans; eauto. Qed.

Lemma tb_fold_lor {A} (f : A -> N) l init k :
  N.testbit (fold_left (fun acc x => N.lor acc (f x)) l init) k
  = N.testbit init k || existsb (fun x => N.testbit (f x) k) l.
Proof.
  revert init; induction l as [|a l IH]; intros init; simpl.
  - now rewrite orb_false_r.
  - rewrite IH, N.lor_spec. now rewrite orb_assoc.
Qed.

Lemma tb_or_parents outs ps k :
  N.testbit (or_parents outs ps) k = existsb (fun p => N.testbit (getN outs p) k) ps.
Proof. unfold or_parents. rewrite (tb_fold_lor (getN outs)). now rewrite N.bits_0. Qed.

Lemma tb_transfer b x k :
  N.testbit (transfer b x) k
  = (N.testbit x k && negb (N.testbit (r_kill b) k)) || N.testbit (r_gen b) k.
Proof. unfold transfer. now rewrite N.lor_spec, N.ldiff_spec. Qed.

Lemma or_parents_mono o1 o2 ps : le_outs o1 o2 -> sub (or_parents o1 ps) (or_parents o2 ps).
Proof.
  intros H k. rewrite !tb_or_parents, !existsb_exists.
  intros (p & Hp & Ht). exists p; split; auto. now apply H.
Qed.

Lemma transfer_mono b x y : sub x y -> sub (transfer b x) (transfer b y).
Proof.
  intros H k. rewrite !tb_transfer. intros Hk.
  apply orb_true_iff in Hk. destruct Hk as [Hk|Hk].
  - apply andb_true_iff in Hk. destruct Hk as [H1 H2]. rewrite (H _ H1), H2. reflexivity.
  - rewrite Hk. apply orb_true_r.
Qed.

(* the value the loop body assigns to block.i_output *)
Definition F (b : rblock) (outs : list N) : N := transfer b (or_parents outs (r_parents b)).

Lemma F_mono b o1 o2 : le_outs o1 o2 -> sub (F b o1) (F b o2).
Proof. intros H. apply transfer_mono, or_parents_mono, H. Qed.

(* ------------------------------------------------------------------ set_nth *)
Lemma set_nth_length i v l : length (set_nth i v l) = length l.
Proof. revert i; induction l as [|h t IH]; intros [|i]; simpl; auto. Qed.

Lemma getN_set_nth_eq i v l : i < length l -> getN (set_nth i v l) i = v.
Proof.
  unfold getN. revert i; induction l as [|h t IH]; intros [|i] H; simpl in *; try lia; auto.
  apply IH; lia.
Qed.

Lemma getN_set_nth_neq i j v l : i <> j -> getN (set_nth i v l) j = getN l j.
Proof.
  unfold getN. revert i j; induction l as [|h t IH]; intros [|i] [|j] H; simpl; auto; try lia.
Qed.

Lemma set_nth_same i l : set_nth i (getN l i) l = l.
Proof.
  unfold getN. revert i; induction l as [|h t IH]; intros [|i]; simpl; auto. now rewrite IH.
Qed.

Lemma le_outs_set_nth i v l : sub (getN l i) v -> le_outs l (set_nth i v l).
Proof.
  intros H j. destruct (Nat.eq_dec i j) as [->|Hn].
  - destruct (Nat.lt_ge_cases j (length l)) as [Hl|Hl].
    + now rewrite getN_set_nth_eq.
    + intros k Hk. unfold getN in Hk. rewrite nth_overflow in Hk by lia. now rewrite N.bits_0 in Hk.
  - rewrite getN_set_nth_neq by auto. apply sub_refl.
Qed.

(* ------------------------------------------------------------------ counting measure *)
Definition cnt (nbits : nat) (x : N) : nat :=
  length (filter (fun k => N.testbit x (N.of_nat k)) (seq 0 nbits)).
Fixpoint total (nbits : nat) (l : list N) : nat :=
  match l with [] => 0 | x :: r => cnt nbits x + total nbits r end.

Lemma filter_len_le {A} (f g : A -> bool) l :
  (forall x, In x l -> f x = true -> g x = true) -> length (filter f l) <= length (filter g l).
Proof.
  induction l as [|a l IH]; intros H; simpl; auto.
  assert (IH' : length (filter f l) <= length (filter g l)) by (apply IH; intros; apply H; simpl; auto).
  destruct (f a) eqn:Fa.
  - rewrite (H a (or_introl eq_refl) Fa). simpl. lia.
  - destruct (g a); simpl; lia.
Qed.

Lemma filter_len_eq_ext {A} (f g : A -> bool) l :
  (forall x, In x l -> f x = true -> g x = true) ->
  length (filter f l) = length (filter g l) -> forall x, In x l -> f x = g x.
Proof.
  induction l as [|a l IH]; intros H E x Hx; simpl in *; [contradiction|].
  assert (Hle : length (filter f l) <= length (filter g l))
    by (apply filter_len_le; intros; apply H; auto).
  destruct (f a) eqn:Fa.
  - rewrite (H a (or_introl eq_refl) Fa) in E. simpl in E.
    destruct Hx as [<-|Hx].
    + rewrite Fa. symmetry. apply H; auto.
    + apply IH; auto; try lia.
  - destruct (g a) eqn:Ga; simpl in E.
    + lia.
    + destruct Hx as [<-|Hx]; [congruence|]. apply IH; auto.
Qed.

Lemma cnt_le nbits x y : sub x y -> cnt nbits x <= cnt nbits y.
Proof. intros H. apply filter_len_le. intros k _ Hk. now apply H. Qed.

Lemma cnt_bound nbits x : cnt nbits x <= nbits.
Proof.
  unfold cnt. rewrite <- (seq_length nbits 0) at 2.
  generalize (seq 0 nbits). intros l. induction l as [|a l IH]; simpl; auto.
  destruct (N.testbit x (N.of_nat a)); simpl; lia.
Qed.

Lemma cnt_lt nbits x y :
  sub x y -> bits_below nbits x -> bits_below nbits y -> x <> y -> cnt nbits x < cnt nbits y.
Proof.
  intros Hs Bx By Hne.
  assert (Hle := cnt_le nbits x y Hs).
  destruct (Nat.eq_dec (cnt nbits x) (cnt nbits y)) as [E|E]; [|lia].
  exfalso. apply Hne. apply N.bits_inj. intros k.
  destruct (N.ltb_spec k (N.of_nat nbits)) as [Hk|Hk].
  - assert (Hx := filter_len_eq_ext
                    (fun k => N.testbit x (N.of_nat k)) (fun k => N.testbit y (N.of_nat k))
                    (seq 0 nbits) (fun k _ Hk => Hs _ Hk) E (N.to_nat k)).
    simpl in Hx. rewrite N2Nat.id in Hx. apply Hx. apply in_seq. lia.
  - destruct (N.testbit x k) eqn:Tx.
    + apply Bx in Tx. lia.
    + destruct (N.testbit y k) eqn:Ty; auto. apply By in Ty. lia.
Qed.

Lemma total_bound nbits l : total nbits l <= length l * nbits.
Proof. induction l as [|x r IH]; simpl; auto. pose proof (cnt_bound nbits x). lia. Qed.

Lemma total_set_nth nbits i v l :
  i < length l -> total nbits (set_nth i v l) + cnt nbits (getN l i) = total nbits l + cnt nbits v.
Proof.
  unfold getN. revert i; induction l as [|h t IH]; intros [|i] H; simpl in *; try lia.
  specialize (IH i). lia.
Qed.

(* ------------------------------------------------------------------ one pass *)
Section Pass.
  Variable T : list (nat * rblock).        (* flow.blocks with their indices *)
  Variable n nbits : nat.
  Hypothesis T_idx : forall i b, In (i, b) T -> i < n.
  Hypothesis T_fun : forall i b b', In (i, b) T -> In (i, b') T -> b = b'.
  Hypothesis T_gen : forall i b, In (i, b) T -> bits_below nbits (r_gen b).

  (* every output is below what one more application of the transfer function gives *)
  Definition Inv (outs : list N) : Prop :=
    length outs = n /\
    (forall i b, In (i, b) T -> sub (getN outs i) (F b outs)) /\
    (forall i, bits_below nbits (getN outs i)).

  Lemma F_below b outs i : In (i, b) T -> (forall j, bits_below nbits (getN outs j)) ->
    bits_below nbits (F b outs).
  Proof.
    intros Hin Hb k. unfold F. rewrite tb_transfer, tb_or_parents. intros Hk.
    apply orb_true_iff in Hk. destruct Hk as [Hk|Hk].
    - apply andb_true_iff in Hk. destruct Hk as [Hk _]. apply existsb_exists in Hk.
      destruct Hk as (p & _ & Hp). eapply Hb; eauto.
    - eapply T_gen; eauto.
  Qed.

  Lemma step_inv outs i b :
    In (i, b) T -> Inv outs ->
    let outs' := set_nth i (F b outs) outs in
    Inv outs' /\ le_outs outs outs' /\
    total nbits outs + (if N.eqb (F b outs) (getN outs i) then 0 else 1) <= total nbits outs' /\
    (N.eqb (F b outs) (getN outs i) = true -> outs' = outs).
  Proof.
    intros Hin (Hlen & Hpost & Hbel) outs'.
    assert (Hi : i < length outs) by (rewrite Hlen; eauto).
    assert (Hsub : sub (getN outs i) (F b outs)) by eauto.
    assert (Hle : le_outs outs outs') by (apply le_outs_set_nth; auto).
    assert (HFb : bits_below nbits (F b outs)) by (eapply F_below; eauto).
    split; [|split; [exact Hle|split]].
    - split; [unfold outs'; now rewrite set_nth_length|split].
      + intros j bj Hj. destruct (Nat.eq_dec i j) as [<-|Hn].
        * rewrite (T_fun _ _ _ Hj Hin). unfold outs'. rewrite getN_set_nth_eq by auto.
          now apply F_mono.
        * unfold outs' at 1. rewrite getN_set_nth_neq by auto.
          eapply sub_trans; [apply Hpost; eauto|]. now apply F_mono.
      + intros j. destruct (Nat.eq_dec i j) as [<-|Hn].
        * unfold outs'. now rewrite getN_set_nth_eq.
        * unfold outs'. rewrite getN_set_nth_neq by auto. apply Hbel.
    - pose proof (total_set_nth nbits i (F b outs) outs Hi) as Ht. fold outs' in Ht.
      destruct (N.eqb_spec (F b outs) (getN outs i)) as [E|E].
      + rewrite E in Ht. lia.
      + assert (cnt nbits (getN outs i) < cnt nbits (F b outs)).
        { apply cnt_lt; auto. } lia.
    - intros E. apply N.eqb_eq in E. unfold outs'. rewrite E. apply set_nth_same.
  Qed.

  Lemma pass_inv todo : incl todo T ->
    forall outs ins d outs' ins' d',
    rd_pass todo outs ins d = (outs', ins', d') -> Inv outs ->
    Inv outs' /\ le_outs outs outs' /\
    total nbits outs + (if d' && negb d then 1 else 0) <= total nbits outs' /\
    (d = true -> d' = true) /\
    (d' = false -> outs' = outs /\ forall i b, In (i, b) todo -> F b outs = getN outs i).
  Proof.
    induction todo as [|[i b] rest IH]; intros Hincl outs ins d outs' ins' d' Hp HI.
    - simpl in Hp. inversion Hp; subst.
      split; [exact HI|]. split; [apply le_outs_refl|]. split; [destruct d'; simpl; lia|].
      split; [auto|]. intros _. split; [reflexivity|]. intros i b [].
    - simpl in Hp. fold (F b outs) in Hp.
      assert (Hin : In (i, b) T) by (apply Hincl; simpl; auto).
      destruct (step_inv outs i b Hin HI) as (HI1 & Hle1 & Ht1 & Heq1).
      apply IH in Hp; [|intros x Hx; apply Hincl; simpl; auto|exact HI1].
      destruct Hp as (HI2 & Hle2 & Ht2 & Hd & Hfix).
      split; [exact HI2|]. split; [eapply le_outs_trans; eauto|].
      destruct (N.eqb (F b outs) (getN outs i)) eqn:E.
      + specialize (Heq1 eq_refl). rewrite Heq1 in *.
        split; [lia|]. split; [exact Hd|].
        intros Hf. destruct (Hfix Hf) as (-> & Hall). split; auto.
        intros j bj [Hj|Hj]; [inversion Hj; subst; now apply N.eqb_eq|auto].
      + split.
        * specialize (Hd eq_refl). rewrite Hd in *. simpl in *.
          destruct d; simpl; lia.
        * split; [intros _; now apply Hd|].
          intros Hf. rewrite (Hd eq_refl) in Hf. discriminate.
  Qed.

  (* the recorded i_input of a quiescent pass *)
  Lemma pass_ins todo : NoDup (map fst todo) ->
    forall outs ins d outs' ins',
    (forall i b, In (i, b) todo -> i < length ins) ->
    rd_pass todo outs ins d = (outs', ins', false) ->
    (forall i b, In (i, b) todo -> F b outs = getN outs i) ->
    forall i b, In (i, b) todo -> getN ins' i = or_parents outs (r_parents b).
  Proof.
    induction todo as [|[i b] rest IH]; intros Hnd outs ins d outs' ins' Hlen Hp Hfix j bj Hj.
    - destruct Hj.
    - simpl in Hp. fold (F b outs) in Hp.
      assert (E : F b outs = getN outs i) by (apply Hfix; simpl; auto).
      rewrite E, set_nth_same in Hp. inversion Hnd as [|? ? Hni Hnd']; subst.
      destruct Hj as [Hj|Hj].
      + inversion Hj; subst.
        (* later updates do not touch index j *)
        assert (Hkeep : forall todo outs ins d outs' ins' d',
                   rd_pass todo outs ins d = (outs', ins', d') ->
                   ~ In j (map fst todo) -> getN ins' j = getN ins j).
        { clear. induction todo as [|[i b] r IHr]; intros outs ins d outs' ins' d' Hp Hn.
          - simpl in Hp. now inversion Hp.
          - simpl in Hp, Hn. apply IHr in Hp; [|tauto]. rewrite Hp.
            apply getN_set_nth_neq. tauto. }
        rewrite (Hkeep _ _ _ _ _ _ _ Hp Hni). apply getN_set_nth_eq. eapply Hlen; simpl; eauto.
      + eapply IH; eauto.
        * intros i' b' H'. rewrite set_nth_length. eapply Hlen; simpl; eauto.
        * intros i' b' H'. apply Hfix; simpl; auto.
  Qed.

  (* -------------------------------------------------------------- the loop *)
  Hypothesis T_nd : NoDup (map fst T).

  Lemma loop_terminates fuel : forall outs ins,
    Inv outs -> n * nbits < total nbits outs + fuel ->
    exists r, rd_loop fuel T outs ins = Some r.
  Proof.
    induction fuel as [|f IH]; intros outs ins HI Hm.
    - destruct HI as (Hlen & _). pose proof (total_bound nbits outs). rewrite Hlen in *. lia.
    - simpl. destruct (rd_pass T outs ins false) as [[outs' ins'] d'] eqn:Hp.
      destruct (pass_inv T (incl_refl T) _ _ _ _ _ _ Hp HI) as (HI' & _ & Ht & _ & _).
      destruct d'; [|eauto].
      apply IH; auto. simpl in Ht. lia.
  Qed.

  Definition is_fixpoint (outs ins : list N) : Prop :=
    forall i b, In (i, b) T ->
      getN ins i = or_parents outs (r_parents b) /\ getN outs i = transfer b (getN ins i).

  Lemma loop_result fuel : forall outs ins outs' ins',
    Inv outs -> length ins = n ->
    rd_loop fuel T outs ins = Some (outs', ins') ->
    Inv outs' /\ le_outs outs outs' /\ is_fixpoint outs' ins'.
  Proof.
    induction fuel as [|f IH]; intros outs ins outs' ins' HI Hli Hl; [discriminate|].
    simpl in Hl. destruct (rd_pass T outs ins false) as [[o1 i1] d1] eqn:Hp.
    destruct (pass_inv T (incl_refl T) _ _ _ _ _ _ Hp HI) as (HI1 & Hle1 & _ & _ & Hfix).
    destruct d1.
    - assert (Hli1 : length i1 = n).
      { clear -Hp Hli. revert outs ins o1 i1 Hp Hli. generalize false.
        induction T as [|[i b] r IHr]; intros d outs ins o1 i1 Hp Hli; simpl in Hp.
        - inversion Hp; subst; auto.
        - apply IHr in Hp; auto. now rewrite set_nth_length. }
      destruct (IH _ _ _ _ HI1 Hli1 Hl) as (H1 & H2 & H3).
      split; auto. split; auto. eapply le_outs_trans; eauto.
    - inversion Hl; subst. destruct (Hfix eq_refl) as (-> & Hall).
      split; auto. split; [apply le_outs_refl|].
      intros i b Hin.
      assert (Hi : getN ins' i = or_parents outs (r_parents b)).
      { eapply pass_ins; eauto. intros i' b' H'. rewrite Hli. eauto. }
      split; auto. rewrite Hi. symmetry. apply Hall; auto.
  Qed.

  (* the iteration stays below every pre-fixpoint *)
  Lemma pass_below S todo : incl todo T ->
    (forall i b, In (i, b) T -> sub (F b S) (getN S i)) ->
    forall outs ins d outs' ins' d',
    rd_pass todo outs ins d = (outs', ins', d') -> le_outs outs S -> le_outs outs' S.
  Proof.
    intros Hincl HS. induction todo as [|[i b] rest IH]; intros outs ins d outs' ins' d' Hp Hle.
    - simpl in Hp. now inversion Hp; subst.
    - simpl in Hp. fold (F b outs) in Hp. apply IH in Hp; auto.
      + intros x Hx; apply Hincl; simpl; auto.
      + intros j. destruct (Nat.eq_dec i j) as [<-|Hn].
        * destruct (Nat.lt_ge_cases i (length outs)) as [Hl|Hl].
          -- rewrite getN_set_nth_eq by auto.
             eapply sub_trans; [apply F_mono, Hle|]. apply HS, Hincl. simpl; auto.
          -- intros k Hk. unfold getN in Hk. rewrite nth_overflow in Hk
               by (rewrite set_nth_length; lia). now rewrite N.bits_0 in Hk.
        * rewrite getN_set_nth_neq by auto. apply Hle.
  Qed.

  Lemma loop_below S fuel :
    (forall i b, In (i, b) T -> sub (F b S) (getN S i)) ->
    forall outs ins outs' ins',
    rd_loop fuel T outs ins = Some (outs', ins') -> le_outs outs S -> le_outs outs' S.
  Proof.
    intros HS. induction fuel as [|f IH]; intros outs ins outs' ins' Hl Hle; [discriminate|].
    simpl in Hl. destruct (rd_pass T outs ins false) as [[o1 i1] d1] eqn:Hp.
    pose proof (pass_below S T (incl_refl T) HS _ _ _ _ _ _ Hp Hle) as H1.
    destruct d1; [eauto|]. now inversion Hl; subst.
  Qed.
End Pass.

(* ------------------------------------------------------------------ flow.blocks as an indexed list *)
Lemma in_combine_seq {A} (l : list A) : forall s i b,
  In (i, b) (combine (seq s (length l)) l) <-> s <= i < s + length l /\ nth_error l (i - s) = Some b.
Proof.
  induction l as [|a l IH]; intros s i b; simpl.
  - split; [intros []|intros [H _]; lia].
  - rewrite IH. split.
    + intros [H|(H1 & H2)].
      * inversion H; subst. rewrite Nat.sub_diag. split; [lia|reflexivity].
      * split; [lia|]. replace (i - s) with (S (i - S s)) by lia. exact H2.
    + intros (H1 & H2). destruct (Nat.eq_dec i s) as [->|Hn].
      * rewrite Nat.sub_diag in H2. simpl in H2. left. congruence.
      * right. split; [lia|]. replace (i - s) with (S (i - S s)) in H2 by lia. exact H2.
Qed.

Lemma map_fst_combine_seq {A} (l : list A) s : map fst (combine (seq s (length l)) l) = seq s (length l).
Proof. revert s; induction l as [|a l IH]; intros s; simpl; auto. now rewrite IH. Qed.

Lemma todo_of_spec bs i b :
  In (i, b) (todo_of bs) <-> 1 <= i < length bs /\ nth_error bs i = Some b.
Proof.
  unfold todo_of. destruct bs as [|b0 r]; simpl.
  - split; [intros []|intros [H _]; lia].
  - rewrite Nat.sub_0_r, in_combine_seq. split; intros (H1 & H2).
    + split; [lia|]. destruct i; [lia|]. simpl in *. now rewrite Nat.sub_0_r in H2.
    + split; [lia|]. destruct i; [lia|]. simpl in *. now rewrite Nat.sub_0_r.
Qed.

Lemma todo_of_nodup bs : NoDup (map fst (todo_of bs)).
Proof.
  unfold todo_of. destruct bs as [|b0 r]; simpl; [constructor|].
  rewrite Nat.sub_0_r, map_fst_combine_seq. apply seq_NoDup.
Qed.

Lemma todo_of_fun bs i b b' : In (i, b) (todo_of bs) -> In (i, b') (todo_of bs) -> b = b'.
Proof. rewrite !todo_of_spec. intros (_ & H1) (_ & H2). congruence. Qed.

Definition rb0 : rblock := mk_rblock [] 0%N 0%N.

Lemma getN_init_outs bs i : getN (init_outs bs) i = r_gen (nth i bs rb0).
Proof. unfold getN, init_outs. apply (map_nth r_gen bs rb0 i). Qed.

Lemma bits_below_0 nbits : bits_below nbits 0%N.
Proof. intros k H. now rewrite N.bits_0 in H. Qed.

Lemma init_inv nbits bs :
  (forall b, In b bs -> bits_below nbits (r_gen b)) ->
  Inv (todo_of bs) (length bs) nbits (init_outs bs).
Proof.
  intros Hg. split; [unfold init_outs; now rewrite map_length|split].
  - intros i b Hin. apply todo_of_spec in Hin. destruct Hin as (Hi & Hn).
    rewrite getN_init_outs. rewrite (nth_error_nth _ _ _ Hn).
    intros k Hk. unfold F. rewrite tb_transfer, Hk. apply orb_true_r.
  - intros i. rewrite getN_init_outs.
    destruct (Nat.lt_ge_cases i (length bs)) as [Hl|Hl].
    + apply Hg, nth_In, Hl.
    + rewrite nth_overflow by lia. apply bits_below_0.
Qed.

(* the entry point (index 0) is never written *)
Lemma pass_keep todo j : ~ In j (map fst todo) ->
  forall outs ins d outs' ins' d',
  rd_pass todo outs ins d = (outs', ins', d') -> getN outs' j = getN outs j.
Proof.
  induction todo as [|[i b] r IH]; intros Hn outs ins d outs' ins' d' Hp; simpl in *.
  - now inversion Hp.
  - apply IH in Hp; [|tauto]. rewrite Hp. apply getN_set_nth_neq. tauto.
Qed.

Lemma loop_keep todo j : ~ In j (map fst todo) ->
  forall fuel outs ins outs' ins',
  rd_loop fuel todo outs ins = Some (outs', ins') -> getN outs' j = getN outs j.
Proof.
  intros Hn. induction fuel as [|f IH]; intros outs ins outs' ins' Hl; [discriminate|].
  simpl in Hl. destruct (rd_pass todo outs ins false) as [[o1 i1] d1] eqn:Hp.
  pose proof (pass_keep todo j Hn _ _ _ _ _ _ Hp) as H1.
  destruct d1.
  - rewrite (IH _ _ _ _ Hl). exact H1.
  - inversion Hl; subst. exact H1.
Qed.

(* ================================================================== main theorems, raw level *)

(* T1: the "while dirty" loop stops within blocks*bits+1 passes *)
Theorem rd_terminates nbits bs :
  (forall b, In b bs -> bits_below nbits (r_gen b)) ->
  exists r, reaching_definitions nbits bs = Some r.
Proof.
  intros Hg. unfold reaching_definitions, rd_fuel.
  eapply loop_terminates with (n := length bs) (nbits := nbits).
  - intros i b H. apply todo_of_spec in H. lia.
  - apply todo_of_fun.
  - intros i b H. apply todo_of_spec in H. destruct H as (_ & H). apply Hg. eapply nth_error_In; eauto.
  - apply init_inv, Hg.
  - lia.
Qed.

(* the data-flow equations *)
Definition rd_equations (bs : list rblock) (outs ins : list N) : Prop :=
  length outs = length bs /\
  getN outs 0 = r_gen (nth 0 bs rb0) /\
  forall i b, 1 <= i < length bs -> nth_error bs i = Some b ->
    getN ins i = or_parents outs (r_parents b) /\ getN outs i = transfer b (getN ins i).

(* T2: the result satisfies the equations (i_input is the join of the parents' i_output, the
   entry point keeps i_output = i_gen) *)
Theorem rd_fixpoint nbits bs outs ins :
  (forall b, In b bs -> bits_below nbits (r_gen b)) ->
  reaching_definitions nbits bs = Some (outs, ins) -> rd_equations bs outs ins.
Proof.
  intros Hg Hr. unfold reaching_definitions in Hr.
  assert (Hidx : forall i b, In (i, b) (todo_of bs) -> i < length bs)
    by (intros i b H; apply todo_of_spec in H; lia).
  assert (Hgen : forall i b, In (i, b) (todo_of bs) -> bits_below nbits (r_gen b)).
  { intros i b H. apply todo_of_spec in H. destruct H as (_ & H). apply Hg. eapply nth_error_In; eauto. }
  destruct (loop_result (todo_of bs) (length bs) nbits Hidx (todo_of_fun bs) Hgen (todo_of_nodup bs)
              _ _ _ _ _ (init_inv nbits bs Hg) (map_length _ bs) Hr) as ((Hlen & _) & _ & Hfix).
  split; [exact Hlen|split].
  - assert (Hn0 : ~ In 0 (map fst (todo_of bs))).
    2: { rewrite (loop_keep (todo_of bs) 0 Hn0 _ _ _ _ _ Hr). apply getN_init_outs. }
    intros Hin. apply in_map_iff in Hin. destruct Hin as ([i b] & Hi & Hin). simpl in Hi; subst.
    apply todo_of_spec in Hin. lia.
  - intros i b Hi Hn. apply Hfix. apply todo_of_spec. auto.
Qed.

(* T3: least: below every solution of the inequations (hence the least fixpoint) *)
Theorem rd_least nbits bs outs ins Sol :
  reaching_definitions nbits bs = Some (outs, ins) ->
  sub (r_gen (nth 0 bs rb0)) (getN Sol 0) ->
  (forall i b, 1 <= i < length bs -> nth_error bs i = Some b ->
     sub (transfer b (or_parents Sol (r_parents b))) (getN Sol i)) ->
  le_outs outs Sol.
Proof.
  intros Hr H0 HS. unfold reaching_definitions in Hr.
  assert (HS' : forall i b, In (i, b) (todo_of bs) -> sub (F b Sol) (getN Sol i))
    by (intros i b H; apply todo_of_spec in H; destruct H; apply HS; auto).
  eapply loop_below; eauto.
  intros i. rewrite getN_init_outs.
  destruct (Nat.lt_ge_cases i (length bs)) as [Hl|Hl].
  - destruct i as [|i]; [exact H0|].
    assert (Hn : nth_error bs (S i) = Some (nth (S i) bs rb0)) by (apply nth_error_nth'; exact Hl).
    eapply sub_trans; [|apply (HS (S i) _ (conj (le_n_S _ _ (Nat.le_0_l i)) Hl) Hn)].
    intros k Hk. rewrite tb_transfer, Hk. apply orb_true_r.
  - rewrite nth_overflow by lia. intros k Hk. now rewrite N.bits_0 in Hk.
Qed.

(* T4: meet-over-paths soundness.  [flows bs d v]: definition bit d leaves block v at the end of some
   CFG path that starts at a block generating d (the entry point generates every Uninitialized
   bit) and along which no later block kills d without regenerating it. *)
Inductive flows (bs : list rblock) (d : N) : nat -> Prop :=
| flows_gen v b : nth_error bs v = Some b -> N.testbit (r_gen b) d = true -> flows bs d v
| flows_step u v b : flows bs d u -> 1 <= v -> nth_error bs v = Some b -> In u (r_parents b) ->
    N.testbit (r_kill b) d = false -> flows bs d v.

Theorem rd_sound bs outs ins d :
  rd_equations bs outs ins ->
  (forall v, flows bs d v -> N.testbit (getN outs v) d = true) /\
  (forall u v b, flows bs d u -> 1 <= v -> nth_error bs v = Some b -> In u (r_parents b) ->
     N.testbit (getN ins v) d = true).
Proof.
  intros (Hlen & H0 & Heq).
  assert (Hout : forall v, flows bs d v -> N.testbit (getN outs v) d = true).
  { intros v Hf. induction Hf as [v b Hn Hg|u v b Hf IH Hv Hn Hp Hk].
    - assert (Hl : v < length bs) by (apply nth_error_Some; congruence).
      destruct v as [|v].
      + rewrite H0. now rewrite (nth_error_nth _ _ _ Hn).
      + destruct (Heq (S v) b (conj (le_n_S _ _ (Nat.le_0_l v)) Hl) Hn) as (_ & Ho).
        rewrite Ho, tb_transfer, Hg. apply orb_true_r.
    - assert (Hl : v < length bs) by (apply nth_error_Some; congruence).
      destruct (Heq v b (conj Hv Hl) Hn) as (Hi & Ho).
      rewrite Ho, tb_transfer, Hk, Hi, tb_or_parents. simpl. rewrite andb_true_r.
      apply orb_true_iff. left. apply existsb_exists. exists u; auto. }
  split; [exact Hout|].
  intros u v b Hf Hv Hn Hp.
  assert (Hl : v < length bs) by (apply nth_error_Some; congruence).
  destruct (Heq v b (conj Hv Hl) Hn) as (Hi & _).
  rewrite Hi, tb_or_parents. apply existsb_exists. exists u; auto.
Qed.

(* ================================================================== check_definitions hints *)
Lemma tb_bitN j k : N.testbit (bitN j) k = N.eqb (N.of_nat j) k.
Proof. unfold bitN. rewrite N.shiftl_1_l. apply N.pow2_bits_eqb. Qed.

Lemma has_uninit_spec S e : has_uninit S e = N.testbit S (N.of_nat e).
Proof.
  unfold has_uninit. destruct (N.testbit S (N.of_nat e)) eqn:T.
  - destruct (N.eqb_spec (N.land S (bitN e)) 0) as [E|E]; auto.
    assert (H : N.testbit (N.land S (bitN e)) (N.of_nat e) = true)
      by (rewrite N.land_spec, T, tb_bitN, N.eqb_refl; reflexivity).
    rewrite E, N.bits_0 in H. discriminate.
  - replace (N.land S (bitN e)) with 0%N; [reflexivity|].
    symmetry. apply N.bits_inj. intros k. rewrite N.land_spec, tb_bitN, N.bits_0.
    destruct (N.eqb_spec (N.of_nat e) k) as [<-|]; [now rewrite T|apply andb_false_r].
Qed.

Lemma has_other_false mask S e k :
  has_other mask S e = false -> k <> N.of_nat e -> N.testbit (mask e) k = true ->
  N.testbit S k = false.
Proof.
  unfold has_other. intros H Hk Hm. apply negb_false_iff, N.eqb_eq in H.
  assert (H' : N.testbit (N.ldiff (N.land S (mask e)) (bitN e)) k = false) by (rewrite H; apply N.bits_0).
  rewrite N.ldiff_spec, N.land_spec, Hm, tb_bitN in H'.
  destruct (N.eqb_spec (N.of_nat e) k); [congruence|].
  simpl in H'. now rewrite !andb_true_r in H'.
Qed.

(* a name reference/assignment without the cf_maybe_null hint: the Uninitialized bit of the entry is
   not in the state (statically assigned entries never carry the hint and are excluded) *)
Lemma bound_no_uninit mask clo S e :
  classify clo false (has_uninit S e) (has_other mask S e) = Bound ->
  N.testbit S (N.of_nat e) = false.
Proof.
  unfold classify. rewrite has_uninit_spec. destruct (N.testbit S (N.of_nat e)); auto.
  destruct clo; [discriminate|]. destruct (has_other mask S e); discriminate.
Qed.

(* cf_is_null: the Uninitialized bit is in the state and no other definition of the entry is *)
Lemma defnull_only_uninit mask clo sta S e :
  classify clo sta (has_uninit S e) (has_other mask S e) = DefNull ->
  N.testbit S (N.of_nat e) = true /\
  forall k, k <> N.of_nat e -> N.testbit (mask e) k = true -> N.testbit S k = false.
Proof.
  unfold classify. rewrite has_uninit_spec. destruct (N.testbit S (N.of_nat e)); [|discriminate].
  destruct sta; [discriminate|]. destruct clo; [discriminate|].
  destruct (has_other mask S e) eqn:Ho; [discriminate|]. intros _. split; auto.
  intros k Hk Hm. eapply has_other_false; eauto.
Qed.

(* i_state in front of the statement that follows the prefix [pre] of a block *)
Definition state_after (mask : nat -> N) (pre : list (stat * nat)) (x : N) : N :=
  fold_left (stat_step mask) pre x.

(* T5: no run-time check is emitted only where the Uninitialized pseudo-definition of the entry
   cannot arrive: there is no CFG path from a block that generates it (the entry point, or a block
   ending in "del x") to the reference along which it survives *)
Theorem no_check_safe bs outs ins mask clo e v b pre u :
  rd_equations bs outs ins ->
  1 <= v -> nth_error bs v = Some b ->
  classify clo false (has_uninit (state_after mask pre (getN ins v)) e)
                     (has_other mask (state_after mask pre (getN ins v)) e) = Bound ->
  flows bs (N.of_nat e) u -> In u (r_parents b) ->
  (forall x, N.testbit x (N.of_nat e) = true -> N.testbit (state_after mask pre x) (N.of_nat e) = true) ->
  False.
Proof.
  intros Heq Hv Hn Hc Hf Hp Hs. apply bound_no_uninit in Hc.
  destruct (rd_sound bs outs ins (N.of_nat e) Heq) as (_ & Hin).
  rewrite (Hs _ (Hin u v b Hf Hv Hn Hp)) in Hc. discriminate.
Qed.

(* T6: cf_is_null only where no assignment of the entry can arrive along any CFG path *)
Theorem is_null_exact bs outs ins mask clo sta e v b pre u k :
  rd_equations bs outs ins ->
  1 <= v -> nth_error bs v = Some b ->
  classify clo sta (has_uninit (state_after mask pre (getN ins v)) e)
                   (has_other mask (state_after mask pre (getN ins v)) e) = DefNull ->
  k <> N.of_nat e -> N.testbit (mask e) k = true ->        (* k: an assignment of the entry *)
  flows bs k u -> In u (r_parents b) ->
  (forall x, N.testbit x k = true -> N.testbit (state_after mask pre x) k = true) ->
  False.
Proof.
  intros Heq Hv Hn Hc Hk Hm Hf Hp Hs. apply defnull_only_uninit in Hc. destruct Hc as (_ & Hc).
  destruct (rd_sound bs outs ins k Heq) as (_ & Hin).
  specialize (Hc k Hk Hm).
  rewrite (Hs _ (Hin u v b Hf Hv Hn Hp)) in Hc. discriminate.
Qed.

(* the model's [walk] classifies each statement from exactly these states *)
Lemma walk_spec c mask : forall ns x pre p post,
  ns = pre ++ p :: post ->
  nth (length pre) (walk c mask x ns) Bound =
  let e := stat_entry (fst p) in
  classify (nth e (c_closure c) false) (nth e (c_static c) false)
           (has_uninit (state_after mask pre x) e) (has_other mask (state_after mask pre x) e).
Proof.
  intros ns x pre. revert ns x. induction pre as [|q pre IH]; intros ns x p post ->; simpl.
  - reflexivity.
  - apply (IH _ _ p post eq_refl).
Qed.

(* the entry point generates every Uninitialized bit *)
Lemma all_uninit_spec ne k : N.testbit (all_uninit ne) k = true <-> (k < N.of_nat ne)%N.
Proof.
  unfold all_uninit. rewrite (tb_fold_lor bitN), N.bits_0, orb_false_l, existsb_exists. split.
  - intros (e & He & Ht). rewrite tb_bitN in Ht. apply N.eqb_eq in Ht. apply in_seq in He. lia.
  - intros Hk. exists (N.to_nat k). split; [apply in_seq; lia|].
    rewrite tb_bitN, N2Nat.id. apply N.eqb_refl.
Qed.

(* decidable form of bits_below (used by examples) *)
Lemma below_check nbits x : N.ltb x (N.pow 2 (N.of_nat nbits)) = true <-> bits_below nbits x.
Proof.
  split.
  - intros H k Hk. apply N.ltb_lt in H.
    destruct (N.ltb_spec k (N.of_nat nbits)) as [|Hge]; auto.
    assert (x <> 0)%N by (intros ->; now rewrite N.bits_0 in Hk).
    assert (Hl : (N.log2 x < N.of_nat nbits)%N) by (apply N.log2_lt_pow2; lia).
    rewrite N.bits_above_log2 in Hk by lia. discriminate.
  - intros H. apply N.ltb_lt. destruct (N.eq_dec x 0) as [->|Hx].
    + apply N.neq_0_lt_0, N.pow_nonzero. lia.
    + apply N.log2_lt_pow2; [lia|]. apply H. apply N.bit_log2. exact Hx.
Qed.
