(* P_Gen -- proofs about M_Gen: the Cython generator object (with the repairs switched on)
   and the CPython 3.12 generator object are the same machine, for every body, every
   sub-iterator and every history; the code as it is agrees on histories that avoid four
   explicit situations and is refuted on each of them. *)
From Coq Require Import ZArith List Bool Lia.
From CyVerif Require Import Lib.CInt Model.M_Gen.
Import ListNotations.
Open Scope Z_scope.

(* destruct the scrutinee of some match / if in the goal *)
Ltac dm :=
  match goal with
  | |- context [match ?x with _ => _ end] => destruct x eqn:?
  | |- context [if ?x then _ else _] => destruct x eqn:?
  end.
Ltac crush := repeat (cbn in *; subst; try dm); cbn in *; subst.

Section Sim.
Variable L : Type.
Variable start : L.
Variable step : L -> input -> outcome L.
Variable coro : bool.
Variable agen : bool.

Notation cyop := (cy_op L start step coro agen).
Notation pyop := (py_op L start step coro agen).
Notation runcy := (run_cy L start step coro agen).
Notation runpy := (run_py L start step coro agen).
Notation abs := (abs L).

(* states between operations: not running, and a delegate only while suspended *)
Definition cwf (s : cstate L) : Prop :=
  c_running s = false /\ match c_label s with RAt _ => True | _ => c_yf s = None end.

Lemma cwf_init : cwf (c_init L).
Proof. split; reflexivity. Qed.

Lemma pep479_not_si : forall e, is_stopiter e = false -> pep479 false e = e.
Proof. intros e H; destruct e; try reflexivity; try discriminate H. cbn. rewrite andb_false_r. reflexivity. Qed.

(* ---------------- one operation ---------------- *)
Ltac unf :=
  cbv [cy_op cy_amsend cy_throw cy_close cy_del cy_send_ex_guard cy_send_ex cy_body cy_run_user
       cy_exit_error unrun c_set_running c_set_label c_set_yf cy_close_iter arg_at_yf
       arg_of_sub_error result_of_gres py_op py_send py_throw py_close py_del py_send_ex
       py_arg_at_yf py_close_iter sub_send M_Gen.abs fx_all fx_none c_label c_running c_yf
       fx_first_send fx_throw_si_fresh fx_close_ret fx_si_at_yf fx_ag_fresh_del fst snd negb andb orb is_none
       is_stopiter is_genexit].
Ltac dmg :=
  match goal with
  | |- context [pep479 ?a ?e] => let x := fresh "pe" in generalize (pep479 a e); intro x
  | |- context [match ?x with _ => _ end] => is_var x; destruct x
  | |- context [if ?x then _ else _] => is_var x; destruct x
  | |- context [si_close ?it] => is_var it; destruct (si_close it) as [[[?|] ?]|]
  | |- context [si_throw ?it] => is_var it; destruct (si_throw it)
  | |- context [si_send ?it] => is_var it; destruct (si_send it)
  | |- context [si_next ?it] => is_var it; destruct (si_next it) as [[?|?] ?]
  | |- context [match ?f ?a with _ => _ end] => is_var f; destruct (f a) as [[?|?] ?]
  | |- context [step ?k ?i] =>
      lazymatch i with context [match _ with _ => _ end] => fail | _ => idtac end;
      destruct (step k i)
  end.
Ltac grind := unf; repeat (cbn; dmg); cbn.

Lemma op_sim : forall s o, cwf s ->
  fst (fst (pyop (abs s) o)) = fst (fst (cyop fx_all s o))
  /\ snd (pyop (abs s) o) = snd (cyop fx_all s o)
  /\ (o <> Del -> snd (fst (pyop (abs s) o)) = abs (snd (fst (cyop fx_all s o))))
  /\ cwf (snd (fst (cyop fx_all s o))).
Proof.
  intros [lab run yf] o [Hr Hy]; cbn in Hr, Hy; subst run.
  destruct lab as [|k|]; [subst yf| |subst yf]; destruct o as [|v|e| | |e]; unfold cwf;
    grind; repeat split; auto; congruence.
Qed.

(* ---------------- histories ---------------- *)
Theorem gen_bisim : forall h s, cwf s ->
  runpy (abs s) h = (fst (runcy fx_all s h), option_map abs (snd (runcy fx_all s h))).
Proof.
  induction h as [|o h IH]; intros s Hs.
  - reflexivity.
  - destruct (op_sim s o Hs) as (Hr & Hl & Hst & Hwf).
    destruct (cyop fx_all s o) as [[r s'] l] eqn:Hc.
    destruct (pyop (abs s) o) as [[r2 p2] l2] eqn:Hp.
    cbn in Hr, Hl, Hst, Hwf; subst r2 l2.
    destruct o; cbn [run_cy run_py]; rewrite ?Hc, ?Hp; try reflexivity;
      (rewrite Hst by discriminate); rewrite (IH s' Hwf); destruct (runcy fx_all s' h); reflexivity.
Qed.

Corollary gen_bisim_init : forall h,
  runpy (p_init L) h = (fst (runcy fx_all (c_init L) h), option_map abs (snd (runcy fx_all (c_init L) h))).
Proof. intro h. apply (gen_bisim h (c_init L) cwf_init). Qed.

(* an object that is running rejects every re-entrant operation, in both machines *)
Theorem running_rejects : forall fx s o, c_running s = true -> o <> Del ->
  cyop fx s o = (RRaise (EValue 0), s, []) /\ pyop PExecuting o = (RRaise (EValue 0), PExecuting, []).
Proof.
  intros fx [lab run yf] o Hr Ho; cbn in Hr; subst run.
  destruct o; try congruence; cbn; auto.
Qed.

(* ---------------- the code as it is ---------------- *)
(* the exception with which close() resumes the body (sub-iterator closed first) *)
Definition close_exc (s : cstate L) : exc :=
  match c_yf s with
  | Some it => match si_close it with Some (Some e, _) => e | _ => EGenExit end
  | None => EGenExit
  end.
Definition sub_close_raises_si (s : cstate L) : bool :=
  match c_yf s with
  | Some it => match si_close it with Some (Some e, _) => is_stopiter e | _ => false end
  | None => false
  end.
Definition is_closing (o : op) : bool := match o with Close | Del => true | _ => false end.

(* A: non-None value sent to a just-started object *)
Definition hit_first_send (s : cstate L) (o : op) : bool :=
  match c_label s, o with RFresh, Send (VInt _) => true | _, _ => false end.
(* B: StopIteration thrown into a just-started object *)
Definition hit_throw_si_fresh (s : cstate L) (o : op) : bool :=
  match c_label s, o with RFresh, (Throw e | ThrowNC e) => is_stopiter e || (is_stopasync e && agen) | _, _ => false end.
(* C: close()/del, and the body answers the exception with return <non-None> *)
Definition hit_close_ret (s : cstate L) (o : op) : bool :=
  is_closing o &&
  match c_label s with
  | RAt k => match step k (IThrow (close_exc s)) with OReturn (VInt _) => true | _ => false end
  | _ => false
  end.
(* D: a StopIteration reaches the yield-from point from outside the delegate's send/throw:
   thrown by the caller when the delegate has no throw method, or raised by the delegate's close() *)
Definition hit_si_at_yf (s : cstate L) (o : op) : bool :=
  match c_yf s, o with
  | Some it, Throw e =>
      if is_genexit e then sub_close_raises_si s
      else match si_throw it with None => is_stopiter e | Some _ => false end
  | Some it, ThrowNC e => match si_throw it with None => is_stopiter e | Some _ => false end
  | Some _, (Close | Del) => sub_close_raises_si s
  | _, _ => false
  end.
(* E: a never-started async generator is dropped (RuntimeWarning "coroutine ... was never awaited") *)
Definition hit_ag_fresh_del (s : cstate L) (o : op) : bool :=
  match c_label s, o with RFresh, Del => agen && negb coro | _, _ => false end.
Definition avoid (s : cstate L) (o : op) : bool :=
  negb (hit_first_send s o || hit_throw_si_fresh s o || hit_close_ret s o || hit_si_at_yf s o
        || hit_ag_fresh_del s o).

Ltac dmh Ha :=
  let E := fresh "E" in
  match goal with
  | |- context [pep479 ?a ?e] => is_var e; destruct e; cbn [pep479]
  | |- context [pep479 ?a ?e] => let x := fresh "pe" in generalize (pep479 a e); intro x
  | |- context [?id =? -2] => destruct (id =? -2) eqn:E; rewrite ?E in Ha
  | |- context [if agen then _ else _] => destruct agen eqn:E; rewrite ?E in Ha
  | |- context [if coro then _ else _] => destruct coro eqn:E; rewrite ?E in Ha
  | |- context [match ?x with _ => _ end] => is_var x; destruct x
  | |- context [if ?x then _ else _] => is_var x; destruct x
  | |- context [si_close ?it] => is_var it; destruct (si_close it) as [[[?|] ?]|] eqn:E; rewrite ?E in Ha
  | |- context [si_throw ?it] => is_var it; destruct (si_throw it) eqn:E; rewrite ?E in Ha
  | |- context [si_send ?it] => is_var it; destruct (si_send it) eqn:E; rewrite ?E in Ha
  | |- context [si_next ?it] => is_var it; destruct (si_next it) as [[?|?] ?] eqn:E; rewrite ?E in Ha
  | |- context [match ?f ?a with _ => _ end] => is_var f; destruct (f a) as [[?|?] ?] eqn:E; rewrite ?E in Ha
  | |- context [step ?k ?i] =>
      lazymatch i with context [match _ with _ => _ end] => fail | _ => idtac end;
      destruct (step k i) eqn:E; rewrite ?E in Ha
  end.

Lemma op_current : forall s o, cwf s -> avoid s o = true -> cyop fx_none s o = cyop fx_all s o.
Proof.
  intros [lab run yf] o [Hr Hy] Ha; cbn in Hr, Hy; subst run.
  unfold avoid, hit_first_send, hit_throw_si_fresh, hit_close_ret, hit_si_at_yf, hit_ag_fresh_del, close_exc,
    sub_close_raises_si, is_closing in Ha.
  destruct lab as [|k|]; [subst yf| |subst yf]; destruct o as [|v|e| | |e];
    unf; cbv [is_stopiter is_genexit is_stopasync c_label c_yf] in Ha;
    repeat (cbn; cbn in Ha; dmh Ha); cbn; cbn in Ha; try discriminate Ha; reflexivity.
Qed.

(* histories on which none of the four situations arises (followed along the run) *)
Fixpoint avoids (s : cstate L) (h : list op) : bool :=
  match h with
  | [] => true
  | o :: h' =>
      avoid s o &&
      match o with Del => true | _ => avoids (snd (fst (cyop fx_none s o))) h' end
  end.

Lemma run_current : forall h s, cwf s -> avoids s h = true -> runcy fx_none s h = runcy fx_all s h.
Proof.
  induction h as [|o h IH]; intros s Hs Ha; [reflexivity|].
  cbn in Ha. apply andb_true_iff in Ha. destruct Ha as [Ha Hrest].
  pose proof (op_current s o Hs Ha) as Heq.
  destruct (op_sim s o Hs) as (_ & _ & _ & Hwf). rewrite <- Heq in Hwf.
  destruct (cyop fx_none s o) as [[r s'] l] eqn:Hc. cbn in Hwf.
  destruct o; cbn [run_cy]; rewrite <- ?Heq, ?Hc; try reflexivity;
    cbn in Hrest; rewrite (IH s' Hwf Hrest); reflexivity.
Qed.

Theorem gen_bisim_current_partial : forall h s, cwf s -> avoids s h = true ->
  runpy (abs s) h = (fst (runcy fx_none s h), option_map abs (snd (runcy fx_none s h))).
Proof. intros h s Hs Ha. rewrite (run_current h s Hs Ha). apply gen_bisim; assumption. Qed.

(* ---------------- close / abandonment ---------------- *)
Lemma finished_silent : forall fx s o, cwf s -> c_label s = RDone ->
  exists r, cyop fx s o = (r, s, []).
Proof.
  intros [a b c d] [lab run yf] o [Hr Hy] Hl; cbn in *; subst; cbn in *; subst.
  destruct o; unf; repeat (cbn; dmg); cbn; eauto.
Qed.

Lemma finished_close : forall fx s, cwf s -> c_label s = RDone -> cyop fx s Close = (RNone, s, []).
Proof.
  intros [a b c d] [lab run yf] [Hr Hy] Hl; cbn in *; subst; cbn in *; subst.
  unf; repeat (cbn; dmg); reflexivity.
Qed.

Lemma close_ok_done : forall fx s, cwf s ->
  fst (fst (cyop fx s Close)) = RNone ->
  c_label (snd (fst (cyop fx s Close))) = RDone /\ cwf (snd (fst (cyop fx s Close))).
Proof.
  intros [a b c d] [lab run yf] [Hr Hy]; cbn in Hr, Hy; subst run.
  destruct lab as [|k|]; [subst yf| |subst yf]; unfold cwf; unf;
    repeat (cbn; dmg); cbn; intros H; try discriminate H; repeat split; auto.
Qed.

(* a close() that succeeded leaves the object finished: closing again does nothing *)
Theorem close_idempotent : forall fx s, cwf s ->
  fst (fst (cyop fx s Close)) = RNone ->
  cyop fx (snd (fst (cyop fx s Close))) Close = (RNone, snd (fst (cyop fx s Close)), []).
Proof.
  intros fx s Hs H. destruct (close_ok_done fx s Hs H) as [Hd Hw].
  apply finished_close; assumption.
Qed.

(* abandoning a suspended object resumes its body exactly once (with GeneratorExit when it
   does not delegate); abandoning a fresh or finished one does not run it *)
Theorem cleanup_exactly_once : forall fx s, cwf s ->
  match c_label s with
  | RAt k => exists i, snd (cyop fx s Del) = [(k, i)] /\ (c_yf s = None -> i = IThrow EGenExit)
  | _ => snd (cyop fx s Del) = []
  end.
Proof.
  intros [a b c d] [lab run yf] [Hr Hy]; cbn in Hr, Hy; subst run.
  destruct lab as [|k|]; [subst yf| |subst yf]; unf;
    repeat (cbn; dmg); cbn; try reflexivity;
    eexists; (split; [reflexivity|intros H; try discriminate H; reflexivity]).
Qed.

(* ... and never again: a finished object is not resumed by any later operation *)
Theorem finished_never_resumed : forall fx s o, cwf s -> c_label s = RDone ->
  snd (cyop fx s o) = [] /\ snd (fst (cyop fx s o)) = s.
Proof.
  intros fx s o Hs Hl. destruct (finished_silent fx s o Hs Hl) as [r Hr]. rewrite Hr. auto.
Qed.

(* abandonment leaves a suspended object finished unless its body ignores the exception by yielding *)
Theorem del_finishes : forall fx s, cwf s ->
  (exists e, fst (fst (cyop fx s Del)) = RUnraisable e) \/ c_label s = RFresh
  \/ c_label (snd (fst (cyop fx s Del))) = RDone.
Proof.
  intros [a b c d] [lab run yf] [Hr Hy]; cbn in Hr, Hy; subst run.
  destruct lab as [|k|]; [subst yf| |subst yf]; unf;
    repeat (cbn; dmg); cbn; eauto.
Qed.

End Sim.

(* ---------------- refutations of the code as it is (witness bodies over L = Z) ---------------- *)
Definition w_step (k : Z) (i : input) : outcome Z :=
  match i with
  | ISend v => if k =? 0 then OYield (VInt 1) 1 else OReturn v
  | IThrow EGenExit => OReturn (VInt 5)
  | IThrow e => ORaise e
  end.

Definition results {A B C : Type} (x : list (A * B) * C) : list A := map fst (fst x).

Theorem first_send_refuted :
  results (run_cy Z 0 w_step false false fx_none (c_init Z) [Send (VInt 7); Next])
  <> results (run_py Z 0 w_step false false (p_init Z) [Send (VInt 7); Next]).
Proof. cbv. discriminate. Qed.

Theorem throw_si_fresh_refuted :
  results (run_cy Z 0 w_step false false fx_none (c_init Z) [Throw (EStopIter (VInt 5))])
  <> results (run_py Z 0 w_step false false (p_init Z) [Throw (EStopIter (VInt 5))]).
Proof. cbv. discriminate. Qed.

Theorem close_ret_refuted :
  results (run_cy Z 0 w_step false false fx_none (c_init Z) [Next; Close])
  <> results (run_py Z 0 w_step false false (p_init Z) [Next; Close]).
Proof. cbv. discriminate. Qed.

(* delegation to a list iterator (no throw method), then throw(StopIteration(5)) *)
Definition w_step_yf (k : Z) (i : input) : outcome Z :=
  match i with
  | ISend v => if k =? 0 then ODelegate (VInt 1) (list_sub [VInt 2]) 1 else OReturn v
  | IThrow e => ORaise e
  end.
Theorem si_at_yf_refuted :
  results (run_cy Z 0 w_step_yf false false fx_none (c_init Z) [Next; Throw (EStopIter (VInt 5))])
  <> results (run_py Z 0 w_step_yf false false (p_init Z) [Next; Throw (EStopIter (VInt 5))]).
Proof. cbv. discriminate. Qed.

(* non-vacuity: a history on the witness body that avoids the four situations and exercises
   start, send, throw, close and a second close *)
Example avoids_nonvacuous :
  avoids Z 0 w_step_yf false false (c_init Z) [Next; Send (VInt 3); Close; Close; Next] = true
  /\ cwf Z (c_init Z).
Proof. split; [reflexivity|apply cwf_init]. Qed.
