(* C34 - proofs about the fused dispatch model (Model/M_Fused.v). *)
From Coq Require Import ZArith List Bool Lia Permutation.
From CyVerif Require Import Model.M_Fused.
Import ListNotations.
Open Scope Z_scope.

(* ---------- equality tests ---------- *)
Lemma builtin_eqb_eq a b : builtin_eqb a b = true <-> a = b.
Proof. destruct a, b; simpl; split; intros H; try reflexivity; try discriminate. Qed.
Lemma num_eqb_eq a b : num_eqb a b = true <-> a = b.
Proof.
  destruct a, b; simpl; split; intros H; try discriminate; try reflexivity;
    try (apply andb_true_iff in H; destruct H as [H1 H2]; apply Z.eqb_eq in H1, H2; subst; reflexivity);
    try (apply Z.eqb_eq in H; subst; reflexivity);
    try (injection H as -> ->; rewrite !Z.eqb_refl; reflexivity);
    try (injection H as ->; apply Z.eqb_refl).
Qed.
Lemma cmode_eqb_eq a b : cmode_eqb a b = true <-> a = b.
Proof. destruct a, b; simpl; split; intros H; try reflexivity; try discriminate. Qed.
Lemma ctype_eqb_eq a b : ctype_eqb a b = true <-> a = b.
Proof.
  destruct a, b; simpl; split; intros H; try discriminate; try reflexivity.
  - apply num_eqb_eq in H. subst; reflexivity.
  - injection H as ->. apply num_eqb_eq; reflexivity.
  - apply builtin_eqb_eq in H. subst; reflexivity.
  - injection H as ->. apply builtin_eqb_eq; reflexivity.
  - apply Nat.eqb_eq in H. subst; reflexivity.
  - injection H as ->. apply Nat.eqb_refl.
  - apply andb_true_iff in H. destruct H as [H H3]. apply andb_true_iff in H. destruct H as [H1 H2].
    apply num_eqb_eq in H1. apply Nat.eqb_eq in H2. apply cmode_eqb_eq in H3. subst; reflexivity.
  - injection H as -> -> ->. rewrite Nat.eqb_refl.
    replace (num_eqb n0 n0) with true by (symmetry; apply num_eqb_eq; reflexivity).
    replace (cmode_eqb m0 m0) with true by (symmetry; apply cmode_eqb_eq; reflexivity). reflexivity.
Qed.
Lemma ctype_eqb_refl a : ctype_eqb a a = true.
Proof. apply ctype_eqb_eq; reflexivity. Qed.
Lemma pyname_eqb_eq a b : pyname_eqb a b = true <-> a = b.
Proof.
  destruct a, b; simpl; split; intros H; try discriminate; try reflexivity.
  - apply builtin_eqb_eq in H. subst; reflexivity.
  - injection H as ->. apply builtin_eqb_eq; reflexivity.
  - apply Nat.eqb_eq in H. subst; reflexivity.
  - injection H as ->. apply Nat.eqb_refl.
Qed.

(* ---------- list.sort model: permutation, fuel, identity on unordered lists ---------- *)
Section SortFacts.
  Context {A : Type} (lt : A -> A -> bool).

  Lemma binsert_perm a x : Permutation (binsert lt a x) (x :: a).
  Proof.
    unfold binsert. set (l := bsearch lt _ x a 0 (length a)).
    rewrite <- (firstn_skipn l a) at 3. symmetry. apply Permutation_middle.
  Qed.

  Lemma fold_binsert_perm rest : forall run, Permutation (fold_left (binsert lt) rest run) (run ++ rest).
  Proof.
    induction rest as [|x rest IH]; intros run; simpl.
    - rewrite app_nil_r. apply Permutation_refl.
    - rewrite IH. rewrite (binsert_perm run x). simpl. apply Permutation_middle.
  Qed.

  Lemma take_desc_app prev rest : fst (take_desc lt prev rest) ++ snd (take_desc lt prev rest) = rest.
  Proof.
    revert prev. induction rest as [|y tl IH]; intros prev; simpl; [reflexivity|].
    destruct (lt y prev); [|reflexivity].
    specialize (IH y). destruct (take_desc lt y tl) as [r t]. simpl in *. now rewrite IH.
  Qed.
  Lemma take_asc_app prev rest : fst (take_asc lt prev rest) ++ snd (take_asc lt prev rest) = rest.
  Proof.
    revert prev. induction rest as [|y tl IH]; intros prev; simpl; [reflexivity|].
    destruct (lt y prev); [reflexivity|].
    specialize (IH y). destruct (take_asc lt y tl) as [r t]. simpl in *. now rewrite IH.
  Qed.

  Lemma count_run_perm l : Permutation (fst (count_run lt l) ++ snd (count_run lt l)) l.
  Proof.
    destruct l as [|x [|y rest]]; simpl; try (rewrite ?app_nil_r; apply Permutation_refl).
    destruct (lt y x).
    - pose proof (take_desc_app y rest) as E. destruct (take_desc lt y rest) as [r t]. simpl in *.
      rewrite <- E at 2.
      change (x :: y :: r ++ t) with ((x :: y :: r) ++ t).
      apply Permutation_app_tail. symmetry. apply (Permutation_rev (x :: y :: r)).
    - pose proof (take_asc_app y rest) as E. destruct (take_asc lt y rest) as [r t]. simpl in *.
      rewrite E. apply Permutation_refl.
  Qed.

  Theorem pysort_perm l : Permutation (pysort lt l) l.
  Proof.
    unfold pysort. pose proof (count_run_perm l) as P.
    destruct (count_run lt l) as [run rest]. simpl in P.
    rewrite fold_binsert_perm. exact P.
  Qed.

  Lemma pysort_in l x : In x (pysort lt l) <-> In x l.
  Proof.
    split; apply Permutation_in; [apply pysort_perm | symmetry; apply pysort_perm].
  Qed.

  (* the binary search never runs out of fuel: any fuel above r - l gives the same answer *)
  Lemma bsearch_fuel x a : forall f1 f2 l r, (r - l < f1)%nat -> (r - l < f2)%nat ->
    bsearch lt f1 x a l r = bsearch lt f2 x a l r.
  Proof.
    induction f1 as [|f1 IH]; intros f2 l r H1 H2; [lia|].
    destruct f2 as [|f2]; [lia|]. simpl.
    destruct (Nat.ltb_spec l r) as [Hlr|Hlr]; [|reflexivity].
    assert (D : (Nat.div2 (r - l) < r - l)%nat) by (apply Nat.lt_div2; lia).
    destruct (lt x (nth (l + Nat.div2 (r - l)) a x)); apply IH; lia.
  Qed.

  (* when no element is smaller than an earlier one the whole list is one run *)
  Lemma take_asc_all prev rest :
    (forall y, In y rest -> forall z, lt y z = false) -> take_asc lt prev rest = (rest, []).
  Proof.
    revert prev. induction rest as [|y tl IH]; intros prev H; simpl; [reflexivity|].
    rewrite (H y (or_introl eq_refl)). rewrite IH; [reflexivity|].
    intros y' Hy'. apply H. now right.
  Qed.
  Theorem pysort_unordered l : (forall y, In y l -> forall z, lt y z = false) -> pysort lt l = l.
  Proof.
    intros H. unfold pysort. destruct l as [|x [|y rest]]; simpl; try reflexivity.
    rewrite (H y (or_intror (or_introl eq_refl))).
    rewrite take_asc_all; [reflexivity|].
    intros y' Hy'. apply H. right; right; exact Hy'.
  Qed.
End SortFacts.
