(* C34 - proofs about the fused dispatch model (Model/M_Fused.v). *)
From Coq Require Import ZArith List Bool Lia Permutation.
From CyVerif Require Import Model.M_Fused.
Import ListNotations.
Open Scope Z_scope.

(* ---------- equality tests ---------- *)
Lemma builtin_eqb_eq a b : builtin_eqb a b = true <-> a = b.
Proof. destruct a, b; simpl; split; intros H; try reflexivity; try discriminate. Qed.
Lemma num_eqb_eq a b : num_eqb a b = true <-> a = b.
Proof.
  destruct a, b; simpl; split; intros H; try discriminate; try reflexivity;
    try (apply andb_true_iff in H; destruct H as [H1 H2]; apply Z.eqb_eq in H1, H2; subst; reflexivity);
    try (apply Z.eqb_eq in H; subst; reflexivity);
    try (injection H as -> ->; rewrite !Z.eqb_refl; reflexivity);
    try (injection H as ->; apply Z.eqb_refl).
Qed.
Lemma cmode_eqb_eq a b : cmode_eqb a b = true <-> a = b.
Proof. destruct a, b; simpl; split; intros H; try reflexivity; try discriminate. Qed.
Lemma ctype_eqb_eq a b : ctype_eqb a b = true <-> a = b.
Proof.
  destruct a, b; simpl; split; intros H; try discriminate; try reflexivity.
  - apply num_eqb_eq in H. subst; reflexivity.
  - injection H as ->. apply num_eqb_eq; reflexivity.
  - apply builtin_eqb_eq in H. subst; reflexivity.
  - injection H as ->. apply builtin_eqb_eq; reflexivity.
  - apply Nat.eqb_eq in H. subst; reflexivity.
  - injection H as ->. apply Nat.eqb_refl.
  - apply andb_true_iff in H. destruct H as [H H3]. apply andb_true_iff in H. destruct H as [H1 H2].
    apply num_eqb_eq in H1. apply Nat.eqb_eq in H2. apply cmode_eqb_eq in H3. subst; reflexivity.
  - injection H as -> -> ->. rewrite Nat.eqb_refl.
    replace (num_eqb n0 n0) with true by (symmetry; apply num_eqb_eq; reflexivity).
    replace (cmode_eqb m0 m0) with true by (symmetry; apply cmode_eqb_eq; reflexivity). reflexivity.
Qed.
Lemma ctype_eqb_refl a : ctype_eqb a a = true.
Proof. apply ctype_eqb_eq; reflexivity. Qed.
Lemma pyname_eqb_eq a b : pyname_eqb a b = true <-> a = b.
Proof.
  destruct a, b; simpl; split; intros H; try discriminate; try reflexivity.
  - apply builtin_eqb_eq in H. subst; reflexivity.
  - injection H as ->. apply builtin_eqb_eq; reflexivity.
  - apply Nat.eqb_eq in H. subst; reflexivity.
  - injection H as ->. apply Nat.eqb_refl.
Qed.

(* ---------- list.sort model: permutation, fuel, identity on unordered lists ---------- *)
Section SortFacts.
  Context {A : Type} (lt : A -> A -> bool).

  Lemma binsert_perm a x : Permutation (binsert lt a x) (x :: a).
  Proof.
    unfold binsert. set (l := bsearch lt _ x a 0 (length a)).
    rewrite <- (firstn_skipn l a) at 3. symmetry. apply Permutation_middle.
  Qed.

  Lemma fold_binsert_perm rest : forall run, Permutation (fold_left (binsert lt) rest run) (run ++ rest).
  Proof.
    induction rest as [|x rest IH]; intros run; simpl.
    - rewrite app_nil_r. apply Permutation_refl.
    - rewrite IH. rewrite (binsert_perm run x). simpl. apply Permutation_middle.
  Qed.

  Lemma take_desc_app prev rest : fst (take_desc lt prev rest) ++ snd (take_desc lt prev rest) = rest.
  Proof.
    revert prev. induction rest as [|y tl IH]; intros prev; simpl; [reflexivity|].
    destruct (lt y prev); [|reflexivity].
    specialize (IH y). destruct (take_desc lt y tl) as [r t]. simpl in *. now rewrite IH.
  Qed.
  Lemma take_asc_app prev rest : fst (take_asc lt prev rest) ++ snd (take_asc lt prev rest) = rest.
  Proof.
    revert prev. induction rest as [|y tl IH]; intros prev; simpl; [reflexivity|].
    destruct (lt y prev); [reflexivity|].
    specialize (IH y). destruct (take_asc lt y tl) as [r t]. simpl in *. now rewrite IH.
  Qed.

  Lemma count_run_perm l : Permutation (fst (count_run lt l) ++ snd (count_run lt l)) l.
  Proof.
    destruct l as [|x [|y rest]]; try (simpl; rewrite ?app_nil_r; apply Permutation_refl).
    cbn [count_run]. destruct (lt y x).
    - pose proof (take_desc_app y rest) as E. destruct (take_desc lt y rest) as [r t].
      cbn [fst snd] in *. subst rest.
      change (x :: y :: r ++ t) with ((x :: y :: r) ++ t).
      apply Permutation_app_tail. symmetry. apply (Permutation_rev (x :: y :: r)).
    - pose proof (take_asc_app y rest) as E. destruct (take_asc lt y rest) as [r t].
      cbn [fst snd] in *. subst rest. apply Permutation_refl.
  Qed.

  Theorem pysort_perm l : Permutation (pysort lt l) l.
  Proof.
    unfold pysort. pose proof (count_run_perm l) as P.
    destruct (count_run lt l) as [run rest]. simpl in P.
    rewrite fold_binsert_perm. exact P.
  Qed.

  Lemma pysort_in l x : In x (pysort lt l) <-> In x l.
  Proof.
    split; apply Permutation_in; [apply pysort_perm | symmetry; apply pysort_perm].
  Qed.

  (* the binary search never runs out of fuel: any fuel above r - l gives the same answer *)
  Lemma bsearch_fuel x a : forall f1 f2 l r, (r - l < f1)%nat -> (r - l < f2)%nat ->
    bsearch lt f1 x a l r = bsearch lt f2 x a l r.
  Proof.
    induction f1 as [|f1 IH]; intros f2 l r H1 H2; [lia|].
    destruct f2 as [|f2]; [lia|]. simpl.
    destruct (Nat.ltb_spec l r) as [Hlr|Hlr]; [|reflexivity].
    assert (D : (Nat.div2 (r - l) < r - l)%nat) by (apply Nat.lt_div2; lia).
    destruct (lt x (nth (l + Nat.div2 (r - l)) a x)); apply IH; lia.
  Qed.

  (* when no element is smaller than an earlier one the whole list is one run *)
  Lemma take_asc_all prev rest :
    (forall y, In y rest -> forall z, lt y z = false) -> take_asc lt prev rest = (rest, []).
  Proof.
    revert prev. induction rest as [|y tl IH]; intros prev H; simpl; [reflexivity|].
    rewrite (H y (or_introl eq_refl)). rewrite IH; [reflexivity|].
    intros y' Hy'. apply H. now right.
  Qed.
  Theorem pysort_unordered l : (forall y, In y l -> forall z, lt y z = false) -> pysort lt l = l.
  Proof.
    intros H. unfold pysort. destruct l as [|x [|y rest]]; simpl; try reflexivity.
    rewrite (H y (or_intror (or_introl eq_refl))).
    rewrite take_asc_all; [reflexivity|].
    intros y' Hy'. apply H. right; right; exact Hy'.
  Qed.
End SortFacts.

(* ---------- _split_fused_types ---------- *)
Definition is_mem (t : ctype) : bool := match t with TMem _ _ _ => true | _ => false end.
Definition is_obj (t : ctype) : bool := match t with TObject => true | _ => false end.

Lemma py_name_obj t : py_type_name t = Some PObject <-> t = TObject.
Proof. destruct t as [[]| | | |]; simpl; split; intros H; try discriminate; reflexivity. Qed.
Lemma py_name_none t : py_type_name t = None <-> is_mem t = true.
Proof. destruct t as [[]| | | |]; simpl; split; intros H; try discriminate; reflexivity. Qed.

Lemma split_buffers l : forall seen acc,
  buffers (split_go seen l acc) = buffers acc ++ filter is_mem l.
Proof.
  induction l as [|t tl IH]; intros seen acc; simpl; [now rewrite app_nil_r|].
  destruct (py_type_name t) as [p|] eqn:E.
  - assert (M : is_mem t = false).
    { destruct (is_mem t) eqn:M; [|reflexivity]. apply py_name_none in M. congruence. }
    rewrite M. destruct (existsb (pyname_eqb p) seen); [apply IH|].
    destruct p; rewrite IH; reflexivity.
  - apply py_name_none in E. rewrite E. rewrite IH. simpl. now rewrite <- app_assoc.
Qed.

Lemma split_has_obj l : forall seen acc,
  (existsb (pyname_eqb PObject) seen = true -> has_obj acc = true) ->
  has_obj (split_go seen l acc) = has_obj acc || existsb is_obj l.
Proof.
  induction l as [|t tl IH]; intros seen acc Hinv; simpl; [now rewrite orb_false_r|].
  destruct (py_type_name t) as [p|] eqn:E.
  - destruct (existsb (pyname_eqb p) seen) eqn:S.
    + rewrite IH by exact Hinv.
      destruct (is_obj t) eqn:O; [|reflexivity].
      destruct t; try discriminate. simpl in E. injection E as <-.
      rewrite (Hinv S). reflexivity.
    + destruct p; try (rewrite IH; [ | simpl; exact Hinv]; simpl;
        destruct t as [[]| | | |]; simpl in *; try discriminate; reflexivity).
      rewrite IH by (intros _; reflexivity). simpl.
      apply py_name_obj in E. subst t. simpl. now rewrite orb_true_r.
  - rewrite IH by exact Hinv. simpl. apply py_name_none in E. destruct t; try discriminate. reflexivity.
Qed.

(* the instance tests: dropping later members with an already seen py_type_name does not
   change the first hit *)
Lemma inst_of_name a t t' p : py_type_name t = Some p -> py_type_name t' = Some p -> inst_of a t = inst_of a t'.
Proof. unfold inst_of. intros -> ->. reflexivity. Qed.

Lemma find_app {A} (f : A -> bool) l1 l2 :
  find f (l1 ++ l2) = match find f l1 with Some x => Some x | None => find f l2 end.
Proof. induction l1 as [|x l1 IH]; simpl; [reflexivity|]. destruct (f x); [reflexivity|exact IH]. Qed.

Lemma split_find a l : forall seen acc,
  (forall p, existsb (pyname_eqb p) seen = true -> p <> PObject ->
             exists t, In t (normal acc) /\ py_type_name t = Some p) ->
  find (inst_of a) (normal (split_go seen l acc)) =
  match find (inst_of a) (normal acc) with
  | Some t => Some t
  | None => find (fun t => inst_of a t && negb (is_obj t)) l
  end.
Proof.
  induction l as [|t tl IH]; intros seen acc Hinv; simpl.
  - destruct (find (inst_of a) (normal acc)); reflexivity.
  - destruct (py_type_name t) as [p|] eqn:E.
    + destruct (existsb (pyname_eqb p) seen) eqn:S.
      * rewrite IH by exact Hinv.
        destruct (find (inst_of a) (normal acc)) eqn:F; [reflexivity|].
        destruct (is_obj t) eqn:O; [now rewrite andb_false_r|]. rewrite andb_true_r.
        assert (Hp : p <> PObject).
        { intros ->. apply py_name_obj in E. subst t. discriminate. }
        destruct (Hinv p S Hp) as [t' [Hin Hn]].
        rewrite (inst_of_name a t t' p E Hn).
        rewrite (find_none _ _ F t' Hin). reflexivity.
      * destruct (is_obj t) eqn:O.
        -- destruct t; try discriminate. simpl in E. injection E as <-.
           rewrite IH; [now rewrite andb_false_r|].
           intros p Hp Hne. simpl in Hp. apply orb_true_iff in Hp. destruct Hp as [Hp|Hp].
           ++ apply pyname_eqb_eq in Hp. congruence.
           ++ apply (Hinv p Hp Hne).
        -- rewrite andb_true_r.
           assert (Hgo : split_go (p :: seen) tl
                     {| normal := normal acc ++ [t]; buffers := buffers acc; has_obj := has_obj acc |} =
                   match p with
                   | PObject => split_go (p :: seen) tl {| normal := normal acc; buffers := buffers acc; has_obj := true |}
                   | _ => split_go (p :: seen) tl {| normal := normal acc ++ [t]; buffers := buffers acc; has_obj := has_obj acc |}
                   end).
           { destruct p; try reflexivity. apply py_name_obj in E. subst t. discriminate. }
           rewrite <- Hgo. rewrite IH.
           ++ simpl. rewrite find_app. simpl.
              destruct (find (inst_of a) (normal acc)); [reflexivity|].
              destruct (inst_of a t); reflexivity.
           ++ intros q Hq Hne. simpl in Hq. apply orb_true_iff in Hq. destruct Hq as [Hq|Hq].
              ** apply pyname_eqb_eq in Hq. subst q. exists t. simpl. split; [apply in_or_app; right; now left|exact E].
              ** destruct (Hinv q Hq Hne) as [t' [Hin Hn]]. exists t'. simpl. split; [apply in_or_app; now left|exact Hn].
    + rewrite IH by exact Hinv. cbn [normal].
      destruct (find (inst_of a) (normal acc)); [reflexivity|].
      assert (Hi : inst_of a t = false) by (unfold inst_of; now rewrite E).
      rewrite Hi. reflexivity.
Qed.

Lemma buffer_checks_nil fx a : buffer_checks fx [] a = None.
Proof. destruct a; try reflexivity. simpl. destruct (has_dtype b); reflexivity. Qed.

(* C34 main structural fact: the generated type mapper, in terms of the sorted member list *)
Definition map_spec (fastfix : bool) (s : list ctype) (a : atag) : option ctype :=
  match find (fun t => inst_of a t && negb (is_obj t)) s with
  | Some t => Some t
  | None => match buffer_checks fastfix (filter is_mem s) a with
            | Some t => Some t
            | None => if existsb is_obj s then Some TObject else None
            end
  end.

Theorem map_fused_spec fx idlt ms a :
  map_fused fx idlt ms a = map_spec fx (pysort (ty_lt idlt) ms) a.
Proof.
  unfold map_fused, map_spec, split_fused. set (s := pysort (ty_lt idlt) ms).
  rewrite split_find by (intros p Hp; discriminate).
  rewrite split_buffers, split_has_obj by (intros Hp; discriminate). simpl.
  destruct (find _ s); [reflexivity|].
  destruct (filter is_mem s) eqn:F; [now rewrite buffer_checks_nil|reflexivity].
Qed.

(* ---------- the selected member accepts the examined argument ---------- *)
Definition contig_safe (ms : list ctype) (a : atag) : Prop :=
  forall b t, a = ABuf b -> In t ms -> fast_ok t b = true -> coerce_ok t b = true.

Lemma inst_conv a t : inst_of a t = true -> conv t a = COk.
Proof.
  unfold inst_of. destruct t as [[r g| |r|r]| |b|k|n d m]; simpl; destruct a; simpl; intros H;
    try discriminate; try reflexivity; rewrite H; reflexivity.
Qed.

Lemma coerce_conv t b : coerce_ok t b = true -> conv t (ABuf b) = COk.
Proof. destruct t; simpl; try discriminate. intros H. unfold coerce_ok in H. simpl. rewrite H. reflexivity. Qed.

Lemma buffer_checks_sound fx bufs a t :
  buffer_checks fx bufs a = Some t -> (forall u, In u bufs -> is_mem u = true) ->
  (fx = true \/ contig_safe bufs a) -> In t bufs /\ conv t a = COk.
Proof.
  intros H Hm Hs. destruct a; simpl in H; try discriminate.
  - destruct bufs as [|u tl]; simpl in H; [discriminate|]. injection H as <-.
    split; [now left|]. specialize (Hm u (or_introl eq_refl)). destruct u; try discriminate. reflexivity.
  - destruct (if has_dtype b then find (fun t0 => if fx then coerce_ok t0 b else fast_ok t0 b) bufs else None)
      as [u|] eqn:F.
    + injection H as <-. destruct (has_dtype b); [|discriminate].
      apply find_some in F. destruct F as [Hin Hp]. split; [exact Hin|].
      apply coerce_conv. destruct fx; [exact Hp|].
      destruct Hs as [Hs|Hs]; [discriminate|]. apply (Hs b u eq_refl Hin Hp).
    + apply find_some in H. destruct H as [Hin Hp]. split; [exact Hin|]. now apply coerce_conv.
Qed.

Theorem map_fused_sound fx idlt ms a t :
  map_fused fx idlt ms a = Some t -> (fx = true \/ contig_safe ms a) ->
  In t ms /\ conv t a = COk.
Proof.
  rewrite map_fused_spec. unfold map_spec. set (s := pysort (ty_lt idlt) ms). intros H Hs.
  destruct (find (fun t0 => inst_of a t0 && negb (is_obj t0)) s) as [u|] eqn:F.
  - injection H as <-. apply find_some in F. destruct F as [Hin Hp].
    apply andb_true_iff in Hp. destruct Hp as [Hp _].
    split; [now apply (pysort_in (ty_lt idlt) ms u)|now apply inst_conv].
  - destruct (buffer_checks fx (filter is_mem s) a) as [u|] eqn:B.
    + injection H as <-.
      apply buffer_checks_sound in B.
      * destruct B as [Hin Hc]. split; [|exact Hc].
        apply filter_In in Hin. now apply (pysort_in (ty_lt idlt) ms u).
      * intros u' Hu'. now apply filter_In in Hu'.
      * destruct Hs as [Hs|Hs]; [now left|right].
        intros b t0 Ha Hin. apply Hs; [exact Ha|]. apply filter_In in Hin.
        now apply (pysort_in (ty_lt idlt) ms t0).
    + destruct (existsb is_obj s) eqn:O; [|discriminate]. injection H as <-.
      apply existsb_exists in O. destruct O as [u [Hin Hu]]. destruct u; try discriminate.
      split; [now apply (pysort_in (ty_lt idlt) ms TObject)|reflexivity].
Qed.

(* ---------- the dispatcher ---------- *)
Lemma dests_spec fx idlt args fts : forall ds,
  fold_right (fun ft acc =>
                match acc, nth_error args (fpos ft) with
                | Some l, Some a => Some (map_fused fx idlt (members ft) a :: l)
                | _, _ => None end) (Some []) fts = Some ds ->
  Forall2 (fun ft dj => exists a, nth_error args (fpos ft) = Some a /\
                                  dj = map_fused fx idlt (members ft) a) fts ds.
Proof.
  induction fts as [|ft tl IH]; intros ds H; simpl in H.
  - injection H as <-. constructor.
  - destruct (fold_right _ (Some []) tl) as [l|] eqn:E; [|discriminate].
    destruct (nth_error args (fpos ft)) as [a|] eqn:N; [|discriminate].
    injection H as <-. constructor; [exists a; split; [exact N|reflexivity]|]. now apply IH.
Qed.

Lemma all_sigs_in mss : forall s, In s (all_sigs mss) <-> Forall2 (fun t ms => In t ms) s mss.
Proof.
  induction mss as [|ms tl IH]; intros s; simpl.
  - split; [intros [<-|[]]; constructor|intros H; inversion H; now left].
  - rewrite in_flat_map. split.
    + intros [m [Hm Hs]]. apply in_map_iff in Hs. destruct Hs as [s' [<- Hs']].
      constructor; [exact Hm|now apply IH].
    + intros H. inversion H as [|t ms' s' mss' Ht Hs']; subst.
      exists t. split; [exact Ht|]. apply in_map. now apply IH.
Qed.

Lemma sig_match_sound : forall fts ds s (P : ftype -> option ctype -> Prop),
  Forall2 P fts ds -> Forall2 (fun t ms => In t ms) s (map members fts) -> sig_match s ds = true ->
  Forall2 (fun ft t => In t (members ft) /\ (P ft (Some t) \/ P ft None)) fts s.
Proof.
  induction fts as [|ft tl IH]; intros ds s P HP Hs Hm.
  - inversion Hs; subst. constructor.
  - inversion HP as [|ft' dj tl' ds' Hp Hps]; subst.
    simpl in Hs. inversion Hs as [|t ms s' mss Ht Hs']; subst.
    simpl in Hm. destruct dj as [u|].
    + apply andb_true_iff in Hm. destruct Hm as [He Hm]. apply ctype_eqb_eq in He. subst u.
      constructor; [split; [exact Ht|now left]|]. apply (IH ds' s' P Hps Hs' Hm).
    + constructor; [split; [exact Ht|now right]|]. apply (IH ds' s' P Hps Hs' Hm).
Qed.

(* C34: whatever the dispatcher returns is a signature of the function; for every fused type
   whose examined argument was mapped to a member, that member is the one in the signature,
   it belongs to the fused type and its C type takes the argument *)
Theorem dispatch_sound fx idlt d args sig :
  dispatch_cy fx idlt d args = Spec sig ->
  (fx = true \/ forall ft a, In ft (ftypes d) -> nth_error args (fpos ft) = Some a -> contig_safe (members ft) a) ->
  Forall2 (fun ft t => In t (members ft) /\
             exists a, nth_error args (fpos ft) = Some a /\
               (map_fused fx idlt (members ft) a = Some t /\ conv t a = COk \/
                map_fused fx idlt (members ft) a = None)) (ftypes d) sig.
Proof.
  unfold dispatch_cy, dests. intros H Hs.
  destruct (negb _); [discriminate|].
  destruct (fold_right _ (Some []) (ftypes d)) as [ds|] eqn:E; [|discriminate].
  apply dests_spec in E.
  assert (Hsafe : forall ft a, In ft (ftypes d) -> nth_error args (fpos ft) = Some a ->
                   fx = true \/ contig_safe (members ft) a).
  { intros ft a Hin Hn. destruct Hs as [Hs|Hs]; [now left|right; now apply Hs]. }
  assert (Hgen : forall s, Forall2 (fun t ms => In t ms) s (map members (ftypes d)) -> sig_match s ds = true ->
     Forall2 (fun ft t => In t (members ft) /\
             exists a, nth_error args (fpos ft) = Some a /\
               (map_fused fx idlt (members ft) a = Some t /\ conv t a = COk \/
                map_fused fx idlt (members ft) a = None)) (ftypes d) s).
  { intros s Hin Hm.
    pose proof (sig_match_sound (ftypes d) ds s _ E Hin Hm) as F.
    clear - F Hsafe. revert F Hsafe. generalize (ftypes d) as fts.
    induction 1 as [|ft t fts s [Hin Hor] _ IH]; intros Hsafe; constructor.
    - split; [exact Hin|]. destruct Hor as [[a [Hn Hd]]|[a [Hn Hd]]]; exists a; (split; [exact Hn|]).
      + left. split; [now symmetry|]. symmetry in Hd.
        apply (map_fused_sound fx idlt (members ft) a t Hd). apply (Hsafe ft a); [now left|exact Hn].
      + right. now symmetry.
    - apply IH. intros ft' a' Hin'. apply Hsafe. now right. }
  destruct ds as [|one [|two rest]].
  - (* no fused type: filter over [[]] *)
    destruct (filter _ _) as [|s [|]] eqn:F; try discriminate.
    injection H as <-.
    assert (Hi : In s (filter (fun s => sig_match s []) (all_sigs (map members (ftypes d))))) by (rewrite F; now left).
    apply filter_In in Hi. destruct Hi as [Hin Hm]. apply all_sigs_in in Hin. now apply Hgen.
  - destruct one as [t|]; [|discriminate]. injection H as <-.
    inversion E as [|ft dj fts ds' [a [Hn Hd]] Hrest Ef]; subst. inversion Hrest; subst.
    constructor; [|constructor]. symmetry in Hd.
    destruct (map_fused_sound fx idlt (members ft) a t Hd) as [Hin Hc].
    { apply (Hsafe ft a); [rewrite <- Ef; now left|exact Hn]. }
    split; [exact Hin|]. exists a. split; [exact Hn|]. left. now split.
  - destruct (filter _ _) as [|s [|]] eqn:F; try discriminate.
    injection H as <-.
    assert (Hi : In s (filter (fun s => sig_match s (one :: two :: rest)) (all_sigs (map members (ftypes d))))) by (rewrite F; now left).
    apply filter_In in Hi. destruct Hi as [Hin Hm]. apply all_sigs_in in Hin. now apply Hgen.
Qed.

(* parameters that share a fused type are specialised with the same member: the C type of
   parameter i is looked up in the single signature through its fused type index *)
Definition param_type (sig : list ctype) (d : decl) (i : nat) : option ctype :=
  match nth_error (params d) i with Some j => nth_error sig j | None => None end.
Theorem same_fused_same_member sig d i j :
  nth_error (params d) i = nth_error (params d) j -> param_type sig d i = param_type sig d j.
Proof. unfold param_type. intros ->. reflexivity. Qed.

(* ---------- dispatch = the documented rules ---------- *)
(* documented choice as a relation (any member of maximal rank may be taken) *)
Definition doc_ok (ms : list ctype) (a : atag) (r : option ctype) : Prop :=
  match r with
  | Some t =>
      In t ms /\
      ((exact a t = true /\
        forall u, In u ms -> exact a u = true -> py_type_name u = py_type_name t -> trank u <= trank t)
       \/ ((forall u, In u ms -> exact a u = false) /\ subinst a t = true /\
           forall u, In u ms -> subinst a u = true -> py_type_name u = py_type_name t -> trank u <= trank t)
       \/ ((forall u, In u ms -> exact a u = false /\ subinst a u = false) /\ t = TObject))
  | None => forall u, In u ms -> exact a u = false /\ subinst a u = false /\ u <> TObject
  end.

(* order conditions on the compiler's preference list (both decidable) *)
Definition group_sorted (s : list ctype) : Prop :=
  forall l1 t l2 u, s = l1 ++ t :: l2 -> In u l2 -> py_type_name u = py_type_name t -> trank u <= trank t.
Definition exact_first (s : list ctype) (a : atag) : Prop :=
  forall l1 t l2 u, s = l1 ++ t :: l2 -> subinst a t = true -> In u l2 -> exact a u = false.

Lemma find_split {A} (f : A -> bool) l t : find f l = Some t ->
  exists l1 l2, l = l1 ++ t :: l2 /\ f t = true /\ forall u, In u l1 -> f u = false.
Proof.
  induction l as [|x l IH]; simpl; [discriminate|]. destruct (f x) eqn:E.
  - intros [= <-]. exists [], l. split; [reflexivity|]. split; [exact E|intros u []].
  - intros H. destruct (IH H) as [l1 [l2 [-> [Ht Hl]]]]. exists (x :: l1), l2.
    split; [reflexivity|]. split; [exact Ht|]. intros u [<-|Hu]; [exact E|now apply Hl].
Qed.

Lemma scalar_hit_split a t : is_mem t = false ->
  inst_of a t && negb (is_obj t) = exact a t || subinst a t.
Proof.
  intros M. unfold inst_of.
  destruct t as [[r g| |r|r]| |b|k|n d m]; try discriminate; simpl;
    destruct a as [| | | | | | | |b'|mro| |bf]; simpl;
    rewrite ?andb_true_r, ?andb_false_r, ?orb_false_r; try reflexivity;
    try (destruct mro as [|k0 bases]; simpl; try reflexivity).
  - destruct b, b'; reflexivity.
  - now rewrite Nat.eqb_sym.
Qed.
Lemma sub_not_mem a t u : subinst a t = true -> is_mem u = true -> exact a u = false.
Proof.
  intros H M. destruct u; try discriminate M.
  destruct a; try reflexivity; try (destruct mro; reflexivity);
    destruct t as [[]| | | |]; simpl in H; discriminate H.
Qed.
Lemma sub_mem_false a u : is_mem u = true -> subinst a u = false.
Proof. intros M. destruct u; try discriminate M. destruct a; try reflexivity. destruct mro; reflexivity. Qed.
Lemma name_mem t u : py_type_name u = py_type_name t -> is_mem t = is_mem u.
Proof. destruct t as [[]| | | |], u as [[]| | | |]; simpl; intros H; try discriminate; reflexivity. Qed.

Lemma buffer_checks_exact fx bufs a t :
  buffer_checks fx bufs a = Some t -> (forall u, In u bufs -> is_mem u = true) ->
  (fx = true \/ contig_safe bufs a) -> In t bufs /\ exact a t = true.
Proof.
  intros H Hm Hs. destruct a; simpl in H; try discriminate.
  - destruct bufs as [|u tl]; simpl in H; [discriminate|]. injection H as <-.
    split; [now left|]. specialize (Hm u (or_introl eq_refl)). destruct u; try discriminate. reflexivity.
  - assert (Hex : forall u, In u bufs -> coerce_ok u b = true -> exact (ABuf b) u = true).
    { intros u Hu Hc. specialize (Hm u Hu). destruct u; try discriminate. exact Hc. }
    destruct (if has_dtype b then find (fun t0 => if fx then coerce_ok t0 b else fast_ok t0 b) bufs else None)
      as [u|] eqn:F.
    + injection H as <-. destruct (has_dtype b); [|discriminate].
      apply find_some in F. destruct F as [Hin Hp]. split; [exact Hin|]. apply Hex; [exact Hin|].
      destruct fx; [exact Hp|]. destruct Hs as [Hs|Hs]; [discriminate|]. apply (Hs b u eq_refl Hin Hp).
    + apply find_some in H. destruct H as [Hin Hp]. split; [exact Hin|]. now apply Hex.
Qed.
Lemma buffer_checks_none fx bufs a :
  buffer_checks fx bufs a = None -> forall u, In u bufs -> is_mem u = true -> exact a u = false.
Proof.
  intros H u Hu Hm. destruct u as [| | | |n d m]; try discriminate Hm.
  destruct a as [| | | | | | | |b'|mro| |bf]; try reflexivity; try (destruct mro; reflexivity); simpl in H.
  - destruct bufs; [destruct Hu|discriminate].
  - destruct (if has_dtype bf then _ else None); [discriminate|].
    apply (find_none _ _ H _ Hu).
Qed.

(* C34 (partial): for every member list, argument tag and id order, if the compiler's
   preference list keeps every py_type_name group in rank order and puts exact matches
   before base-class matches, and the numpy fast path cannot pick a member that the full
   check rejects (or the fast path is repaired), the mapper's answer obeys the documented
   rules *)
Theorem map_fused_documented fx idlt ms a :
  let s := pysort (ty_lt idlt) ms in
  group_sorted s -> exact_first s a -> (fx = true \/ contig_safe ms a) ->
  doc_ok ms a (map_fused fx idlt ms a).
Proof.
  intros s Hg He Hs. rewrite map_fused_spec. fold s. unfold map_spec.
  assert (Hin : forall u, In u s <-> In u ms) by (intros u; apply pysort_in).
  destruct (find (fun t0 => inst_of a t0 && negb (is_obj t0)) s) as [t|] eqn:F.
  - apply find_split in F. destruct F as [l1 [l2 [Es [Ht Hl1]]]].
    assert (Mt : is_mem t = false).
    { destruct t; try reflexivity. unfold inst_of in Ht. simpl in Ht. discriminate. }
    assert (Tin : In t s) by (rewrite Es; apply in_or_app; right; now left).
    simpl. split; [now apply Hin|].
    assert (Hbefore : forall u, In u l1 -> py_type_name u = py_type_name t ->
                       exact a u = false /\ subinst a u = false).
    { intros u Hu Hn. specialize (Hl1 u Hu). rewrite scalar_hit_split in Hl1.
      - now apply orb_false_iff in Hl1.
      - rewrite <- (name_mem t u Hn). exact Mt. }
    rewrite (scalar_hit_split a t Mt) in Ht. apply orb_true_iff in Ht.
    destruct (exact a t) eqn:Ex.
    + left. split; [reflexivity|]. intros u Hu Hx Hn. apply Hin in Hu. rewrite Es in Hu.
      apply in_app_or in Hu. destruct Hu as [Hu|[<-|Hu]]; [|lia|now apply (Hg l1 t l2 u Es Hu Hn)].
      destruct (Hbefore u Hu Hn) as [C _]. congruence.
    + destruct Ht as [Ht|Ht]; [discriminate|]. right; left. split; [|split; [exact Ht|]].
      * intros u Hu. apply Hin in Hu. rewrite Es in Hu.
        apply in_app_or in Hu. destruct Hu as [Hu|[<-|Hu]]; [|exact Ex|now apply (He l1 t l2 u Es Ht Hu)].
        destruct (is_mem u) eqn:Mu; [now apply (sub_not_mem a t u Ht Mu)|].
        specialize (Hl1 u Hu). rewrite (scalar_hit_split a u Mu) in Hl1. now apply orb_false_iff in Hl1.
      * intros u Hu Hx Hn. apply Hin in Hu. rewrite Es in Hu.
        apply in_app_or in Hu. destruct Hu as [Hu|[<-|Hu]]; [|lia|now apply (Hg l1 t l2 u Es Hu Hn)].
        destruct (Hbefore u Hu Hn) as [_ C]. congruence.
  - assert (Hsc : forall u, In u ms -> is_mem u = false -> exact a u = false /\ subinst a u = false).
    { intros u Hu Mu. apply Hin in Hu. pose proof (find_none _ _ F u Hu) as N. simpl in N.
      rewrite (scalar_hit_split a u Mu) in N. now apply orb_false_iff in N. }
    assert (Hbm : forall u, In u (filter is_mem s) -> is_mem u = true) by (intros u Hu; now apply filter_In in Hu).
    destruct (buffer_checks fx (filter is_mem s) a) as [t|] eqn:B.
    + apply buffer_checks_exact in B; [|exact Hbm|].
      * destruct B as [Tin Ex]. apply filter_In in Tin. destruct Tin as [Tin Mt]. simpl.
        split; [now apply Hin|]. left. split; [exact Ex|].
        intros u Hu _ Hn. pose proof (name_mem t u Hn) as Q. rewrite Mt in Q.
        destruct t; try discriminate Mt. destruct u; try discriminate Q. simpl. lia.
      * destruct Hs as [Hs|Hs]; [now left|right]. intros b t0 Ha Hi. apply Hs; [exact Ha|].
        apply filter_In in Hi. now apply Hin.
    + assert (Hall : forall u, In u ms -> exact a u = false /\ subinst a u = false).
      { intros u Hu. destruct (is_mem u) eqn:Mu; [|now apply Hsc]. split; [|now apply sub_mem_false].
        apply (buffer_checks_none fx _ a B u); [|exact Mu]. apply filter_In. split; [now apply Hin|exact Mu]. }
      destruct (existsb is_obj s) eqn:O; simpl.
      * apply existsb_exists in O. destruct O as [u [Hu Ou]]. destruct u; try discriminate.
        split; [now apply Hin|]. right; right. split; [exact Hall|reflexivity].
      * intros u Hu. destruct (Hall u Hu) as [H1 H2]. split; [exact H1|split; [exact H2|]].
        intros ->. apply Hin in Hu. assert (existsb is_obj s = true) by (apply existsb_exists; exists TObject; now split).
        congruence.
Qed.

(* the executable documented choice satisfies the relation *)
Lemma biggest_in l t : biggest l = Some t -> In t l.
Proof.
  revert t. induction l as [|x l IH]; simpl; [discriminate|]. intros t.
  destruct (biggest l) as [u|]; [|intros [= <-]; now left].
  destruct (is_numeric x && is_numeric u && (trank x <? trank u)); intros [= <-]; [right; now apply IH|now left].
Qed.

(* ---------- explicit indexing ---------- *)
Lemma index_key_eq {K} (keq : K -> K -> bool) (name : ctype -> K) :
  (forall x y, keq x y = true <-> x = y) ->
  forall s idx, (Nat.eqb (length s) (length idx) &&
                 forallb (fun p => keq (name (fst p)) (snd p)) (combine s idx)) = true <-> map name s = idx.
Proof.
  intros Hk. induction s as [|t s IH]; intros [|k idx]; simpl; split; intros H; try discriminate; try reflexivity.
  - apply andb_true_iff in H. destruct H as [H1 H2]. apply andb_true_iff in H2. destruct H2 as [H2 H3].
    apply Hk in H2. subst k. f_equal. apply IH. now rewrite H1, H3.
  - injection H as <- <-. specialize (proj2 (IH (map name s)) eq_refl) as H.
    apply andb_true_iff in H. destruct H as [H1 H2]. rewrite H1, H2.
    replace (keq (name t) (name t)) with true by (symmetry; now apply Hk). reflexivity.
Qed.
(* func[idx] returns a signature of the function whose key is exactly the index, and raises
   KeyError exactly when no signature has that key *)
Theorem getitem_exact {K} (keq : K -> K -> bool) (name : ctype -> K) sigs idx :
  (forall x y, keq x y = true <-> x = y) ->
  match getitem keq name sigs idx with
  | IFound s => In s sigs /\ map name s = idx
  | IKeyError => forall s, In s sigs -> map name s <> idx
  end.
Proof.
  intros Hk. unfold getitem.
  destruct (find _ sigs) as [s|] eqn:F.
  - apply find_some in F. destruct F as [Hin Hp]. split; [exact Hin|]. now apply (index_key_eq keq name Hk).
  - intros s Hin Hm. pose proof (find_none _ _ F s Hin) as N. simpl in N.
    apply (index_key_eq keq name Hk) in Hm. congruence.
Qed.

(* ---------- the tree as it is: witnesses against the documented rules ---------- *)
Definition idlt0 (k : tclass) : bool := false.
Definition t_short := TNum (NInt 2 1).   Definition t_int := TNum (NInt 4 1).
Definition t_long := TNum (NInt 6 1).    Definition t_ulong := TNum (NInt 6 0).
Definition t_double := TNum (NFloat 12). Definition t_dcomplex := TNum (NComplex 12).
Definition t_bint := TNum NBint.

(* {short, double complex, long}: an int argument gets short, not the biggest int type *)
Lemma refuted_numeric_order :
  map_fused false idlt0 [t_short; t_dcomplex; t_long] AInt = Some t_short /\
  doc_choice [t_short; t_dcomplex; t_long] AInt = Some t_long /\
  ~ doc_ok [t_short; t_dcomplex; t_long] AInt (Some t_short).
Proof.
  split; [reflexivity|split; [reflexivity|]]. intros [_ [[_ H]|[[H _]|[_ H]]]].
  - specialize (H t_long (or_intror (or_intror (or_introl eq_refl))) eq_refl eq_refl). vm_compute in H. now apply H.
  - specialize (H t_short (or_introl eq_refl)). discriminate.
  - discriminate.
Qed.
(* {short, unsigned long}: 40000 is sent to the short specialisation *)
Lemma refuted_unsigned : map_fused false idlt0 [t_short; t_ulong] AInt = Some t_short /\
                         doc_choice [t_short; t_ulong] AInt = Some t_ulong.
Proof. split; reflexivity. Qed.
(* {bint, long}: True is not given to the exact match bint *)
Lemma refuted_bool : map_fused false idlt0 [t_bint; t_long] ABool = Some t_long /\
                     doc_choice [t_bint; t_long] ABool = Some t_bint.
Proof. split; reflexivity. Qed.
(* {A0, A1(A0)}: an A1 instance is given to the base class specialisation *)
Lemma refuted_ext : map_fused false idlt0 [TExt 0; TExt 1] (AInst [1; 0]%nat) = Some (TExt 0) /\
                    doc_choice [TExt 0; TExt 1] (AInst [1; 0]%nat) = Some (TExt 1).
Proof. split; reflexivity. Qed.
(* {long[::1], long[:]} with a non-contiguous int64 ndarray: the numpy fast path selects
   long[::1], whose conversion raises ValueError; the documented choice long[:] exists.
   With the repaired fast path the call runs long[:] *)
Definition d_mem := {| ftypes := [{| members := [TMem (NInt 6 1) 1 MCContig; TMem (NInt 6 1) 1 MStrided]; fpos := 0 |}];
                       params := [0%nat] |}.
Definition a_strided := ABuf {| b_src := SNd; b_kind := DKInt; b_size := 8; b_ndim := 1; b_cc := false; b_fc := false |}.
Lemma refuted_fastpath :
  call_cy false idlt0 d_mem [a_strided] = ValueErr /\
  doc_call d_mem [a_strided] = Ran [TMem (NInt 6 1) 1 MStrided] /\
  call_cy true idlt0 d_mem [a_strided] = Ran [TMem (NInt 6 1) 1 MStrided].
Proof. repeat split; reflexivity. Qed.
(* a fused type with a single member: "no match" is a wildcard for match_signatures *)
Definition d_single := {| ftypes := [{| members := [t_double]; fpos := 0 |}; {| members := [t_int; t_double]; fpos := 1 |}];
                          params := [0%nat; 1%nat] |}.
Lemma refuted_wildcard :
  map_fused false idlt0 [t_double] AInt = None /\
  dispatch_cy false idlt0 d_single [AInt; AFloat] = Spec [t_double; t_double] /\
  doc_call d_single [AInt; AFloat] = TypeErr.
Proof. repeat split; reflexivity. Qed.

(* ---------- decidable forms of the order conditions ---------- *)
Definition opt_name_eqb (x y : option pyname) : bool :=
  match x, y with Some p, Some q => pyname_eqb p q | None, None => true | _, _ => false end.
Lemma opt_name_eqb_eq x y : opt_name_eqb x y = true <-> x = y.
Proof.
  destruct x as [p|], y as [q|]; simpl; split; intros H; try discriminate; try reflexivity.
  - apply pyname_eqb_eq in H. now subst. - injection H as ->. now apply pyname_eqb_eq.
Qed.
Fixpoint group_sortedb (s : list ctype) : bool :=
  match s with
  | [] => true
  | t :: tl => forallb (fun u => negb (opt_name_eqb (py_type_name u) (py_type_name t)) || (trank u <=? trank t)) tl
               && group_sortedb tl
  end.
Fixpoint exact_firstb (s : list ctype) (a : atag) : bool :=
  match s with
  | [] => true
  | t :: tl => (negb (subinst a t) || forallb (fun u => negb (exact a u)) tl) && exact_firstb tl a
  end.
Lemma group_sortedb_ok s : group_sortedb s = true -> group_sorted s.
Proof.
  unfold group_sorted. induction s as [|x s IH]; intros H l1 t l2 u E Hu Hn.
  - destruct l1; discriminate.
  - simpl in H. apply andb_true_iff in H. destruct H as [H1 H2].
    destruct l1 as [|y l1]; simpl in E; injection E as -> ->.
    + rewrite forallb_forall in H1. specialize (H1 u Hu). apply orb_true_iff in H1. destruct H1 as [H1|H1].
      * apply negb_true_iff in H1. assert (opt_name_eqb (py_type_name u) (py_type_name t) = true) by now apply opt_name_eqb_eq.
        congruence.
      * now apply Z.leb_le.
    + now apply (IH H2 l1 t l2 u eq_refl).
Qed.
Lemma exact_firstb_ok s a : exact_firstb s a = true -> exact_first s a.
Proof.
  unfold exact_first. induction s as [|x s IH]; intros H l1 t l2 u E Hs Hu.
  - destruct l1; discriminate.
  - simpl in H. apply andb_true_iff in H. destruct H as [H1 H2].
    destruct l1 as [|y l1]; simpl in E; injection E as -> ->.
    + rewrite Hs in H1. simpl in H1. rewrite forallb_forall in H1. specialize (H1 u Hu). now apply negb_true_iff.
    + now apply (IH H2 l1 t l2 u eq_refl).
Qed.
Definition contig_safeb (ms : list ctype) (a : atag) : bool :=
  match a with ABuf b => forallb (fun t => negb (fast_ok t b) || coerce_ok t b) ms | _ => true end.
Lemma contig_safeb_ok ms a : contig_safeb ms a = true -> contig_safe ms a.
Proof.
  unfold contig_safe. intros H b t -> Hin Hf. simpl in H. rewrite forallb_forall in H.
  specialize (H t Hin). rewrite Hf in H. exact H.
Qed.

(* the decidable form of the theorem, as used by Prop/C34.v *)
Corollary map_fused_documented_b fx idlt ms a :
  group_sortedb (pysort (ty_lt idlt) ms) = true ->
  exact_firstb (pysort (ty_lt idlt) ms) a = true ->
  fx || contig_safeb ms a = true ->
  doc_ok ms a (map_fused fx idlt ms a).
Proof.
  intros H1 H2 H3. apply map_fused_documented;
    [now apply group_sortedb_ok|now apply exact_firstb_ok|].
  apply orb_true_iff in H3. destruct H3 as [H3|H3]; [now left|right; now apply contig_safeb_ok].
Qed.

(* lists on which __lt__ never answers True (extension types, builtins, object, memoryviews
   only) keep their declared order: there the conditions speak about the declaration itself *)
Lemma ty_lt_unordered idlt ms :
  (forall t, In t ms -> match t with TNum _ => False | _ => True end) ->
  (forall t, In t ms -> is_mem t = true -> forall u, In u ms -> is_mem u = true) ->
  pysort (ty_lt idlt) ms = ms.
Proof.
  intros Hn Hm. destruct ms as [|x [|y rest]]; try reflexivity.
  unfold pysort. cbn [count_run].
  assert (L : forall a b, In a (x :: y :: rest) -> In b (x :: y :: rest) -> ty_lt idlt a b = false).
  { intros a b Ha Hb. pose proof (Hn a Ha) as Na. destruct a; try reflexivity; [destruct Na|].
    pose proof (Hm _ Ha eq_refl b Hb) as Mb. destruct b; try discriminate. reflexivity. }
  rewrite (L y x) by (simpl; auto).
  assert (T : forall prev l, In prev (x :: y :: rest) -> incl l (x :: y :: rest) ->
              take_asc (ty_lt idlt) prev l = (l, [])).
  { intros prev l. revert prev. induction l as [|z l IH]; intros prev Hp Hl; simpl; [reflexivity|].
    rewrite (L z prev (Hl z (or_introl eq_refl)) Hp). rewrite IH; [reflexivity|apply Hl; now left|].
    intros w Hw. apply Hl. now right. }
  rewrite T; [reflexivity|simpl; auto|]. intros w Hw. right; right; exact Hw.
Qed.
