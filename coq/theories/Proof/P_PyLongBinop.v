(* Proofs about Model/M_PyLongBinop.v (Optimize.c: PyLongBinop / PyLongCompare). *)
From Coq Require Import ZArith List Bool Lia ZifyBool.
From CyVerif Require Import Lib.CInt Lib.PyLong Model.M_CMath Proof.P_CMath Model.M_PyLongBinop.
Import ListNotations.
Open Scope Z_scope.

(* ---- constants ---- *)
Lemma p30 : 2 ^ 30 = 1073741824. Proof. reflexivity. Qed.
Lemma p53 : 2 ^ 53 = 9007199254740992. Proof. reflexivity. Qed.
Lemma p60 : 2 ^ 60 = 1152921504606846976. Proof. reflexivity. Qed.
Lemma p63 : 2 ^ 63 = 9223372036854775808. Proof. reflexivity. Qed.
Lemma p64 : 2 ^ 64 = 18446744073709551616. Proof. reflexivity. Qed.
Lemma p90 : 2 ^ 90 = 1237940039285380274899124224. Proof. reflexivity. Qed.
Lemma mask_val : MASK = 1073741823. Proof. reflexivity. Qed.
Lemma mask_ones : MASK = Z.ones 30. Proof. reflexivity. Qed.

Lemma in_rangeb64 v :
  in_rangeb 64 true v = (-9223372036854775808 <=? v) && (v <=? 9223372036854775807).
Proof. reflexivity. Qed.

Lemma in_range64 v : in_range 64 true v <-> -9223372036854775808 <= v <= 9223372036854775807.
Proof. unfold in_range. change (min_int 64 true) with (-9223372036854775808).
  change (max_int 64 true) with 9223372036854775807. tauto. Qed.

Lemma ckl_ok v k : -9223372036854775808 <= v <= 9223372036854775807 -> ckl v k = k v.
Proof. intros H. unfold ckl. rewrite in_rangeb64.
  destruct (Z.leb_spec (-9223372036854775808) v); destruct (Z.leb_spec v 9223372036854775807);
    cbn [andb]; try reflexivity; lia. Qed.

(* ---- shape of a well-formed int by digit count ---- *)
Lemma wf_digits x : wf SHIFT x ->
  match pl_digits x with
  | [] => value SHIFT x = 0 /\ pl_neg x = false
  | [d0] => 0 < d0 < 1073741824 /\ mag SHIFT (pl_digits x) = d0
  | [d0; d1] => 0 <= d0 < 1073741824 /\ 0 < d1 < 1073741824
                /\ mag SHIFT (pl_digits x) = d0 + 1073741824 * d1
  | d0 :: _ :: _ :: _ => 0 <= d0 < 1073741824 /\ 1152921504606846976 <= mag SHIFT (pl_digits x)
  end.
Proof.
  intros (Ok & La & Z0). unfold value. destruct x as [n ds]; cbn [pl_digits pl_neg] in *.
  destruct ds as [|d0 [|d1 [|d2 r]]].
  - rewrite Z0 by reflexivity. cbn [mag]. split; reflexivity.
  - inversion Ok as [|? ? H0 _]; subst. unfold digit_ok in H0. change (2 ^ SHIFT) with 1073741824 in H0.
    cbn [last] in La. cbn [mag]. change (2 ^ SHIFT) with 1073741824. lia.
  - inversion Ok as [|? ? H0 Ok1]; subst. inversion Ok1 as [|? ? H1 _]; subst.
    unfold digit_ok in H0, H1. change (2 ^ SHIFT) with 1073741824 in *.
    cbn [last] in La. cbn [mag]. change (2 ^ SHIFT) with 1073741824. lia.
  - pose proof (mag_ge SHIFT (d0 :: d1 :: d2 :: r) ltac:(unfold SHIFT; lia) Ok ltac:(discriminate) La) as G.
    inversion Ok as [|? ? H0 _]; subst. unfold digit_ok in H0. change (2 ^ SHIFT) with 1073741824 in H0.
    split; [exact H0|].
    eapply Z.le_trans; [|exact G]. rewrite <- p60. apply Z.pow_le_mono_r; [lia|].
    cbn [length]. unfold SHIFT. lia.
Qed.

Lemma value_mag x : value SHIFT x = if pl_neg x then - mag SHIFT (pl_digits x) else mag SHIFT (pl_digits x).
Proof. reflexivity. Qed.

(* ---- the size switch ---- *)
Lemma guards_34 o : guard_long o 3 = false /\ guard_llong o 3 = false
  /\ guard_long o 4 = false /\ guard_llong o 4 = false.
Proof. destruct o; vm_compute; repeat split. Qed.

Lemma guards_2 o : guard_long o 2 = negb (is_mul o) /\ (is_mul o = true -> guard_llong o 2 = false).
Proof. destruct o; vm_compute; split; congruence. Qed.

Definition small_enough (o : op) (x : pylong) : bool :=
  match pl_digits x with
  | [_] => true
  | [_; _] => negb (is_mul o)
  | _ => false
  end.

Lemma unpack_spec o x kl kll big : wf SHIFT x ->
  unpack o x kl kll big = if small_enough o x then kl (value SHIFT x) else big.
Proof.
  intros W. pose proof (wf_digits x W) as D. destruct W as (Ok & La & Z0).
  unfold unpack, small_enough, unpack_join, join_c, rd, is_pos, is_zero, ndigits, digit.
  rewrite value_mag.
  destruct x as [n ds]; cbn [pl_digits pl_neg] in *.
  destruct ds as [|d0 [|d1 [|d2 [|d3 [|d4 r]]]]].
  - reflexivity.
  - destruct D as [Hd E]. rewrite E.
    change (Z.of_nat (length [d0])) with 1. change (1 =? 1) with true. change (1 =? 0) with false.
    change (Z.of_nat 0 <? Z.max 1 1) with true. cbv iota beta. cbn [nth negb andb].
    destruct n; cbn [negb andb].
    + rewrite ckl_ok by lia. f_equal. lia.
    + reflexivity.
  - destruct D as (H0 & H1 & E). rewrite E.
    change (Z.of_nat (length [d0; d1])) with 2. change (2 =? 1) with false. change (2 =? 0) with false.
    change (Z.of_nat 2) with 2. change (2 =? 2) with true. cbv iota beta zeta. cbn [andb negb].
    destruct (guards_2 o) as [G1 G2]. rewrite G1.
    destruct (is_mul o) eqn:Em; cbn [negb].
    + rewrite (G2 eq_refl). change (Z.of_nat 3) with 3. change (Z.of_nat 4) with 4.
      change (2 =? 3) with false. change (2 =? 4) with false. reflexivity.
    + change (firstn 2 [d0; d1]) with [d0; d1].
      rewrite joinl_c_exact; [| unfold SHIFT; lia | lia | exact Ok | cbn [length]; unfold SHIFT; lia].
      cbn [mag]. change (2 ^ SHIFT) with 1073741824. rewrite Z.mul_0_r, Z.add_0_r.
      rewrite wrap_id by (try lia; apply in_range64; lia).
      destruct n; cbn [negb andb].
      * rewrite ckl_ok by lia. f_equal. lia.
      * reflexivity.
  - destruct (guards_34 o) as (G1 & G2 & G3 & G4).
    change (Z.of_nat (length [d0; d1; d2])) with 3. change (Z.of_nat 2) with 2. change (Z.of_nat 3) with 3.
    change (Z.of_nat 4) with 4. change (3 =? 1) with false. change (3 =? 2) with false.
    change (3 =? 3) with true. change (3 =? 4) with false. cbv iota beta zeta. cbn [andb].
    rewrite G1, G2. reflexivity.
  - destruct (guards_34 o) as (G1 & G2 & G3 & G4).
    change (Z.of_nat (length [d0; d1; d2; d3])) with 4. change (Z.of_nat 2) with 2. change (Z.of_nat 3) with 3.
    change (Z.of_nat 4) with 4. change (4 =? 1) with false. change (4 =? 2) with false.
    change (4 =? 3) with false. change (4 =? 4) with true. cbv iota beta zeta. cbn [andb].
    rewrite G3, G4. reflexivity.
  - cbn [length].
    change (Z.of_nat 2) with 2. change (Z.of_nat 3) with 3. change (Z.of_nat 4) with 4.
    rewrite !Nat2Z.inj_succ.
    set (L := Z.of_nat (length r)). assert (0 <= L) by (subst L; lia).
    destruct (Z.eqb_spec (Z.succ (Z.succ (Z.succ (Z.succ (Z.succ L))))) 1); [lia|].
    destruct (Z.eqb_spec (Z.succ (Z.succ (Z.succ (Z.succ (Z.succ L))))) 2); [lia|].
    destruct (Z.eqb_spec (Z.succ (Z.succ (Z.succ (Z.succ (Z.succ L))))) 3); [lia|].
    destruct (Z.eqb_spec (Z.succ (Z.succ (Z.succ (Z.succ (Z.succ L))))) 4); [lia|].
    reflexivity.
Qed.

(* ---- floor division / modulo as written in the helper (same text as CMath.c DivInt/ModInt) ---- *)
Lemma ckl_inb v k : in_rangeb 64 true v = true -> ckl v k = k v.
Proof. intros H. unfold ckl. rewrite H. reflexivity. Qed.

Lemma div_ub_false a b : b <> 0 -> ~ (a = min_int 64 true /\ b = -1) ->
  (b =? 0) || ((a =? min_int 64 true) && (b =? -1)) = false /\ div_ub 64 true a b = false.
Proof. intros H1 H2. unfold div_ub. split.
  - destruct (Z.eqb_spec b 0); [lia|]. destruct (Z.eqb_spec a (min_int 64 true)); destruct (Z.eqb_spec b (-1)); cbn; tauto.
  - destruct (Z.eqb_spec b 0); [lia|]. destruct (Z.eqb_spec a (min_int 64 true)); destruct (Z.eqb_spec b (-1)); cbn; tauto.
Qed.

Lemma c_div_py_ok a b : in_range 64 true a -> in_range 64 true b -> b <> 0 ->
  ~ (a = min_int 64 true /\ b = -1) -> c_div_py a b = RInt (a / b).
Proof.
  intros Ha Hb Hb0 Hm. destruct (div_ub_false a b Hb0 Hm) as [E1 E2].
  unfold c_div_py. rewrite E1.
  pose proof (no_overflow_div 64 true false a b ltac:(lia) Ha Hb E2) as Hno.
  unfold div_int_no_overflow in Hno. rewrite !andb_true_iff in Hno.
  destruct Hno as (((Hq & Hqb) & Hr) & Hres).
  rewrite (ckl_inb _ _ Hq). rewrite (ckl_inb _ _ Hqb). rewrite (ckl_inb _ _ Hr). rewrite (ckl_inb _ _ Hres).
  f_equal. rewrite adapt_python_adj.
  destruct (floor_from_trunc a b Hb0) as [Ed _].
  replace (a - Z.quot a b * b) with (Z.rem a b) by (pose proof (Z.quot_rem' a b); lia).
  lia.
Qed.

Lemma c_mod_py_ok a b : in_range 64 true a -> in_range 64 true b -> b <> 0 ->
  ~ (a = min_int 64 true /\ b = -1) -> c_mod_py a b = RInt (a mod b).
Proof.
  intros Ha Hb Hb0 Hm. destruct (div_ub_false a b Hb0 Hm) as [E1 E2].
  unfold c_mod_py. rewrite E1.
  pose proof (no_overflow_mod 64 true false a b ltac:(lia) Ha Hb E2) as Hno.
  unfold mod_int_no_overflow in Hno. rewrite !andb_true_iff in Hno.
  destruct Hno as ((Hr & Hab) & Hres).
  rewrite (ckl_inb _ _ Hr). rewrite (ckl_inb _ _ Hab). rewrite (ckl_inb _ _ Hres).
  f_equal. rewrite adapt_python_adj.
  destruct (floor_from_trunc a b Hb0) as [_ Em]. lia.
Qed.

(* ---- the Lshift overflow re-check ---- *)
Lemma shl_check a b : 0 <= b < 64 ->
  Z.shiftr (wrap 64 true (a * 2 ^ b)) b = a -> wrap 64 true (a * 2 ^ b) = a * 2 ^ b.
Proof.
  intros Hb E. rewrite Z.shiftr_div_pow2 in E by lia.
  pose proof (wrap_congr 64 true (a * 2 ^ b) ltac:(lia)) as C.
  assert (P : 0 < 2 ^ b) by (apply Z.pow_pos_nonneg; lia).
  assert (P63 : 2 ^ b <= 2 ^ 63) by (apply Z.pow_le_mono_r; lia).
  rewrite p63 in P63. rewrite p64 in C.
  set (x := wrap 64 true (a * 2 ^ b)) in *. set (Pb := 2 ^ b) in *.
  pose proof (Z.div_mod x Pb ltac:(lia)) as DM. pose proof (Z.mod_pos_bound x Pb P) as MB.
  rewrite E in DM.
  apply Z.mod_divide in C; [|lia]. destruct C as [k Hk].
  assert (k = 0) by nia. subst k. lia.
Qed.

Lemma shiftr_shl_exact a b : 0 <= b -> Z.shiftr (a * 2 ^ b) b = a.
Proof. intros Hb. rewrite Z.shiftr_div_pow2 by lia. apply Z.div_mul.
  assert (0 < 2 ^ b) by (apply Z.pow_pos_nonneg; lia). lia. Qed.

(* ---- calculate_long / calculate_long_long on an unpacked value ---- *)
Ltac tok H := cbv beta iota delta [template_ok c_small] in H; change (2 ^ 30) with 1073741824 in H.
Ltac r64 := apply in_range64; lia.
Ltac nomin := change (min_int 64 true) with (-9223372036854775808); lia.

Lemma calc_long_correct o ord c v x :
  template_ok o ord c = true -> o <> OpEq -> o <> OpNe ->
  -1152921504606846976 < v < 1152921504606846976 ->
  (is_mul o = true -> -1073741824 < v < 1073741824) ->
  v <> 0 ->
  calc_long o x v (fst (operands ord c v)) (snd (operands ord c v)) = RFallback
  \/ calc_long o x v (fst (operands ord c v)) (snd (operands ord c v)) = py_binop o ord c v.
Proof.
  intros T NE1 NE2 Hv Hmul Hv0.
  destruct o; try congruence; destruct ord; tok T; try (exfalso; lia);
    cbn [operands fst snd]; unfold calc_long, calc_llong, py_binop; cbn [operands].
  - (* Add *) right. rewrite ckl_ok by lia. reflexivity.
  - right. rewrite ckl_ok by lia. reflexivity.
  - (* Subtract *) right. rewrite ckl_ok by lia. reflexivity.
  - right. rewrite ckl_ok by lia. reflexivity.
  - (* Multiply *) specialize (Hmul eq_refl). right. rewrite ckl_ok by nia. reflexivity.
  - specialize (Hmul eq_refl). right. rewrite ckl_ok by nia. reflexivity.
  - (* Remainder *) right. rewrite c_mod_py_ok; [| r64 | r64 | lia | nomin].
    destruct (Z.eqb_spec c 0); [lia | reflexivity].
  - right. rewrite c_mod_py_ok; [| r64 | r64 | lia | nomin].
    destruct (Z.eqb_spec v 0); [lia | reflexivity].
  - (* FloorDivide *) right. rewrite c_div_py_ok; [| r64 | r64 | lia | nomin].
    destruct (Z.eqb_spec c 0); [lia | reflexivity].
  - right. rewrite c_div_py_ok; [| r64 | r64 | lia | nomin].
    destruct (Z.eqb_spec v 0); [lia | reflexivity].
  - (* TrueDivide *) change (LONG_BITS <=? 53) with false. cbv iota. rewrite ckl_ok by lia.
    destruct ((Z.abs v <=? 2 ^ 53) || (ndigits x <=? 52 / SHIFT)); [right | left; reflexivity].
    destruct (Z.eqb_spec c 0); [lia | reflexivity].
  - change (LONG_BITS <=? 53) with false. cbv iota. rewrite ckl_ok by lia.
    destruct ((Z.abs v <=? 2 ^ 53) || (ndigits x <=? 52 / SHIFT)); [right | left; reflexivity].
    destruct (Z.eqb_spec v 0); [lia | reflexivity].
  - (* And *) right. reflexivity.
  - right. reflexivity.
  - (* Or *) right. reflexivity.
  - right. reflexivity.
  - (* Xor *) right. reflexivity.
  - right. reflexivity.
  - (* Lshift, ObjC *)
    change LONG_BITS with 64. unfold c_shl, c_shr.
    replace ((0 <=? c) && (c <? 64)) with true by lia. replace (c <? 64) with true by lia.
    set (xx := wrap 64 true (v * 2 ^ c)).
    destruct (Z.eqb_spec v (Z.shiftr xx c)) as [E|E].
    + right. f_equal. rewrite Z.shiftl_mul_pow2 by lia. apply shl_check; [lia | symmetry; exact E].
    + left. destruct (Z.eqb_spec v 0); [lia|]. cbn [negb]. reflexivity.
  - (* Rshift, ObjC *)
    change LONG_BITS with 64. unfold c_shr.
    replace (c >=? 64) with false by lia. replace ((0 <=? c) && (c <? 64)) with true by lia.
    right. reflexivity.
Qed.

(* ---- the single-digit `&` shortcut ---- *)
Lemma land_low c v : Z.land c MASK = c -> Z.land c v = Z.land c (v mod 2 ^ 30).
Proof.
  intros H. rewrite <- H at 1. rewrite <- Z.land_assoc. rewrite (Z.land_comm MASK v).
  rewrite mask_ones, Z.land_ones by lia. reflexivity.
Qed.

Lemma mod_low d m : 0 <= d < 1073741824 -> (d + 1073741824 * m) mod 2 ^ 30 = d.
Proof. intros H. rewrite p30. rewrite (Z.mul_comm 1073741824 m), Z_mod_plus_full. apply Z.mod_small. lia. Qed.

Lemma mod_low_neg d m : (- (d + 1073741824 * m)) mod 2 ^ 30 = (MASK - d + 1) mod 2 ^ 30.
Proof. rewrite p30, mask_val.
  replace (- (d + 1073741824 * m)) with ((1073741823 - d + 1) + (- m - 1) * 1073741824) by ring.
  apply Z_mod_plus_full. Qed.

Lemma value_nonzero_shape x : wf SHIFT x -> pl_digits x <> [] ->
  exists d0 r, pl_digits x = d0 :: r /\ 0 <= d0 < 1073741824
    /\ mag SHIFT (pl_digits x) = d0 + 1073741824 * mag SHIFT r /\ 0 < mag SHIFT (pl_digits x).
Proof.
  intros W Hne. pose proof W as (Ok & La & _).
  destruct (pl_digits x) as [|d0 r] eqn:E; [congruence|].
  exists d0, r. split; [reflexivity|].
  inversion Ok as [|? ? H0 _]; subst. unfold digit_ok in H0. change (2 ^ SHIFT) with 1073741824 in H0.
  split; [exact H0|]. split; [reflexivity|].
  apply mag_pos; [unfold SHIFT; lia | exact Ok | discriminate | exact La].
Qed.

Lemma let_pair {A} (p : Z * Z) (f : Z -> Z -> A) : (let '(a, b) := p in f a b) = f (fst p) (snd p).
Proof. destruct p; reflexivity. Qed.

Lemma fast_general_correct o ord c x :
  template_ok o ord c = true -> o <> OpEq -> o <> OpNe -> wf SHIFT x -> pl_digits x <> [] ->
  fast_general o ord c x = RFallback \/ fast_general o ord c x = py_binop o ord c (value SHIFT x).
Proof.
  intros T N1 N2 W Hne. unfold fast_general. rewrite unpack_spec by exact W.
  destruct (small_enough o x) eqn:Es; [|left; reflexivity].
  rewrite let_pair.
  pose proof (wf_digits x W) as D. unfold small_enough in Es. rewrite value_mag.
  destruct (pl_digits x) as [|d0 [|d1 [|d2 r]]]; try discriminate.
  - destruct D as [H0 E]. rewrite E.
    apply calc_long_correct; try assumption; destruct (pl_neg x); lia.
  - destruct D as (H0 & H1 & E). rewrite E.
    apply calc_long_correct; try assumption; try (destruct (pl_neg x); lia).
Qed.

Lemma after_zero_correct o ord c x :
  template_ok o ord c = true -> o <> OpEq -> o <> OpNe -> wf SHIFT x -> pl_digits x <> [] ->
  after_zero o ord c x = RFallback \/ after_zero o ord c x = py_binop o ord c (value SHIFT x).
Proof.
  intros T N1 N2 W Hne.
  assert (G := fast_general_correct o ord c x T N1 N2 W Hne).
  destruct o; try exact G. unfold after_zero.
  destruct (Z.eqb_spec (Z.land c MASK) c) as [Hc|_]; [|exact G]. clear G. right.
  destruct (value_nonzero_shape x W Hne) as (d0 & r & Ed & Hd0 & Em & Hpos).
  unfold rd. replace (Z.of_nat 0 <? Z.max 1 (ndigits x)) with true by (unfold ndigits; lia).
  unfold digit. rewrite Ed. cbn [nth].
  unfold is_pos, is_zero, ndigits. rewrite Ed. cbn [length]. rewrite Nat2Z.inj_succ.
  replace (Z.succ (Z.of_nat (length r)) =? 0) with false by lia. cbn [negb]. rewrite andb_true_r.
  unfold py_binop. rewrite value_mag. rewrite Ed in Em. rewrite Ed.
  destruct (pl_neg x); cbn [negb].
  - rewrite mask_val. rewrite ckl_ok by lia. rewrite ckl_ok by lia. rewrite <- mask_val.
    rewrite Em. destruct ord; cbn [operands]; f_equal.
    + rewrite (Z.land_comm _ c). rewrite (land_low c (- _)) by exact Hc. rewrite (land_low c (MASK - _ + _)) by exact Hc.
      rewrite mod_low_neg. reflexivity.
    + rewrite (land_low c (- _)) by exact Hc. rewrite (land_low c (MASK - _ + _)) by exact Hc.
      rewrite mod_low_neg. reflexivity.
  - rewrite Em. destruct ord; cbn [operands]; f_equal.
    + rewrite (Z.land_comm _ c). rewrite (land_low c (_ + _)) by exact Hc. rewrite mod_low by exact Hd0. reflexivity.
    + rewrite (land_low c (_ + _)) by exact Hc. rewrite mod_low by exact Hd0. reflexivity.
Qed.

Lemma after_zero_of_zero o ord c x : wf SHIFT x -> pl_digits x = [] -> o <> OpAnd ->
  after_zero o ord c x = RFallback.
Proof.
  intros W E N. assert (F : fast_general o ord c x = RFallback).
  { unfold fast_general. rewrite unpack_spec by exact W. unfold small_enough. rewrite E. reflexivity. }
  destruct o; try exact F. congruence.
Qed.

(* ---- the whole helper, arithmetic operators ---- *)
Lemma unpacked_correct o ord zc c x :
  template_ok o ord c = true -> o <> OpEq -> o <> OpNe -> wf SHIFT x ->
  unpacked o ord zc c x = RFallback \/ unpacked o ord zc c x = py_binop o ord c (value SHIFT x).
Proof.
  intros T N1 N2 W. unfold unpacked.
  destruct (pl_digits x) as [|d0 r] eqn:Ed.
  - assert (Z : is_zero x = true) by (unfold is_zero, ndigits; rewrite Ed; reflexivity).
    rewrite Z. pose proof (wf_digits x W) as D. rewrite Ed in D. destruct D as [Hv _].
    rewrite Hv.
    destruct o; try congruence; destruct ord; tok T; try (exfalso; lia);
      try (rewrite after_zero_of_zero by (assumption || discriminate); left; reflexivity);
      try (destruct zc; [right; unfold py_binop; cbn [operands]; reflexivity
                        | rewrite after_zero_of_zero by (assumption || discriminate); left; reflexivity]);
      right; unfold py_binop; cbn [operands];
      rewrite ?ckl_ok by lia;
      rewrite ?Z.land_0_l, ?Z.land_0_r, ?Z.lor_0_l, ?Z.lor_0_r, ?Z.lxor_0_l, ?Z.lxor_0_r,
        ?Z.shiftl_0_l, ?Z.shiftr_0_l, ?Z.mod_0_l, ?Z.div_0_l by lia;
      try (destruct (Z.eqb_spec c 0); [lia|]);
      try reflexivity; f_equal; lia.
  - assert (Z : is_zero x = false).
    { unfold is_zero, ndigits. rewrite Ed. cbn [length]. lia. }
    rewrite Z. apply after_zero_correct; try assumption. rewrite Ed. discriminate.
Qed.

(* ---- PyLongCompare ---- *)
Lemma wf_digits3 x : wf SHIFT x ->
  match pl_digits x with
  | [d0; d1; d2] => 0 <= d0 < 1073741824 /\ 0 <= d1 < 1073741824 /\ 0 < d2 < 1073741824
       /\ mag SHIFT (pl_digits x) = d0 + 1073741824 * d1 + 1152921504606846976 * d2
  | _ :: _ :: _ :: _ :: _ => 1237940039285380274899124224 <= mag SHIFT (pl_digits x)
  | _ => True
  end.
Proof.
  intros (Ok & La & Z0). destruct (pl_digits x) as [|d0 [|d1 [|d2 [|d3 r]]]]; try exact I.
  - inversion Ok as [|? ? H0 Ok1]; subst. inversion Ok1 as [|? ? H1 Ok2]; subst.
    inversion Ok2 as [|? ? H2 _]; subst. unfold digit_ok in *. change (2 ^ SHIFT) with 1073741824 in *.
    cbn [last] in La. cbn [mag]. change (2 ^ SHIFT) with 1073741824. lia.
  - pose proof (mag_ge SHIFT (d0 :: d1 :: d2 :: d3 :: r) ltac:(unfold SHIFT; lia) Ok ltac:(discriminate) La) as G.
    eapply Z.le_trans; [|exact G]. rewrite <- p90. apply Z.pow_le_mono_r; [lia|].
    cbn [length]. unfold SHIFT. lia.
Qed.

Lemma land_mask v : Z.land v MASK = v mod 1073741824.
Proof. rewrite mask_ones, Z.land_ones by lia. reflexivity. Qed.

Section Euclid.
Local Ltac Zify.zify_post_hook ::= Z.to_euclidean_division_equations.

Lemma cmp_digitwise_spec ne x u : wf SHIFT x -> 0 < u < 9223372036854775808 ->
  cmp_digitwise ne x u = cmp_ret ne (negb (mag SHIFT (pl_digits x) =? u)).
Proof.
  intros W Hu. pose proof (wf_digits x W) as D. pose proof (wf_digits3 x W) as D3.
  unfold cmp_digitwise, dne, rd, digit, ndigits.
  rewrite (wrap_id 64 false u) by (try lia; unfold in_range; change (min_int 64 false) with 0;
    change (max_int 64 false) with 18446744073709551615; lia).
  cbv zeta. change (SHIFT * 2) with 60. change (SHIFT * 1) with 30.
  change (Z.of_nat 0 * SHIFT) with 0. change (Z.of_nat 1 * SHIFT) with 30. change (Z.of_nat 2 * SHIFT) with 60.
  change (Z.of_nat 0) with 0. change (Z.of_nat 1) with 1. change (Z.of_nat 2) with 2.
  rewrite !land_mask. rewrite !Z.shiftr_div_pow2 by lia. rewrite p30, p60. rewrite Z.pow_0_r, Z.div_1_r.
  destruct (pl_digits x) as [|d0 [|d1 [|d2 [|d3 r]]]].
  - cbn [length mag]. change (Z.of_nat 0) with 0.
    change (0 =? 3) with false. change (0 =? 2) with false. change (0 =? 1) with false. cbn [negb].
    replace (0 =? u) with false by lia. cbn [negb].
    destruct (u / 1152921504606846976 =? 0); cbn [negb]; [destruct (u / 1073741824 =? 0)|]; reflexivity.
  - destruct D as [H0 E]. rewrite E. cbn [length nth]. change (Z.of_nat 1) with 1.
    change (1 =? 3) with false. change (1 =? 2) with false. change (1 =? 1) with true. cbn [negb].
    change (0 <? Z.max 1 1) with true. cbv iota beta.
    destruct (Z.eqb_spec (u / 1152921504606846976) 0); cbn [negb].
    + destruct (Z.eqb_spec (u / 1073741824) 0); cbn [negb]; f_equal; lia.
    + f_equal. lia.
  - destruct D as (H0 & H1 & E). rewrite E. cbn [length nth]. change (Z.of_nat 2) with 2.
    change (2 =? 3) with false. change (2 =? 2) with true. change (2 =? 1) with false. cbn [negb].
    change (0 <? Z.max 1 2) with true. change (1 <? Z.max 1 2) with true. cbv iota beta.
    destruct (Z.eqb_spec (u / 1152921504606846976) 0); cbn [negb].
    + destruct (Z.eqb_spec (u / 1073741824) 0); cbn [negb]; f_equal; lia.
    + f_equal. lia.
  - destruct D3 as (H0 & H1 & H2 & E). rewrite E. cbn [length nth]. change (Z.of_nat 3) with 3.
    change (3 =? 3) with true. change (3 =? 2) with false. change (3 =? 1) with false. cbn [negb].
    change (0 <? Z.max 1 3) with true. change (1 <? Z.max 1 3) with true. change (2 <? Z.max 1 3) with true.
    cbv iota beta.
    destruct (Z.eqb_spec (u / 1152921504606846976) 0); cbn [negb].
    + destruct (Z.eqb_spec (u / 1073741824) 0); cbn [negb]; f_equal; lia.
    + f_equal. lia.
  - cbn [length]. rewrite !Nat2Z.inj_succ. set (L := Z.of_nat (length r)). assert (0 <= L) by (subst L; lia).
    set (M := mag SHIFT (d0 :: d1 :: d2 :: d3 :: r)) in *.
    replace (Z.succ (Z.succ (Z.succ (Z.succ L))) =? 3) with false by lia.
    replace (Z.succ (Z.succ (Z.succ (Z.succ L))) =? 2) with false by lia.
    replace (Z.succ (Z.succ (Z.succ (Z.succ L))) =? 1) with false by lia. cbn [negb].
    replace (M =? u) with false by lia. cbn [negb].
    destruct (u / 1152921504606846976 =? 0); cbn [negb]; [destruct (u / 1073741824 =? 0)|]; reflexivity.
Qed.
End Euclid.

Lemma is_zero_spec x : wf SHIFT x -> is_zero x = (value SHIFT x =? 0).
Proof.
  intros W. unfold is_zero, ndigits. destruct (pl_digits x) as [|d0 r] eqn:E.
  - pose proof (wf_digits x W) as D. rewrite E in D. destruct D as [Hv _]. rewrite Hv. reflexivity.
  - destruct (value_nonzero_shape x W ltac:(rewrite E; discriminate)) as (_ & _ & _ & _ & _ & Hpos).
    rewrite value_mag. cbn [length]. destruct (pl_neg x); lia.
Qed.

Theorem compare_correct ne c x : wf SHIFT x ->
  -9223372036854775808 < c < 9223372036854775808 ->
  compare ne c x = RBool (if ne then negb (value SHIFT x =? c) else (value SHIFT x =? c)).
Proof.
  intros W Hc. unfold compare, is_neg.
  destruct (value_sign SHIFT x ltac:(unfold SHIFT; lia) W) as [Sn Sp].
  assert (Mn : 0 <= mag SHIFT (pl_digits x)) by (apply mag_nonneg; apply W).
  destruct (Z.eqb_spec c 0) as [->|Hc0].
  - rewrite is_zero_spec by exact W. unfold cmp_ret. destruct ne; [reflexivity|]. rewrite negb_involutive. reflexivity.
  - destruct (Z.ltb_spec c 0) as [Hneg|Hpos].
    + destruct (pl_neg x) eqn:En; cbn [negb].
      * rewrite ckl_ok by lia. rewrite cmp_digitwise_spec by (try exact W; lia).
        unfold cmp_ret. rewrite value_mag, En.
        replace (mag SHIFT (pl_digits x) =? - c) with (- mag SHIFT (pl_digits x) =? c) by lia.
        destruct ne; [reflexivity|]. rewrite negb_involutive. reflexivity.
      * specialize (Sp eq_refl). unfold cmp_ret. replace (value SHIFT x =? c) with false by lia.
        destruct ne; reflexivity.
    + destruct (pl_neg x) eqn:En.
      * specialize (Sn eq_refl). unfold cmp_ret. replace (value SHIFT x =? c) with false by lia.
        destruct ne; reflexivity.
      * rewrite cmp_digitwise_spec by (try exact W; lia). unfold cmp_ret. rewrite value_mag, En.
        destruct ne; [reflexivity|]. rewrite negb_involutive. reflexivity.
Qed.

(* ---- main theorem ---- *)
Theorem binop_correct o ord zc c x :
  template_ok o ord c = true -> wf SHIFT x ->
  binop o ord zc c x = RFallback \/ binop o ord zc c x = py_binop o ord c (value SHIFT x).
Proof.
  intros T W.
  assert (Cmp : forall ne, c_small c = true ->
            compare ne c x = RBool (if ne then negb (value SHIFT x =? c) else (value SHIFT x =? c))).
  { intros ne Hs. apply compare_correct; [exact W|]. unfold c_small in Hs. change (2 ^ 30) with 1073741824 in Hs. lia. }
  destruct o; try (apply unpacked_correct; [exact T | discriminate | discriminate | exact W]).
  - right. unfold binop. rewrite Cmp by (destruct ord; tok T; unfold c_small; change (2 ^ 30) with 1073741824; lia).
    unfold py_binop. destruct ord; cbn [operands]; [reflexivity | rewrite Z.eqb_sym; reflexivity].
  - right. unfold binop. rewrite Cmp by (destruct ord; tok T; unfold c_small; change (2 ^ 30) with 1073741824; lia).
    unfold py_binop. destruct ord; cbn [operands]; [reflexivity | rewrite Z.eqb_sym; reflexivity].
Qed.

Lemma accepts_template_ok o ord c : accepts o ord c = true -> template_ok o ord c = true.
Proof. unfold accepts, template_ok. destruct o, ord; intros H; try exact H; lia. Qed.

Lemma py_binop_not_ub o ord c v : py_binop o ord c v <> RUB.
Proof. unfold py_binop. destruct ord; cbn [operands]; destruct o; try discriminate;
  match goal with |- (if ?b then _ else _) <> _ => destruct b; discriminate end. Qed.

Theorem fast_path_correct o ord zc c x : accepts o ord c = true -> wf SHIFT x ->
  forall r, binop o ord zc c x = r -> r <> RFallback -> r = py_binop o ord c (value SHIFT x).
Proof.
  intros A W r E N. destruct (binop_correct o ord zc c x (accepts_template_ok _ _ _ A) W) as [F|F]; congruence.
Qed.

Theorem fast_path_ub_free o ord zc c x : template_ok o ord c = true -> wf SHIFT x ->
  binop o ord zc c x <> RUB.
Proof.
  intros T W. destruct (binop_correct o ord zc c x T W) as [F|F]; rewrite F; [discriminate | apply py_binop_not_ub].
Qed.

(* Eq / Ne never defer and are right for every constant that fits a long (except LONG_MIN,
   whose negation `intval = -intval` would overflow) *)
Theorem compare_decides c x : wf SHIFT x -> -9223372036854775808 < c < 9223372036854775808 ->
  forall ord zc, binop OpEq ord zc c x = RBool (value SHIFT x =? c)
              /\ binop OpNe ord zc c x = RBool (negb (value SHIFT x =? c)).
Proof. intros W Hc ord zc. unfold binop. rewrite !compare_correct by assumption. split; reflexivity. Qed.

(* ---- ZeroDivisionError ---- *)
Lemma value_zero_digits x : wf SHIFT x -> value SHIFT x = 0 -> pl_digits x = [].
Proof.
  intros W Hv. destruct (pl_digits x) as [|d0 r] eqn:E; [reflexivity|].
  destruct (value_nonzero_shape x W ltac:(rewrite E; discriminate)) as (_ & _ & _ & _ & _ & Hpos).
  rewrite value_mag in Hv. destruct (pl_neg x); lia.
Qed.

Theorem zerodiv_exact o ord c x : template_ok o ord c = true -> wf SHIFT x ->
  (binop o ord true c x = RZeroDiv <-> is_div o = true /\ snd (operands ord c (value SHIFT x)) = 0).
Proof.
  intros T W. split.
  - intros E. destruct (binop_correct o ord true c x T W) as [F|F]; [congruence|].
    rewrite E in F. unfold py_binop in F. destruct ord; cbn [operands snd] in *;
      destruct o; try discriminate; cbn [is_div];
      match type of F with _ = (if ?b =? 0 then _ else _) => destruct (Z.eqb_spec b 0); [tauto | discriminate] end.
  - intros [Hd Hz]. destruct ord; cbn [operands snd] in Hz.
    + exfalso. destruct o; try discriminate; tok T; lia.
    + pose proof (value_zero_digits x W Hz) as Ed.
      assert (Z : is_zero x = true) by (unfold is_zero, ndigits; rewrite Ed; reflexivity).
      destruct o; try discriminate; unfold binop, unpacked; rewrite Z; reflexivity.
Qed.

(* ---- true division ---- *)
Definition double_exact (v : Z) : Prop :=
  exists m e, v = m * 2 ^ e /\ Z.abs m < 2 ^ 53 /\ 0 <= e <= 971.

Lemma double_exact_small v : Z.abs v <= 2 ^ 53 -> double_exact v.
Proof.
  intros H. rewrite p53 in H. unfold double_exact. rewrite p53.
  destruct (Z.eqb_spec (Z.abs v) 9007199254740992) as [E|E].
  - exists (v / 2), 1. change (2 ^ 1) with 2.
    assert (v = 9007199254740992 \/ v = -9007199254740992) as [-> | ->] by lia; cbn; lia.
  - exists v, 0. rewrite Z.pow_0_r. lia.
Qed.

Theorem truediv_exact ord zc c x a b : template_ok OpTrueDivide ord c = true -> wf SHIFT x ->
  binop OpTrueDivide ord zc c x = RFloatDiv a b ->
  (a, b) = operands ord c (value SHIFT x) /\ b <> 0
  /\ Z.abs a <= 2 ^ 53 /\ Z.abs b <= 2 ^ 53 /\ double_exact a /\ double_exact b.
Proof.
  intros T W E.
  assert (Hc : Z.abs c <= 1073741824 /\ (ord = ObjC -> c <> 0)) by (destruct ord; tok T; split; try lia; discriminate).
  assert (G : (a, b) = operands ord c (value SHIFT x) /\ b <> 0 /\ Z.abs a <= 2 ^ 53 /\ Z.abs b <= 2 ^ 53);
    [| destruct G as (G1 & G2 & G3 & G4); repeat split; auto using double_exact_small ].
  unfold binop, unpacked in E.
  destruct (pl_digits x) as [|d0 r] eqn:Ed.
  - assert (Z : is_zero x = true) by (unfold is_zero, ndigits; rewrite Ed; reflexivity).
    rewrite Z in E. destruct ord; [| destruct zc; [discriminate|]];
      rewrite after_zero_of_zero in E by (assumption || discriminate); discriminate.
  - assert (Z : is_zero x = false) by (unfold is_zero, ndigits; rewrite Ed; cbn [length]; lia).
    rewrite Z in E. unfold after_zero, fast_general in E. rewrite unpack_spec in E by exact W.
    destruct (small_enough OpTrueDivide x) eqn:Es; [|discriminate].
    rewrite let_pair in E. unfold calc_long in E. change (LONG_BITS <=? 53) with false in E. cbv iota in E.
    pose proof (wf_digits x W) as D. unfold small_enough in Es. rewrite Ed in Es, D.
    assert (Hv : Z.abs (value SHIFT x) < 1152921504606846976 /\ value SHIFT x <> 0
                 /\ (ndigits x <= 1 -> Z.abs (value SHIFT x) < 1073741824)).
    { rewrite value_mag. unfold ndigits. rewrite Ed. destruct r as [|d1 [|d2 r']]; try discriminate.
      - destruct D as [H0 Em]. rewrite Em. destruct (pl_neg x); lia.
      - destruct D as (H0 & H1 & Em). rewrite Em. cbn [length]. destruct (pl_neg x); lia. }
    destruct Hv as (Hv1 & Hv0 & Hv2).
    rewrite ckl_ok in E by lia. change (52 / SHIFT) with 1 in E. rewrite p53 in *.
    destruct ((Z.abs (value SHIFT x) <=? 9007199254740992) || (ndigits x <=? 1)) eqn:Ec; [|discriminate].
    injection E as Ea Eb. subst a b.
    destruct ord; cbn [operands fst snd]; repeat split; try lia.
    apply Hc; reflexivity.
Qed.

(* ---- the compile-time restriction of shifts to `x << c` is needed by the C text ---- *)
Theorem cobj_shift_is_ub_without_guard :
  exists c xv, c_small c = true /\ binop_z OpLshift CObj false c xv = RUB.
Proof. exists 3, 64. split; vm_compute; reflexivity. Qed.
