(* Proofs about the LZSS string-table compression model (M_LZSS.v).
   Part A: bit-stream packing and the C decoder are inverse on every valid token stream.
   Part B: the match finder only produces valid tokens that denote the input.
   Part C: round trip, output bytes, selection guard. *)
From Coq Require Import ZArith List Bool Lia ZifyBool ZifyNat FMapPositive.
From CyVerif Require Import Model.M_LZSS.
Import ListNotations.
Open Scope Z_scope.

Definition byte (b : Z) : Prop := 0 <= b < 256.
Definition bytes (l : list Z) : Prop := Forall byte l.

Lemma rev'_rev {A} (l : list A) : rev' l = rev l.
Proof. unfold rev'. now rewrite rev_append_rev, app_nil_r. Qed.

(* ------------------------------------------------------------------ finite enumerations *)
Fixpoint zrange (k : nat) (a : Z) : list Z :=
  match k with O => [] | S k' => a :: zrange k' (a + 1) end.

Lemma zrange_in k : forall a x, a <= x < a + Z.of_nat k -> In x (zrange k a).
Proof.
  induction k as [|k IH]; intros a x H; [lia|].
  cbn [zrange]. destruct (Z.eq_dec x a) as [->|Hne]; [now left|].
  right. apply IH. lia.
Qed.

(* 7-bit end offset *)
Definition k7_ok (eo : Z) : bool := Z.land eo 128 =? 0.
Lemma k7_all : forallb k7_ok (zrange 128 0) = true.
Proof. vm_compute. reflexivity. Qed.
Lemma k7_spec eo : 0 <= eo <= 127 -> Z.land eo 128 = 0.
Proof.
  intros H. pose proof k7_all as A. rewrite forallb_forall in A.
  specialize (A eo (zrange_in 128 0 eo ltac:(lia))). unfold k7_ok in A. lia.
Qed.

(* 9-bit end offset + 5-bit length *)
Definition k9_lo (o : Z) : Z := Z.lor (Z.land o 127) 128.
Definition k9_hi (o lb : Z) : Z := Z.lor (Z.shiftr (Z.land o 384) 2) lb.
Definition k9_ok (o lb : Z) : bool :=
  let lo := k9_lo o in let hi := k9_hi o lb in
  negb (Z.land lo 128 =? 0) && (Z.land hi 128 =? 0)
  && (Z.lor (Z.land (Z.shiftl hi 2) 384) (Z.land lo 127) =? o) && (Z.land hi 31 =? lb)
  && (0 <=? lo) && (lo <? 256) && (0 <=? hi) && (hi <? 256).
Lemma k9_all : forallb (fun o => forallb (k9_ok o) (zrange 32 0)) (zrange 512 0) = true.
Proof. vm_compute. reflexivity. Qed.
Lemma k9_spec o lb : 0 <= o < 512 -> 0 <= lb < 32 -> k9_ok o lb = true.
Proof.
  intros Ho Hl. pose proof k9_all as A. rewrite forallb_forall in A.
  specialize (A o (zrange_in 512 0 o ltac:(lia))). rewrite forallb_forall in A.
  exact (A lb (zrange_in 32 0 lb ltac:(lia))).
Qed.

(* 14-bit end offset *)
Definition k14_lo (o : Z) : Z := Z.lor (Z.land o 127) 128.
Definition k14_hi (o : Z) : Z := Z.lor (Z.land (Z.shiftr o 7) 127) 128.
Definition k14_ok (o : Z) : bool :=
  let lo := k14_lo o in let hi := k14_hi o in
  negb (Z.land lo 128 =? 0) && negb (Z.land hi 128 =? 0)
  && (Z.lor (Z.shiftl (Z.land hi 127) 7) (Z.land lo 127) =? o)
  && (0 <=? lo) && (lo <? 256) && (0 <=? hi) && (hi <? 256).
Lemma k14_all : forallb k14_ok (zrange (Z.to_nat 16384) 0) = true.
Proof. vm_compute. reflexivity. Qed.
Lemma k14_spec o : 0 <= o < 16384 -> k14_ok o = true.
Proof.
  intros Ho. pose proof k14_all as A. rewrite forallb_forall in A.
  apply A. apply zrange_in. lia.
Qed.

(* ------------------------------------------------------------------ encode_match cases *)
Inductive enc_case (eo len : Z) : list Z -> Prop :=
| EC7 : 0 <= eo <= 127 -> 3 <= len -> enc_case eo len [eo; len - 3]
| EC9 : 128 <= eo < 640 -> 3 <= len < 35 ->
        enc_case eo len [k9_lo (eo - 128); k9_hi (eo - 128) (len - 3)]
| EC14 : 128 <= eo < 16512 -> 3 < len ->
        enc_case eo len [k14_lo (eo - 128); k14_hi (eo - 128); len - 3].

Lemma encode_match_cases off len bs :
  encode_match off len = Some bs -> enc_case (off - len) len bs.
Proof.
  unfold encode_match. intros H.
  destruct (Z.ltb_spec len 3) as [H1|H1]; cbn [orb] in H; [discriminate|].
  destruct (Z.ltb_spec (off - len) 0) as [H2|H2]; [discriminate|].
  destruct (Z.leb_spec (off - len) 127) as [H3|H3].
  { injection H as <-. apply EC7; lia. }
  destruct (Z.ltb_spec (len - 3) 32) as [H4|H4]; cbn [andb] in H.
  - destruct (Z.ltb_spec (off - len - 128) 512) as [H5|H5].
    + injection H as <-. apply EC9; lia.
    + destruct (Z.gtb_spec len 3) as [H6|H6]; cbn [andb] in H; [|discriminate].
      destruct (Z.ltb_spec (off - len - 128) 16384) as [H7|H7]; [|discriminate].
      injection H as <-. apply EC14; lia.
  - destruct (Z.gtb_spec len 3) as [H6|H6]; cbn [andb] in H; [|discriminate].
    destruct (Z.ltb_spec (off - len - 128) 16384) as [H7|H7]; [|discriminate].
    injection H as <-. apply EC14; lia.
Qed.

Lemma enc_case_bytes eo len bs : enc_case eo len bs -> len <= 258 -> bytes bs /\ bs <> [].
Proof.
  intros H Hl. destruct H as [H1 H2|H1 H2|H1 H2].
  - split; [|discriminate]. repeat constructor; unfold byte; lia.
  - pose proof (k9_spec (eo - 128) (len - 3) ltac:(lia) ltac:(lia)) as K.
    unfold k9_ok in K. split; [|discriminate]. repeat constructor; unfold byte; lia.
  - pose proof (k14_spec (eo - 128) ltac:(lia)) as K.
    unfold k14_ok in K. split; [|discriminate]. repeat constructor; unfold byte; lia.
Qed.

(* ------------------------------------------------------------------ token streams *)
Definition tok_len (t : token) : Z := match t with TLit _ => 1 | TRef _ len _ => len end.

Definition tok_out (t : token) (outr : list Z) : list Z :=
  match t with
  | TLit b => b :: outr
  | TRef eo len _ => firstn (Z.to_nat len) (skipn (Z.to_nat eo) outr) ++ outr
  end.

(* a token is valid after n output bytes: its bytes are what the encoder cascade produces,
   the length fits one byte, and the referenced range lies inside the output so far *)
Definition valid_tok (n : Z) (t : token) : Prop :=
  match t with
  | TLit _ => True
  | TRef eo len bs => encode_match (eo + len) len = Some bs /\ len <= 258 /\ eo + len <= n
  end.

Fixpoint valid_toks (n : Z) (toks : list token) : Prop :=
  match toks with
  | [] => True
  | t :: r => valid_tok n t /\ valid_toks (n + tok_len t) r
  end.

Fixpoint total_len (toks : list token) : Z :=
  match toks with [] => 0 | t :: r => tok_len t + total_len r end.
Definition gbytes (toks : list token) : list Z := flat_map tok_bytes toks.

Lemma expand_r_cons t r outr : expand_r (t :: r) outr = expand_r r (tok_out t outr).
Proof. destruct t; reflexivity. Qed.

Lemma expand_r_app a : forall b outr, expand_r (a ++ b) outr = expand_r b (expand_r a outr).
Proof.
  induction a as [|t a IH]; intros b outr; [reflexivity|].
  rewrite <- app_comm_cons, !expand_r_cons. apply IH.
Qed.

Lemma valid_tok_case n eo len bs :
  valid_tok n (TRef eo len bs) -> enc_case eo len bs /\ len <= 258 /\ eo + len <= n /\ 0 <= eo /\ 3 <= len.
Proof.
  intros (E & L & N). apply encode_match_cases in E.
  replace (eo + len - len) with eo in E by lia.
  repeat split; try assumption; destruct E; lia.
Qed.

Lemma tok_len_pos n t : valid_tok n t -> 1 <= tok_len t.
Proof.
  destruct t as [b|eo len bs]; cbn [tok_len]; [lia|].
  intros V. apply valid_tok_case in V. lia.
Qed.

Lemma tok_out_length t outr :
  valid_tok (Z.of_nat (length outr)) t ->
  Z.of_nat (length (tok_out t outr)) = Z.of_nat (length outr) + tok_len t.
Proof.
  destruct t as [b|eo len bs]; cbn [tok_out tok_len length]; [lia|].
  intros V. apply valid_tok_case in V. destruct V as (_ & _ & N & E & L).
  rewrite app_length, firstn_length, skipn_length. lia.
Qed.

Lemma valid_toks_app a : forall n b,
  valid_toks n (a ++ b) <-> valid_toks n a /\ valid_toks (n + total_len a) b.
Proof.
  induction a as [|t a IH]; intros n b; cbn [app valid_toks total_len].
  - rewrite Z.add_0_r. tauto.
  - rewrite IH. rewrite Z.add_assoc. tauto.
Qed.

Lemma total_len_app a b : total_len (a ++ b) = total_len a + total_len b.
Proof.
  induction a as [|t a IH]; cbn [app total_len]; [lia|].
  lia.
Qed.

Lemma total_len_nonneg n toks : valid_toks n toks -> 0 <= total_len toks.
Proof.
  revert n. induction toks as [|t r IH]; intros n; cbn [valid_toks total_len]; [lia|].
  intros (V & R). pose proof (tok_len_pos _ _ V). specialize (IH _ R). lia.
Qed.

Lemma total_len_pos n toks : valid_toks n toks -> toks <> [] -> 1 <= total_len toks.
Proof.
  destruct toks as [|t r]; [congruence|]. cbn [valid_toks total_len].
  intros (V & R) _. pose proof (tok_len_pos _ _ V).
  pose proof (total_len_nonneg _ _ R). lia.
Qed.

Lemma expand_r_length toks : forall outr,
  valid_toks (Z.of_nat (length outr)) toks ->
  Z.of_nat (length (expand_r toks outr)) = Z.of_nat (length outr) + total_len toks.
Proof.
  induction toks as [|t r IH]; intros outr; cbn [valid_toks total_len].
  - cbn [expand_r]. lia.
  - intros (V & R). rewrite expand_r_cons.
    rewrite <- (tok_out_length t outr V) in R. rewrite (IH _ R), (tok_out_length t outr V). lia.
Qed.

(* ------------------------------------------------------------------ decoder: one token *)
Lemma dec_tok dst_len t tail fl pos outr :
  valid_tok (Z.of_nat (length outr)) t ->
  Z.land fl 256 <> 0 -> Z.land fl 1 = tok_flag t ->
  Z.of_nat (length outr) + tok_len t <= dst_len ->
  dec dst_len (tok_bytes t ++ tail) fl pos outr (Z.of_nat (length outr)) =
  dec_next dst_len (dec dst_len tail) fl (pos + Z.of_nat (length (tok_bytes t)))
    (tok_out t outr) (Z.of_nat (length outr) + tok_len t).
Proof.
  intros V F8 F0 Hd.
  destruct t as [b|eo len bs]; cbn [tok_bytes tok_flag tok_len tok_out] in *.
  - cbn [app dec length].
    destruct (Z.eqb_spec (Z.land fl 256) 0) as [C|_]; [contradiction|].
    destruct (Z.eqb_spec (Z.land fl 1) 0) as [C|_]; [lia|]. cbn [negb].
    destruct (Z.ltb_spec (Z.of_nat (length outr)) dst_len) as [_|C]; [|lia].
    reflexivity.
  - apply valid_tok_case in V. destruct V as (E & L & N & E0 & L3).
    destruct E as [H1 H2|H1 H2|H1 H2]; cbn [app dec length].
    + destruct (Z.eqb_spec (Z.land fl 256) 0) as [C|_]; [contradiction|].
      destruct (Z.eqb_spec (Z.land fl 1) 0) as [_|C]; [|lia]. cbn [negb].
      rewrite (k7_spec eo H1), Z.eqb_refl.
      unfold dec_copy. replace (len - 3 + 3) with len by lia.
      destruct (Z.ltb_spec (Z.of_nat (length outr)) (eo + len)) as [C|_]; [lia|].
      destruct (Z.ltb_spec dst_len (Z.of_nat (length outr) + len)) as [C|_]; [lia|].
      reflexivity.
    + pose proof (k9_spec (eo - 128) (len - 3) ltac:(lia) ltac:(lia)) as K. unfold k9_ok in K.
      destruct (Z.eqb_spec (Z.land fl 256) 0) as [C|_]; [contradiction|].
      destruct (Z.eqb_spec (Z.land fl 1) 0) as [_|C]; [|lia]. cbn [negb].
      destruct (Z.eqb_spec (Z.land (k9_lo (eo - 128)) 128) 0) as [C|_]; [lia|].
      destruct (Z.eqb_spec (Z.land (k9_hi (eo - 128) (len - 3)) 128) 0) as [_|C]; [|lia].
      replace (Z.lor (Z.land (Z.shiftl (k9_hi (eo - 128) (len - 3)) 2) 384) (Z.land (k9_lo (eo - 128)) 127))
        with (eo - 128) by lia.
      replace (Z.land (k9_hi (eo - 128) (len - 3)) 31) with (len - 3) by lia.
      unfold dec_copy. replace (len - 3 + 3) with len by lia.
      replace (128 + (eo - 128)) with eo by lia.
      destruct (Z.ltb_spec (Z.of_nat (length outr)) (eo + len)) as [C|_]; [lia|].
      destruct (Z.ltb_spec dst_len (Z.of_nat (length outr) + len)) as [C|_]; [lia|].
      reflexivity.
    + pose proof (k14_spec (eo - 128) ltac:(lia)) as K. unfold k14_ok in K.
      destruct (Z.eqb_spec (Z.land fl 256) 0) as [C|_]; [contradiction|].
      destruct (Z.eqb_spec (Z.land fl 1) 0) as [_|C]; [|lia]. cbn [negb].
      destruct (Z.eqb_spec (Z.land (k14_lo (eo - 128)) 128) 0) as [C|_]; [lia|].
      destruct (Z.eqb_spec (Z.land (k14_hi (eo - 128)) 128) 0) as [C|_]; [lia|].
      replace (Z.lor (Z.shiftl (Z.land (k14_hi (eo - 128)) 127) 7) (Z.land (k14_lo (eo - 128)) 127))
        with (eo - 128) by lia.
      unfold dec_copy. replace (len - 3 + 3) with len by lia.
      replace (128 + (eo - 128)) with eo by lia.
      destruct (Z.ltb_spec (Z.of_nat (length outr)) (eo + len)) as [C|_]; [lia|].
      destruct (Z.ltb_spec dst_len (Z.of_nat (length outr) + len)) as [C|_]; [lia|].
      reflexivity.
Qed.

(* ------------------------------------------------------------------ flag bytes *)
Definition F0 : Z := 16711680.
Definition flags_of (fs : list Z) : Z := fold_left (fun f b => flags_upd b f) fs F0.
Definition flag_byte (fs : list Z) : Z := Z.land (pad_flags (flags_of fs)) 255.
Definition shr1 (f : Z) : Z := Z.shiftr f 1.

Fixpoint flags_match (fl : Z) (fs : list Z) : Prop :=
  match fs with
  | [] => True
  | f :: r => Z.land fl 256 <> 0 /\ Z.land fl 1 = f /\ flags_match (shr1 fl) r
  end.

Fixpoint flags_matchb (fl : Z) (fs : list Z) : bool :=
  match fs with
  | [] => true
  | f :: r => negb (Z.land fl 256 =? 0) && (Z.land fl 1 =? f) && flags_matchb (shr1 fl) r
  end.

Lemma flags_matchb_ok fs : forall fl, flags_matchb fl fs = true -> flags_match fl fs.
Proof.
  induction fs as [|f r IH]; intros fl; cbn [flags_matchb flags_match]; [trivial|].
  intros H. apply andb_prop in H. destruct H as (H & H3). apply andb_prop in H. destruct H as (H1 & H2).
  repeat split; [lia|lia|auto].
Qed.

Fixpoint all_fl (k : nat) : list (list Z) :=
  match k with
  | O => [[]]
  | S k' => flat_map (fun l => [0 :: l; 1 :: l]) (all_fl k')
  end.

Definition all01 (fs : list Z) : Prop := Forall (fun f => f = 0 \/ f = 1) fs.

Lemma all_fl_in fs : all01 fs -> In fs (all_fl (length fs)).
Proof.
  induction 1 as [|f r Hf _ IH]; cbn [length all_fl]; [now left|].
  apply in_flat_map. exists r. split; [exact IH|].
  destruct Hf as [->| ->]; cbn; auto.
Qed.

Definition fl_chk (fs : list Z) : bool :=
  (if Nat.ltb (length fs) 8 then 65536 <=? flags_of fs
   else (flags_of fs <? 65536) && (Z.land (flags_of fs) 255 =? flag_byte fs)
        && (Z.land (Nat.iter 8 shr1 (Z.lor (flag_byte fs) 65280)) 256 =? 0))
  && flags_matchb (Z.lor (flag_byte fs) 65280) fs
  && (0 <=? flag_byte fs) && (flag_byte fs <? 256).

Lemma fl_chk_all : forallb (fun k => forallb fl_chk (all_fl k)) (seq 0 9) = true.
Proof. vm_compute. reflexivity. Qed.

Lemma fl_facts fs : all01 fs -> (length fs <= 8)%nat -> fl_chk fs = true.
Proof.
  intros A L. pose proof fl_chk_all as H. rewrite forallb_forall in H.
  specialize (H (length fs)). rewrite forallb_forall in H.
  apply H; [apply in_seq; lia | apply all_fl_in; exact A].
Qed.

Lemma fl_lt8 fs : all01 fs -> (length fs < 8)%nat -> 65536 <= flags_of fs.
Proof.
  intros A L. pose proof (fl_facts fs A ltac:(lia)) as H. unfold fl_chk in H.
  destruct (Nat.ltb_spec (length fs) 8); lia.
Qed.

Lemma fl_eq8 fs : all01 fs -> length fs = 8%nat ->
  flags_of fs < 65536 /\ Z.land (flags_of fs) 255 = flag_byte fs
  /\ Z.land (Nat.iter 8 shr1 (Z.lor (flag_byte fs) 65280)) 256 = 0.
Proof.
  intros A L. pose proof (fl_facts fs A ltac:(lia)) as H. unfold fl_chk in H.
  destruct (Nat.ltb_spec (length fs) 8); lia.
Qed.

Lemma fl_match fs : all01 fs -> (length fs <= 8)%nat ->
  flags_match (Z.lor (flag_byte fs) 65280) fs /\ byte (flag_byte fs).
Proof.
  intros A L. pose proof (fl_facts fs A L) as H. unfold fl_chk in H.
  split; [apply flags_matchb_ok|unfold byte]; lia.
Qed.

Lemma iter_succ_r {A} (f : A -> A) n : forall x, Nat.iter (S n) f x = Nat.iter n f (f x).
Proof.
  induction n as [|n IH]; intros x; [reflexivity|].
  change (Nat.iter (S (S n)) f x) with (f (Nat.iter (S n) f x)). rewrite IH. reflexivity.
Qed.

Lemma flags_match_app a : forall fl b,
  flags_match fl (a ++ b) <-> flags_match fl a /\ flags_match (Nat.iter (length a) shr1 fl) b.
Proof.
  induction a as [|f a IH]; intros fl b; cbn [app flags_match length].
  - cbn [Nat.iter]. tauto.
  - rewrite IH, iter_succ_r. tauto.
Qed.

Lemma tok_flags_01 toks : all01 (map tok_flag toks).
Proof.
  induction toks as [|t r IH]; cbn [map]; constructor; [|exact IH].
  destruct t; cbn [tok_flag]; auto.
Qed.

(* ------------------------------------------------------------------ decoder: runs of tokens *)
Lemma gbytes_app a b : gbytes (a ++ b) = gbytes a ++ gbytes b.
Proof. unfold gbytes. apply flat_map_app. Qed.

Lemma dec_run dst_len g : forall tail fl pos outr,
  flags_match fl (map tok_flag g) ->
  valid_toks (Z.of_nat (length outr)) g ->
  Z.of_nat (length outr) + total_len g < dst_len ->
  dec dst_len (gbytes g ++ tail) fl pos outr (Z.of_nat (length outr)) =
  dec dst_len tail (Nat.iter (length g) shr1 fl) (pos + Z.of_nat (length (gbytes g)))
      (expand_r g outr) (Z.of_nat (length outr) + total_len g).
Proof.
  induction g as [|t g IH]; intros tail fl pos outr FM V Hd.
  - cbn [gbytes flat_map app length Nat.iter expand_r total_len]. now rewrite !Z.add_0_r.
  - cbn [map flags_match] in FM. destruct FM as (F8 & F1 & FM).
    cbn [valid_toks] in V. destruct V as (Vt & Vr).
    cbn [total_len] in Hd.
    pose proof (tok_len_pos _ _ Vt) as Lp.
    pose proof (tok_out_length t outr Vt) as Lo.
    assert (0 <= total_len g) as Tn by (eapply total_len_nonneg; exact Vr).
    change (gbytes (t :: g)) with (tok_bytes t ++ gbytes g). rewrite <- app_assoc.
    rewrite (dec_tok dst_len t (gbytes g ++ tail) fl pos outr Vt F8 F1 ltac:(lia)).
    unfold dec_next.
    destruct (Z.geb_spec (Z.of_nat (length outr) + tok_len t) dst_len) as [C|_]; [lia|].
    rewrite <- Lo in Vr |- *.
    rewrite IH; [|exact FM|exact Vr|lia].
    rewrite expand_r_cons. cbn [length total_len]. rewrite iter_succ_r.
    rewrite app_length. f_equal; lia.
Qed.

Lemma dec_last dst_len t fl pos outr :
  flags_match fl [tok_flag t] ->
  valid_tok (Z.of_nat (length outr)) t ->
  Z.of_nat (length outr) + tok_len t = dst_len ->
  dec dst_len (tok_bytes t) fl pos outr (Z.of_nat (length outr)) =
  DOk (rev (tok_out t outr)) (pos + Z.of_nat (length (tok_bytes t))).
Proof.
  intros (F8 & F1 & _) V Hd.
  rewrite <- (app_nil_r (tok_bytes t)) at 1.
  rewrite (dec_tok dst_len t [] fl pos outr V F8 F1 ltac:(lia)).
  unfold dec_next.
  destruct (Z.geb_spec (Z.of_nat (length outr) + tok_len t) dst_len) as [_|C]; [|lia].
  now rewrite rev'_rev.
Qed.

(* ------------------------------------------------------------------ packer: groups of 8 *)
Lemma flags_of_snoc fs f : flags_upd f (flags_of fs) = flags_of (fs ++ [f]).
Proof. unfold flags_of. now rewrite fold_left_app. Qed.

Lemma all01_snoc fs t : all01 fs -> all01 (fs ++ [tok_flag t]).
Proof.
  intros A. apply Forall_app. split; [exact A|]. constructor; [|constructor].
  destruct t; cbn [tok_flag]; auto.
Qed.

Lemma pack_run g : forall fs d c,
  all01 fs -> (length fs < 8)%nat -> (length fs + length g <= 8)%nat ->
  fold_left pack_step g (mkP d c (flags_of fs)) =
  if Nat.ltb (length fs + length g) 8
  then mkP d (rev (gbytes g) ++ c) (flags_of (fs ++ map tok_flag g))
  else mkP ((rev (gbytes g) ++ c) ++ flag_byte (fs ++ map tok_flag g) :: d) [] F0.
Proof.
  induction g as [|t g IH]; intros fs d c A L8 L.
  - cbn [length fold_left gbytes flat_map rev app map]. rewrite Nat.add_0_r, app_nil_r.
    destruct (Nat.ltb_spec (length fs) 8); [reflexivity|lia].
  - cbn [fold_left]. unfold pack_step at 2. cbn [p_cur p_flags p_done].
    rewrite flags_of_snoc. pose proof (all01_snoc fs t A) as A'.
    assert (length (fs ++ [tok_flag t]) = S (length fs)) as Ls by (rewrite app_length; cbn [length]; lia).
    change (gbytes (t :: g)) with (tok_bytes t ++ gbytes g).
    rewrite rev_app_distr, rev_append_rev.
    destruct (Nat.ltb_spec (S (length fs)) 8) as [Lt|Ge].
    + pose proof (fl_lt8 _ A' ltac:(lia)) as G.
      destruct (Z.ltb_spec (flags_of (fs ++ [tok_flag t])) 65536) as [C|_]; [lia|].
      rewrite IH; [|exact A'|lia|cbn [length] in L; lia].
      rewrite Ls. cbn [length map]. rewrite <- !app_assoc. cbn [app].
      replace (S (length fs) + length g)%nat with (length fs + S (length g))%nat by lia.
      reflexivity.
    + assert (length g = 0%nat) as Lg by (cbn [length] in L; lia).
      apply length_zero_iff_nil in Lg. subst g.
      destruct (fl_eq8 _ A' ltac:(lia)) as (G & B & _).
      destruct (Z.ltb_spec (flags_of (fs ++ [tok_flag t])) 65536) as [_|C]; [|lia].
      cbn [fold_left length map gbytes flat_map rev app].
      destruct (Nat.ltb_spec (length fs + 1) 8) as [C|_]; [lia|].
      rewrite B. reflexivity.
Qed.

Lemma flags_of_nil : flags_of [] = F0.
Proof. reflexivity. Qed.

Definition toks_nonempty (toks : list token) : Prop := Forall (fun t => tok_bytes t <> []) toks.

Lemma pack_final g d :
  g <> [] -> (length g <= 8)%nat -> toks_nonempty g ->
  pack_finish (fold_left pack_step g (mkP d [] F0)) = rev d ++ flag_byte (map tok_flag g) :: gbytes g.
Proof.
  intros Hne L NE. rewrite <- flags_of_nil.
  rewrite pack_run; [|constructor|cbn [length]; lia|cbn [length]; lia].
  cbn [length app Nat.add]. rewrite app_nil_r.
  destruct (Nat.ltb_spec (length g) 8) as [Lt|Ge]; unfold pack_finish; cbn [p_cur p_done p_flags].
  - destruct (rev (gbytes g)) as [|x xs] eqn:E.
    + exfalso. destruct g as [|t g]; [congruence|]. inversion NE as [|? ? Ht _]; subst.
      apply (f_equal (@rev Z)) in E. rewrite rev_involutive in E. cbn [rev] in E.
      change (gbytes (t :: g)) with (tok_bytes t ++ gbytes g) in E.
      apply app_eq_nil in E. tauto.
    + rewrite <- E. rewrite rev'_rev, rev_app_distr. cbn [rev]. rewrite rev_involutive, <- app_assoc.
      reflexivity.
  - rewrite rev'_rev, rev_app_distr. cbn [rev]. rewrite rev_involutive, <- app_assoc. reflexivity.
Qed.

Lemma pack_full G rest d :
  length G = 8%nat ->
  fold_left pack_step (G ++ rest) (mkP d [] F0) =
  fold_left pack_step rest (mkP (rev (gbytes G) ++ flag_byte (map tok_flag G) :: d) [] F0).
Proof.
  intros L. rewrite fold_left_app. f_equal. rewrite <- flags_of_nil.
  rewrite pack_run; [|constructor|cbn [length]; lia|cbn [length]; lia].
  cbn [length app Nat.add]. rewrite app_nil_r.
  destruct (Nat.ltb_spec (length G) 8); [lia|reflexivity].
Qed.

(* ------------------------------------------------------------------ Part A: pack / dec inverse *)
Lemma dec_flagbyte dst_len f s fl pos outr op :
  Z.land fl 256 = 0 ->
  dec dst_len (f :: s) fl pos outr op = dec dst_len s (Z.lor f 65280) (pos + 1) outr op.
Proof. intros H. cbn [dec]. rewrite H, Z.eqb_refl. reflexivity. Qed.

Lemma valid_toks_nonempty toks : forall n, valid_toks n toks -> toks_nonempty toks.
Proof.
  induction toks as [|t r IH]; intros n V; constructor.
  - destruct V as (V & _). destruct t as [b|eo len bs]; cbn [tok_bytes]; [discriminate|].
    apply valid_tok_case in V. destruct V as (E & L & _).
    apply (enc_case_bytes _ _ _ E L).
  - destruct V as (_ & V). eapply IH; exact V.
Qed.

Definition toks_bytes (toks : list token) : Prop := Forall (fun t => bytes (tok_bytes t)) toks.

Lemma gbytes_bytes toks : toks_bytes toks -> bytes (gbytes toks).
Proof.
  induction 1 as [|t r Ht _ IH]; [constructor|].
  change (gbytes (t :: r)) with (tok_bytes t ++ gbytes r). apply Forall_app. split; assumption.
Qed.

Lemma toks_bytes_app a b : toks_bytes (a ++ b) <-> toks_bytes a /\ toks_bytes b.
Proof. apply Forall_app. Qed.

Lemma packdec n : forall toks, (length toks <= n)%nat -> toks <> [] ->
  forall d pos outr dst_len,
  valid_toks (Z.of_nat (length outr)) toks ->
  dst_len = Z.of_nat (length outr) + total_len toks ->
  exists s,
    pack_finish (fold_left pack_step toks (mkP d [] F0)) = rev d ++ s /\
    (forall fl, Z.land fl 256 = 0 ->
       dec dst_len s fl pos outr (Z.of_nat (length outr)) =
       DOk (rev (expand_r toks outr)) (pos + Z.of_nat (length s))) /\
    (toks_bytes toks -> bytes s).
Proof.
  induction n as [|n IH]; intros toks Ln Hne d pos outr dst_len V Hd.
  { destruct toks; [congruence|cbn [length] in Ln; lia]. }
  destruct (le_lt_dec (length toks) 8) as [Le|Gt].
  - (* one (possibly partial) final group *)
    pose proof (valid_toks_nonempty _ _ V) as NE.
    pose proof (fl_match (map tok_flag toks) (tok_flags_01 toks) ltac:(rewrite map_length; lia)) as (FM & FB).
    exists (flag_byte (map tok_flag toks) :: gbytes toks). split; [|split].
    + apply pack_final; assumption.
    + intros fl Hfl. rewrite dec_flagbyte by exact Hfl.
      remember (Z.lor (flag_byte (map tok_flag toks)) 65280) as Fl eqn:EFl. clear EFl FB.
      destruct (exists_last Hne) as (init & last & ->).
      rewrite map_app in FM. apply flags_match_app in FM. destruct FM as (FMi & FMl).
      rewrite map_length in FMl. cbn [map] in FMl.
      apply valid_toks_app in V. destruct V as (Vi & Vl). cbn [valid_toks] in Vl. destruct Vl as (Vl & _).
      rewrite total_len_app in Hd. cbn [total_len] in Hd.
      pose proof (tok_len_pos _ _ Vl) as Lp.
      pose proof (expand_r_length init outr Vi) as El.
      rewrite gbytes_app. change (gbytes [last]) with (tok_bytes last ++ []). rewrite app_nil_r.
      rewrite dec_run; [|exact FMi|exact Vi|lia].
      rewrite <- El in Vl |- *.
      rewrite dec_last; [|exact FMl|exact Vl|lia].
      rewrite expand_r_app, expand_r_cons. cbn [expand_r]. f_equal.
      cbn [length]. rewrite app_length. lia.
    + intros TB. constructor; [exact FB|apply gbytes_bytes; exact TB].
  - (* a full group followed by more tokens *)
    pose proof (firstn_skipn 8 toks) as Split.
    assert (length (firstn 8 toks) = 8%nat) as LG by (rewrite firstn_length; lia).
    assert (length (skipn 8 toks) = (length toks - 8)%nat) as LR by apply skipn_length.
    set (G := firstn 8 toks) in *. set (rest := skipn 8 toks) in *.
    assert (rest <> []) as Rne by (intros C; rewrite C in LR; cbn [length] in LR; lia).
    rewrite <- Split in V, Hd |- *. clear Split.
    apply valid_toks_app in V. destruct V as (VG & VR).
    rewrite total_len_app in Hd.
    pose proof (expand_r_length G outr VG) as El.
    pose proof (total_len_pos _ _ VR Rne) as Rp.
    pose proof (fl_match (map tok_flag G) (tok_flags_01 G) ltac:(rewrite map_length; lia)) as (FM & FB).
    destruct (fl_eq8 (map tok_flag G) (tok_flags_01 G) ltac:(rewrite map_length; lia)) as (_ & _ & F8).
    rewrite <- El in VR.
    destruct (IH rest ltac:(lia) Rne (rev (gbytes G) ++ flag_byte (map tok_flag G) :: d)
                (pos + 1 + Z.of_nat (length (gbytes G))) (expand_r G outr) dst_len VR ltac:(lia))
      as (s' & P1 & P2 & P3).
    exists (flag_byte (map tok_flag G) :: gbytes G ++ s'). split; [|split].
    + rewrite pack_full by exact LG. rewrite P1.
      rewrite rev_app_distr, rev_involutive. cbn [rev]. rewrite <- !app_assoc. reflexivity.
    + intros fl Hfl. rewrite dec_flagbyte by exact Hfl.
      rewrite dec_run; [|exact FM|exact VG|lia].
      rewrite <- El. rewrite P2.
      * rewrite expand_r_app. f_equal. cbn [length]. rewrite app_length. lia.
      * rewrite LG. exact F8.
    + intros TB. apply toks_bytes_app in TB. destruct TB as (TG & TR).
      constructor; [exact FB|]. apply Forall_app. split; [apply gbytes_bytes; exact TG|exact (P3 TR)].
Qed.

Theorem pack_decode_all_token_streams toks :
  toks <> [] -> valid_toks 0 toks ->
  decompress (pack toks) (Z.of_nat (length (expand toks))) =
  DOk (expand toks) (Z.of_nat (length (pack toks))).
Proof.
  intros Hne V. unfold decompress, pack, expand, pack_init. rewrite rev'_rev.
  pose proof (expand_r_length toks [] V) as El. cbn [length] in El.
  destruct (packdec (length toks) toks (le_n _) Hne [] 0 [] (Z.of_nat (length (rev (expand_r toks []))))
              V ltac:(rewrite rev_length; cbn [length]; lia)) as (s & P1 & P2 & _).
  change 16711680 with F0. rewrite P1. cbn [rev app].
  pose proof (P2 0 eq_refl) as P2'. cbn [length] in P2'. change (Z.of_nat 0) with 0 in P2'.
  rewrite P2'. reflexivity.
Qed.

Lemma pack_bytes toks : toks <> [] -> valid_toks 0 toks -> toks_bytes toks -> bytes (pack toks).
Proof.
  intros Hne V TB. unfold pack, pack_init.
  destruct (packdec (length toks) toks (le_n _) Hne [] 0 [] (0 + total_len toks) V eq_refl)
    as (s & P1 & _ & P3).
  change 16711680 with F0. rewrite P1. cbn [rev app]. exact (P3 TB).
Qed.

(* ================================================================== Part B: the match finder *)
Lemma extend_spec a : forall b m mx r,
  extend a b m mx = Some r ->
  m <= r /\ (r = m \/ r <= mx) /\
  exists c a' b', a = c ++ a' /\ b = c ++ b' /\ Z.of_nat (length c) = r - m.
Proof.
  induction a as [|x a IH]; intros b m mx r H; cbn [extend] in H.
  - destruct (Z.ltb_spec m mx); [discriminate|]. injection H as <-.
    repeat split; [lia|auto|]. exists [], [], b. cbn [app length]. repeat split; lia.
  - destruct (Z.ltb_spec m mx) as [Lt|Ge].
    + destruct b as [|y b]; [discriminate|].
      destruct (Z.eqb_spec x y) as [->|Ne].
      * apply IH in H. destruct H as (H1 & H2 & c & a' & b' & -> & -> & Hc).
        repeat split; [lia|lia|]. exists (y :: c), a', b'. cbn [app length]. repeat split; lia.
      * injection H as <-. repeat split; [lia|auto|]. exists [], (x :: a), (y :: b).
        cbn [app length]. repeat split; lia.
    + injection H as <-. repeat split; [lia|auto|]. exists [], (x :: a), b.
      cbn [app length]. repeat split; lia.
Qed.

Lemma extend_total a : forall b m mx,
  mx - m <= Z.of_nat (length a) -> mx - m <= Z.of_nat (length b) ->
  exists r, extend a b m mx = Some r.
Proof.
  induction a as [|x a IH]; intros b m mx Ha Hb; cbn [extend].
  - destruct (Z.ltb_spec m mx); [cbn [length] in Ha; lia|eauto].
  - destruct (Z.ltb_spec m mx) as [Lt|Ge]; [|eauto].
    destruct b as [|y b]; [cbn [length] in Hb; lia|].
    destruct (Z.eqb_spec x y); [|eauto].
    apply IH; cbn [length] in *; lia.
Qed.

Lemma key3_inj a b c a' b' c' :
  byte a -> byte b -> byte c -> byte a' -> byte b' -> byte c' ->
  key3 [a; b; c] = key3 [a'; b'; c'] -> a = a' /\ b = b' /\ c = c'.
Proof.
  unfold byte, key3. intros Ha Hb Hc Ha' Hb' Hc' H. injection H as H.
  apply Z2Pos.inj in H; lia.
Qed.

Lemma key3_some l k : key3 l = Some k ->
  exists a b c r, l = a :: b :: c :: r /\ key3 [a; b; c] = Some k.
Proof.
  destruct l as [|a [|b [|c r]]]; cbn [key3]; try discriminate.
  intros H. exists a, b, c, r. split; [reflexivity|exact H].
Qed.

Lemma skipn_exact {A} (a b : list A) n : n = length a -> skipn n (a ++ b) = b.
Proof. intros ->. induction a; [reflexivity|assumption]. Qed.

Lemma firstn_exact {A} (a b : list A) n : n = length a -> firstn n (a ++ b) = a.
Proof. intros ->. induction a as [|x a IH]; [reflexivity|]. cbn [length app firstn]. now rewrite IH. Qed.

Section Tokenizer.
Variable data : list Z.
Hypothesis Hbytes : bytes data.

Definition entry_ok (pos : Z) (k : positive) (e : entry) : Prop :=
  exists p1 a b c, data = p1 ++ a :: b :: c :: snd e /\ fst e = Z.of_nat (length p1)
                   /\ fst e < pos /\ key3 [a; b; c] = Some k.

Definition tbl_ok (pos : Z) (t : table) : Prop :=
  forall k es, tbl_find k t = Some es -> Forall (entry_ok pos k) es.

Lemma entry_ok_mono pos pos' k e : pos <= pos' -> entry_ok pos k e -> entry_ok pos' k e.
Proof.
  intros L (p1 & a & b & c & E & P & Lt & K). exists p1, a, b, c. repeat split; try assumption. lia.
Qed.

Lemma tbl_ok_mono pos pos' t : pos <= pos' -> tbl_ok pos t -> tbl_ok pos' t.
Proof.
  intros L T k es F. specialize (T k es F).
  eapply Forall_impl; [|exact T]. intros e. apply entry_ok_mono. exact L.
Qed.

Lemma tbl_ok_empty pos : tbl_ok pos (PositiveMap.empty _).
Proof. intros k es F. unfold tbl_find in F. rewrite PositiveMap.gempty in F. discriminate. Qed.

Lemma tbl_ok_add pre rest t :
  data = pre ++ rest -> tbl_ok (Z.of_nat (length pre)) t ->
  tbl_ok (Z.of_nat (length pre) + 1) (tbl_add (Z.of_nat (length pre)) rest t).
Proof.
  intros D T. unfold tbl_add. destruct (key3 rest) as [k|] eqn:K.
  2:{ eapply tbl_ok_mono; [|exact T]. lia. }
  intros k' es F. unfold tbl_find in F.
  destruct (Pos.eq_dec k' k) as [->|Ne].
  - rewrite PositiveMap.gss in F. injection F as <-. constructor.
    + apply key3_some in K. destruct K as (a & b & c & r & -> & K).
      exists pre, a, b, c. cbn [fst snd skipn]. repeat split; [exact D|lia|exact K].
    + destruct (PositiveMap.find k t) as [l|] eqn:Fk; [|constructor].
      eapply Forall_impl; [|exact (T k l Fk)]. intros e. apply entry_ok_mono. lia.
  - rewrite PositiveMap.gso in F by exact Ne.
    eapply Forall_impl; [|exact (T k' es F)]. intros e. apply entry_ok_mono. lia.
Qed.
End Tokenizer.

Section MatchFinder.
Variable data : list Z.

Definition cand_ok (pos : Z) (k : positive) (maxm : Z) (rest3 : list Z) (bl bo : Z) : Prop :=
  bl = 0 \/
  exists e, entry_ok data pos k e /\ bo = pos - fst e /\
            extend (snd e) rest3 3 (Z.min maxm (pos - fst e)) = Some bl.

Lemma entry_len pos k e : entry_ok data pos k e ->
  Z.of_nat (length data) = fst e + 3 + Z.of_nat (length (snd e)) /\ 0 <= fst e < pos.
Proof.
  intros (p1 & a & b & c & E & P & Lt & _). apply (f_equal (@length Z)) in E.
  rewrite app_length in E. cbn [length] in E. lia.
Qed.

Lemma scan1_step_ok pos k ws maxm rest3 bl bo e :
  pos <= Z.of_nat (length data) -> maxm <= Z.of_nat (length rest3) + 3 ->
  entry_ok data pos k e -> cand_ok pos k maxm rest3 bl bo ->
  exists bl' bo', scan1_step pos ws maxm rest3 (Some (bl, bo)) e = Some (bl', bo')
                  /\ cand_ok pos k maxm rest3 bl' bo'.
Proof.
  intros Hp Hm He Hc. pose proof (entry_len _ _ _ He) as (Ld & Lp).
  unfold scan1_step. destruct e as (pp, t3). cbn [fst snd] in *.
  destruct ((pp <? ws) || (pp >=? pos)); [eauto|].
  destruct (extend_total t3 rest3 3 (Z.min maxm (pos - pp)) ltac:(lia) ltac:(lia)) as (r & Er).
  rewrite Er.
  destruct (Z.gtb_spec r bl); [|eauto].
  destruct (Z.ltb_spec (pos - pp - r) WINDOW_SIZE); [|eauto].
  exists r, (pos - pp). split; [reflexivity|]. right. exists (pp, t3). cbn [fst snd]. auto.
Qed.

Lemma scan1_fold pos k ws maxm rest3 :
  pos <= Z.of_nat (length data) -> maxm <= Z.of_nat (length rest3) + 3 ->
  forall es bl bo, Forall (entry_ok data pos k) es -> cand_ok pos k maxm rest3 bl bo ->
  exists bl' bo', fold_left (scan1_step pos ws maxm rest3) es (Some (bl, bo)) = Some (bl', bo')
                  /\ cand_ok pos k maxm rest3 bl' bo'.
Proof.
  intros Hp Hm. induction es as [|e es IH]; intros bl bo Hes Hc; cbn [fold_left]; [eauto|].
  inversion Hes as [|? ? He Hes']; subst.
  destruct (scan1_step_ok pos k ws maxm rest3 bl bo e Hp Hm He Hc) as (bl2 & bo2 & -> & Hc2).
  apply IH; assumption.
Qed.

Lemma scan2_fold n pos k ws maxm rest4 :
  pos <= Z.of_nat (length data) -> n - pos - 4 <= Z.of_nat (length rest4) ->
  forall es nbl, Forall (entry_ok data pos k) es ->
  exists r, fold_left (scan2_step n pos ws maxm rest4) es (Some nbl) = Some r.
Proof.
  intros Hp Hr. induction es as [|e es IH]; intros nbl Hes; cbn [fold_left]; [eauto|].
  inversion Hes as [|? ? He Hes']; subst.
  pose proof (entry_len _ _ _ He) as (Ld & Lp).
  unfold scan2_step at 2. destruct e as (pp, t3). cbn [fst snd] in *.
  destruct (pp <? ws); [apply IH; assumption|].
  destruct (extend_total t3 rest4 3 (Z.min (Z.min maxm (pos - pp)) (n - pos - 1)) ltac:(lia) ltac:(lia))
    as (r & ->).
  destruct (r >? nbl); [|apply IH; assumption].
  destruct (pos - pp - nbl <? WINDOW_SIZE); apply IH; assumption.
Qed.

Lemma flm_spec pre rest t :
  data = pre ++ rest -> tbl_ok data (Z.of_nat (length pre)) t ->
  exists off len,
    find_longest_match (Z.of_nat (length data)) (Z.of_nat (length pre)) rest t = Some (off, len) /\
    (len = 0 \/
     exists a b c rest3 k, rest = a :: b :: c :: rest3 /\ key3 [a; b; c] = Some k /\
       cand_ok (Z.of_nat (length pre)) k (Z.min 258 (Z.of_nat (length data) - Z.of_nat (length pre))) rest3 len off).
Proof.
  intros D T. set (pos := Z.of_nat (length pre)) in *. set (n := Z.of_nat (length data)) in *.
  assert (n = pos + Z.of_nat (length rest)) as Ln.
  { subst n pos. rewrite D, app_length. lia. }
  unfold find_longest_match.
  destruct (key3 rest) as [k|] eqn:K; [|exists 0, 0; auto].
  apply key3_some in K. destruct K as (a & b & c & rest3 & -> & K).
  cbn [length] in Ln.
  destruct (tbl_find k t) as [es|] eqn:F; [|exists 0, 0; auto].
  pose proof (T k es F) as Hes. apply Forall_rev in Hes. rewrite <- rev'_rev in Hes.
  cbn [skipn tl].
  destruct (scan1_fold pos k (Z.max 0 (pos - WINDOW_SIZE - Z.min 258 (n - pos))) (Z.min 258 (n - pos)) rest3
              ltac:(lia) ltac:(lia) (rev' es) 0 0 Hes (or_introl eq_refl)) as (bl & bo & -> & Hc).
  assert (exists off len, Some (bo, bl) = Some (off, len) /\
          (len = 0 \/ exists a0 b0 c0 rest0 k0, a :: b :: c :: rest3 = a0 :: b0 :: c0 :: rest0 /\
             key3 [a0; b0; c0] = Some k0 /\ cand_ok pos k0 (Z.min 258 (n - pos)) rest0 len off)) as Keep.
  { exists bo, bl. split; [reflexivity|]. right. exists a, b, c, rest3, k. auto. }
  destruct ((0 <? bl) && (bl <? Z.min 258 (n - pos)) && (pos + bl + 1 <? n)); [|exact Keep].
  destruct (key3 (b :: c :: rest3)) as [k2|] eqn:K2; [|exact Keep].
  destruct (tbl_find k2 t) as [es2|] eqn:F2; [|exact Keep].
  pose proof (T k2 es2 F2) as Hes2. apply Forall_rev in Hes2. rewrite <- rev'_rev in Hes2.
  destruct (scan2_fold n pos k2 (Z.max 0 (pos + 1 - WINDOW_SIZE - Z.min 258 (n - pos))) (Z.min 258 (n - pos))
              (tl rest3) ltac:(lia) ltac:(destruct rest3; cbn [tl length] in *; lia) (rev' es2) 0 Hes2) as (nbl & E2).
  change (tl rest3) with (match rest3 with [] => [] | _ :: l => l end) in E2. rewrite E2.
  destruct (nbl >? bl + 1); [exists 0, 0; auto|exact Keep].
Qed.
End MatchFinder.

Lemma bytes_mid3 p a b c r : bytes (p ++ a :: b :: c :: r) -> byte a /\ byte b /\ byte c.
Proof.
  intros H. apply Forall_app in H. destruct H as (_ & H).
  inversion H as [|? ? Ha H1]; subst. inversion H1 as [|? ? Hb H2]; subst.
  inversion H2 as [|? ? Hc _]; subst. auto.
Qed.

Lemma match_decomp data pre rest maxm off len bs :
  bytes data -> data = pre ++ rest -> maxm <= 258 ->
  (exists a b c rest3 k, rest = a :: b :: c :: rest3 /\ key3 [a; b; c] = Some k /\
     cand_ok data (Z.of_nat (length pre)) k maxm rest3 len off) ->
  encode_match off len = Some bs ->
  exists p1 mid post rest2,
    pre = p1 ++ mid ++ post /\ rest = mid ++ rest2 /\
    Z.of_nat (length mid) = len /\ Z.of_nat (length post) = off - len /\ len <= 258.
Proof.
  intros Hb D Hm (a & b & c & rest3 & k & -> & K & Hc) E.
  apply encode_match_cases in E.
  assert (0 <= off - len /\ 3 <= len) as (Eo & L3) by (destruct E; lia). clear E.
  destruct Hc as [C|(e & (p1 & a' & b' & c' & De & P & Lt & K') & Ho & Ex)]; [lia|].
  apply extend_spec in Ex. destruct Ex as (_ & Lr & c0 & t3' & rest3' & Et & -> & Lc).
  pose proof Hb as Hb1. rewrite D in Hb1. apply bytes_mid3 in Hb1. destruct Hb1 as (Ba & Bb & Bc).
  pose proof Hb as Hb2. rewrite De in Hb2. apply bytes_mid3 in Hb2. destruct Hb2 as (Ba' & Bb' & Bc').
  destruct (key3_inj a b c a' b' c' Ba Bb Bc Ba' Bb' Bc' ltac:(congruence)) as (<- & <- & <-).
  rewrite Et in De.
  assert ((p1 ++ a :: b :: c :: c0) ++ t3' = pre ++ (a :: b :: c :: c0) ++ rest3') as Eq.
  { rewrite <- app_assoc. cbn [app]. rewrite <- De. exact D. }
  apply app_eq_app in Eq. destruct Eq as (l & [(E1 & E2)|(E1 & E2)]).
  - pose proof (f_equal (@length Z) E1) as Ll. rewrite !app_length in Ll. cbn [length] in Ll.
    assert (l = []) as -> by (apply length_zero_iff_nil; lia).
    rewrite app_nil_r in E1.
    exists p1, (a :: b :: c :: c0), [], rest3'. rewrite app_nil_r.
    repeat split; [auto|cbn [length]; lia|cbn [length]; lia|lia].
  - pose proof (f_equal (@length Z) E1) as Ll. rewrite !app_length in Ll. cbn [length] in Ll.
    exists p1, (a :: b :: c :: c0), l, rest3'.
    repeat split; [rewrite E1, <- app_assoc; reflexivity|cbn [length]; lia|lia|lia].
Qed.

Lemma tok_out_ref p1 mid post eo len bs :
  Z.of_nat (length mid) = len -> Z.of_nat (length post) = eo ->
  tok_out (TRef eo len bs) (rev (p1 ++ mid ++ post)) = rev ((p1 ++ mid ++ post) ++ mid).
Proof.
  intros Lm Lp. cbn [tok_out].
  rewrite (rev_app_distr (p1 ++ mid ++ post) mid). f_equal.
  rewrite !rev_app_distr, <- app_assoc.
  rewrite skipn_exact by (rewrite rev_length; lia).
  apply firstn_exact. rewrite rev_length. lia.
Qed.

Section TokLoop.
Variable data : list Z.
Hypothesis Hbytes : bytes data.

Lemma tok_loop_ok : forall rest pre t skip acc,
  data = pre ++ rest -> 0 <= skip <= Z.of_nat (length rest) ->
  tbl_ok data (Z.of_nat (length pre)) t ->
  exists toks',
    tok_loop (Z.of_nat (length data)) t rest (Z.of_nat (length pre)) skip acc = Some (rev acc ++ toks') /\
    valid_toks (Z.of_nat (length pre) + skip) toks' /\ toks_bytes toks' /\
    expand_r toks' (rev (pre ++ firstn (Z.to_nat skip) rest)) = rev data.
Proof.
  induction rest as [|b rest IH]; intros pre t skip acc D Hs T.
  - cbn [length] in Hs. assert (skip = 0) as -> by lia.
    exists []. cbn [tok_loop expand_r valid_toks firstn Z.to_nat].
    rewrite rev'_rev, !app_nil_r in *. subst data. repeat split; auto. constructor.
  - assert (data = (pre ++ [b]) ++ rest) as D' by (rewrite <- app_assoc; exact D).
    assert (Z.of_nat (length (pre ++ [b])) = Z.of_nat (length pre) + 1) as Lp
      by (rewrite app_length; cbn [length]; lia).
    cbn [length] in Hs. cbn [tok_loop].
    destruct (Z.ltb_spec 0 skip) as [Sk|Sk].
    + (* position covered by the previous token *)
      rewrite <- Lp.
      destruct (IH (pre ++ [b]) t (skip - 1) acc D' ltac:(lia)
                  ltac:(eapply tbl_ok_mono; [|exact T]; lia)) as (toks' & E & V & TB & X).
      exists toks'. repeat split; [exact E| |exact TB|].
      * replace (Z.of_nat (length pre) + skip) with (Z.of_nat (length (pre ++ [b])) + (skip - 1)) by lia.
        exact V.
      * replace (Z.to_nat skip) with (S (Z.to_nat (skip - 1))) by lia. cbn [firstn].
        rewrite <- app_assoc in X. exact X.
    + assert (skip = 0) as -> by lia. cbn [Z.to_nat firstn]. rewrite app_nil_r, Z.add_0_r.
      destruct (flm_spec data pre (b :: rest) t D T) as (off & len & -> & Hc).
      pose proof (tbl_ok_add data pre (b :: rest) t D T) as T'. rewrite <- Lp in T'.
      destruct (encode_match off len) as [bs|] eqn:E.
      * (* back reference *)
        destruct Hc as [C|Hc].
        { apply encode_match_cases in E. destruct E; lia. }
        destruct (match_decomp data pre (b :: rest) _ off len bs Hbytes D (Z.le_min_l _ _) Hc E)
          as (p1 & mid & post & rest2 & Epre & Erest & Lm & Lpost & L258).
        pose proof (f_equal (@length Z) Erest) as Lr. rewrite app_length in Lr. cbn [length] in Lr.
        pose proof (f_equal (@length Z) Epre) as Lpre. rewrite !app_length in Lpre.
        pose proof (encode_match_cases _ _ _ E) as EC.
        assert (3 <= len) as L3 by (destruct EC; lia).
        rewrite <- Lp.
        destruct (IH (pre ++ [b]) (tbl_add (Z.of_nat (length pre)) (b :: rest) t) (len - 1)
                    (TRef (off - len) len bs :: acc) D' ltac:(lia) T') as (toks' & Et & V & TB & X).
        exists (TRef (off - len) len bs :: toks'). split; [|split; [|split]].
        -- rewrite Et. cbn [rev]. rewrite <- app_assoc. reflexivity.
        -- cbn [valid_toks valid_tok tok_len]. replace (off - len + len) with off by lia.
           split; [split; [exact E|split; [exact L258|lia]]|].
           replace (Z.of_nat (length pre) + len) with (Z.of_nat (length (pre ++ [b])) + (len - 1)) by lia.
           exact V.
        -- constructor; [|exact TB]. cbn [tok_bytes]. apply (enc_case_bytes _ _ _ EC L258).
        -- rewrite expand_r_cons. rewrite Epre at 1.
           rewrite (tok_out_ref p1 mid post (off - len) len bs Lm Lpost). rewrite <- Epre.
           assert ((pre ++ [b]) ++ firstn (Z.to_nat (len - 1)) rest = pre ++ mid) as <-; [|exact X].
           rewrite <- app_assoc. f_equal. cbn [app].
           change (b :: firstn (Z.to_nat (len - 1)) rest) with (firstn (S (Z.to_nat (len - 1))) (b :: rest)).
           rewrite Erest. apply firstn_exact. lia.
      * (* literal *)
        rewrite <- Lp.
        destruct (IH (pre ++ [b]) (tbl_add (Z.of_nat (length pre)) (b :: rest) t) 0
                    (TLit b :: acc) D' ltac:(lia) T') as (toks' & Et & V & TB & X).
        exists (TLit b :: toks'). split; [|split; [|split]].
        -- rewrite Et. cbn [rev]. rewrite <- app_assoc. reflexivity.
        -- cbn [valid_toks valid_tok tok_len]. split; [exact I|].
           rewrite Z.add_0_r, Lp in V. exact V.
        -- constructor; [|exact TB]. cbn [tok_bytes]. constructor; [|constructor].
           rewrite D in Hbytes. apply Forall_app in Hbytes. destruct Hbytes as (_ & Hr).
           inversion Hr; assumption.
        -- rewrite expand_r_cons. cbn [tok_out Z.to_nat firstn] in *.
           rewrite app_nil_r, rev_app_distr in X. exact X.
Qed.

Lemma tokenize_ok :
  exists toks, tokenize data = Some toks /\ valid_toks 0 toks /\ toks_bytes toks /\ expand toks = data.
Proof.
  destruct (tok_loop_ok data [] (PositiveMap.empty _) 0 [] eq_refl
              ltac:(lia) (tbl_ok_empty data _)) as (toks & E & V & TB & X).
  exists toks. unfold tokenize. cbn [length rev app] in E. change (Z.of_nat 0) with 0 in E.
  repeat split; [exact E|exact V|exact TB|].
  unfold expand. cbn [app firstn Z.to_nat rev] in X. rewrite rev'_rev, X. apply rev_involutive.
Qed.
End TokLoop.

(* ================================================================== Part C: the property *)
Theorem tokenizer_sound data :
  bytes data ->
  exists toks, tokenize data = Some toks /\ valid_toks 0 toks /\ toks_bytes toks /\ expand toks = data.
Proof. apply tokenize_ok. Qed.

Theorem roundtrip data :
  data <> [] -> bytes data ->
  exists c, compress data = Some c /\ bytes c /\
            decompress c (Z.of_nat (length data)) = DOk data (Z.of_nat (length c)).
Proof.
  intros Hne Hb. destruct (tokenize_ok data Hb) as (toks & Et & V & TB & X).
  assert (toks <> []) as Tne by (intros ->; apply Hne; rewrite <- X; reflexivity).
  exists (pack toks). split; [|split].
  - unfold compress. destruct data; [congruence|]. now rewrite Et.
  - apply pack_bytes; assumption.
  - rewrite <- X at 1 2. apply pack_decode_all_token_streams; assumption.
Qed.

Theorem string_wrapper data :
  data <> [] -> bytes data ->
  exists c, compress data = Some c /\
            decompress_string c (Z.of_nat (length c)) (Z.of_nat (length data)) = SOk data.
Proof.
  intros Hne Hb. destruct (roundtrip data Hne Hb) as (c & Ec & _ & Ed).
  exists c. split; [exact Ec|]. unfold decompress_string. now rewrite Ed, Z.eqb_refl.
Qed.

Theorem selection_guard data : lzss_emitted data = true -> 200 <= Z.of_nat (length data) /\ data <> [].
Proof.
  unfold lzss_emitted. destruct (compress data) as [c|]; [|discriminate].
  intros H.
  assert (200 <= Z.of_nat (length data)) as L.
  { destruct (Z.gtb_spec (Z.of_nat (length c)) (Z.of_nat (length data) - 200)); [discriminate|lia]. }
  split; [exact L|]. intros ->. cbn [length] in L. lia.
Qed.

Theorem emitted_roundtrip data :
  bytes data -> lzss_emitted data = true ->
  exists c, compress data = Some c /\
            decompress_string c (Z.of_nat (length c)) (Z.of_nat (length data)) = SOk data.
Proof.
  intros Hb He. apply string_wrapper; [|exact Hb]. apply (selection_guard data He).
Qed.

(* why the non-emptiness matters: on the empty input the C loop reads src[0] *)
Lemma empty_input_oob : compress [] = Some [] /\ decompress [] 0 = OOB_src_read.
Proof. split; reflexivity. Qed.

Definition bytesb (l : list Z) : bool := forallb (fun b => (0 <=? b) && (b <? 256)) l.
Lemma bytesb_ok l : bytesb l = true -> bytes l.
Proof.
  unfold bytesb, bytes, byte. rewrite forallb_forall, Forall_forall.
  intros H x Hx. specialize (H x Hx). lia.
Qed.
