(* Proofs for Model/M_CmpFloat.v: the float-int / int-float comparison helpers of
   PyObjectCompare return the exact comparison of the two VALUES (the double as a rational, the
   int as an integer of any size), for every operator, every double, every well-formed CPython
   int, with CYTHON_USE_PYLONG_INTERNALS on and off; no inexact int->double conversion is ever
   made.  Hence the two preprocessor variants agree. *)
From Coq Require Import ZArith List Bool Lia ZifyBool.
From CyVerif Require Import Lib.CInt Lib.PyLong Model.M_CmpInt Proof.P_CmpInt Model.M_CmpFloat.
Import ListNotations.
Open Scope Z_scope.

(* configurations covered: those of the int-int proof, digits convert to double exactly
   (PyLong_SHIFT <= 53), and a long that overflows is at least 2^53 in magnitude (long has 54
   bits or more: LP64).  With a 32-bit long (64-bit Windows) the non-internals variant is WRONG:
   see floatint_long32_refuted below. *)
Definition fcfg_ok (c : fcfg) : Prop :=
  cfg_ok (f_i c) /\ i_sh (f_i c) <= 53 /\ 54 <= f_long c.

Definition dbl_ok (d : dbl) : Prop := dbl_okb d = true.

(* ---- doubles ---- *)

Lemma dop_fin op n k m : dop op (DFin n k) (DFin m 0) = zop op n (m * 2 ^ k).
Proof.
  unfold dop, dcmp, cop_of. rewrite Z.pow_0_r, Z.mul_1_r.
  destruct op; destruct (Z.compare_spec n (m * 2 ^ k)); cbn [zop]; lia.
Qed.

Lemma dop_fin_l op n k m : dop op (DFin m 0) (DFin n k) = zop op (m * 2 ^ k) n.
Proof.
  unfold dop, dcmp, cop_of. rewrite Z.pow_0_r, Z.mul_1_r.
  destruct op; destruct (Z.compare_spec (m * 2 ^ k) n); cbn [zop]; lia.
Qed.

Lemma fop_fin op n k z : fop op (DFin n k) z = zop op n (z * 2 ^ k).
Proof.
  unfold fop, fz_cmp, cop_of.
  destruct op; destruct (Z.compare_spec n (z * 2 ^ k)); cbn [zop]; lia.
Qed.

Lemma zfop_fin op n k z : zfop op z (DFin n k) = zop op (z * 2 ^ k) n.
Proof.
  unfold zfop, zf_cmp, cop_of.
  destruct op; destruct (Z.compare_spec (z * 2 ^ k) n); cbn [zop]; lia.
Qed.

(* comparing with the exactly converted integer is comparing with the integer *)
Lemma dop_int op f z : dop op f (DFin z 0) = fop op f z.
Proof.
  destruct f as [|neg|n k]; [reflexivity|reflexivity|].
  rewrite dop_fin, fop_fin. reflexivity.
Qed.

Lemma dop_int_l op f z : dop op (DFin z 0) f = zfop op z f.
Proof.
  destruct f as [|neg|n k]; [reflexivity|reflexivity|].
  rewrite dop_fin_l, zfop_fin. reflexivity.
Qed.

(* CPython just compares inf/nan to 0.0: right for every integer *)
Lemma nonfinite_any op f z : is_finite f = false -> dop op f dzero = fop op f z.
Proof. destruct f; [reflexivity|reflexivity|discriminate]. Qed.

Lemma nonfinite_any_l op f z : is_finite f = false -> dop op dzero f = zfop op z f.
Proof. destruct f; [reflexivity|reflexivity|discriminate]. Qed.

Lemma i2d_exact z : Z.abs z <= 2 ^ 53 -> i2d z = Some (DFin z 0).
Proof. intros H. unfold i2d. destruct (Z.leb_spec (Z.abs z) (2 ^ 53)); [reflexivity|lia]. Qed.

(* ---- the accessors ---- *)

Lemma pow_sh_pos sh : 0 <= sh -> 0 < 2 ^ sh.
Proof. intros. apply Z.pow_pos_nonneg; lia. Qed.

Ltac brk := repeat match goal with |- context [if ?b then _ else _] => destruct b eqn:? end.

(* compact ints: the compact value is the value, below 2^sh in magnitude *)
Lemma compact_true c x : 0 <= i_sh c -> wf (i_sh c) x -> compact c x = true ->
  compact_val c x = value (i_sh c) x /\ - 2 ^ i_sh c < value (i_sh c) x < 2 ^ i_sh c.
Proof.
  intros Hsh (Ok & La & Z0). pose proof (pow_sh_pos _ Hsh) as Pp.
  unfold compact, compact_val, tag, ssize, signbits, ndigits, value, digit.
  destruct (pl_digits x) as [|d [|d2 r]] eqn:E.
  - rewrite Z0 by reflexivity. cbn [length nth mag]. destruct (i_tag312 c); intros _; brk; lia.
  - unfold digits_ok in Ok. apply Forall_inv in Ok. unfold digit_ok in Ok.
    cbn [length nth mag]. destruct (i_tag312 c), (pl_neg x); intros _; brk; lia.
  - cbn [length]. destruct (i_tag312 c), (pl_neg x); intros H; exfalso; lia.
Qed.

(* non-compact ints: at least 2^sh in magnitude, and __Pyx_PyLong_Sign is the sign *)
Lemma compact_false c x : 0 <= i_sh c -> wf (i_sh c) x -> compact c x = false ->
  (sign_of c x = 1 /\ 2 ^ i_sh c <= value (i_sh c) x) \/
  (sign_of c x = -1 /\ value (i_sh c) x <= - 2 ^ i_sh c).
Proof.
  intros Hsh (Ok & La & Z0). pose proof (pow_sh_pos _ Hsh) as Pp.
  assert (Hm : (2 <= length (pl_digits x))%nat -> 2 ^ i_sh c <= mag (i_sh c) (pl_digits x)).
  { intros H2. assert (Hn : pl_digits x <> []) by (destruct (pl_digits x); [cbn in H2; lia|congruence]).
    pose proof (mag_ge (i_sh c) _ Hsh Ok Hn La) as G.
    assert (2 ^ (i_sh c * 1) <= 2 ^ (i_sh c * (Z.of_nat (length (pl_digits x)) - 1))).
    { apply Z.pow_le_mono_r; nia. }
    rewrite Z.mul_1_r in H. lia. }
  unfold compact, sign_of, tag, ssize, signbits, ndigits, value in *.
  destruct (pl_digits x) as [|d [|d2 r]] eqn:E.
  - cbn [length]. destruct (i_tag312 c), (pl_neg x); intros H; exfalso; lia.
  - cbn [length]. destruct (i_tag312 c), (pl_neg x); intros H; exfalso; lia.
  - specialize (Hm ltac:(cbn [length]; lia)). cbn [length] in *.
    destruct (i_tag312 c), (pl_neg x); intros _; brk; lia.
Qed.

(* PyLong_AsLongAndOverflow followed by the 2^53 clamp *)
Lemma loo_spec lw v : 54 <= lw ->
  match long_or_overflow lw v with
  | inr i => i = v /\ - 2 ^ 53 < v < 2 ^ 53
  | inl o => (o = 1 /\ 2 ^ 53 <= v) \/ (o = -1 /\ v <= - 2 ^ 53)
  end.
Proof.
  intros Hlw. unfold long_or_overflow.
  pose proof (llong_ovf_spec lw v ltac:(lia)) as L.
  assert (Hp : 2 ^ 53 <= 2 ^ (lw - 1)) by (apply Z.pow_le_mono_r; lia).
  destruct (as_llong_ovf lw v) as [iop ovf]. cbv zeta in L. cbn [fst snd] in L.
  unfold in_range, min_int, max_int in L.
  set (B := 2 ^ 53) in *. set (M := 2 ^ (lw - 1)) in *.
  destruct (Z.eqb_spec ovf 0) as [E0|N0].
  - assert (iop = v) by lia. subst iop.
    destruct (Z.leb_spec B v); [left; lia|].
    destruct (Z.leb_spec v (- B)); [right; lia|]. lia.
  - destruct L as [L|[L|L]]; [lia|right; lia|left; lia].
Qed.

(* ---- the template sets ---- *)
Lemma cop_gt op : cop_of op (Some Gt) = in_negegt op.  Proof. destruct op; reflexivity. Qed.
Lemma cop_lt op : cop_of op (Some Lt) = in_nelelt op.  Proof. destruct op; reflexivity. Qed.
Lemma not_eqlelt op : negb (in_eqlelt op) = in_negegt op.  Proof. destruct op; reflexivity. Qed.
Lemma not_eqgegt op : negb (in_eqgegt op) = in_nelelt op.  Proof. destruct op; reflexivity. Qed.

Lemma zop_lt op x y : x < y -> zop op x y = in_nelelt op.
Proof. intros H. destruct op; cbn [zop in_nelelt]; lia. Qed.
Lemma zop_gt op x y : y < x -> zop op x y = in_negegt op.
Proof. intros H. destruct op; cbn [zop in_negegt]; lia. Qed.

(* ---- MAIN: float op int ---- *)
Theorem floatint_correct c rich op f b :
  fcfg_ok c -> (forall o g z, rich o g z = fop o g z) ->
  dbl_ok f -> wf (i_sh (f_i c)) b ->
  cmp_floatint c rich op f b = Some (fop op f (value (i_sh (f_i c)) b)).
Proof.
  intros (Hc & H53 & Hlw) Hrich Hf Wb. pose proof Hc as (Hsh & _).
  assert (Hsh0 : 0 <= i_sh (f_i c)) by lia.
  pose proof (pow_sh_pos _ Hsh0) as Pp.
  assert (Hs53 : 2 ^ i_sh (f_i c) <= 2 ^ 53) by (apply Z.pow_le_mono_r; lia).
  unfold cmp_floatint. set (ic := f_i c) in *. set (v := value (i_sh ic) b) in *.
  destruct (i_internals ic).
  - destruct (compact ic b) eqn:C.
    + destruct (compact_true ic b Hsh0 Wb C) as [Ev Hv]. fold v in Ev, Hv.
      rewrite Ev, i2d_exact by lia. cbn [via]. rewrite dop_int. reflexivity.
    + destruct f as [|neg|n k].
      * reflexivity.
      * reflexivity.
      * cbn [is_finite negb]. unfold dbl_ok, dbl_okb in Hf.
        assert (Pk : 0 < 2 ^ k) by (apply Z.pow_pos_nonneg; lia).
        unfold dzero, two_sh, neg_two_sh. rewrite !dop_fin, Hrich, fop_fin. cbn [zop].
        set (P := 2 ^ k) in *. set (S := 2 ^ i_sh ic) in *. fold v.
        destruct (compact_false ic b Hsh0 Wb C) as [[Es Hv]|[Es Hv]]; fold v in Hv; rewrite Es.
        -- destruct (Z.leb_spec (0 * P) n) as [G|G].
           ++ change (1 <? 0) with false. cbv iota.
              destruct (Z.ltb_spec n (S * P)) as [L|L]; [|reflexivity].
              f_equal. symmetry. apply zop_lt. nia.
           ++ change (0 <? 1) with true. cbv iota. f_equal. symmetry. apply zop_lt. nia.
        -- destruct (Z.leb_spec (0 * P) n) as [G|G].
           ++ change (-1 <? 0) with true. cbv iota. f_equal. symmetry. apply zop_gt. nia.
           ++ change (0 <? -1) with false. cbv iota.
              destruct (Z.ltb_spec (- S * P) n) as [L|L]; [|reflexivity].
              rewrite not_eqlelt. f_equal. symmetry. apply zop_gt. nia.
  - destruct f as [|neg|n k].
    + reflexivity.
    + reflexivity.
    + cbn [is_finite negb]. unfold dbl_ok, dbl_okb in Hf.
      assert (Pk : 0 < 2 ^ k) by (apply Z.pow_pos_nonneg; lia).
      pose proof (loo_spec (f_long c) v Hlw) as L.
      destruct (long_or_overflow (f_long c) v) as [o|i].
      * unfold two53, neg_two53. rewrite !dop_fin, Hrich, fop_fin. cbn [zop].
        set (P := 2 ^ k) in *. set (B := 2 ^ 53) in *.
        destruct L as [[-> Hv]|[-> Hv]].
        -- change (0 <? 1) with true. cbv iota.
           destruct (Z.ltb_spec n (B * P)) as [G|G]; [|reflexivity].
           f_equal. symmetry. apply zop_lt. nia.
        -- change (0 <? -1) with false. cbv iota.
           destruct (Z.ltb_spec (- B * P) n) as [G|G]; [|reflexivity].
           f_equal. symmetry. apply zop_gt. nia.
      * destruct L as [-> Hv]. rewrite i2d_exact by lia. cbn [via]. rewrite dop_int. reflexivity.
Qed.

(* ---- MAIN: int op float ---- *)
Theorem intfloat_correct c rich op a f :
  fcfg_ok c -> (forall o z g, rich o z g = zfop o z g) ->
  dbl_ok f -> wf (i_sh (f_i c)) a ->
  cmp_intfloat c rich op a f = Some (zfop op (value (i_sh (f_i c)) a) f).
Proof.
  intros (Hc & H53 & Hlw) Hrich Hf Wa. pose proof Hc as (Hsh & _).
  assert (Hsh0 : 0 <= i_sh (f_i c)) by lia.
  pose proof (pow_sh_pos _ Hsh0) as Pp.
  assert (Hs53 : 2 ^ i_sh (f_i c) <= 2 ^ 53) by (apply Z.pow_le_mono_r; lia).
  unfold cmp_intfloat. set (ic := f_i c) in *. set (v := value (i_sh ic) a) in *.
  destruct (i_internals ic).
  - destruct (compact ic a) eqn:C.
    + destruct (compact_true ic a Hsh0 Wa C) as [Ev Hv]. fold v in Ev, Hv.
      rewrite Ev, i2d_exact by lia. cbn [via]. rewrite dop_int_l. reflexivity.
    + destruct f as [|neg|n k].
      * reflexivity.
      * reflexivity.
      * cbn [is_finite negb]. unfold dbl_ok, dbl_okb in Hf.
        assert (Pk : 0 < 2 ^ k) by (apply Z.pow_pos_nonneg; lia).
        unfold dzero, two_sh, neg_two_sh. rewrite !dop_fin, Hrich, zfop_fin. cbn [zop].
        set (P := 2 ^ k) in *. set (S := 2 ^ i_sh ic) in *. fold v.
        destruct (compact_false ic a Hsh0 Wa C) as [[Es Hv]|[Es Hv]]; fold v in Hv; rewrite Es.
        -- destruct (Z.leb_spec (0 * P) n) as [G|G].
           ++ change (1 <? 0) with false. cbv iota.
              destruct (Z.ltb_spec n (S * P)) as [L|L]; [|reflexivity].
              f_equal. symmetry. apply zop_gt. nia.
           ++ change (0 <? 1) with true. cbv iota. f_equal. symmetry. apply zop_gt. nia.
        -- destruct (Z.leb_spec (0 * P) n) as [G|G].
           ++ change (-1 <? 0) with true. cbv iota. f_equal. symmetry. apply zop_lt. nia.
           ++ change (0 <? -1) with false. cbv iota.
              destruct (Z.ltb_spec (- S * P) n) as [L|L]; [|reflexivity].
              rewrite not_eqgegt. f_equal. symmetry. apply zop_lt. nia.
  - destruct f as [|neg|n k].
    + reflexivity.
    + reflexivity.
    + cbn [is_finite negb]. unfold dbl_ok, dbl_okb in Hf.
      assert (Pk : 0 < 2 ^ k) by (apply Z.pow_pos_nonneg; lia).
      pose proof (loo_spec (f_long c) v Hlw) as L.
      destruct (long_or_overflow (f_long c) v) as [o|i].
      * unfold two53, neg_two53. rewrite !dop_fin, Hrich, zfop_fin. cbn [zop].
        set (P := 2 ^ k) in *. set (B := 2 ^ 53) in *.
        destruct L as [[-> Hv]|[-> Hv]].
        -- change (1 <? 0) with false. cbv iota.
           destruct (Z.ltb_spec n (- B * P)) as [G|G]; [|reflexivity].
           f_equal. symmetry. apply zop_gt. nia.
        -- change (-1 <? 0) with true. cbv iota.
           destruct (Z.ltb_spec (B * P) n) as [G|G]; [|reflexivity].
           f_equal. symmetry. apply zop_lt. nia.
      * destruct L as [-> Hv]. rewrite i2d_exact by lia. cbn [via]. rewrite dop_int_l. reflexivity.
Qed.

(* ---- the two preprocessor variants (and the two struct layouts) agree ---- *)
Theorem floatint_variants_agree c1 c2 rich op f b :
  fcfg_ok c1 -> fcfg_ok c2 -> i_sh (f_i c1) = i_sh (f_i c2) ->
  (forall o g z, rich o g z = fop o g z) -> dbl_ok f -> wf (i_sh (f_i c1)) b ->
  cmp_floatint c1 rich op f b = cmp_floatint c2 rich op f b.
Proof.
  intros H1 H2 E Hr Hf Wb. rewrite (floatint_correct c1), (floatint_correct c2); try assumption.
  - rewrite E. reflexivity.
  - rewrite <- E. exact Wb.
Qed.

Theorem intfloat_variants_agree c1 c2 rich op a f :
  fcfg_ok c1 -> fcfg_ok c2 -> i_sh (f_i c1) = i_sh (f_i c2) ->
  (forall o z g, rich o z g = zfop o z g) -> dbl_ok f -> wf (i_sh (f_i c1)) a ->
  cmp_intfloat c1 rich op a f = cmp_intfloat c2 rich op a f.
Proof.
  intros H1 H2 E Hr Hf Wa. rewrite (intfloat_correct c1), (intfloat_correct c2); try assumption.
  - rewrite E. reflexivity.
  - rewrite <- E. exact Wa.
Qed.

(* the int-int helper too (corollary of P_CmpInt.intint_correct) *)
Theorem intint_variants_agree c1 c2 rich op a b :
  cfg_ok c1 -> cfg_ok c2 -> i_sh c1 = i_sh c2 ->
  (forall o x y, rich o x y = zop o x y) -> wf (i_sh c1) a -> wf (i_sh c1) b ->
  cmp_intint c1 rich op a b = cmp_intint c2 rich op a b.
Proof.
  intros H1 H2 E Hr Wa Wb. rewrite (intint_correct c1), (intint_correct c2); try assumption.
  - rewrite E. reflexivity.
  - rewrite <- E. exact Wa.
  - rewrite <- E. exact Wb.
Qed.

(* ---- the dispatcher on exact float / int operands ---- *)
Definition num_ok (sh : Z) (a : num) : Prop :=
  match a with NFloat f => dbl_ok f | NInt x => wf sh x end.

(* the exact order of two numbers, as the six operators see it *)
Definition num_op (sh : Z) (op : cop) (a b : num) : bool :=
  match a, b with
  | NFloat f, NFloat g => dop op f g
  | NFloat f, NInt y => fop op f (value sh y)
  | NInt x, NFloat g => zfop op (value sh x) g
  | NInt x, NInt y => zop op (value sh x) (value sh y)
  end.

Theorem num_correct c rfz rzf rzz op (same : bool) a b :
  fcfg_ok c -> (forall o g z, rfz o g z = fop o g z) -> (forall o z g, rzf o z g = zfop o z g) ->
  (forall o x y, rzz o x y = zop o x y) ->
  num_ok (i_sh (f_i c)) a -> num_ok (i_sh (f_i c)) b ->
  (same = true -> a = b) -> (same = true -> exists x, a = NInt x) ->
  cmp_num c rfz rzf rzz op same a b = Some (num_op (i_sh (f_i c)) op a b).
Proof.
  intros Hc H1 H2 H3 Oa Ob Hs Hi. destruct a as [f|x], b as [g|y]; cbn [cmp_num num_op num_ok] in *.
  - reflexivity.
  - apply floatint_correct; assumption.
  - apply intfloat_correct; assumption.
  - apply exact_correct; try assumption; [apply Hc|].
    intros E. specialize (Hs E). injection Hs as ->. reflexivity.
Qed.

Lemma fcfg_ok_lp64_312 : fcfg_ok f_lp64_312.
Proof. split; [exact cfg_ok_lp64_312|cbn; lia]. Qed.
Lemma fcfg_ok_lp64_311 : fcfg_ok f_lp64_311.
Proof. split; [exact cfg_ok_lp64_311|cbn; lia]. Qed.
Lemma fcfg_ok_lp64_noint : fcfg_ok f_lp64_noint.
Proof. split; [exact cfg_ok_lp64_noint|cbn; lia]. Qed.

(* ---- witnesses ---- *)

(* the region the shortcuts are about: a float of small magnitude against a multi-digit int of the
   same sign is decided by branch 4, in both signs, and decided correctly *)
Lemma small_float_vs_big_int :
  let b := of_Z 30 (- 2 ^ 40) in let f := DFin (-3) 1 in     (* -1.5 < -(2**40) is False *)
  cmp_floatint f_lp64_312 fop OpLt f b = Some false /\
  cmp_floatint f_lp64_312 fop OpGt f b = Some true /\
  cmp_floatint f_lp64_noint fop OpLt f b = Some false /\
  cmp_intfloat f_lp64_312 zfop OpLt b f = Some true /\
  fbranch f_lp64_312 false f b = 4 /\ fbranch f_lp64_noint false f b = 7.
Proof. vm_compute. repeat split. Qed.

(* a 32-bit long (64-bit Windows) breaks the variant without internals: 2^40 overflows long but is
   far below 2^53, so `float_op1 < 2^53` does not imply float < int.   2.0**45 < 2**40 -> True *)
Lemma floatint_long32_refuted :
  exists op f z, dbl_ok f /\
    cmp_floatint f_llp64_noint fop op f (of_Z 30 z) <> Some (fop op f z).
Proof. exists OpLt, (DFin (2 ^ 45) 0), (2 ^ 40). split; [reflexivity|]. vm_compute. discriminate. Qed.
