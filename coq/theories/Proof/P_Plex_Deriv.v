(* C50, part 4: the reference matcher (Brzozowski derivatives over the event alphabet) decides the
   denotational language; longest-match / earliest-rule selection. *)
From Coq Require Import ZArith List Bool Lia ZifyBool ZifyNat.
From CyVerif Require Import Model.M_Plex.
Import ListNotations.
Open Scope Z_scope.

Inductive L : ere -> list event -> Prop :=
| L_eps : L EEps []
| L_range c0 c1 c : c0 <= c < c1 -> L (ERange c0 c1) [EvChar c]
| L_sym s e : ev_is s e = true -> L (ESym s) [e]
| L_seq a b w1 w2 : L a w1 -> L b w2 -> L (ESeq a b) (w1 ++ w2)
| L_alt_l a b w : L a w -> L (EAlt a b) w
| L_alt_r a b w : L b w -> L (EAlt a b) w
| L_rep1_one a w : L a w -> L (ERep1 a) w
| L_rep1_more a w1 w2 : L a w1 -> L (ERep1 a) w2 -> L (ERep1 a) (w1 ++ w2).

Lemma nullable_sound r : e_nullable r = true -> L r [].
Proof.
  induction r as [| |c0 c1|s|a IHa b IHb|a IHa b IHb|a IHa]; cbn; intros H; try discriminate.
  - constructor.
  - apply andb_true_iff in H. destruct H as [Ha Hb]. change (@nil event) with (@nil event ++ []).
    constructor; auto.
  - apply orb_true_iff in H. destruct H as [H|H]; [apply L_alt_l|apply L_alt_r]; auto.
  - apply L_rep1_one; auto.
Qed.

Lemma nullable_complete r w : L r w -> w = [] -> e_nullable r = true.
Proof.
  induction 1 as [|c0 c1 c Hc|s e He|a b w1 w2 H1 IH1 H2 IH2|a b w H IH|a b w H IH|a w H IH
                  |a w1 w2 H1 IH1 H2 IH2]; intros E; cbn; try discriminate; auto.
  - apply app_eq_nil in E. destruct E. rewrite IH1, IH2; auto.
  - rewrite IH; auto.
  - rewrite IH; auto. apply orb_true_r.
  - apply app_eq_nil in E. destruct E. auto.
Qed.

Lemma nullable_correct r : e_nullable r = true <-> L r [].
Proof. split; [apply nullable_sound|intros H; eapply nullable_complete; eauto]. Qed.

Lemma L_empty_inv w : ~ L EEmpty w.
Proof. intros H. inversion H. Qed.

Lemma deriv_sound e : forall r w, L (e_deriv e r) w -> L r (e :: w).
Proof.
  induction r as [| |c0 c1|s|a IHa b IHb|a IHa b IHb|a IHa]; cbn [e_deriv]; intros w H.
  - inversion H.
  - inversion H.
  - destruct (ev_matches c0 c1 e) eqn:E; [|inversion H]. inversion H; subst.
    destruct e; cbn in E; try discriminate. constructor. lia.
  - destruct (ev_is s e) eqn:E; [|inversion H]. inversion H; subst. constructor; auto.
  - destruct (e_nullable a) eqn:Na.
    + inversion H as [| | | | ? ? ? H1 | ? ? ? H1 | |]; subst.
      * inversion H1; subst. change (e :: w1 ++ w2) with ((e :: w1) ++ w2). constructor; auto.
      * change (e :: w) with ([] ++ e :: w). constructor; [apply nullable_sound; auto|auto].
    + inversion H; subst. change (e :: w1 ++ w2) with ((e :: w1) ++ w2). constructor; auto.
  - inversion H; subst; [apply L_alt_l|apply L_alt_r]; auto.
  - inversion H as [| | |? ? w1 w2 H1 H2| | | |]; subst.
    change (e :: w1 ++ w2) with ((e :: w1) ++ w2).
    inversion H2 as [| | | |? ? ? H3|? ? ? H3| |]; subst.
    + apply L_rep1_more; auto.
    + inversion H3; subst. rewrite app_nil_r. apply L_rep1_one; auto.
Qed.

Lemma deriv_complete e r u : L r u -> forall w, u = e :: w -> L (e_deriv e r) w.
Proof.
  induction 1 as [|c0 c1 c Hc|s e' He|a b w1 w2 H1 IH1 H2 IH2|a b w0 H IH|a b w0 H IH|a w0 H IH
                  |a w1 w2 H1 IH1 H2 IH2]; intros w E; cbn [e_deriv].
  - discriminate.
  - inversion E; subst. cbn. destruct (Z.leb_spec c0 c), (Z.ltb_spec c c1); try lia. cbn. constructor.
  - inversion E; subst. rewrite He. constructor.
  - destruct w1 as [|x w1'].
    + cbn in E. subst w2. rewrite (nullable_complete a [] H1 eq_refl). apply L_alt_r. auto.
    + cbn in E. inversion E; subst.
      assert (L (ESeq (e_deriv e a) b) (w1' ++ w2)) by (constructor; auto).
      destruct (e_nullable a); [apply L_alt_l|]; assumption.
  - apply L_alt_l; auto.
  - apply L_alt_r; auto.
  - rewrite <- (app_nil_r w). constructor; [auto|]. apply L_alt_r. constructor.
  - destruct w1 as [|x w1'].
    + cbn in E. apply (IH2 w E).
    + cbn in E. inversion E; subst. constructor; [auto|]. apply L_alt_l. assumption.
Qed.

Lemma deriv_correct_step e r w : L (e_deriv e r) w <-> L r (e :: w).
Proof. split; [apply deriv_sound|intros H; eapply deriv_complete; eauto]. Qed.

Theorem derivative_correct : forall w r, e_matches r w = true <-> L r w.
Proof.
  induction w as [|e t IH]; intros r; cbn [e_matches].
  - apply nullable_correct.
  - rewrite IH. apply deriv_correct_step.
Qed.

(* ---------- longest match, earliest rule ---------- *)
Definition derivs (pre : list event) (r : ere) : ere := fold_left (fun r e => e_deriv e r) pre r.

Lemma derivs_correct : forall pre r u, L (derivs pre r) u <-> L r (pre ++ u).
Proof.
  induction pre as [|e t IH]; intros r u; [reflexivity|].
  cbn [derivs fold_left app]. fold (derivs t (e_deriv e r)). rewrite IH. apply deriv_correct_step.
Qed.

(* rule number k (1-based) is the first rule whose language contains u *)
Definition first_acc (rs : list ere) (u : list event) (k : Z) : Prop :=
  1 <= k /\ exists r, nth_error rs (Z.to_nat (k - 1)) = Some r /\ L r u
  /\ forall j r', (j < Z.to_nat (k - 1))%nat -> nth_error rs j = Some r' -> ~ L r' u.

Lemma first_nullable_spec : forall rs k0,
  match first_nullable rs k0 with
  | Some k => k0 <= k /\ exists r, nth_error rs (Z.to_nat (k - k0)) = Some r /\ e_nullable r = true
              /\ forall j r', (j < Z.to_nat (k - k0))%nat -> nth_error rs j = Some r' -> e_nullable r' = false
  | None => forall j r, nth_error rs j = Some r -> e_nullable r = false
  end.
Proof.
  induction rs as [|r t IH]; intros k0; cbn [first_nullable].
  - intros j r H. destruct j; discriminate.
  - destruct (e_nullable r) eqn:N.
    + split; [lia|]. exists r. rewrite Z.sub_diag. cbn. repeat split; auto. intros j r' Hj. lia.
    + specialize (IH (k0 + 1)). destruct (first_nullable t (k0 + 1)) as [k|].
      * destruct IH as (Hk & r1 & E1 & N1 & Hmin). split; [lia|]. exists r1.
        replace (Z.to_nat (k - k0)) with (S (Z.to_nat (k - (k0 + 1)))) by lia. cbn [nth_error].
        repeat split; auto. intros j r' Hj Ej. destruct j as [|j]; cbn in Ej.
        -- inversion Ej; subst; auto.
        -- apply (Hmin j r'); [lia|auto].
      * intros j r' Ej. destruct j as [|j]; cbn in Ej; [inversion Ej; subst; auto|eapply IH; eauto].
Qed.

Lemma first_nullable_derivs rs0 pre :
  match first_nullable (map (derivs pre) rs0) 1 with
  | Some k => first_acc rs0 pre k
  | None => forall k, ~ first_acc rs0 pre k
  end.
Proof.
  pose proof (first_nullable_spec (map (derivs pre) rs0) 1) as S.
  destruct (first_nullable (map (derivs pre) rs0) 1) as [k|].
  - destruct S as (Hk & r & E & N & Hmin). split; [exact Hk|].
    rewrite nth_error_map in E. destruct (nth_error rs0 (Z.to_nat (k - 1))) as [r0|] eqn:E0; [|discriminate].
    cbn in E. inversion E; subst. exists r0. split; [reflexivity|]. split.
    + apply nullable_correct, derivs_correct in N. rewrite app_nil_r in N. exact N.
    + intros j r' Hj Ej HL. specialize (Hmin j (derivs pre r') Hj).
      rewrite nth_error_map, Ej in Hmin. specialize (Hmin eq_refl).
      assert (e_nullable (derivs pre r') = true); [|congruence].
      apply nullable_correct, derivs_correct. rewrite app_nil_r. exact HL.
  - intros k (Hk & r & E & HL & _). specialize (S (Z.to_nat (k - 1)) (derivs pre r)).
    rewrite nth_error_map, E in S. specialize (S eq_refl).
    assert (e_nullable (derivs pre r) = true); [|congruence].
    apply nullable_correct, derivs_correct. rewrite app_nil_r. exact HL.
Qed.

Lemma first_acc_unique rs u k k' : first_acc rs u k -> first_acc rs u k' -> k = k'.
Proof.
  intros (H1 & r & E & HL & Hmin) (H1' & r' & E' & HL' & Hmin').
  destruct (Z.lt_trichotomy k k') as [Hlt|[->|Hlt]]; [exfalso|reflexivity|exfalso].
  - apply (Hmin' (Z.to_nat (k - 1)) r); [lia|auto|auto].
  - apply (Hmin (Z.to_nat (k' - 1)) r'); [lia|auto|auto].
Qed.

(* the state of the search after the prefix pre of w = pre ++ t *)
Definition best_ok (rs0 : list ere) (w : list event) (m : nat) (best : option (Z * Z)) : Prop :=
  match best with
  | Some (n, k) => 0 <= n /\ (Z.to_nat n < m)%nat /\ first_acc rs0 (firstn (Z.to_nat n) w) k
                   /\ forall n' k', (Z.to_nat n < n' < m)%nat -> ~ first_acc rs0 (firstn n' w) k'
  | None => forall n' k', (n' < m)%nat -> ~ first_acc rs0 (firstn n' w) k'
  end.

Definition final_ok (rs0 : list ere) (w : list event) (res : option (Z * Z)) : Prop :=
  match res with
  | Some (n, k) => 0 <= n <= Z.of_nat (length w) /\ first_acc rs0 (firstn (Z.to_nat n) w) k
                   /\ forall n' k', (Z.to_nat n < n' <= length w)%nat -> ~ first_acc rs0 (firstn n' w) k'
  | None => forall n' k', (n' <= length w)%nat -> ~ first_acc rs0 (firstn n' w) k'
  end.

Lemma firstn_pre {A} (pre t : list A) : firstn (length pre) (pre ++ t) = pre.
Proof. rewrite firstn_app, Nat.sub_diag, firstn_all. cbn. apply app_nil_r. Qed.

Lemma ref_longest_inv rs0 w : forall t pre best, w = pre ++ t ->
  best_ok rs0 w (length pre) best ->
  final_ok rs0 w (ref_longest (map (derivs pre) rs0) t (Z.of_nat (length pre)) best).
Proof.
  induction t as [|e t IH]; intros pre best Ew Hb.
  - cbn [ref_longest]. pose proof (first_nullable_derivs rs0 pre) as F.
    rewrite app_nil_r in Ew. subst w.
    destruct (first_nullable (map (derivs pre) rs0) 1) as [k|].
    + cbn. split; [lia|]. rewrite Nat2Z.id, firstn_all. split; [exact F|]. intros; lia.
    + destruct best as [[n k]|]; cbn in Hb |- *.
      * destruct Hb as (H0 & Hn & Hacc & Hmax). split; [lia|]. split; [exact Hacc|].
        intros n' k' Hn'. destruct (Nat.eq_dec n' (length pre)) as [->|Hne].
        -- rewrite firstn_all. apply F.
        -- apply Hmax. lia.
      * intros n' k' Hn'. destruct (Nat.eq_dec n' (length pre)) as [->|Hne].
        -- rewrite firstn_all. apply F.
        -- apply Hb. lia.
  - cbn [ref_longest]. pose proof (first_nullable_derivs rs0 pre) as F.
    assert (Ew' : w = (pre ++ [e]) ++ t) by (rewrite <- app_assoc; exact Ew).
    assert (Emap : map (e_deriv e) (map (derivs pre) rs0) = map (derivs (pre ++ [e])) rs0).
    { rewrite map_map. apply map_ext. intros r. unfold derivs. rewrite fold_left_app. reflexivity. }
    assert (Elen : Z.of_nat (length pre) + 1 = Z.of_nat (length (pre ++ [e])))
      by (rewrite app_length; cbn; lia).
    rewrite Emap, Elen. apply IH; [exact Ew'|].
    assert (Epre : firstn (length pre) w = pre) by (rewrite Ew; apply firstn_pre).
    assert (Elen' : length (pre ++ [e]) = S (length pre)) by (rewrite app_length; cbn; lia).
    rewrite Elen'.
    destruct (first_nullable (map (derivs pre) rs0) 1) as [k|].
    + cbn. split; [lia|]. rewrite Nat2Z.id. split; [lia|]. rewrite Epre. split; [exact F|].
      intros; lia.
    + destruct best as [[n k]|]; cbn in Hb |- *.
      * destruct Hb as (H0 & Hn & Hacc & Hmax). split; [lia|]. split; [lia|]. split; [exact Hacc|].
        intros n' k' Hn'. destruct (Nat.eq_dec n' (length pre)) as [->|Hne].
        -- rewrite Epre. apply F.
        -- apply Hmax. lia.
      * intros n' k' Hn'. destruct (Nat.eq_dec n' (length pre)) as [->|Hne].
        -- rewrite Epre. apply F.
        -- apply Hb. lia.
Qed.

(* ref_longest returns the longest prefix of w in the language of some rule, with the first such rule *)
Theorem ref_longest_correct rs w : final_ok rs w (ref_longest rs w 0 None).
Proof.
  pose proof (ref_longest_inv rs w w [] None eq_refl) as H. cbn [length Z.of_nat] in H.
  assert (E : map (derivs []) rs = rs) by (rewrite <- (map_id rs) at 2; apply map_ext; reflexivity).
  rewrite E in H. apply H. cbn. intros; lia.
Qed.
