(* C09 -- proofs about the model of ConstantFolding on sequence displays (Model/M_Fold.v) *)
From Coq Require Import ZArith List Bool Lia.
From CyVerif Require Import Model.M_Fold.
Import ListNotations.
Open Scope Z_scope.

(* ---------------- induction over expressions (nested lists) ---------------- *)
Section expr_induction.
  Variable P : expr -> Prop.
  Hypothesis HInt : forall z, P (EInt z).
  Hypothesis HBool : forall b, P (EBool b).
  Hypothesis HOpq : forall b, P (EOpq b).
  Hypothesis HVar : forall n, P (EVar n).
  Hypothesis HStar : forall x, P x -> P (EStar x).
  Hypothesis HDisp : forall k items, Forall P items -> P (EDisp k items).
  Hypothesis HMul : forall a b, P a -> P b -> P (EMul a b).
  Hypothesis HCmp : forall a b, P a -> P b -> P (ECmp a b).
  Hypothesis HOr : forall a b, P a -> P b -> P (EOr a b).
  Hypothesis HCond : forall c a b, P c -> P a -> P b -> P (ECond c a b).

  Fixpoint expr_ind2 (e : expr) : P e :=
    match e with
    | EInt z => HInt z | EBool b => HBool b | EOpq b => HOpq b | EVar n => HVar n
    | EStar x => HStar x (expr_ind2 x)
    | EDisp k items =>
        HDisp k items
          ((fix go (l : list expr) : Forall P l :=
              match l with [] => Forall_nil P | x :: t => Forall_cons x (expr_ind2 x) (go t) end) items)
    | EMul a b => HMul a b (expr_ind2 a) (expr_ind2 b)
    | ECmp a b => HCmp a b (expr_ind2 a) (expr_ind2 b)
    | EOr a b => HOr a b (expr_ind2 a) (expr_ind2 b)
    | ECond c a b => HCond c a b (expr_ind2 c) (expr_ind2 a) (expr_ind2 b)
    end.
End expr_induction.

(* ---------------- repetition ---------------- *)
Lemma rep_nat_nil : forall A n, @rep_nat A n [] = [].
Proof. induction n; simpl; auto. Qed.

Lemma rep_nat_add : forall A (l : list A) a b, rep_nat (a + b) l = rep_nat a l ++ rep_nat b l.
Proof. induction a; simpl; intros; auto. rewrite IHa, app_assoc. reflexivity. Qed.

Lemma rep_nat_mul : forall A (l : list A) a b, rep_nat a (rep_nat b l) = rep_nat (b * a) l.
Proof.
  induction a; simpl; intros.
  - rewrite Nat.mul_0_r. reflexivity.
  - rewrite IHa. rewrite <- rep_nat_add. f_equal. lia.
Qed.

Lemma zrep_nil : forall A n, @zrep A n [] = [].
Proof. intros. apply rep_nat_nil. Qed.

Lemma zrep_one : forall A (l : list A), zrep 1 l = l.
Proof. intros. unfold zrep. simpl. apply app_nil_r. Qed.

Lemma zrep_nonpos : forall A (l : list A) z, z <= 0 -> zrep z l = [].
Proof. intros. unfold zrep. destruct z; try lia; reflexivity. Qed.

Lemma zrep_mul : forall A (l : list A) z mz, 0 < z -> zrep z (zrep mz l) = zrep (mz * z) l.
Proof.
  intros. unfold zrep. rewrite rep_nat_mul. f_equal.
  destruct (Z.leb_spec mz 0).
  - replace (Z.to_nat mz) with O by lia. replace (Z.to_nat (mz * z)) with O by nia. reflexivity.
  - rewrite Z2Nat.inj_mul by lia. reflexivity.
Qed.

(* ---------------- the item loops as functions of their own ---------------- *)
Definition eitems (env : nat -> value) : list expr -> option (list value) :=
  fix go (l : list expr) : option (list value) :=
    match l with
    | [] => Some []
    | EStar x :: t =>
        match eval env x, go t with
        | Some (VSeq _ vs), Some r => Some (vs ++ r)
        | _, _ => None
        end
    | x :: t =>
        match eval env x, go t with
        | Some v, Some r => Some (v :: r)
        | _, _ => None
        end
    end.

Definition fitems (env : nat -> value) : list fnode -> option (list value) :=
  fix go (l : list fnode) : option (list value) :=
    match l with
    | [] => Some []
    | FStar x :: t =>
        match fdenote env x, go t with
        | Some (VSeq _ vs), Some r => Some (vs ++ r)
        | _, _ => None
        end
    | x :: t =>
        match fdenote env x, go t with
        | Some v, Some r => Some (v :: r)
        | _, _ => None
        end
    end.

Lemma eval_disp : forall env k items,
  eval env (EDisp k items) = match eitems env items with Some l => Some (VSeq k l) | None => None end.
Proof. reflexivity. Qed.

Lemma fdenote_seq : forall env k items m c,
  fdenote env (FSeq k items m c) =
  match fitems env items with
  | Some l =>
      match m with
      | None => Some (VSeq k l)
      | Some mf =>
          match fdenote env mf with
          | Some f => match as_int f with Some n => Some (VSeq k (zrep n l)) | None => None end
          | None => None
          end
      end
  | None => None
  end.
Proof. reflexivity. Qed.

(* one item of a display: its contribution to the list *)
Definition fitem1 (env : nat -> value) (x : fnode) : option (list value) :=
  match x with
  | FStar y => match fdenote env y with Some (VSeq _ vs) => Some vs | _ => None end
  | _ => match fdenote env x with Some v => Some [v] | None => None end
  end.

Lemma fitems_cons : forall env x t,
  fitems env (x :: t) =
  match fitem1 env x, fitems env t with Some a, Some r => Some (a ++ r) | _, _ => None end.
Proof.
  intros. destruct x; simpl;
    repeat match goal with |- context [match ?e with _ => _ end] => destruct e; simpl; auto end.
Qed.

Lemma fitems_app : forall env a b,
  fitems env (a ++ b) =
  match fitems env a, fitems env b with Some x, Some y => Some (x ++ y) | _, _ => None end.
Proof.
  induction a as [|x a IH]; intros.
  - simpl. destruct (fitems env b); reflexivity.
  - rewrite <- app_comm_cons, !fitems_cons, IH.
    destruct (fitem1 env x), (fitems env a), (fitems env b); try reflexivity.
    rewrite app_assoc. reflexivity.
Qed.

Definition eitem1 (env : nat -> value) (x : expr) : option (list value) :=
  match x with
  | EStar y => match eval env y with Some (VSeq _ vs) => Some vs | _ => None end
  | _ => match eval env x with Some v => Some [v] | None => None end
  end.

Lemma eitems_cons : forall env x t,
  eitems env (x :: t) =
  match eitem1 env x, eitems env t with Some a, Some r => Some (a ++ r) | _, _ => None end.
Proof.
  intros. destruct x; simpl;
    repeat match goal with |- context [match ?e with _ => _ end] => destruct e; simpl; auto end.
Qed.

(* the guarded inlining does not change what the item list denotes *)
Lemma flatten_fitems : forall env its, fitems env (flatten true its) = fitems env its.
Proof.
  induction its as [|x t IH]; [reflexivity|].
  change (flatten true (x :: t)) with
    ((match x with
      | FStar (FSeq _ args None _) => args
      | FStar (FSeq _ args (Some _) _) => [x]
      | _ => [x] end) ++ flatten true t).
  rewrite fitems_app, IH, fitems_cons.
  assert (E : fitems env (match x with
      | FStar (FSeq _ args None _) => args
      | FStar (FSeq _ args (Some _) _) => [x]
      | _ => [x] end) = fitem1 env x).
  { assert (S1 : forall y, fitems env [y] = fitem1 env y).
    { intros. rewrite fitems_cons. simpl. destruct (fitem1 env y); [rewrite app_nil_r|]; reflexivity. }
    destruct x; try apply S1.
    destruct x; try apply S1.
    destruct m; try apply S1.
    unfold fitem1. rewrite fdenote_seq. destruct (fitems env items); reflexivity. }
  rewrite E. reflexivity.
Qed.

(* ---------------- soundness of the stored constant results ---------------- *)
Definition nonseq (v : value) : bool := match v with VSeq _ _ => false | _ => true end.

(* which stored constant results are claimed sound: all of them for the repaired code; for the
   code as it is only those that are not sequences (a sequence node keeps a stale one) *)
Definition vok (fx : bool) (v : value) : Prop := fx = true \/ nonseq v = true.

Definition cok (fx : bool) (env : nat -> value) (n : fnode) : Prop :=
  forall c v, cres n = Some c -> vok fx c -> fdenote env n = Some v -> v = c.

Fixpoint hcok (fx : bool) (env : nat -> value) (n : fnode) : Prop :=
  cok fx env n /\
  match n with
  | FStar x => hcok fx env x
  | FSeq _ items m _ =>
      (fix go (l : list fnode) : Prop := match l with [] => True | x :: t => hcok fx env x /\ go t end) items /\
      match m with Some mf => hcok fx env mf | None => True end
  | FMul a b _ | FCmp a b | FOr a b => hcok fx env a /\ hcok fx env b
  | FCond c a b => hcok fx env c /\ hcok fx env a /\ hcok fx env b
  | _ => True
  end.

Definition hall (fx : bool) (env : nat -> value) : list fnode -> Prop :=
  fix go (l : list fnode) : Prop := match l with [] => True | x :: t => hcok fx env x /\ go t end.

Lemma hall_Forall : forall fx env l, hall fx env l <-> Forall (hcok fx env) l.
Proof.
  induction l; simpl; split; intros; auto.
  - destruct H. constructor; auto. apply IHl; auto.
  - inversion H; subst. split; auto. apply IHl; auto.
Qed.

Lemma hcok_seq : forall fx env k items m c,
  hcok fx env (FSeq k items m c) <->
  cok fx env (FSeq k items m c) /\ Forall (hcok fx env) items /\
  match m with Some mf => hcok fx env mf | None => True end.
Proof.
  intros. change (hcok fx env (FSeq k items m c)) with
    (cok fx env (FSeq k items m c) /\ hall fx env items /\ match m with Some mf => hcok fx env mf | None => True end).
  rewrite hall_Forall. tauto.
Qed.

Lemma hcok_cok : forall fx env n, hcok fx env n -> cok fx env n.
Proof. intros. destruct n; simpl in H; tauto. Qed.

(* a sequence node's stored result is a sequence (so never trusted for the code as it is) *)
Definition seqc (n : fnode) : Prop :=
  match n with FSeq _ _ _ (Some c) => nonseq c = false | _ => True end.

Lemma cok_leaf_int : forall fx env z, hcok fx env (FInt z).
Proof. intros. split; auto. intros c v H _ H1. simpl in *. congruence. Qed.

Lemma int_cres_sound : forall fx env n z v,
  cok fx env n -> is_int_value (cres n) = Some z -> fdenote env n = Some v -> as_int v = Some z.
Proof.
  intros fx env n z v Hc Hi Hd. destruct (cres n) as [c|] eqn:E; [|discriminate].
  assert (v = c).
  { apply Hc; auto. right. destruct c; simpl in *; try discriminate; reflexivity. }
  subst. destruct c; simpl in *; congruence.
Qed.

Lemma py_mul_seq_l : forall k l x v,
  py_mul (VSeq k l) x = Some v -> exists n, as_int x = Some n /\ v = VSeq k (zrep n l).
Proof. intros. simpl in H. destruct (as_int x); inversion H. eauto. Qed.

Lemma py_mul_int_seq : forall z k l, py_mul (VInt z) (VSeq k l) = py_mul (VSeq k l) (VInt z).
Proof. reflexivity. Qed.

Lemma fold_seq_inv : forall env k args m sc vs,
  fdenote env (FSeq k args m sc) = Some vs ->
  exists l, fitems env args = Some l /\
    match m with
    | None => vs = VSeq k l
    | Some mf => exists f n, fdenote env mf = Some f /\ as_int f = Some n /\ vs = VSeq k (zrep n l)
    end.
Proof.
  intros. rewrite fdenote_seq in H. destruct (fitems env args) as [l|]; [|discriminate].
  exists l. split; auto. destruct m.
  - destruct (fdenote env f) as [f0|]; [|discriminate]. destruct (as_int f0) eqn:E; inversion H. eauto.
  - inversion H. reflexivity.
Qed.

(* _calculate_constant_seq keeps the value: (items * m) * factor *)
Lemma calc_seq_value : forall fx env node k args m sc factor vs vf v,
  fdenote env (FSeq k args m sc) = Some vs ->
  fdenote env factor = Some vf ->
  py_mul vs vf = Some v ->
  fdenote env node = Some v ->
  cok fx env factor ->
  match m with Some mf => cok fx env mf | None => True end ->
  fdenote env (calc_seq fx node k args m sc factor) = Some v.
Proof.
  intros fx env node k args m sc factor vs vf v Hs Hf Hm Hn Hcf Hcm.
  destruct (fold_seq_inv _ _ _ _ _ _ Hs) as [l [Hl Hvs]].
  assert (Hvs' : exists l', vs = VSeq k l' /\ (l = [] -> l' = [])).
  { destruct m.
    - destruct Hvs as [f0 [n [_ [_ E]]]]. eexists; split; eauto. intros; subst. apply zrep_nil.
    - eexists; split; eauto. }
  destruct Hvs' as [l' [El' Hnil]]. subst vs.
  destruct (py_mul_seq_l _ _ _ _ Hm) as [n [Hn' Ev]]. subst v.
  unfold calc_seq.
  destruct (differs_from_one (cres factor) && match args with [] => false | _ => true end) eqn:Hd.
  - apply andb_true_iff in Hd. destruct Hd as [_ Hne].
    destruct (is_int_value (cres factor)) as [z|] eqn:Ez.
    + assert (as_int vf = Some z) by (eapply int_cres_sound; eauto).
      assert (n = z) by congruence. subst n.
      destruct (Z.leb_spec z 0).
      * rewrite fdenote_seq. simpl. rewrite zrep_nonpos by auto. reflexivity.
      * destruct m as [mf|].
        -- destruct Hvs as [f0 [nm [Hmf [Hnm El]]]]. inversion El; subst l'.
           destruct (is_int_value (cres mf)) as [mz|] eqn:Emz; [|exact Hn].
           assert (as_int f0 = Some mz) by (eapply int_cres_sound; eauto).
           assert (nm = mz) by congruence. subst nm.
           rewrite fdenote_seq, Hl. simpl. rewrite zrep_mul by auto. reflexivity.
        -- inversion Hvs; subst l'. rewrite fdenote_seq, Hl, Hf, Hn'. reflexivity.
    + destruct m as [mf|]; [exact Hn|].
      inversion Hvs; subst l'. rewrite fdenote_seq, Hl, Hf, Hn'. reflexivity.
  - rewrite Hs. apply andb_false_iff in Hd. destruct Hd as [Hd|Hd].
    + unfold differs_from_one in Hd. destruct (is_int_value (cres factor)) as [z|] eqn:Ez; [|discriminate].
      assert (as_int vf = Some z) by (eapply int_cres_sound; eauto).
      assert (z = 1) by (destruct (Z.eqb_spec z 1); [auto|discriminate]).
      assert (n = 1) by congruence. subst. rewrite zrep_one. reflexivity.
    + destruct args; [|discriminate]. simpl in Hl. inversion Hl; subst l.
      rewrite (Hnil eq_refl). rewrite zrep_nil. reflexivity.
Qed.

Lemma vok_false_seq : forall c, vok false c -> nonseq c = false -> False.
Proof. intros c [H|H] H1; congruence. Qed.

(* the node _calculate_constant_seq returns carries a sound constant result: recalculated
   (repaired code), or a sequence value that nothing may trust (code as it is) *)
Lemma calc_seq_hcok : forall fx env node k args m sc factor,
  hcok fx env (FSeq k args m sc) -> seqc (FSeq k args m sc) ->
  hcok fx env factor -> hcok fx env node -> seqc node ->
  hcok fx env (calc_seq fx node k args m sc factor) /\ seqc (calc_seq fx node k args m sc factor).
Proof.
  intros fx env node k args m sc factor Hs Hsc Hf Hn Hnc.
  pose proof Hs as Hs0. apply hcok_seq in Hs. destruct Hs as [Hc [Ha Hm]].
  assert (STALE : forall it mm, cok fx env (FSeq k it mm (if fx then None else sc))).
  { intros it mm c v E V D. destruct fx; simpl in E; [discriminate|].
    exfalso. simpl in Hsc. rewrite E in Hsc. eapply vok_false_seq; eauto. }
  assert (SC : forall it mm, seqc (FSeq k it mm (if fx then None else sc))).
  { intros. destruct fx; simpl; auto. }
  unfold calc_seq.
  destruct (differs_from_one (cres factor) && match args with [] => false | _ => true end); [|split; auto].
  destruct (is_int_value (cres factor)) as [z|].
  - destruct (z <=? 0).
    + split.
      * apply hcok_seq. split; [|split; auto].
        intros c v E V D. destruct fx; simpl in E.
        -- rewrite fdenote_seq in D. simpl in D. congruence.
        -- exfalso. simpl in Hsc. rewrite E in Hsc. eapply vok_false_seq; eauto.
      * destruct fx; simpl; auto.
    + destruct m as [mf|].
      * destruct (is_int_value (cres mf)); [|split; auto].
        split; [|apply SC]. apply hcok_seq. split; [apply STALE|split; [exact Ha|exact (cok_leaf_int _ _ _)]].
      * split; [|apply SC]. apply hcok_seq. split; [apply STALE|split; auto].
  - destruct m as [mf|]; [split; auto|].
    split; [|apply SC]. apply hcok_seq. split; [apply STALE|split; auto].
Qed.

Lemma py_mul_nonseq : forall x y c, py_mul x y = Some c -> nonseq c = true -> nonseq x = true /\ nonseq y = true.
Proof.
  intros. destruct x, y; simpl in *; auto;
    repeat match goal with H : match ?e with _ => _ end = Some _ |- _ => destruct e; try discriminate end;
    inversion H; subst; simpl in *; try discriminate; auto.
Qed.

(* the MulNode itself: its constant result is the product of the operands' constant results *)
Lemma mul_self_hcok : forall fx env a b,
  hcok fx env a -> hcok fx env b ->
  hcok fx env (FMul a b (match cres a, cres b with Some x, Some y => py_mul x y | _, _ => None end)).
Proof.
  intros fx env a b Ha Hb. split; [|split; auto].
  intros c v E V D. simpl in E, D.
  destruct (cres a) as [x|] eqn:Ea; [|discriminate]. destruct (cres b) as [y|] eqn:Eb; [|discriminate].
  destruct (fdenote env a) as [va|] eqn:Da; [|discriminate]. destruct (fdenote env b) as [vb|] eqn:Db; [|discriminate].
  assert (Vx : vok fx x /\ vok fx y).
  { destruct V as [V|V]; [split; left; auto|]. destruct (py_mul_nonseq _ _ _ E V). split; right; auto. }
  destruct Vx as [Vx Vy].
  assert (va = x) by (eapply (hcok_cok _ _ _ Ha); eauto).
  assert (vb = y) by (eapply (hcok_cok _ _ _ Hb); eauto).
  subst. congruence.
Qed.

Lemma binop_mul_hcok : forall fx env a b,
  hcok fx env a -> hcok fx env b ->
  hcok fx env (binop_mul a b (match cres a, cres b with Some x, Some y => py_mul x y | _, _ => None end)).
Proof.
  intros fx env a b Ha Hb. pose proof (mul_self_hcok fx env a b Ha Hb) as H.
  unfold binop_mul.
  destruct (match cres a, cres b with Some x, Some y => py_mul x y | _, _ => None end) as [c|]; auto.
  destruct c; auto. destruct a; auto; destruct b; auto; apply cok_leaf_int.
Qed.

Lemma binop_mul_value : forall env a b v,
  fdenote env (FMul a b None) = Some v ->
  fdenote env (binop_mul a b (match cres a, cres b with Some x, Some y => py_mul x y | _, _ => None end)) = Some v.
Proof.
  intros env a b v H. unfold binop_mul.
  destruct (match cres a, cres b with Some x, Some y => py_mul x y | _, _ => None end) as [c|] eqn:E; auto.
  destruct c; auto. destruct a; auto; destruct b; auto; simpl in *; congruence.
Qed.

Lemma binop_mul_seqc : forall a b c, seqc (binop_mul a b c).
Proof.
  intros. unfold binop_mul. destruct c as [c|]; simpl; auto. destruct c; simpl; auto.
  destruct a; simpl; auto; destruct b; simpl; auto.
Qed.

Lemma fdenote_mul : forall env a b c,
  fdenote env (FMul a b c) = match fdenote env a, fdenote env b with Some x, Some y => py_mul x y | _, _ => None end.
Proof. reflexivity. Qed.

Lemma mul_node_ok : forall fx env a b va vb v,
  hcok fx env a -> hcok fx env b -> seqc a -> seqc b ->
  (fdenote env a = Some va -> fdenote env b = Some vb -> py_mul va vb = Some v ->
   fdenote env (mul_node fx a b) = Some v)
  /\ hcok fx env (mul_node fx a b) /\ seqc (mul_node fx a b).
Proof.
  intros fx env a b va vb v Ha Hb Sa Sb.
  pose proof (mul_self_hcok fx env a b Ha Hb) as Hself.
  pose proof (binop_mul_hcok fx env a b Ha Hb) as Hbin.
  assert (Vbin : fdenote env a = Some va -> fdenote env b = Some vb -> py_mul va vb = Some v ->
                 fdenote env (binop_mul a b (match cres a, cres b with Some x, Some y => py_mul x y | _, _ => None end)) = Some v).
  { intros D1 D2 M. apply binop_mul_value. simpl. rewrite D1, D2. exact M. }
  assert (Hm : forall k args m sc, hcok fx env (FSeq k args m sc) -> match m with Some mf => cok fx env mf | None => True end).
  { intros k args m sc H. apply hcok_seq in H. destruct H as [_ [_ H]]. destruct m; auto. apply hcok_cok; auto. }
  unfold mul_node.
  destruct a as [z|b0|b0|n|x|k args m sc|a1 a2 c|a1 a2|a1 a2|a0 a1 a2];
    try (split; [exact Vbin|split; [exact Hbin|apply binop_mul_seqc]]).
  - (* IntNode * ... *)
    destruct b as [z'|b0|b0|n|x|k args m sc|b1 b2 c|b1 b2|b1 b2|b0 b1 b2];
      try (split; [exact Vbin|split; [exact Hbin|apply binop_mul_seqc]]).
    split.
    + intros D1 D2 M. simpl in D1. inversion D1; subst va.
      destruct (fold_seq_inv _ _ _ _ _ _ D2) as [l [_ Hv]].
      assert (exists l', vb = VSeq k l') as [l' El'].
      { destruct m; [destruct Hv as [? [? [_ [_ ?]]]]|]; eauto. }
      subst vb.
      apply (calc_seq_value fx env _ k args m sc (FInt z) (VSeq k l') (VInt z) v).
      * exact D2.
      * reflexivity.
      * rewrite <- py_mul_int_seq. exact M.
      * rewrite fdenote_mul, D2. exact M.
      * apply hcok_cok; auto.
      * apply (Hm _ _ _ _ Hb).
    + apply calc_seq_hcok; auto; simpl; auto.
  - (* sequence * ... *)
    split.
    + intros D1 D2 M.
      destruct (fold_seq_inv _ _ _ _ _ _ D1) as [l [_ Hv]].
      apply (calc_seq_value fx env _ k args m sc b va vb v).
      * exact D1.
      * exact D2.
      * exact M.
      * rewrite fdenote_mul, D1, D2. exact M.
      * apply hcok_cok; auto.
      * apply (Hm _ _ _ _ Ha).
    + apply calc_seq_hcok; auto; simpl; auto.
Qed.

(* ---------------- the main induction ---------------- *)
Definition mode_ok (fx : bool) (e : expr) : Prop := fx = true \/ display_only e = true.

Definition St (fx : bool) (env : nat -> value) (e : expr) : Prop :=
  (forall v, eval env e = Some v -> fdenote env (fold fx true e) = Some v)
  /\ hcok fx env (fold fx true e) /\ seqc (fold fx true e).

Definition St' (fx : bool) (env : nat -> value) (e : expr) : Prop :=
  St fx env e /\ match e with EStar x => St fx env x | _ => True end.

Lemma fitem1_of_value : forall env n v, fdenote env n = Some v -> fitem1 env n = Some [v].
Proof. intros. destruct n; try (simpl in H; discriminate); unfold fitem1; rewrite H; reflexivity. Qed.

Lemma items_value : forall fx env items,
  Forall (St' fx env) items ->
  forall l, eitems env items = Some l -> fitems env (map (fold fx true) items) = Some l.
Proof.
  induction 1 as [|x t Hx Ht IH]; intros l E; [exact E|].
  rewrite eitems_cons in E. simpl map. rewrite fitems_cons.
  destruct (eitem1 env x) as [a|] eqn:E1; [|discriminate].
  destruct (eitems env t) as [r|] eqn:E2; [|discriminate].
  rewrite (IH r eq_refl).
  assert (F1 : fitem1 env (fold fx true x) = Some a).
  { destruct Hx as [[A _] Hs].
    destruct x as [z|b|b|n|y|k its|a0 b0|a0 b0|a0 b0|c0 a0 b0]; unfold eitem1 in E1; cbv beta iota in E1;
      try (match type of E1 with match ?e with _ => _ end = _ => destruct e as [v0|] eqn:Ev; [|discriminate] end;
           inversion E1; subst a; apply fitem1_of_value; apply A; first [exact Ev|reflexivity]).
    simpl in Hs. destruct Hs as [A' _]. destruct (eval env y) as [v0|] eqn:Ev; [|discriminate].
    destruct v0; try discriminate. inversion E1; subst a.
    simpl. rewrite (A' _ eq_refl). reflexivity. }
  rewrite F1. exact E.
Qed.

Lemma flatten_hcok : forall fx env its,
  Forall (hcok fx env) its -> Forall (hcok fx env) (flatten true its).
Proof.
  induction 1 as [|x t Hx Ht IH]; [constructor|].
  change (flatten true (x :: t)) with
    ((match x with
      | FStar (FSeq _ args None _) => args
      | FStar (FSeq _ args (Some _) _) => [x]
      | _ => [x] end) ++ flatten true t).
  apply Forall_app. split; auto.
  destruct x; try (constructor; auto).
  destruct x; try (constructor; auto).
  destruct m; try (constructor; auto).
  simpl in Hx. destruct Hx as [_ Hx]. apply hcok_seq in Hx. tauto.
Qed.

Lemma items_cres_sound : forall env its cl l,
  Forall (hcok true env) its -> items_cres its = Some cl -> fitems env its = Some l -> l = cl.
Proof.
  induction its as [|x t IH]; intros cl l H E D.
  - simpl in *. congruence.
  - inversion H as [|? ? Hx Ht]; subst. simpl in E.
    destruct (cres x) as [c|] eqn:Ec; [|discriminate].
    destruct (items_cres t) as [r|] eqn:Er; [|discriminate]. inversion E; subst cl.
    rewrite fitems_cons in D.
    destruct (fitem1 env x) as [a|] eqn:E1; [|discriminate].
    destruct (fitems env t) as [r'|] eqn:E2; [|discriminate]. inversion D; subst l.
    rewrite (IH r r' Ht eq_refl eq_refl).
    assert (a = [c]).
    { destruct x; try (simpl in Ec; discriminate); unfold fitem1 in E1; cbv beta iota in E1;
        match type of E1 with match ?e with _ => _ end = _ => destruct e as [v0|] eqn:Dv; [|discriminate] end;
        inversion E1; subst a; f_equal; apply (hcok_cok _ _ _ Hx c v0); auto; left; auto. }
    subst a. reflexivity.
Qed.

Lemma mode_ok_items : forall fx k items, mode_ok fx (EDisp k items) -> Forall (mode_ok fx) items.
Proof.
  intros fx k items [H|H].
  - apply Forall_forall. intros; left; auto.
  - simpl in H. rewrite forallb_forall in H. apply Forall_forall. intros; right; auto.
Qed.

Lemma fold_disp : forall fx g k items,
  fold fx g (EDisp k items) =
  FSeq k (flatten g (map (fold fx g) items)) None
       (match items_cres (flatten g (map (fold fx g) items)) with Some l => Some (VSeq k l) | None => None end).
Proof. reflexivity. Qed.

Lemma fold_mul : forall fx g a b, fold fx g (EMul a b) = mul_node fx (fold fx g a) (fold fx g b).
Proof. reflexivity. Qed.

Lemma fold_cmp : forall fx g a b,
  fold fx g (ECmp a b) =
  match cres (fold fx g a), cres (fold fx g b) with
  | Some x, Some y => FBool (py_eq x y)
  | _, _ => FCmp (fold fx g a) (fold fx g b)
  end.
Proof. reflexivity. Qed.

Lemma fold_or : forall fx g a b,
  fold fx g (EOr a b) =
  match cres (fold fx g a) with
  | Some x => if truthy x then fold fx g a else fold fx g b
  | None => FOr (fold fx g a) (fold fx g b)
  end.
Proof. reflexivity. Qed.

Lemma fold_cond : forall fx g c a b,
  fold fx g (ECond c a b) =
  match cres (fold fx g c) with
  | Some x => if truthy x then fold fx g a else fold fx g b
  | None => FCond (fold fx g c) (fold fx g a) (fold fx g b)
  end.
Proof. reflexivity. Qed.

Lemma fold_main : forall fx env e, mode_ok fx e -> St' fx env e.
Proof.
  intros fx env.
  induction e as [z|b|b|n|x IHx|k items IH|a b IHa IHb|a b IHa IHb|a b IHa IHb|c a b IHc IHa IHb] using expr_ind2;
    intros M.
  - split; [|exact I]. split; [intros v H; exact H|]. split; [|exact I]. apply cok_leaf_int.
  - split; [|exact I]. split; [intros v H; exact H|]. split; [|exact I].
    split; [|exact I]. intros c v E _ D. simpl in *. congruence.
  - split; [|exact I]. split; [intros v H; exact H|]. split; [|exact I].
    split; [|exact I]. intros c v E _ D. simpl in *. congruence.
  - split; [|exact I]. split; [intros v H; exact H|]. split; [|exact I].
    split; [|exact I]. intros c v E _ D. simpl in *. discriminate.
  - (* EStar *)
    assert (Mx : mode_ok fx x) by (destruct M as [M|M]; [left|right]; auto).
    destruct (IHx Mx) as [Sx _]. split; [|exact Sx].
    split; [intros v H; discriminate|]. split; [|exact I].
    destruct Sx as [_ [Hx _]]. split; [|exact Hx]. intros c v E _ D. discriminate.
  - (* EDisp *)
    split; [|exact I].
    assert (Hs : Forall (St' fx env) items).
    { pose proof (mode_ok_items _ _ _ M) as Mi. rewrite Forall_forall in *. intros x Hx. apply IH; auto. }
    assert (Hh : Forall (hcok fx env) (flatten true (map (fold fx true) items))).
    { apply flatten_hcok. apply Forall_forall. intros n Hn. apply in_map_iff in Hn.
      destruct Hn as [x [Ex Hx]]. subst n. rewrite Forall_forall in Hs. destruct (Hs x Hx) as [[_ [H _]] _]. exact H. }
    unfold St. rewrite fold_disp.
    split; [|split].
    + intros v Hv. rewrite eval_disp in Hv. destruct (eitems env items) as [l|] eqn:El; [|discriminate].
      inversion Hv; subst v. rewrite fdenote_seq, flatten_fitems, (items_value fx env items Hs l El). reflexivity.
    + apply hcok_seq. split; [|split; auto].
      intros c v E V D. simpl in E.
      destruct (items_cres (flatten true (map (fold fx true) items))) as [cl|] eqn:Ecl; [|discriminate].
      inversion E; subst c. destruct V as [V|V]; [|discriminate]. subst fx.
      rewrite fdenote_seq in D.
      destruct (fitems env (flatten true (map (fold true true) items))) as [l|] eqn:El; [|discriminate].
      inversion D; subst v. f_equal. eapply items_cres_sound; eauto.
    + simpl. destruct (items_cres (flatten true (map (fold fx true) items))); simpl; auto.
  - (* EMul *)
    split; [|exact I].
    assert (Ma : mode_ok fx a /\ mode_ok fx b).
    { destruct M as [M|M]; [split; left; auto|]. simpl in M. apply andb_true_iff in M. destruct M. split; right; auto. }
    destruct Ma as [Ma Mb].
    destruct (IHa Ma) as [[Aa [Ha Sa]] _]. destruct (IHb Mb) as [[Ab [Hb Sb]] _].
    unfold St. rewrite fold_mul. split; [|split].
    + intros v Hv. simpl in Hv.
      destruct (eval env a) as [va|] eqn:Ea; [|discriminate]. destruct (eval env b) as [vb|] eqn:Eb; [|discriminate].
      apply (proj1 (mul_node_ok fx env _ _ va vb v Ha Hb Sa Sb)); auto.
    + apply (mul_node_ok fx env _ _ (VInt 0) (VInt 0) (VInt 0) Ha Hb Sa Sb).
    + apply (mul_node_ok fx env _ _ (VInt 0) (VInt 0) (VInt 0) Ha Hb Sa Sb).
  - (* ECmp: only the repaired code *)
    split; [|exact I].
    destruct M as [M|M]; [subst fx|discriminate].
    destruct (IHa (or_introl eq_refl)) as [[Aa [Ha Sa]] _]. destruct (IHb (or_introl eq_refl)) as [[Ab [Hb Sb]] _].
    unfold St. rewrite fold_cmp. split; [|split].
    + intros v Hv. simpl in Hv.
      destruct (eval env a) as [va|] eqn:Ea; [|discriminate]. destruct (eval env b) as [vb|] eqn:Eb; [|discriminate].
      inversion Hv; subst v.
      destruct (cres (fold true true a)) as [x|] eqn:Ca; [destruct (cres (fold true true b)) as [y|] eqn:Cb|].
      * rewrite <- (hcok_cok _ _ _ Ha x va Ca (or_introl eq_refl) (Aa _ eq_refl)).
        rewrite <- (hcok_cok _ _ _ Hb y vb Cb (or_introl eq_refl) (Ab _ eq_refl)). reflexivity.
      * simpl. rewrite (Aa _ eq_refl), (Ab _ eq_refl). reflexivity.
      * simpl. rewrite (Aa _ eq_refl), (Ab _ eq_refl). reflexivity.
    + assert (HB : forall bb, hcok true env (FBool bb))
        by (intro bb; split; [intros c0 w E _ D; simpl in *; congruence|exact I]).
      assert (HC : hcok true env (FCmp (fold true true a) (fold true true b)))
        by (split; [intros c0 w E _ D; simpl in E; discriminate|auto]).
      destruct (cres (fold true true a)); [destruct (cres (fold true true b))|]; auto.
    + destruct (cres (fold true true a)); [destruct (cres (fold true true b))|]; exact I.
  - (* EOr *)
    split; [|exact I].
    destruct M as [M|M]; [subst fx|discriminate].
    destruct (IHa (or_introl eq_refl)) as [[Aa [Ha Sa]] _]. destruct (IHb (or_introl eq_refl)) as [[Ab [Hb Sb]] _].
    unfold St. rewrite fold_or. split; [|split].
    + intros v Hv. simpl in Hv.
      destruct (eval env a) as [va|] eqn:Ea; [|discriminate].
      destruct (cres (fold true true a)) as [x|] eqn:Ca.
      * rewrite <- (hcok_cok _ _ _ Ha x va Ca (or_introl eq_refl) (Aa _ eq_refl)).
        destruct (truthy va); [inversion Hv; subst; apply Aa; reflexivity|apply Ab; exact Hv].
      * simpl. rewrite (Aa _ eq_refl). destruct (truthy va); [exact Hv|apply Ab; exact Hv].
    + destruct (cres (fold true true a)) as [x|]; [destruct (truthy x); auto|].
      split; [intros c0 w E _ D; simpl in E; discriminate|auto].
    + destruct (cres (fold true true a)) as [x|]; [destruct (truthy x); auto|exact I].
  - (* ECond *)
    split; [|exact I].
    destruct M as [M|M]; [subst fx|discriminate].
    destruct (IHc (or_introl eq_refl)) as [[Ac [Hc Sc]] _].
    destruct (IHa (or_introl eq_refl)) as [[Aa [Ha Sa]] _]. destruct (IHb (or_introl eq_refl)) as [[Ab [Hb Sb]] _].
    unfold St. rewrite fold_cond. split; [|split].
    + intros v Hv. simpl in Hv.
      destruct (eval env c) as [vc|] eqn:Ec; [|discriminate].
      destruct (cres (fold true true c)) as [x|] eqn:Cc.
      * rewrite <- (hcok_cok _ _ _ Hc x vc Cc (or_introl eq_refl) (Ac _ eq_refl)).
        destruct (truthy vc); [apply Aa|apply Ab]; exact Hv.
      * simpl. rewrite (Ac _ eq_refl). destruct (truthy vc); [apply Aa|apply Ab]; exact Hv.
    + destruct (cres (fold true true c)) as [x|]; [destruct (truthy x); auto|].
      split; [intros c0 w E _ D; simpl in E; discriminate|auto].
    + destruct (cres (fold true true c)) as [x|]; [destruct (truthy x); auto|exact I].
Qed.

(* ---------------- the statements ---------------- *)
(* code as it is: display / repetition / starred-item folding keeps the value CPython gives *)
Theorem fold_display_value : forall env e v,
  display_only e = true -> eval env e = Some v -> fdenote env (fold false true e) = Some v.
Proof. intros env e v D H. destruct (fold_main false env e (or_intror D)) as [[A _] _]. auto. Qed.

(* repaired code: every expression of the model, consumers of constant results included *)
Theorem fold_value_repaired : forall env e v,
  eval env e = Some v -> fdenote env (fold true true e) = Some v.
Proof. intros env e v H. destruct (fold_main true env e (or_introl eq_refl)) as [[A _] _]. auto. Qed.

(* the compile-time value stored on the folded node is the run-time value *)
Theorem fold_constant_result_repaired : forall env e c v,
  cres (fold true true e) = Some c -> eval env e = Some v -> v = c.
Proof.
  intros env e c v C H. destruct (fold_main true env e (or_introl eq_refl)) as [[A [Hh _]] _].
  apply (hcok_cok _ _ _ Hh c v C (or_introl eq_refl) (A _ H)).
Qed.

Theorem fold_constant_result_scalar : forall env e c v,
  display_only e = true -> nonseq c = true ->
  cres (fold false true e) = Some c -> eval env e = Some v -> v = c.
Proof.
  intros env e c v D N C H. destruct (fold_main false env e (or_intror D)) as [[A [Hh _]] _].
  apply (hcok_cok _ _ _ Hh c v C (or_intror N) (A _ H)).
Qed.

Definition tup (l : list Z) : expr := EDisp KTuple (map EInt l).

(* the display  ( *((1, 2) * 2), 3 ) : inlining a starred literal that carries a factor loses the repetition *)
Theorem unguarded_inlining_refuted : forall fx env, exists e v,
  display_only e = true /\ eval env e = Some v /\ fdenote env (fold fx false e) <> Some v.
Proof.
  intros fx env.
  exists (EDisp KTuple [EStar (EMul (tup [1; 2]) (EInt 2)); EInt 3]).
  exists (VSeq KTuple [VInt 1; VInt 2; VInt 1; VInt 2; VInt 3]).
  destruct fx; (split; [reflexivity|split; [reflexivity|vm_compute; discriminate]]).
Qed.

(* code as it is: ((1, 2) * 2) == (1, 2) is folded to True *)
Theorem stale_constant_result_refuted : forall env, exists e c v,
  cres (fold false true e) = Some c /\ eval env e = Some v /\ v <> c /\
  exists e2 v2, eval env e2 = Some v2 /\ fdenote env (fold false true e2) <> Some v2.
Proof.
  intros env.
  exists (EMul (tup [1; 2]) (EInt 2)), (VSeq KTuple [VInt 1; VInt 2]), (VSeq KTuple [VInt 1; VInt 2; VInt 1; VInt 2]).
  split; [reflexivity|split; [reflexivity|split; [discriminate|]]].
  exists (ECmp (EMul (tup [1; 2]) (EInt 2)) (tup [1; 2])), (VBool false).
  split; [reflexivity|vm_compute; discriminate].
Qed.

(* ((0,) * n) or 5 with a run-time n = 0: the emptied / repeated node still counts as the truthy (0,) *)
Theorem stale_constant_result_runtime_factor_refuted : exists env e v,
  eval env e = Some v /\ fdenote env (fold false true e) <> Some v.
Proof.
  exists (fun _ => VInt 0), (EOr (EMul (tup [0]) (EVar 0)) (EInt 5)), (VInt 5).
  split; [reflexivity|vm_compute; discriminate].
Qed.
