(* P_EvalOrderCC - C20, calls of C functions with keyword arguments: the statement for the call node
   spelled out, coverage of the repaired variant, and the witnesses of the deviations of the tree as it
   is (and of the seeded variant without the temp-sorting step). *)
From Coq Require Import List Bool Arith Lia.
From CyVerif Require Import Model.M_CCallMap Model.M_EvalOrder Proof.P_CCallMap Proof.P_EvalOrder.
Import ListNotations.

(* the generated code of a covered call evaluates the receiver, then every argument value in CALL order,
   exactly once, and passes the values to the declared parameters they are bound to *)
Theorem ccall_call_order : forall (S : sem) (F : flags) o nreq ndecl recv npos names es n st,
  eok F (ECCall o nreq ndecl recv npos names es) = true ->
  let '(code, ro, n') := gen F CVal (ECCall o nreq ndecl recv npos names es) n in
  let rr := eval S (mvars st) MVal recv in
  let rs := evals S (mvars st) es in
  let p := opsem S o (rv rr :: map (fun q => nth q (map rv rs) VNone) (ref_slots npos names ndecl 0)) in
  exists st', run S code st Normal = (st', Normal) /\ mvars st' = mvars st /\
    trace st' = trace st ++ rev rr ++ flat_ev rs ++ snd p /\
    leaflog st' = leaflog st ++ rlf rr ++ flat_lf rs /\
    getop st' ro = fst p /\ (forall t, t < n -> temps st' t = temps st t).
Proof.
  intros S F o nreq ndecl recv npos names es n st H.
  pose proof (gen_expr_correct S F _ n st H) as G.
  destruct (gen F CVal (ECCall o nreq ndecl recv npos names es) n) as [[code ro] n'].
  cbv zeta in G. rewrite eval_ECCall in G. cbv zeta in G |- *.
  destruct (opsem S o _) as [v ev]. simpl in G |- *.
  destruct G as (st' & A & B & C & D & E & G). exists st'. auto 10.
Qed.

(* with the three repairs every well-formed call that supplies the required parameters is covered *)
Lemma ccok_repaired F nreq ndecl recv npos names es :
  fx_ccsimple F = true -> fx_cckeep F = true -> fx_ccrecv F = true -> cc_sorted F = true ->
  length es = npos + length names -> cc_wf npos ndecl names = true -> nreq <= npos + length names ->
  ccok F nreq ndecl recv npos names es = true.
Proof.
  intros A B C D E W R. unfold ccok. rewrite B, C, D, W, E, Nat.eqb_refl. simpl.
  apply Nat.leb_le in R. rewrite R. simpl.
  assert (X : forallb (fun e => implb (csimple F e) (tsimple e)) es = true).
  { apply forallb_forall. intros e _. unfold csimple. rewrite A. destruct (tsimple e); reflexivity. }
  rewrite X. reflexivity.
Qed.

(* ---------- witnesses (std_sem) ---------- *)
Definition cc_asis : flags := mk_flags8 true true true true false false false true.
Definition cc_seeded : flags := mk_flags8 true true true true true true true false.
Definition cfn : op := OLog 9.

(* r = cf(c=T(1), b=T(2), a=T(3))   for   cdef cf(a, b, c) *)
Definition w_cc_reversed : stmt :=
  SAssign [TS (TName rvar)] (ECCall cfn 3 3 ENone 0 [2; 1; 0] [ELeaf 0 1; ELeaf 0 2; ELeaf 0 3]).
(* r = cf(c=x.a, b=T(1), a=T(2)) *)
Definition w_cc_attr : stmt :=
  SAssign [TS (TName rvar)] (ECCall cfn 3 3 ENone 0 [2; 1; 0] [EOp (OGetAttr 0) [EName 0]; ELeaf 0 1; ELeaf 0 2]).
(* r = co(T(1), c=T(2), b=T(3))   for   cdef co(a, b=None, c=None, d=None) *)
Definition w_cc_cut : stmt :=
  SAssign [TS (TName rvar)] (ECCall cfn 1 4 ENone 1 [2; 1] [ELeaf 0 1; ELeaf 0 2; ELeaf 0 3]).
(* r = cf(T(1), c=T(2), b=T(3))   for   cdef cf(a, b, c): rejected (Call with wrong number of arguments) *)
Definition w_cc_cut_rejected : stmt :=
  SAssign [TS (TName rvar)] (ECCall cfn 3 3 ENone 1 [2; 1] [ELeaf 0 1; ELeaf 0 2; ELeaf 0 3]).
(* r = T(9).m(b=T(1), a=T(2))   for   cdef m(self, a, b) *)
Definition w_cc_recv : stmt :=
  SAssign [TS (TName rvar)] (ECCall cfn 2 2 (ELeaf 0 9) 0 [1; 0] [ELeaf 0 1; ELeaf 0 2]).

Lemma cc_seeded_refuted_w :
  trace_of cc_seeded w_cc_reversed <> sev (ref_run w_cc_reversed) /\
  leaflog (fst (run_stmt cc_seeded w_cc_reversed)) = [3; 2; 1] /\
  trace_of repaired w_cc_reversed = sev (ref_run w_cc_reversed) /\
  trace_of cc_asis w_cc_reversed = sev (ref_run w_cc_reversed).
Proof. vm_compute. repeat split; auto; discriminate. Qed.

Lemma cc_simple_refuted_w :
  trace_of cc_asis w_cc_attr <> sev (ref_run w_cc_attr) /\ trace_of repaired w_cc_attr = sev (ref_run w_cc_attr).
Proof. vm_compute. split; [discriminate | reflexivity]. Qed.

Lemma cc_cut_refuted_w :
  trace_of cc_asis w_cc_cut <> sev (ref_run w_cc_cut) /\ stmt_rejected cc_asis w_cc_cut = false /\
  trace_of repaired w_cc_cut = sev (ref_run w_cc_cut) /\
  stmt_rejected cc_asis w_cc_cut_rejected = true /\ stmt_rejected repaired w_cc_cut_rejected = false /\
  trace_of repaired w_cc_cut_rejected = sev (ref_run w_cc_cut_rejected).
Proof. vm_compute. repeat split; auto; discriminate. Qed.

Lemma cc_recv_refuted_w :
  trace_of cc_asis w_cc_recv <> sev (ref_run w_cc_recv) /\ trace_of repaired w_cc_recv = sev (ref_run w_cc_recv).
Proof. vm_compute. split; [discriminate | reflexivity]. Qed.

(* non-vacuity: a covered call of the tree as it is with a non-simple positional argument, keywords out
   of order, a name among them, and and/or/conditional argument values inside an expression *)
Definition w_cc_big : expr :=
  EAnd (ELeaf 0 20)
       (ECCall cfn 3 4 (EName 1) 1 [3; 1; 2]
          [EName 0; EOp (OGetItem) [ELeaf 0 1; ELeaf 0 2]; ENot (ELeaf 1 3); ELeaf 0 4]).
Lemma cc_big_covered : eok cc_asis w_cc_big = true /\
  trace_of cc_asis (SAssign [TS (TName rvar)] w_cc_big) = sev (ref_run (SAssign [TS (TName rvar)] w_cc_big)) /\
  6 <= length (trace_of cc_asis (SAssign [TS (TName rvar)] w_cc_big)).
Proof. vm_compute. repeat split; auto; repeat constructor. Qed.
