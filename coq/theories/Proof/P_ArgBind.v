(* Proofs for C24: the generated argument-parsing code binds like CPython's initialize_locals. *)
From Coq Require Import List Bool Arith PeanoNat Lia.
From CyVerif Require Import Model.M_ArgBind.
Import ListNotations.

(* ---------- arrays ---------- *)
Lemma upd_length : forall A i (x : A) l, length (upd i x l) = length l.
Proof. intros A i x l; revert i; induction l; destruct i; simpl; auto. Qed.

Lemma nth_upd : forall A i (x : A) l a d,
  nth a (upd i x l) d = if (a =? i) && (i <? length l) then x else nth a l d.
Proof.
  intros A i x l; revert i; induction l as [|h t IH]; intros i a d.
  - assert (E : upd i x (@nil A) = []) by (destruct i; reflexivity). rewrite E.
    replace (i <? length (@nil A)) with false by (symmetry; apply Nat.ltb_ge; simpl; lia).
    rewrite andb_false_r. reflexivity.
  - destruct i as [|i]; destruct a as [|a]; simpl; try reflexivity.
    rewrite IH. reflexivity.
Qed.

Lemma find_idx_Some : forall A (f : A -> bool) l i d,
  find_idx f l = Some i -> i < length l /\ f (nth i l d) = true.
Proof.
  intros A f l; induction l as [|x r IH]; intros i d H; simpl in H; [discriminate|].
  destruct (f x) eqn:E.
  - inversion H; subst. simpl. split; [lia|exact E].
  - destruct (find_idx f r) eqn:F; simpl in H; [|discriminate]. inversion H; subst.
    destruct (IH n d eq_refl). simpl. split; [lia|assumption].
Qed.

Lemma find_idx_None : forall A (f : A -> bool) l, find_idx f l = None -> existsb f l = false.
Proof.
  intros A f l; induction l as [|x r IH]; intros H; simpl in *; [reflexivity|].
  destruct (f x); [discriminate|]. destruct (find_idx f r); [discriminate|]. simpl. auto.
Qed.

Lemma existsb_nth_false : forall A (f : A -> bool) l i d,
  existsb f l = false -> i < length l -> f (nth i l d) = false.
Proof.
  intros A f l i d H L. destruct (f (nth i l d)) eqn:E; [|reflexivity].
  assert (X : existsb f l = true) by (apply existsb_exists; exists (nth i l d); split; [apply nth_In; exact L|exact E]).
  congruence.
Qed.

Lemma nth_skipn : forall A n (l : list A) i d, nth i (skipn n l) d = nth (n + i) l d.
Proof. intros A n; induction n; intros l i d; simpl; [reflexivity|]. destruct l; [destruct i; reflexivity|]. apply IHn. Qed.

(* ---------- names ---------- *)
Lemma nodupb_NoDup : forall l, nodupb l = true -> NoDup l.
Proof.
  induction l as [|x r IH]; intros H; [constructor|]. simpl in H. apply andb_true_iff in H as [H1 H2].
  constructor; [|auto]. intros I. apply negb_true_iff in H1.
  assert (X : existsb (Nat.eqb x) r = true) by (apply existsb_exists; exists x; split; [exact I|apply Nat.eqb_refl]).
  congruence.
Qed.

Lemma key_is_eq : forall k n, key_is k n = true -> key_eq k n = true.
Proof. unfold key_is, key_eq, is_str. intros k n. destruct (k_kind k); try discriminate. auto. Qed.

Lemma key_eq_name : forall k n, key_eq k n = true -> k_name k = n /\ is_str k = true.
Proof. unfold key_eq. intros k n H. apply andb_true_iff in H as [A B]. apply Nat.eqb_eq in B. auto. Qed.

Lemma key_eq_same : forall k k' n, key_eq k n = true -> key_eq k' n = true -> key_same k k' = true.
Proof.
  intros k k' n H H'. apply key_eq_name in H as [A B]. apply key_eq_name in H' as [A' B'].
  unfold key_same. rewrite B, B', A, A'. simpl. apply Nat.eqb_refl.
Qed.

Definition midx (k : key) (names : list nat) : option nat := find_idx (key_eq k) names.

Lemma midx_unique : forall k names i, NoDup names -> i < length names ->
  key_eq k (nth i names 0) = true -> midx k names = Some i.
Proof.
  intros k names i ND L E. unfold midx. destruct (find_idx (key_eq k) names) as [j|] eqn:F.
  - destruct (find_idx_Some _ _ _ _ 0 F) as [Lj Ej].
    apply key_eq_name in E as [E _]. apply key_eq_name in Ej as [Ej _].
    f_equal. apply (proj1 (NoDup_nth names 0) ND); auto. congruence.
  - apply find_idx_None in F. rewrite (existsb_nth_false _ _ _ i 0 F L) in E. discriminate.
Qed.

Lemma find_from_Some : forall (f : nat -> bool) first names i,
  find_from f first names = Some i -> first <= i /\ i < length names /\ f (nth i names 0) = true.
Proof.
  unfold find_from. intros f first names i H.
  destruct (find_idx f (skipn first names)) as [j|] eqn:F; simpl in H; [|discriminate]. inversion H; subst.
  destruct (find_idx_Some _ _ _ _ 0 F) as [L E]. rewrite nth_skipn in E. rewrite skipn_length in L.
  repeat split; auto; lia.
Qed.

Lemma find_from_None : forall (f : nat -> bool) first names i,
  find_from f first names = None -> first <= i -> i < length names -> f (nth i names 0) = false.
Proof.
  unfold find_from. intros f first names i H L1 L2.
  destruct (find_idx f (skipn first names)) as [j|] eqn:F; simpl in H; [discriminate|].
  apply find_idx_None in F. pose proof (existsb_nth_false _ _ _ (i - first) 0 F) as P.
  rewrite nth_skipn, skipn_length in P. replace (first + (i - first)) with i in P by lia. apply P. lia.
Qed.

Lemma midx_Some : forall k names i, midx k names = Some i -> i < length names /\ key_eq k (nth i names 0) = true.
Proof. intros k names i H. apply (find_idx_Some _ _ _ _ 0 H). Qed.

Lemma midx_None : forall k names i, midx k names = None -> i < length names -> key_eq k (nth i names 0) = false.
Proof. intros k names i H L. apply find_idx_None in H. apply existsb_nth_false; auto. Qed.

Lemma existsb_firstn : forall (f : nat -> bool) first names,
  existsb f (firstn first names) = true <-> exists i, i < first /\ i < length names /\ f (nth i names 0) = true.
Proof.
  intros f first names. rewrite existsb_exists. split.
  - intros [x [I E]]. destruct (In_nth _ _ 0 I) as [i [L N]]. rewrite firstn_length in L.
    exists i. repeat split; try lia. rewrite <- E, <- N.
    rewrite <- (firstn_skipn first names) at 1. rewrite app_nth1; [reflexivity|rewrite firstn_length; lia].
  - intros [i [L1 [L2 E]]]. exists (nth i names 0). split; [|exact E].
    rewrite <- (firstn_skipn first names) at 1. rewrite app_nth1 by (rewrite firstn_length; lia).
    apply nth_In. rewrite firstn_length. lia.
Qed.

(* the lookup of one str key, as both keyword loops perform it *)
Definition tuple_find (k : key) (names : list nat) (first : nat) : mres :=
  match find_from (key_is k) first names with
  | Some i => MFound i
  | None => match_kw k names first
  end.

Lemma tuple_find_spec : forall k names first, NoDup names -> is_str k = true ->
  tuple_find k names first =
  match midx k names with
  | Some i => if first <=? i then MFound i else MBad EMultiple
  | None => MNone
  end.
Proof.
  intros k names first ND S. unfold tuple_find.
  destruct (find_from (key_is k) first names) as [i|] eqn:F1.
  - destruct (find_from_Some _ _ _ _ F1) as [A [B C]]. apply key_is_eq in C.
    rewrite (midx_unique _ _ _ ND B C). apply Nat.leb_le in A. rewrite A. reflexivity.
  - assert (M : match_kw k names first = match_scan k names first).
    { unfold match_kw. destruct (is_exact k); [reflexivity|]. rewrite S. reflexivity. }
    rewrite M. unfold match_scan.
    destruct (find_from (key_eq k) first names) as [i|] eqn:F2.
    + destruct (find_from_Some _ _ _ _ F2) as [A [B C]].
      rewrite (midx_unique _ _ _ ND B C). apply Nat.leb_le in A. rewrite A. reflexivity.
    + destruct (midx k names) as [i|] eqn:M2.
      * destruct (midx_Some _ _ _ M2) as [L E].
        destruct (first <=? i) eqn:C.
        { apply Nat.leb_le in C. rewrite (find_from_None _ _ _ i F2 C L) in E. discriminate. }
        apply Nat.leb_gt in C.
        assert (X : existsb (key_eq k) (firstn first names) = true) by (apply existsb_firstn; exists i; auto).
        rewrite X. reflexivity.
      * destruct (existsb (key_eq k) (firstn first names)) eqn:X; [|reflexivity].
        apply existsb_firstn in X as [i [_ [L E]]]. rewrite (midx_None _ _ i M2 L) in E. discriminate.
Qed.

(* ---------- the reference keyword loop ---------- *)
Fixpoint parse_ref {V} (kws : list (key * V)) (names : list nat) (first off : nat) (ignore : bool)
         (values : list (option V)) (kwds2 : option (list (key * V))) : ekind + pstate V :=
  match kws with
  | [] => inr (values, kwds2)
  | (k, v) :: rest =>
    match midx k names with
    | Some i => if first <=? i then parse_ref rest names first off ignore (upd (off + i) (Some v) values) kwds2
                else inl EMultiple
    | None => match kwds2 with
              | Some d => parse_ref rest names first off ignore values (Some (dict_set k v d))
              | None => if ignore then parse_ref rest names first off ignore values None else inl EUnexpected
              end
    end
  end.

Definition all_str {V} (kws : list (key * V)) : Prop := forall kv, In kv kws -> is_str (fst kv) = true.

Lemma nonstr_in_false : forall V (kws : list (key * V)), nonstr_in kws = false -> all_str kws.
Proof.
  intros V kws H kv I. unfold nonstr_in in H. destruct (is_str (fst kv)) eqn:E; [reflexivity|].
  assert (X : existsb (fun kv => negb (is_str (fst kv))) kws = true) by (apply existsb_exists; exists kv; rewrite E; auto).
  congruence.
Qed.

Lemma all_str_cons : forall V kv (kws : list (key * V)), all_str (kv :: kws) -> is_str (fst kv) = true /\ all_str kws.
Proof. intros V kv kws H. split; [apply H; left; reflexivity|intros x I; apply H; right; exact I]. Qed.

Lemma parse_tuple_ref : forall V (kws : list (key * V)) names first off ignore values kwds2,
  NoDup names -> all_str kws ->
  parse_tuple kws names first off ignore values kwds2 = parse_ref kws names first off ignore values kwds2.
Proof.
  intros V kws names first off ignore; induction kws as [|[k v] rest IH]; intros values kwds2 ND AS; [reflexivity|].
  apply all_str_cons in AS as [S AS]. simpl in S.
  assert (E : parse_tuple ((k, v) :: rest) names first off ignore values kwds2 =
    match tuple_find k names first with
    | MFound i => parse_tuple rest names first off ignore (upd (off + i) (Some v) values) kwds2
    | MBad e => inl e
    | MNone => match kwds2 with
               | Some d => parse_tuple rest names first off ignore values (Some (dict_set k v d))
               | None => if ignore then parse_tuple rest names first off ignore values None else inl EUnexpected
               end
    end).
  { simpl. unfold tuple_find. destruct (find_from (key_is k) first names); reflexivity. }
  rewrite E, (tuple_find_spec _ _ _ ND S). simpl.
  destruct (midx k names) as [i|].
  - destruct (first <=? i); [apply IH; auto|reflexivity].
  - destruct kwds2; [apply IH; auto|]. destruct ignore; [apply IH; auto|reflexivity].
Qed.

(* ---------- CPython's keyword loop is the reference loop ---------- *)
Lemma py_find_spec : forall k names npo, NoDup (skipn npo names) ->
  (match find_from (key_is k) npo names with
   | Some j => Some j
   | None => find_from (key_eq k) npo names
   end) = option_map (Nat.add npo) (midx k (skipn npo names)).
Proof.
  intros k names npo ND. unfold find_from, midx.
  destruct (find_idx (key_is k) (skipn npo names)) as [j|] eqn:F; simpl; [|reflexivity].
  destruct (find_idx_Some _ _ _ _ 0 F) as [L E]. apply key_is_eq in E.
  pose proof (midx_unique _ _ _ ND L E) as M. unfold midx in M. rewrite M. reflexivity.
Qed.

Definition py_inv {V} (kws : list (key * V)) (pnames : list nat) (npo nfill : nat) (slots : list (option V)) : Prop :=
  forall kv i, In kv kws -> midx (fst kv) pnames = Some i ->
    (nth (npo + i) slots None <> None <-> i < nfill).

Lemma keys_nodup_cons : forall V k (v : V) rest, keys_nodup ((k, v) :: rest) = true ->
  (forall kv, In kv rest -> key_same k (fst kv) = false) /\ keys_nodup rest = true.
Proof.
  intros V k v rest H. simpl in H. apply andb_true_iff in H as [A B]. split; [|exact B].
  intros kv I. apply negb_true_iff in A. destruct (key_same k (fst kv)) eqn:E; [|reflexivity].
  assert (X : existsb (fun kv => key_same k (fst kv)) rest = true) by (apply existsb_exists; exists kv; auto).
  congruence.
Qed.

Lemma py_kw_ref : forall V (kws : list (key * V)) names npo nfill slots d,
  NoDup (skipn npo names) -> all_str kws -> keys_nodup kws = true ->
  py_inv kws (skipn npo names) npo nfill slots ->
  py_kw kws names npo slots d = parse_ref kws (skipn npo names) nfill npo false slots d.
Proof.
  intros V kws names npo nfill; induction kws as [|[k v] rest IH]; intros slots d ND AS KN INV; [reflexivity|].
  apply all_str_cons in AS as [S AS]. simpl in S. apply keys_nodup_cons in KN as [KH KN].
  simpl. rewrite S. simpl. rewrite (py_find_spec _ _ _ ND).
  destruct (midx k (skipn npo names)) as [i|] eqn:M; simpl.
  - pose proof (INV (k, v) i (or_introl eq_refl) M) as F.
    destruct (nth (npo + i) slots None) as [x|] eqn:N.
    + assert (L : i < nfill) by (apply F; discriminate). apply Nat.leb_gt in L. rewrite L. reflexivity.
    + assert (L : nfill <= i) by (destruct (Nat.le_gt_cases nfill i) as [G|G]; [exact G|apply F in G; congruence]).
      apply Nat.leb_le in L. rewrite L. apply IH; auto.
      intros kv i' I M'. rewrite nth_upd.
      destruct (Nat.eq_dec i' i) as [->|NE].
      * exfalso. destruct (midx_Some _ _ _ M) as [_ E1]. destruct (midx_Some _ _ _ M') as [_ E2].
        pose proof (KH kv I) as Q. rewrite (key_eq_same _ _ _ E1 E2) in Q. discriminate Q.
      * replace (npo + i' =? npo + i) with false by (symmetry; apply Nat.eqb_neq; lia). simpl.
        apply (INV kv i'); [right; exact I|exact M'].
  - destruct d as [d|]; [|reflexivity]. apply IH; auto. intros kv i' I M'. apply (INV kv i'); [right; exact I|exact M'].
Qed.

(* ---------- what the reference loop computes ---------- *)
Definition kw_unknown (names : list nat) (k : key) : bool :=
  match midx k names with None => true | Some _ => false end.
Definition kw_dup (names : list nat) (first : nat) (k : key) : bool :=
  match midx k names with Some i => negb (first <=? i) | None => false end.
Definition kw_bad (names : list nat) (first : nat) (strict : bool) (k : key) : bool :=
  kw_dup names first k || (strict && kw_unknown names k).

Definition ref_at {V} (names : list nat) (first off : nat) (kws : list (key * V))
           (values : list (option V)) (a : nat) : option V :=
  if (off + first <=? a) && (a <? off + length names) && (a <? length values) then
    match dict_get (nth (a - off) names 0) kws with Some v => Some v | None => nth a values None end
  else nth a values None.

Lemma dict_get_Some_In : forall V n (d : list (key * V)) v,
  dict_get n d = Some v -> exists kv, In kv d /\ key_eq (fst kv) n = true.
Proof.
  intros V n d; induction d as [|[k x] r IH]; intros v H; simpl in H; [discriminate|].
  destruct (key_eq k n) eqn:E.
  - exists (k, x). split; [left; reflexivity|exact E].
  - destruct (IH _ H) as [kv [I E']]. exists kv. split; [right; exact I|exact E'].
Qed.

Lemma dict_set_fresh : forall V k (v : V) d,
  (forall kv', In kv' d -> key_same (fst kv') k = false) -> dict_set k v d = d ++ [(k, v)].
Proof.
  intros V k v d; induction d as [|[k' v'] r IH]; intros H; [reflexivity|]. simpl.
  pose proof (H (k', v') (or_introl eq_refl)) as Q. simpl in Q. rewrite Q.
  rewrite IH; [reflexivity|]. intros kv I. apply H. right. exact I.
Qed.

Lemma key_same_sym : forall a b, key_same a b = key_same b a.
Proof. intros a b. unfold key_same. rewrite (Nat.eqb_sym (k_name a)). destruct (is_str a), (is_str b); reflexivity. Qed.

Definition strict_of {V} (ignore : bool) (kwds2 : option (list (key * V))) : bool :=
  match kwds2 with None => negb ignore | Some _ => false end.

Lemma parse_ref_ok : forall V (kws : list (key * V)) names first off ignore values kwds2,
  NoDup names -> all_str kws -> keys_nodup kws = true ->
  (forall d, kwds2 = Some d -> forall kv kv', In kv kws -> In kv' d -> key_same (fst kv') (fst kv) = false) ->
  match parse_ref kws names first off ignore values kwds2 with
  | inl e => e <> EImpossible /\
             existsb (fun kv => kw_bad names first (strict_of ignore kwds2) (fst kv)) kws = true
  | inr (vals', kw') =>
      existsb (fun kv => kw_bad names first (strict_of ignore kwds2) (fst kv)) kws = false /\
      length vals' = length values /\
      (forall a, nth a vals' None = ref_at names first off kws values a) /\
      kw' = option_map (fun d => d ++ filter (fun kv => kw_unknown names (fst kv)) kws) kwds2
  end.
Proof.
  intros V kws names first off ignore; induction kws as [|[k v] rest IH]; intros values kwds2 ND AS KN DJ.
  - simpl. repeat split; auto.
    + intros a. unfold ref_at. simpl. destruct (_ && _); reflexivity.
    + destruct kwds2; simpl; [rewrite app_nil_r|]; reflexivity.
  - apply all_str_cons in AS as [S AS]. simpl in S. apply keys_nodup_cons in KN as [KH KN].
    simpl parse_ref. simpl existsb. simpl filter. simpl fst.
    assert (HB : forall st, kw_bad names first st k =
                 match midx k names with Some i => negb (first <=? i) | None => st end).
    { intros st. unfold kw_bad, kw_dup, kw_unknown.
      destruct (midx k names); [rewrite andb_false_r, orb_false_r; reflexivity|simpl; rewrite andb_true_r; reflexivity]. }
    assert (HU : kw_unknown names k = match midx k names with Some _ => false | None => true end) by reflexivity.
    rewrite HB, HU.
    destruct (midx k names) as [i|] eqn:M.
    + destruct (first <=? i) eqn:C; simpl; [|split; [discriminate|reflexivity]].
      assert (DJ' : forall d, kwds2 = Some d -> forall kv kv', In kv rest -> In kv' d -> key_same (fst kv') (fst kv) = false)
        by (intros d E kv kv' I I'; apply (DJ d E); [right; exact I|exact I']).
      specialize (IH (upd (off + i) (Some v) values) kwds2 ND AS KN DJ').
      destruct (parse_ref rest names first off ignore (upd (off + i) (Some v) values) kwds2) as [e|[vals' kw']].
      * destruct IH as [A B]. split; [exact A|exact B].
      * destruct IH as [B [L [N K]]]. rewrite upd_length in L. repeat split; auto.
        intros a. rewrite N. unfold ref_at. rewrite upd_length. simpl dict_get.
        destruct (midx_Some _ _ _ M) as [Li Ei]. apply Nat.leb_le in C.
        destruct ((off + first <=? a) && (a <? off + length names) && (a <? length values)) eqn:CC.
        { apply andb_true_iff in CC as [CC C3]. apply andb_true_iff in CC as [C1 C2].
          apply Nat.leb_le in C1. apply Nat.ltb_lt in C2. apply Nat.ltb_lt in C3.
          destruct (Nat.eq_dec a (off + i)) as [->|NE].
          - replace (off + i - off) with i by lia. rewrite Ei.
            destruct (dict_get (nth i names 0) rest) as [x|] eqn:G.
            + exfalso. destruct (dict_get_Some_In _ _ _ _ G) as [kv [I E]].
              pose proof (KH kv I) as Q. rewrite (key_eq_same _ _ _ Ei E) in Q. discriminate Q.
            + rewrite nth_upd. rewrite Nat.eqb_refl. simpl. apply Nat.ltb_lt in C3. rewrite C3. reflexivity.
          - assert (X : key_eq k (nth (a - off) names 0) = false).
            { destruct (key_eq k (nth (a - off) names 0)) eqn:E; [|reflexivity].
              assert (L2 : a - off < length names) by lia.
              pose proof (midx_unique _ _ _ ND L2 E) as M2. rewrite M in M2. inversion M2. lia. }
            rewrite X. rewrite nth_upd. replace (a =? off + i) with false by (symmetry; apply Nat.eqb_neq; exact NE).
            reflexivity. }
        { rewrite nth_upd. destruct ((a =? off + i) && (off + i <? length values)) eqn:U; [|reflexivity].
          apply andb_true_iff in U as [U1 U2]. apply Nat.eqb_eq in U1. apply Nat.ltb_lt in U2. subst a.
          exfalso. assert (X : (off + first <=? off + i) && (off + i <? off + length names) && (off + i <? length values) = true).
          { apply andb_true_iff; split; [apply andb_true_iff; split|]; [apply Nat.leb_le|apply Nat.ltb_lt|apply Nat.ltb_lt]; lia. }
          congruence. }
    + simpl. destruct kwds2 as [d|].
      * simpl strict_of in *. simpl.
        assert (FR : dict_set k v d = d ++ [(k, v)]).
        { apply dict_set_fresh. intros kv' I. apply (DJ d eq_refl (k, v) kv'); [left; reflexivity|exact I]. }
        rewrite FR.
        assert (DJ' : forall d0, Some (d ++ [(k, v)]) = Some d0 -> forall kv kv', In kv rest -> In kv' d0 ->
                      key_same (fst kv') (fst kv) = false).
        { intros d0 E kv kv' I I'. inversion E; subst d0. apply in_app_or in I' as [I'|[<-|[]]].
          - apply (DJ d eq_refl); [right; exact I|exact I'].
          - simpl. apply KH. exact I. }
        specialize (IH values (Some (d ++ [(k, v)])) ND AS KN DJ').
        destruct (parse_ref rest names first off ignore values (Some (d ++ [(k, v)]))) as [e|[vals' kw']].
        { exact IH. }
        destruct IH as [B [L [N K]]]. repeat split; auto.
        { intros a. rewrite N. unfold ref_at. simpl dict_get.
          destruct ((off + first <=? a) && (a <? off + length names) && (a <? length values)) eqn:CC; [|reflexivity].
          apply andb_true_iff in CC as [CC C3]. apply andb_true_iff in CC as [C1 C2].
          apply Nat.leb_le in C1. apply Nat.ltb_lt in C2.
          rewrite (midx_None _ _ (a - off) M) by lia. reflexivity. }
        { rewrite K. simpl. rewrite <- app_assoc. reflexivity. }
      * destruct ignore; simpl; [|split; [discriminate|reflexivity]].
        assert (DJ' : forall d, @None (list (key * V)) = Some d -> forall kv kv', In kv rest -> In kv' d ->
                      key_same (fst kv') (fst kv) = false) by (intros d E; discriminate).
        specialize (IH values None ND AS KN DJ').
        destruct (parse_ref rest names first off true values None) as [e|[vals' kw']].
        { exact IH. }
        destruct IH as [B [L [N K]]]. repeat split; auto.
        intros a. rewrite N. unfold ref_at. simpl dict_get.
        destruct ((off + first <=? a) && (a <? off + length names) && (a <? length values)) eqn:CC; [|reflexivity].
        apply andb_true_iff in CC as [CC C3]. apply andb_true_iff in CC as [C1 C2].
        apply Nat.leb_le in C1. apply Nat.ltb_lt in C2.
        rewrite (midx_None _ _ (a - off) M) by lia. reflexivity.
Qed.
