(* Proofs for C24: the generated argument-parsing code binds like CPython's initialize_locals. *)
From Coq Require Import List Bool Arith PeanoNat Lia.
From CyVerif Require Import Model.M_ArgBind.
Import ListNotations.

(* ---------- arrays ---------- *)
Lemma upd_length : forall A i (x : A) l, length (upd i x l) = length l.
Proof. intros A i x l; revert i; induction l; destruct i; simpl; auto. Qed.

Lemma nth_upd : forall A i (x : A) l a d,
  nth a (upd i x l) d = if (a =? i) && (i <? length l) then x else nth a l d.
Proof.
  intros A i x l; revert i; induction l as [|h t IH]; intros i a d.
  - assert (E : upd i x (@nil A) = []) by (destruct i; reflexivity). rewrite E.
    replace (i <? length (@nil A)) with false by (symmetry; apply Nat.ltb_ge; simpl; lia).
    rewrite andb_false_r. reflexivity.
  - destruct i as [|i]; destruct a as [|a]; simpl; try reflexivity.
    rewrite IH. reflexivity.
Qed.

Lemma find_idx_Some : forall A (f : A -> bool) l i d,
  find_idx f l = Some i -> i < length l /\ f (nth i l d) = true.
Proof.
  intros A f l; induction l as [|x r IH]; intros i d H; simpl in H; [discriminate|].
  destruct (f x) eqn:E.
  - inversion H; subst. simpl. split; [lia|exact E].
  - destruct (find_idx f r) eqn:F; simpl in H; [|discriminate]. inversion H; subst.
    destruct (IH n d eq_refl). simpl. split; [lia|assumption].
Qed.

Lemma find_idx_None : forall A (f : A -> bool) l, find_idx f l = None -> existsb f l = false.
Proof.
  intros A f l; induction l as [|x r IH]; intros H; simpl in *; [reflexivity|].
  destruct (f x); [discriminate|]. destruct (find_idx f r); [discriminate|]. simpl. auto.
Qed.

Lemma existsb_nth_false : forall A (f : A -> bool) l i d,
  existsb f l = false -> i < length l -> f (nth i l d) = false.
Proof.
  intros A f l i d H L. destruct (f (nth i l d)) eqn:E; [|reflexivity].
  assert (X : existsb f l = true) by (apply existsb_exists; exists (nth i l d); split; [apply nth_In; exact L|exact E]).
  congruence.
Qed.

Lemma nth_skipn : forall A n (l : list A) i d, nth i (skipn n l) d = nth (n + i) l d.
Proof. intros A n; induction n; intros l i d; simpl; [reflexivity|]. destruct l; [destruct i; reflexivity|]. apply IHn. Qed.

(* ---------- names ---------- *)
Lemma nodupb_NoDup : forall l, nodupb l = true -> NoDup l.
Proof.
  induction l as [|x r IH]; intros H; [constructor|]. simpl in H. apply andb_true_iff in H as [H1 H2].
  constructor; [|auto]. intros I. apply negb_true_iff in H1.
  assert (X : existsb (Nat.eqb x) r = true) by (apply existsb_exists; exists x; split; [exact I|apply Nat.eqb_refl]).
  congruence.
Qed.

Lemma key_is_eq : forall k n, key_is k n = true -> key_eq k n = true.
Proof. unfold key_is, key_eq, is_str. intros k n. destruct (k_kind k); try discriminate. auto. Qed.

Lemma key_eq_name : forall k n, key_eq k n = true -> k_name k = n /\ is_str k = true.
Proof. unfold key_eq. intros k n H. apply andb_true_iff in H as [A B]. apply Nat.eqb_eq in B. auto. Qed.

Lemma key_eq_same : forall k k' n, key_eq k n = true -> key_eq k' n = true -> key_same k k' = true.
Proof.
  intros k k' n H H'. apply key_eq_name in H as [A B]. apply key_eq_name in H' as [A' B'].
  unfold key_same. rewrite B, B', A, A'. simpl. apply Nat.eqb_refl.
Qed.

Definition midx (k : key) (names : list nat) : option nat := find_idx (key_eq k) names.

Lemma midx_unique : forall k names i, NoDup names -> i < length names ->
  key_eq k (nth i names 0) = true -> midx k names = Some i.
Proof.
  intros k names i ND L E. unfold midx. destruct (find_idx (key_eq k) names) as [j|] eqn:F.
  - destruct (find_idx_Some _ _ _ _ 0 F) as [Lj Ej].
    apply key_eq_name in E as [E _]. apply key_eq_name in Ej as [Ej _].
    f_equal. apply (proj1 (NoDup_nth names 0) ND); auto. congruence.
  - apply find_idx_None in F. rewrite (existsb_nth_false _ _ _ i 0 F L) in E. discriminate.
Qed.

Lemma find_from_Some : forall (f : nat -> bool) first names i,
  find_from f first names = Some i -> first <= i /\ i < length names /\ f (nth i names 0) = true.
Proof.
  unfold find_from. intros f first names i H.
  destruct (find_idx f (skipn first names)) as [j|] eqn:F; simpl in H; [|discriminate]. inversion H; subst.
  destruct (find_idx_Some _ _ _ _ 0 F) as [L E]. rewrite nth_skipn in E. rewrite skipn_length in L.
  repeat split; auto; lia.
Qed.

Lemma find_from_None : forall (f : nat -> bool) first names i,
  find_from f first names = None -> first <= i -> i < length names -> f (nth i names 0) = false.
Proof.
  unfold find_from. intros f first names i H L1 L2.
  destruct (find_idx f (skipn first names)) as [j|] eqn:F; simpl in H; [discriminate|].
  apply find_idx_None in F. pose proof (existsb_nth_false _ _ _ (i - first) 0 F) as P.
  rewrite nth_skipn, skipn_length in P. replace (first + (i - first)) with i in P by lia. apply P. lia.
Qed.

Lemma midx_Some : forall k names i, midx k names = Some i -> i < length names /\ key_eq k (nth i names 0) = true.
Proof. intros k names i H. apply (find_idx_Some _ _ _ _ 0 H). Qed.

Lemma midx_None : forall k names i, midx k names = None -> i < length names -> key_eq k (nth i names 0) = false.
Proof. intros k names i H L. apply find_idx_None in H. apply existsb_nth_false; auto. Qed.

Lemma existsb_firstn : forall (f : nat -> bool) first names,
  existsb f (firstn first names) = true <-> exists i, i < first /\ i < length names /\ f (nth i names 0) = true.
Proof.
  intros f first names. rewrite existsb_exists. split.
  - intros [x [I E]]. destruct (In_nth _ _ 0 I) as [i [L N]]. rewrite firstn_length in L.
    exists i. repeat split; try lia. rewrite <- E, <- N.
    rewrite <- (firstn_skipn first names) at 1. rewrite app_nth1; [reflexivity|rewrite firstn_length; lia].
  - intros [i [L1 [L2 E]]]. exists (nth i names 0). split; [|exact E].
    rewrite <- (firstn_skipn first names) at 1. rewrite app_nth1 by (rewrite firstn_length; lia).
    apply nth_In. rewrite firstn_length. lia.
Qed.

(* the lookup of one str key, as both keyword loops perform it *)
Definition tuple_find (k : key) (names : list nat) (first : nat) : mres :=
  match find_from (key_is k) first names with
  | Some i => MFound i
  | None => match_kw k names first
  end.

Lemma tuple_find_spec : forall k names first, NoDup names -> is_str k = true ->
  tuple_find k names first =
  match midx k names with
  | Some i => if first <=? i then MFound i else MBad EMultiple
  | None => MNone
  end.
Proof.
  intros k names first ND S. unfold tuple_find.
  destruct (find_from (key_is k) first names) as [i|] eqn:F1.
  - destruct (find_from_Some _ _ _ _ F1) as [A [B C]]. apply key_is_eq in C.
    rewrite (midx_unique _ _ _ ND B C). apply Nat.leb_le in A. rewrite A. reflexivity.
  - assert (M : match_kw k names first = match_scan k names first).
    { unfold match_kw. destruct (is_exact k); [reflexivity|]. rewrite S. reflexivity. }
    rewrite M. unfold match_scan.
    destruct (find_from (key_eq k) first names) as [i|] eqn:F2.
    + destruct (find_from_Some _ _ _ _ F2) as [A [B C]].
      rewrite (midx_unique _ _ _ ND B C). apply Nat.leb_le in A. rewrite A. reflexivity.
    + destruct (midx k names) as [i|] eqn:M2.
      * destruct (midx_Some _ _ _ M2) as [L E].
        destruct (first <=? i) eqn:C.
        { apply Nat.leb_le in C. rewrite (find_from_None _ _ _ i F2 C L) in E. discriminate. }
        apply Nat.leb_gt in C.
        assert (X : existsb (key_eq k) (firstn first names) = true) by (apply existsb_firstn; exists i; auto).
        rewrite X. reflexivity.
      * destruct (existsb (key_eq k) (firstn first names)) eqn:X; [|reflexivity].
        apply existsb_firstn in X as [i [_ [L E]]]. rewrite (midx_None _ _ i M2 L) in E. discriminate.
Qed.

(* ---------- the reference keyword loop ---------- *)
Fixpoint parse_ref {V} (kws : list (key * V)) (names : list nat) (first off : nat) (ignore : bool)
         (values : list (option V)) (kwds2 : option (list (key * V))) : ekind + pstate V :=
  match kws with
  | [] => inr (values, kwds2)
  | (k, v) :: rest =>
    match midx k names with
    | Some i => if first <=? i then parse_ref rest names first off ignore (upd (off + i) (Some v) values) kwds2
                else inl EMultiple
    | None => match kwds2 with
              | Some d => parse_ref rest names first off ignore values (Some (dict_set k v d))
              | None => if ignore then parse_ref rest names first off ignore values None else inl EUnexpected
              end
    end
  end.

Definition all_str {V} (kws : list (key * V)) : Prop := forall kv, In kv kws -> is_str (fst kv) = true.

Lemma nonstr_in_false : forall V (kws : list (key * V)), nonstr_in kws = false -> all_str kws.
Proof.
  intros V kws H kv I. unfold nonstr_in in H. destruct (is_str (fst kv)) eqn:E; [reflexivity|].
  assert (X : existsb (fun kv => negb (is_str (fst kv))) kws = true) by (apply existsb_exists; exists kv; rewrite E; auto).
  congruence.
Qed.

Lemma all_str_cons : forall V kv (kws : list (key * V)), all_str (kv :: kws) -> is_str (fst kv) = true /\ all_str kws.
Proof. intros V kv kws H. split; [apply H; left; reflexivity|intros x I; apply H; right; exact I]. Qed.

Lemma parse_tuple_ref : forall V (kws : list (key * V)) names first off ignore values kwds2,
  NoDup names -> all_str kws ->
  parse_tuple kws names first off ignore values kwds2 = parse_ref kws names first off ignore values kwds2.
Proof.
  intros V kws names first off ignore; induction kws as [|[k v] rest IH]; intros values kwds2 ND AS; [reflexivity|].
  apply all_str_cons in AS as [S AS]. simpl in S.
  assert (E : parse_tuple ((k, v) :: rest) names first off ignore values kwds2 =
    match tuple_find k names first with
    | MFound i => parse_tuple rest names first off ignore (upd (off + i) (Some v) values) kwds2
    | MBad e => inl e
    | MNone => match kwds2 with
               | Some d => parse_tuple rest names first off ignore values (Some (dict_set k v d))
               | None => if ignore then parse_tuple rest names first off ignore values None else inl EUnexpected
               end
    end).
  { simpl. unfold tuple_find. destruct (find_from (key_is k) first names); reflexivity. }
  rewrite E, (tuple_find_spec _ _ _ ND S). simpl.
  destruct (midx k names) as [i|].
  - destruct (first <=? i); [apply IH; auto|reflexivity].
  - destruct kwds2; [apply IH; auto|]. destruct ignore; [apply IH; auto|reflexivity].
Qed.

(* ---------- CPython's keyword loop is the reference loop ---------- *)
Lemma py_find_spec : forall k names npo, NoDup (skipn npo names) ->
  (match find_from (key_is k) npo names with
   | Some j => Some j
   | None => find_from (key_eq k) npo names
   end) = option_map (Nat.add npo) (midx k (skipn npo names)).
Proof.
  intros k names npo ND. unfold find_from, midx.
  destruct (find_idx (key_is k) (skipn npo names)) as [j|] eqn:F; simpl; [|reflexivity].
  destruct (find_idx_Some _ _ _ _ 0 F) as [L E]. apply key_is_eq in E.
  pose proof (midx_unique _ _ _ ND L E) as M. unfold midx in M. rewrite M. reflexivity.
Qed.

Definition py_inv {V} (kws : list (key * V)) (pnames : list nat) (npo nfill : nat) (slots : list (option V)) : Prop :=
  forall kv i, In kv kws -> midx (fst kv) pnames = Some i ->
    (nth (npo + i) slots None <> None <-> i < nfill).

Lemma keys_nodup_cons : forall V k (v : V) rest, keys_nodup ((k, v) :: rest) = true ->
  (forall kv, In kv rest -> key_same k (fst kv) = false) /\ keys_nodup rest = true.
Proof.
  intros V k v rest H. simpl in H. apply andb_true_iff in H as [A B]. split; [|exact B].
  intros kv I. apply negb_true_iff in A. destruct (key_same k (fst kv)) eqn:E; [|reflexivity].
  assert (X : existsb (fun kv => key_same k (fst kv)) rest = true) by (apply existsb_exists; exists kv; auto).
  congruence.
Qed.

Lemma py_kw_ref : forall V (kws : list (key * V)) names npo nfill slots d,
  NoDup (skipn npo names) -> all_str kws -> keys_nodup kws = true ->
  py_inv kws (skipn npo names) npo nfill slots ->
  py_kw kws names npo slots d = parse_ref kws (skipn npo names) nfill npo false slots d.
Proof.
  intros V kws names npo nfill; induction kws as [|[k v] rest IH]; intros slots d ND AS KN INV; [reflexivity|].
  apply all_str_cons in AS as [S AS]. simpl in S. apply keys_nodup_cons in KN as [KH KN].
  simpl. rewrite S. simpl. rewrite (py_find_spec _ _ _ ND).
  destruct (midx k (skipn npo names)) as [i|] eqn:M; simpl.
  - pose proof (INV (k, v) i (or_introl eq_refl) M) as F.
    destruct (nth (npo + i) slots None) as [x|] eqn:N.
    + assert (L : i < nfill) by (apply F; discriminate). apply Nat.leb_gt in L. rewrite L. reflexivity.
    + assert (L : nfill <= i) by (destruct (Nat.le_gt_cases nfill i) as [G|G]; [exact G|apply F in G; congruence]).
      apply Nat.leb_le in L. rewrite L. apply IH; auto.
      intros kv i' I M'. rewrite nth_upd.
      destruct (Nat.eq_dec i' i) as [->|NE].
      * exfalso. destruct (midx_Some _ _ _ M) as [_ E1]. destruct (midx_Some _ _ _ M') as [_ E2].
        pose proof (KH kv I) as Q. rewrite (key_eq_same _ _ _ E1 E2) in Q. discriminate Q.
      * replace (npo + i' =? npo + i) with false by (symmetry; apply Nat.eqb_neq; lia). simpl.
        apply (INV kv i'); [right; exact I|exact M'].
  - destruct d as [d|]; [|reflexivity]. apply IH; auto. intros kv i' I M'. apply (INV kv i'); [right; exact I|exact M'].
Qed.

(* ---------- what the reference loop computes ---------- *)
Definition kw_unknown (names : list nat) (k : key) : bool :=
  match midx k names with None => true | Some _ => false end.
Definition kw_dup (names : list nat) (first : nat) (k : key) : bool :=
  match midx k names with Some i => negb (first <=? i) | None => false end.
Definition kw_bad (names : list nat) (first : nat) (strict : bool) (k : key) : bool :=
  kw_dup names first k || (strict && kw_unknown names k).

Definition ref_at {V} (names : list nat) (first off : nat) (kws : list (key * V))
           (values : list (option V)) (a : nat) : option V :=
  if (off + first <=? a) && (a <? off + length names) && (a <? length values) then
    match dict_get (nth (a - off) names 0) kws with Some v => Some v | None => nth a values None end
  else nth a values None.

Lemma dict_get_Some_In : forall V n (d : list (key * V)) v,
  dict_get n d = Some v -> exists kv, In kv d /\ key_eq (fst kv) n = true.
Proof.
  intros V n d; induction d as [|[k x] r IH]; intros v H; simpl in H; [discriminate|].
  destruct (key_eq k n) eqn:E.
  - exists (k, x). split; [left; reflexivity|exact E].
  - destruct (IH _ H) as [kv [I E']]. exists kv. split; [right; exact I|exact E'].
Qed.

Lemma dict_set_fresh : forall V k (v : V) d,
  (forall kv', In kv' d -> key_same (fst kv') k = false) -> dict_set k v d = d ++ [(k, v)].
Proof.
  intros V k v d; induction d as [|[k' v'] r IH]; intros H; [reflexivity|]. simpl.
  pose proof (H (k', v') (or_introl eq_refl)) as Q. simpl in Q. rewrite Q.
  rewrite IH; [reflexivity|]. intros kv I. apply H. right. exact I.
Qed.

Lemma key_same_sym : forall a b, key_same a b = key_same b a.
Proof. intros a b. unfold key_same. rewrite (Nat.eqb_sym (k_name a)). destruct (is_str a), (is_str b); reflexivity. Qed.

Definition strict_of {V} (ignore : bool) (kwds2 : option (list (key * V))) : bool :=
  match kwds2 with None => negb ignore | Some _ => false end.

Lemma parse_ref_ok : forall V (kws : list (key * V)) names first off ignore values kwds2,
  NoDup names -> all_str kws -> keys_nodup kws = true ->
  (forall d, kwds2 = Some d -> forall kv kv', In kv kws -> In kv' d -> key_same (fst kv') (fst kv) = false) ->
  match parse_ref kws names first off ignore values kwds2 with
  | inl e => e <> EImpossible /\
             existsb (fun kv => kw_bad names first (strict_of ignore kwds2) (fst kv)) kws = true
  | inr (vals', kw') =>
      existsb (fun kv => kw_bad names first (strict_of ignore kwds2) (fst kv)) kws = false /\
      length vals' = length values /\
      (forall a, nth a vals' None = ref_at names first off kws values a) /\
      kw' = option_map (fun d => d ++ filter (fun kv => kw_unknown names (fst kv)) kws) kwds2
  end.
Proof.
  intros V kws names first off ignore; induction kws as [|[k v] rest IH]; intros values kwds2 ND AS KN DJ.
  - simpl. repeat split; auto.
    + intros a. unfold ref_at. simpl. destruct (_ && _); reflexivity.
    + destruct kwds2; simpl; [rewrite app_nil_r|]; reflexivity.
  - apply all_str_cons in AS as [S AS]. simpl in S. apply keys_nodup_cons in KN as [KH KN].
    simpl parse_ref. simpl existsb. simpl filter. simpl fst.
    assert (HB : forall st, kw_bad names first st k =
                 match midx k names with Some i => negb (first <=? i) | None => st end).
    { intros st. unfold kw_bad, kw_dup, kw_unknown.
      destruct (midx k names); [rewrite andb_false_r, orb_false_r; reflexivity|simpl; rewrite andb_true_r; reflexivity]. }
    assert (HU : kw_unknown names k = match midx k names with Some _ => false | None => true end) by reflexivity.
    rewrite HB, HU.
    destruct (midx k names) as [i|] eqn:M.
    + destruct (first <=? i) eqn:C; simpl; [|split; [discriminate|reflexivity]].
      assert (DJ' : forall d, kwds2 = Some d -> forall kv kv', In kv rest -> In kv' d -> key_same (fst kv') (fst kv) = false)
        by (intros d E kv kv' I I'; apply (DJ d E); [right; exact I|exact I']).
      specialize (IH (upd (off + i) (Some v) values) kwds2 ND AS KN DJ').
      destruct (parse_ref rest names first off ignore (upd (off + i) (Some v) values) kwds2) as [e|[vals' kw']].
      * destruct IH as [A B]. split; [exact A|exact B].
      * destruct IH as [B [L [N K]]]. rewrite upd_length in L. repeat split; auto.
        intros a. rewrite N. unfold ref_at. rewrite upd_length. simpl dict_get.
        destruct (midx_Some _ _ _ M) as [Li Ei]. apply Nat.leb_le in C.
        destruct ((off + first <=? a) && (a <? off + length names) && (a <? length values)) eqn:CC.
        { apply andb_true_iff in CC as [CC C3]. apply andb_true_iff in CC as [C1 C2].
          apply Nat.leb_le in C1. apply Nat.ltb_lt in C2. apply Nat.ltb_lt in C3.
          destruct (Nat.eq_dec a (off + i)) as [->|NE].
          - replace (off + i - off) with i by lia. rewrite Ei.
            destruct (dict_get (nth i names 0) rest) as [x|] eqn:G.
            + exfalso. destruct (dict_get_Some_In _ _ _ _ G) as [kv [I E]].
              pose proof (KH kv I) as Q. rewrite (key_eq_same _ _ _ Ei E) in Q. discriminate Q.
            + rewrite nth_upd. rewrite Nat.eqb_refl. simpl. apply Nat.ltb_lt in C3. rewrite C3. reflexivity.
          - assert (X : key_eq k (nth (a - off) names 0) = false).
            { destruct (key_eq k (nth (a - off) names 0)) eqn:E; [|reflexivity].
              assert (L2 : a - off < length names) by lia.
              pose proof (midx_unique _ _ _ ND L2 E) as M2. rewrite M in M2. inversion M2. lia. }
            rewrite X. rewrite nth_upd. replace (a =? off + i) with false by (symmetry; apply Nat.eqb_neq; exact NE).
            reflexivity. }
        { rewrite nth_upd. destruct ((a =? off + i) && (off + i <? length values)) eqn:U; [|reflexivity].
          apply andb_true_iff in U as [U1 U2]. apply Nat.eqb_eq in U1. apply Nat.ltb_lt in U2. subst a.
          exfalso. assert (X : (off + first <=? off + i) && (off + i <? off + length names) && (off + i <? length values) = true).
          { apply andb_true_iff; split; [apply andb_true_iff; split|]; [apply Nat.leb_le|apply Nat.ltb_lt|apply Nat.ltb_lt]; lia. }
          congruence. }
    + simpl. destruct kwds2 as [d|].
      * simpl strict_of in *. simpl.
        assert (FR : dict_set k v d = d ++ [(k, v)]).
        { apply dict_set_fresh. intros kv' I. apply (DJ d eq_refl (k, v) kv'); [left; reflexivity|exact I]. }
        rewrite FR.
        assert (DJ' : forall d0, Some (d ++ [(k, v)]) = Some d0 -> forall kv kv', In kv rest -> In kv' d0 ->
                      key_same (fst kv') (fst kv) = false).
        { intros d0 E kv kv' I I'. inversion E; subst d0. apply in_app_or in I' as [I'|[<-|[]]].
          - apply (DJ d eq_refl); [right; exact I|exact I'].
          - simpl. apply KH. exact I. }
        specialize (IH values (Some (d ++ [(k, v)])) ND AS KN DJ').
        destruct (parse_ref rest names first off ignore values (Some (d ++ [(k, v)]))) as [e|[vals' kw']].
        { exact IH. }
        destruct IH as [B [L [N K]]]. repeat split; auto.
        { intros a. rewrite N. unfold ref_at. simpl dict_get.
          destruct ((off + first <=? a) && (a <? off + length names) && (a <? length values)) eqn:CC; [|reflexivity].
          apply andb_true_iff in CC as [CC C3]. apply andb_true_iff in CC as [C1 C2].
          apply Nat.leb_le in C1. apply Nat.ltb_lt in C2.
          rewrite (midx_None _ _ (a - off) M) by lia. reflexivity. }
        { rewrite K. simpl. rewrite <- app_assoc. reflexivity. }
      * destruct ignore; simpl; [|split; [discriminate|reflexivity]].
        assert (DJ' : forall d, @None (list (key * V)) = Some d -> forall kv kv', In kv rest -> In kv' d ->
                      key_same (fst kv') (fst kv) = false) by (intros d E; discriminate).
        specialize (IH values None ND AS KN DJ').
        destruct (parse_ref rest names first off true values None) as [e|[vals' kw']].
        { exact IH. }
        destruct IH as [B [L [N K]]]. repeat split; auto.
        intros a. rewrite N. unfold ref_at. simpl dict_get.
        destruct ((off + first <=? a) && (a <? off + length names) && (a <? length values)) eqn:CC; [|reflexivity].
        apply andb_true_iff in CC as [CC C3]. apply andb_true_iff in CC as [C1 C2].
        apply Nat.leb_le in C1. apply Nat.ltb_lt in C2.
        rewrite (midx_None _ _ (a - off) M) by lia. reflexivity.
Qed.

(* ---------- positional fill ---------- *)
Lemma nth_repeat_None : forall V m a, nth a (repeat (@None V) m) None = None.
Proof. intros V m; induction m; destruct a; simpl; auto. Qed.

Lemma nth_fill_pos : forall V (pos : list V) n k a,
  nth a (fill_pos n k pos) None = if a <? Nat.min k (length pos) then nth_error pos a else None.
Proof.
  unfold fill_pos. intros V pos; induction pos as [|x r IH]; intros n k a.
  - rewrite firstn_nil. simpl. rewrite Nat.min_0_r. simpl. apply nth_repeat_None.
  - destruct k; simpl; [apply nth_repeat_None|]. destruct a; simpl; [reflexivity|].
    replace (n - S k) with ((n - 1) - k) by lia. apply IH.
Qed.

Lemma fill_pos_length : forall V (pos : list V) n k, k <= length pos -> k <= n -> length (fill_pos n k pos) = n.
Proof. intros. unfold fill_pos. rewrite app_length, map_length, firstn_length, repeat_length. lia. Qed.

Lemma nth_error_None_ge : forall A (l : list A) a, a < length l -> nth_error l a <> None.
Proof. intros A l a L. apply nth_error_Some. exact L. Qed.

(* ---------- signature bookkeeping ---------- *)
From Coq Require Import Permutation.

Definition Pn (s : sig) := map p_name (s_posonly s).
Definition Qn (s : sig) := map p_name (s_poskw s).
Definition Kn (s : sig) := map p_name (s_kwonly s).
Definition Ksn (s : sig) := map p_name (kw_only_args s).

Lemma filter_partition_perm : forall A (f : A -> bool) l,
  Permutation (filter (fun x => negb (f x)) l ++ filter f l) l.
Proof.
  intros A f l; induction l as [|a l IH]; simpl; [constructor|].
  destruct (f a); simpl.
  - apply Permutation_sym, Permutation_cons_app, Permutation_sym, IH.
  - constructor. exact IH.
Qed.

Lemma kw_perm : forall s, Permutation (kw_only_args s) (s_kwonly s).
Proof. intros s. apply filter_partition_perm. Qed.

Lemma Ksn_perm : forall s, Permutation (Ksn s) (Kn s).
Proof. intros s. apply Permutation_map, kw_perm. Qed.

Lemma argnames_eq : forall s, argnames s = Qn s ++ Ksn s.
Proof. intros s. unfold argnames, Qn, Ksn. apply map_app. Qed.

Lemma allnames_eq : forall s, map p_name (all_args s) = Pn s ++ Qn s ++ Ksn s.
Proof. intros s. unfold all_args, positional_args, Pn, Qn, Ksn. rewrite !map_app, app_assoc. reflexivity. Qed.

Lemma declnames_eq : forall s, map p_name (declared s) = Pn s ++ Qn s ++ Kn s.
Proof. intros s. unfold declared, Pn, Qn, Kn. rewrite !map_app. reflexivity. Qed.

Lemma pnames_eq : forall s, skipn (npo s) (map p_name (declared s)) = Qn s ++ Kn s.
Proof.
  intros s. rewrite declnames_eq. unfold npo, Pn.
  rewrite skipn_app, map_length, Nat.sub_diag, skipn_all2 by (rewrite map_length; lia). reflexivity.
Qed.

Lemma midx_app : forall k A B,
  midx k (A ++ B) = match midx k A with Some i => Some i | None => option_map (Nat.add (length A)) (midx k B) end.
Proof.
  intros k A B. unfold midx. induction A as [|a A IH]; simpl.
  - destruct (find_idx (key_eq k) B); reflexivity.
  - destruct (key_eq k a); [reflexivity|]. rewrite IH.
    destruct (find_idx (key_eq k) A); simpl; [reflexivity|].
    destruct (find_idx (key_eq k) B); reflexivity.
Qed.

Lemma kw_dup_app : forall k A B B' first, first <= length A ->
  kw_dup (A ++ B) first k = kw_dup (A ++ B') first k.
Proof.
  intros k A B B' first L. unfold kw_dup. rewrite !midx_app.
  destruct (midx k A); [reflexivity|].
  assert (X : forall n, negb (first <=? length A + n) = false)
    by (intros n; apply negb_false_iff, Nat.leb_le; lia).
  destruct (midx k B), (midx k B'); simpl; rewrite ?X; reflexivity.
Qed.

Lemma midx_perm_None : forall k B B', Permutation B B' -> midx k B = None -> midx k B' = None.
Proof.
  intros k B B' P H. destruct (midx k B') as [j|] eqn:E; [|reflexivity].
  destruct (midx_Some _ _ _ E) as [L Q].
  assert (I : In (nth j B' 0) B) by (apply (Permutation_in _ (Permutation_sym P)), nth_In; exact L).
  destruct (In_nth _ _ 0 I) as [i [Li Ni]]. pose proof (midx_None _ _ i H Li) as Z. rewrite Ni in Z. congruence.
Qed.

Lemma kw_unknown_perm : forall k A B B', Permutation B B' ->
  kw_unknown (A ++ B) k = kw_unknown (A ++ B') k.
Proof.
  intros k A B B' P. unfold kw_unknown. rewrite !midx_app. destruct (midx k A); [reflexivity|].
  destruct (midx k B) eqn:E1, (midx k B') eqn:E2; simpl; try reflexivity.
  - rewrite (midx_perm_None _ _ _ (Permutation_sym P) E2) in E1. discriminate.
  - rewrite (midx_perm_None _ _ _ P E1) in E2. discriminate.
Qed.

Record wfs (s : sig) : Prop := {
  wf_nd_decl : NoDup (Pn s ++ Qn s ++ Kn s);
  wf_nd_all : NoDup (Pn s ++ Qn s ++ Ksn s);
  wf_nd_arg : NoDup (Qn s ++ Ksn s);
  wf_nd_p : NoDup (Qn s ++ Kn s);
  wf_trail : defaults_trail (positional_args s) = true;
  wf_used : s_starstar s = true \/ s_kwused s = false
}.

Lemma NoDup_app_r : forall A (l1 l2 : list A), NoDup (l1 ++ l2) -> NoDup l2.
Proof. intros A l1; induction l1; simpl; intros l2 H; [exact H|]. inversion H; auto. Qed.

Lemma wf_sig_wfs : forall s, wf_sig s = true -> wfs s.
Proof.
  intros s H. unfold wf_sig in H. apply andb_true_iff in H as [H U]. apply andb_true_iff in H as [N T].
  apply nodupb_NoDup in N. rewrite declnames_eq in N.
  assert (N2 : NoDup (Pn s ++ Qn s ++ Ksn s)).
  { eapply Permutation_NoDup; [|exact N]. apply Permutation_app_head, Permutation_app_head, Permutation_sym, Ksn_perm. }
  constructor; auto.
  - apply (NoDup_app_r _ _ _ N2).
  - apply (NoDup_app_r _ _ _ N).
  - apply orb_true_iff in U as [U|U]; [left; exact U|right; apply negb_true_iff; exact U].
Qed.

(* ---------- similarity of parser results up to the error kind ---------- *)
Definition sim {V} (x y : ekind + pstate V) : Prop :=
  match x, y with
  | inl e, inl _ => e <> EImpossible
  | inr a, inr b => a = b
  | _, _ => False
  end.

Definition parser_ok (pth : path) : Prop :=
  forall V (kws : list (key * V)) names first off ignore values kw0,
    NoDup names -> all_str kws -> keys_nodup kws = true -> first <= length names ->
    off + length names <= length values ->
    (forall i, first <= i -> i < length names -> nth (off + i) values None = None) ->
    (kw0 = None \/ kw0 = Some []) ->
    sim (parse_keywords pth kws names first off ignore values kw0)
        (parse_ref kws names first off ignore values kw0).

(* the same obligation for one shape of the initial **kwargs dict only: [some] = the wrapper passes a
   fresh dict (the signature has a used **kwargs), otherwise NULL *)
Definition parser_ok_sel (pth : path) (some : bool) : Prop :=
  forall V (kws : list (key * V)) names first off ignore values kw0,
    NoDup names -> all_str kws -> keys_nodup kws = true -> first <= length names ->
    off + length names <= length values ->
    (forall i, first <= i -> i < length names -> nth (off + i) values None = None) ->
    kw0 = (if some then Some [] else None) ->
    sim (parse_keywords pth kws names first off ignore values kw0)
        (parse_ref kws names first off ignore values kw0).

Lemma parser_ok_sel_of : forall pth some, parser_ok pth -> parser_ok_sel pth some.
Proof.
  intros pth some H V kws names first off ignore values kw0 A B C D E F G. apply H; auto.
  destruct some; [right|left]; exact G.
Qed.

Lemma sim_refl_ref : forall V (kws : list (key * V)) names first off ignore values kwds2,
  NoDup names -> all_str kws -> keys_nodup kws = true ->
  (kwds2 = None \/ kwds2 = Some []) ->
  sim (parse_ref kws names first off ignore values kwds2) (parse_ref kws names first off ignore values kwds2).
Proof.
  intros V kws names first off ignore values kwds2 ND AS KN K0.
  assert (DJ : forall d, kwds2 = Some d -> forall kv kv', In kv kws -> In kv' d -> key_same (fst kv') (fst kv) = false).
  { intros d E kv kv' I I'. destruct K0 as [K0|K0]; rewrite K0 in E; [discriminate|]. inversion E; subst. destruct I'. }
  pose proof (parse_ref_ok V kws names first off ignore values kwds2 ND AS KN DJ) as P.
  unfold sim. destruct (parse_ref kws names first off ignore values kwds2) as [e|p]; [apply P|reflexivity].
Qed.

Lemma parser_ok_tuple : forall pth, pth <> PDict -> parser_ok pth.
Proof.
  intros pth NE V kws names first off ignore values kw0 ND AS KN _ _ _ K0.
  assert (E : parse_keywords pth kws names first off ignore values kw0 = parse_tuple kws names first off ignore values kw0)
    by (destruct pth; try reflexivity; congruence).
  rewrite E, parse_tuple_ref by assumption. apply sim_refl_ref; assumption.
Qed.

(* ---------- values of the two arrays after keyword parsing ---------- *)
Definition dp : param := mkParam 0 false.

Lemma sig_lengths : forall s,
  length (all_args s) = maxpos s + length (kw_only_args s) /\
  length (declared s) = maxpos s + length (s_kwonly s) /\
  maxpos s = npo s + length (s_poskw s) /\
  length (kw_only_args s) = length (s_kwonly s).
Proof.
  intros s. unfold all_args, declared, maxpos, positional_args, npo. rewrite !app_length.
  pose proof (Permutation_length (kw_perm s)). lia.
Qed.

Lemma opt_id : forall V (o : option V), match o with Some v => Some v | None => None end = o.
Proof. destruct o; reflexivity. Qed.

Section Arrays.
  Variable V : Type.
  Variable s : sig.
  Variable pos : list V.
  Variable kws : list (key * V).
  Variable k nf : nat.
  Hypothesis W : wfs s.
  Hypothesis Hk : k <= length pos /\ k <= maxpos s.
  Hypothesis Hnf : nf <= length (s_poskw s).
  Variable values' slots' : list (option V).
  Hypothesis Lv : length values' = length (all_args s).
  Hypothesis Ls : length slots' = length (declared s).
  Hypothesis Nv : forall a, nth a values' None =
    ref_at (argnames s) nf (npo s) kws (fill_pos (length (all_args s)) k pos) a.
  Hypothesis Ns : forall a, nth a slots' None =
    ref_at (Qn s ++ Kn s) nf (npo s) kws (fill_pos (length (declared s)) k pos) a.

  Lemma arr_pos : forall a, a < maxpos s -> nth a values' None = nth a slots' None.
  Proof.
    intros a L. rewrite Nv, Ns. unfold ref_at.
    destruct (sig_lengths s) as [E1 [E2 [E3 E4]]].
    rewrite !fill_pos_length by lia. rewrite argnames_eq, !app_length. unfold Qn, Kn, Ksn. rewrite !map_length.
    rewrite !nth_fill_pos.
    replace (a <? npo s + (length (s_poskw s) + length (kw_only_args s))) with true by (symmetry; apply Nat.ltb_lt; lia).
    replace (a <? npo s + (length (s_poskw s) + length (s_kwonly s))) with true by (symmetry; apply Nat.ltb_lt; lia).
    replace (a <? length (all_args s)) with true by (symmetry; apply Nat.ltb_lt; lia).
    replace (a <? length (declared s)) with true by (symmetry; apply Nat.ltb_lt; lia).
    destruct (npo s + nf <=? a) eqn:C; simpl; [|reflexivity].
    apply Nat.leb_le in C.
    rewrite !app_nth1 by (rewrite map_length; lia). reflexivity.
  Qed.

  Lemma arr_kw_cy : forall j, j < length (kw_only_args s) ->
    nth (maxpos s + j) values' None = dict_get (nth j (Ksn s) 0) kws.
  Proof.
    intros j L. rewrite Nv. unfold ref_at.
    destruct (sig_lengths s) as [E1 [E2 [E3 E4]]].
    rewrite !fill_pos_length by lia. rewrite argnames_eq, !app_length. unfold Qn, Ksn. rewrite !map_length.
    rewrite nth_fill_pos.
    replace (npo s + nf <=? maxpos s + j) with true by (symmetry; apply Nat.leb_le; lia).
    replace (maxpos s + j <? npo s + (length (s_poskw s) + length (kw_only_args s))) with true by (symmetry; apply Nat.ltb_lt; lia).
    replace (maxpos s + j <? length (all_args s)) with true by (symmetry; apply Nat.ltb_lt; lia).
    replace (maxpos s + j <? Nat.min k (length pos)) with false by (symmetry; apply Nat.ltb_ge; lia).
    simpl. rewrite app_nth2 by (rewrite map_length; lia). rewrite map_length.
    replace (maxpos s + j - npo s - length (s_poskw s)) with j by lia. apply opt_id.
  Qed.

  Lemma arr_kw_py : forall j, j < length (s_kwonly s) ->
    nth (maxpos s + j) slots' None = dict_get (nth j (Kn s) 0) kws.
  Proof.
    intros j L. rewrite Ns. unfold ref_at.
    destruct (sig_lengths s) as [E1 [E2 [E3 E4]]].
    rewrite !fill_pos_length by lia. rewrite !app_length. unfold Qn, Kn. rewrite !map_length.
    rewrite nth_fill_pos.
    replace (npo s + nf <=? maxpos s + j) with true by (symmetry; apply Nat.leb_le; lia).
    replace (maxpos s + j <? npo s + (length (s_poskw s) + length (s_kwonly s))) with true by (symmetry; apply Nat.ltb_lt; lia).
    replace (maxpos s + j <? length (declared s)) with true by (symmetry; apply Nat.ltb_lt; lia).
    replace (maxpos s + j <? Nat.min k (length pos)) with false by (symmetry; apply Nat.ltb_ge; lia).
    simpl. rewrite app_nth2 by (rewrite map_length; lia). rewrite map_length.
    replace (maxpos s + j - npo s - length (s_poskw s)) with j by lia. apply opt_id.
  Qed.

  Lemma assoc_combine : forall (names : list nat) (vals : list (option V)) a,
    NoDup names -> length vals = length names -> a < length names ->
    assoc (nth a names 0) (combine names vals) = Some (nth a vals None).
  Proof.
    unfold assoc. induction names as [|n names IH]; intros vals a ND L La; simpl in La; [lia|].
    destruct vals as [|v vals]; simpl in L; [lia|]. inversion ND as [|? ? NI ND']; subst.
    destruct a as [|a]; simpl.
    - rewrite Nat.eqb_refl. reflexivity.
    - assert (X : (n =? nth a names 0) = false).
      { apply Nat.eqb_neq. intros ->. apply NI, nth_In. lia. }
      rewrite X. apply IH; auto; lia.
  Qed.

  Lemma kw_name_of : forall j, nth j (Kn s) 0 = p_name (nth j (s_kwonly s) dp).
  Proof. intros j. unfold Kn. apply (map_nth p_name _ dp). Qed.
  Lemma kws_name_of : forall j, nth j (Ksn s) 0 = p_name (nth j (kw_only_args s) dp).
  Proof. intros j. unfold Ksn. apply (map_nth p_name _ dp). Qed.

  Lemma readout_eq : readout_cy s values' = readout_py (declared s) slots'.
  Proof.
    unfold readout_cy, readout_py.
    destruct (sig_lengths s) as [E1 [E2 [E3 E4]]].
    set (f := fun p : param => (p_name p, to_arg p (assoc (p_name p) (combine (map p_name (all_args s)) values')))).
    set (g := fun ip : nat * param => (p_name (snd ip), to_arg (snd ip) (Some (nth (fst ip) slots' None)))).
    apply (nth_ext _ _ (f dp) (g (0, dp))).
    { rewrite !map_length, combine_length, seq_length. lia. }
    intros i Li. rewrite map_length in Li.
    rewrite (map_nth f), (map_nth g), combine_nth by (rewrite seq_length; reflexivity).
    rewrite seq_nth by exact Li. simpl.
    unfold f, g. simpl. f_equal. f_equal.
    assert (NDall : NoDup (map p_name (all_args s))) by (rewrite allnames_eq; apply (wf_nd_all _ W)).
    assert (Lall : length values' = length (map p_name (all_args s))) by (rewrite map_length; exact Lv).
    destruct (Nat.lt_ge_cases i (maxpos s)) as [C|C].
    - assert (Ep : nth i (declared s) dp = nth i (all_args s) dp).
      { unfold declared, all_args, positional_args. rewrite app_assoc.
        unfold maxpos, positional_args in C.
        rewrite (app_nth1 (s_posonly s ++ s_poskw s) (s_kwonly s)) by exact C.
        rewrite (app_nth1 (s_posonly s ++ s_poskw s) (kw_only_args s)) by exact C. reflexivity. }
      rewrite Ep. rewrite <- (map_nth p_name (all_args s) dp i). change (p_name dp) with 0.
      rewrite assoc_combine by (auto; rewrite map_length; lia).
      rewrite arr_pos by exact C. reflexivity.
    - set (j := i - maxpos s).
      assert (Lj : j < length (s_kwonly s)) by (unfold j; lia).
      assert (Ep : nth i (declared s) dp = nth j (s_kwonly s) dp).
      { unfold declared. rewrite app_assoc. unfold j, maxpos, positional_args in *.
        rewrite app_nth2 by exact C. reflexivity. }
      rewrite Ep.
      assert (I : In (nth j (s_kwonly s) dp) (kw_only_args s))
        by (apply (Permutation_in _ (Permutation_sym (kw_perm s))), nth_In; exact Lj).
      destruct (In_nth _ _ dp I) as [j' [Lj' Ej']].
      assert (En : p_name (nth j (s_kwonly s) dp) = nth (maxpos s + j') (map p_name (all_args s)) 0).
      { change 0 with (p_name dp). rewrite map_nth. unfold all_args.
        rewrite app_nth2 by (unfold maxpos; lia). unfold maxpos.
        replace (length (positional_args s) + j' - length (positional_args s)) with j' by lia. rewrite Ej'. reflexivity. }
      rewrite En. rewrite assoc_combine by (auto; rewrite map_length; lia).
      rewrite arr_kw_cy by exact Lj'. replace i with (maxpos s + j) by (unfold j; lia).
      rewrite arr_kw_py by exact Lj. rewrite kws_name_of, kw_name_of, Ej'. reflexivity.
  Qed.

  Lemma existsb_ext_in : forall A (f g : A -> bool) l, (forall x, In x l -> f x = g x) -> existsb f l = existsb g l.
  Proof.
    intros A f g l; induction l as [|x l IH]; intros H; simpl; [reflexivity|].
    rewrite (H x (or_introl eq_refl)), IH; [reflexivity|]. intros y I. apply H. right. exact I.
  Qed.

  Lemma none_in_pos_eq : forall lo hi, hi <= maxpos s -> none_in values' lo hi = none_in slots' lo hi.
  Proof.
    intros lo hi H. unfold none_in. apply existsb_ext_in. intros x I. apply in_seq in I.
    rewrite arr_pos by lia. reflexivity.
  Qed.

  Lemma missing_kw_eq :
    none_in values' (maxpos s) (maxpos s + nreq_kw s) = missing_kwonly (maxpos s) (s_kwonly s) slots'.
  Proof.
    destruct (sig_lengths s) as [E1 [E2 [E3 E4]]].
    set (P := exists p, In p (s_kwonly s) /\ p_def p = false /\ dict_get (p_name p) kws = None).
    assert (A1 : none_in values' (maxpos s) (maxpos s + nreq_kw s) = true <-> P).
    { unfold none_in. rewrite existsb_exists. unfold nreq_kw.
      replace (maxpos s + length (required (s_kwonly s)) - maxpos s) with (length (required (s_kwonly s))) by lia.
      split.
      - intros [i [I H]]. apply in_seq in I. set (j := i - maxpos s).
        assert (Lj : j < length (required (s_kwonly s))) by (unfold j; lia).
        assert (Lj2 : j < length (kw_only_args s)) by (unfold kw_only_args; rewrite app_length; lia).
        replace i with (maxpos s + j) in H by (unfold j; lia).
        rewrite arr_kw_cy, kws_name_of in H by exact Lj2.
        unfold kw_only_args in H. rewrite app_nth1 in H by exact Lj.
        pose proof (nth_In (required (s_kwonly s)) dp Lj) as I2. unfold required in I2. apply filter_In in I2 as [I2 D].
        exists (nth j (required (s_kwonly s)) dp). unfold required. repeat split; auto.
        + apply negb_true_iff. exact D.
        + destruct (dict_get _ kws); [discriminate|reflexivity].
      - intros [p [I [D G]]].
        assert (I2 : In p (required (s_kwonly s))) by (apply filter_In; split; [exact I|rewrite D; reflexivity]).
        destruct (In_nth _ _ dp I2) as [j [Lj Ej]].
        assert (Lj2 : j < length (kw_only_args s)) by (unfold kw_only_args; rewrite app_length; lia).
        exists (maxpos s + j). split; [apply in_seq; lia|].
        rewrite arr_kw_cy, kws_name_of by exact Lj2.
        unfold kw_only_args. rewrite app_nth1 by exact Lj. rewrite Ej, G. reflexivity. }
    assert (A2 : missing_kwonly (maxpos s) (s_kwonly s) slots' = true <-> P).
    { unfold missing_kwonly. rewrite existsb_exists. split.
      - intros [[i p] [I H]]. simpl in H. apply andb_true_iff in H as [D H].
        destruct (In_nth _ _ (0, dp) I) as [j [Lj Ej]].
        rewrite combine_length, seq_length, Nat.min_id in Lj.
        rewrite combine_nth in Ej by (rewrite seq_length; reflexivity).
        rewrite seq_nth in Ej by exact Lj. inversion Ej; subst i p.
        rewrite arr_kw_py, kw_name_of in H by exact Lj.
        exists (nth j (s_kwonly s) dp). repeat split.
        + apply nth_In. exact Lj.
        + apply negb_true_iff. exact D.
        + destruct (dict_get _ kws); [discriminate|reflexivity].
      - intros [p [I [D G]]]. destruct (In_nth _ _ dp I) as [j [Lj Ej]].
        exists (maxpos s + j, p). split.
        + replace (maxpos s + j, p) with (nth j (combine (seq (maxpos s) (length (s_kwonly s))) (s_kwonly s)) (0, dp)).
          * apply nth_In. rewrite combine_length, seq_length, Nat.min_id. exact Lj.
          * rewrite combine_nth by (rewrite seq_length; reflexivity). rewrite seq_nth by exact Lj. rewrite Ej. reflexivity.
        + simpl. rewrite D. simpl. rewrite arr_kw_py, kw_name_of by exact Lj. rewrite Ej, G. reflexivity. }
    apply eq_iff_eq_true. rewrite A1, A2. reflexivity.
  Qed.
End Arrays.

(* ---------- assembling the keyword branch ---------- *)
Lemma filter_length_le : forall A (f : A -> bool) l, length (filter f l) <= length l.
Proof. intros A f l; induction l; simpl; [lia|]. destruct (f a); simpl; lia. Qed.

Lemma filter_length_compl : forall A (f : A -> bool) l,
  length (filter (fun x => negb (f x)) l) + length (filter f l) = length l.
Proof. intros A f l; induction l; simpl; [lia|]. destruct (f a); simpl; lia. Qed.

Lemma req_counts : forall s,
  minpos s = nreq_posonly s + length (required (s_poskw s)) /\ nreq_posonly s <= npo s /\
  maxpos s - length (optional (positional_args s)) = minpos s /\ minpos s <= maxpos s.
Proof.
  intros s. unfold minpos, nreq_posonly, npo, maxpos, required, optional, positional_args.
  pose proof (filter_length_le _ (fun p => negb (p_def p)) (s_posonly s)) as A.
  pose proof (filter_length_compl _ p_def (s_posonly s)) as C1.
  pose proof (filter_length_compl _ p_def (s_poskw s)) as C2.
  rewrite !filter_app, !app_length. lia.
Qed.

Lemma bad_equiv : forall s nf st k, nf <= length (s_poskw s) ->
  kw_bad (argnames s) nf st k = kw_bad (Qn s ++ Kn s) nf st k.
Proof.
  intros s nf st k L. unfold kw_bad. rewrite argnames_eq.
  rewrite (kw_dup_app k (Qn s) (Ksn s) (Kn s)) by (unfold Qn; rewrite map_length; exact L).
  rewrite (kw_unknown_perm k (Qn s) _ _ (Ksn_perm s)). reflexivity.
Qed.

Lemma parse_ref_nil_off : forall V (kws : list (key * V)) first off off' ignore values kwds2,
  parse_ref kws [] first off ignore values kwds2 = parse_ref kws [] first off' ignore values kwds2.
Proof.
  intros V kws first off off' ignore; induction kws as [|[k v] rest IH]; intros values kwds2; simpl; [reflexivity|].
  destruct kwds2; [apply IH|]. destruct ignore; [apply IH|reflexivity].
Qed.

Lemma py_inv_fill : forall V (kws : list (key * V)) names npo0 nq total nargs (pos : list V),
  nargs = length pos ->
  py_inv kws names npo0 (Nat.min (nargs - npo0) nq) (fill_pos total (Nat.min nargs (npo0 + nq)) pos).
Proof.
  intros V kws names npo0 nq total nargs pos E kv i _ _. rewrite nth_fill_pos.
  destruct (npo0 + i <? Nat.min (Nat.min nargs (npo0 + nq)) (length pos)) eqn:C.
  - apply Nat.ltb_lt in C. split; [lia|]. intros _. apply nth_error_Some. lia.
  - apply Nat.ltb_ge in C. split; [congruence|lia].
Qed.

Lemma erase_err : forall V s e, e <> EImpossible -> erase s (@TypeErr V e) = OTypeError.
Proof. intros V s e H. destruct e; try reflexivity. congruence. Qed.

Lemma skipn_min : forall V (pos : list V) mx, skipn (Nat.min (length pos) mx) pos = skipn mx pos.
Proof.
  intros V pos mx. destruct (Nat.le_gt_cases (length pos) mx).
  - rewrite Nat.min_l by lia. rewrite !skipn_all2 by lia. reflexivity.
  - rewrite Nat.min_r by lia. reflexivity.
Qed.

Lemma generic_kw : forall V pth s (c : call V),
  wfs s -> parser_ok_sel pth (s_starstar s && s_kwused s) -> all_str (c_kws c) -> keys_nodup (c_kws c) = true ->
  (0 <? length (c_kws c)) = true ->
  erase s (bind_generic pth s c) = erase s (bind_py s c).
Proof.
  intros V pth s [pos kws] W PO AS KN NE. simpl in *.
  destruct (sig_lengths s) as [E1 [E2 [E3 E4]]]. destruct (req_counts s) as [R1 [R2 [R3 R4]]].
  set (nargs := length pos). set (k := Nat.min nargs (maxpos s)).
  set (nf := Nat.min (nargs - npo s) (length (s_poskw s))).
  set (kwdict := if s_starstar s then Some (@nil (key * V)) else None).
  set (kw0 := if s_starstar s && s_kwused s then Some (@nil (key * V)) else None).
  (* the CPython side *)
  assert (PY : py_kw kws (map p_name (declared s)) (npo s) (fill_pos (length (declared s)) k pos) kwdict =
               parse_ref kws (Qn s ++ Kn s) nf (npo s) false (fill_pos (length (declared s)) k pos) kwdict).
  { rewrite <- pnames_eq. apply py_kw_ref; auto.
    - rewrite pnames_eq. apply (wf_nd_p _ W).
    - rewrite pnames_eq. unfold nf, k. rewrite E3. apply py_inv_fill. reflexivity. }
  assert (K0 : kwdict = None \/ kwdict = Some []) by (unfold kwdict; destruct (s_starstar s); auto).
  assert (K0' : kw0 = None \/ kw0 = Some []) by (unfold kw0; destruct (s_starstar s && s_kwused s); auto).
  assert (DJ : forall d, kwdict = Some d -> forall kv kv' : key * V, In kv kws -> In kv' d -> key_same (fst kv') (fst kv) = false).
  { intros d E kv kv' I I'. destruct K0 as [K0|K0]; rewrite K0 in E; [discriminate|]. inversion E; subst. destruct I'. }
  assert (DJ0 : forall d, kw0 = Some d -> forall kv kv' : key * V, In kv kws -> In kv' d -> key_same (fst kv') (fst kv) = false).
  { intros d E kv kv' I I'. destruct K0' as [K1|K1]; rewrite K1 in E; [discriminate|]. inversion E; subst. destruct I'. }
  pose proof (parse_ref_ok V kws (Qn s ++ Kn s) nf (npo s) false (fill_pos (length (declared s)) k pos) kwdict
                (wf_nd_p _ W) AS KN DJ) as PYOK.
  assert (ST : strict_of (s_starstar s) kw0 = strict_of false kwdict).
  { unfold kw0, kwdict. destruct (wf_used _ W) as [U|U]; rewrite U; [destruct (s_kwused s)|destruct (s_starstar s)]; reflexivity. }
  assert (Lnf : nf <= length (s_poskw s)) by (unfold nf; lia).
  unfold bind_generic, bind_py. simpl c_pos. simpl c_kws. rewrite NE.
  fold nargs. fold k. replace (Nat.min nargs (maxpos s)) with k by reflexivity. fold kwdict. fold kw0.
  rewrite PY.
  destruct (accept_kwd_args s) eqn:ACC; simpl negb; cbv iota.
  2:{ (* no keyword can be accepted *)
    rewrite erase_err by (unfold reject_keywords; destruct pth; try discriminate; destruct (nonstr_in kws); discriminate).
    unfold accept_kwd_args in ACC. apply orb_false_iff in ACC as [A1 A2].
    apply negb_false_iff, Nat.eqb_eq in A1. rewrite argnames_eq, app_length in A1. unfold Qn, Ksn in A1. rewrite !map_length in A1.
    assert (EQ : Qn s ++ Kn s = []).
    { apply length_zero_iff_nil. rewrite app_length. unfold Qn, Kn. rewrite !map_length. lia. }
    rewrite EQ. unfold kwdict. rewrite A2. destruct kws as [|[k0 v0] rest]; [discriminate|]. simpl. reflexivity. }
  destruct (posargs_kw s pos) as [values|] eqn:PA.
  2:{ (* argtuple_error in the switch *)
    simpl. unfold posargs_kw in PA. fold nargs in PA.
    destruct (parse_ref kws (Qn s ++ Kn s) nf (npo s) false (fill_pos (length (declared s)) k pos) kwdict) as [e|[slots' kw']].
    { apply eq_sym, erase_err, PYOK. }
    destruct PYOK as [_ [Ls [Ns _]]].
    destruct (maxpos s <? nargs) eqn:C1.
    - destruct (s_star s); [discriminate|]. reflexivity.
    - simpl. destruct (nargs <? nreq_posonly s) eqn:C2; [|discriminate].
      apply Nat.ltb_lt in C2. apply Nat.ltb_ge in C1.
      assert (X : none_in slots' nargs (maxpos s - length (optional (positional_args s))) = true).
      { rewrite R3. unfold none_in. apply existsb_exists. exists nargs. split; [apply in_seq; lia|].
        rewrite Ns. unfold ref_at.
        replace (npo s + nf <=? nargs) with false by (symmetry; apply Nat.leb_gt; lia). simpl.
        rewrite nth_fill_pos. replace (nargs <? Nat.min k (length pos)) with false by (symmetry; apply Nat.ltb_ge; unfold nargs; lia).
        reflexivity. }
      rewrite X. reflexivity. }
  (* positional arguments copied; keyword parsing *)
  assert (VAL : values = fill_pos (length (all_args s)) k pos /\ nreq_posonly s <= nargs /\ ((maxpos s <? nargs) && negb (s_star s) = false)).
  { unfold posargs_kw in PA. fold nargs in PA. destruct (maxpos s <? nargs) eqn:C1.
    - destruct (s_star s); [|discriminate]. inversion PA. apply Nat.ltb_lt in C1. unfold k. rewrite Nat.min_r by lia.
      repeat split; auto; lia.
    - destruct (nargs <? nreq_posonly s) eqn:C2; [discriminate|]. inversion PA. apply Nat.ltb_ge in C1, C2.
      unfold k. rewrite Nat.min_l by lia. repeat split; auto. }
  destruct VAL as [-> [RN TM]]. rewrite TM.
  set (first := if maxpos s =? 0 then 0 else if s_star s then Nat.min (if 0 <? npo s then nargs - npo s else nargs) (maxpos s - npo s)
                else if 0 <? npo s then nargs - npo s else nargs).
  assert (F : first = nf).
  { unfold first, nf. apply andb_false_iff in TM.
    destruct (Nat.eqb_spec (maxpos s) 0); [lia|]. destruct (Nat.ltb_spec 0 (npo s)); destruct (s_star s); try lia.
    - destruct TM as [TM|TM]; [apply Nat.ltb_ge in TM; lia|discriminate].
    - destruct TM as [TM|TM]; [apply Nat.ltb_ge in TM; lia|discriminate]. }
  rewrite F.
  set (off := if (0 <? npo s) && (npo s <? length (all_args s)) then npo s else 0).
  assert (OFF : off = npo s \/ argnames s = []).
  { unfold off. destruct (Nat.ltb_spec 0 (npo s)); simpl; [|left; lia].
    destruct (Nat.ltb_spec (npo s) (length (all_args s))); [left; reflexivity|right].
    apply length_zero_iff_nil. rewrite argnames_eq, app_length. unfold Qn, Ksn. rewrite !map_length. lia. }
  assert (Lk : k <= length pos /\ k <= maxpos s) by (unfold k, nargs; lia).
  assert (NDA : NoDup (argnames s)) by (rewrite argnames_eq; apply (wf_nd_arg _ W)).
  assert (SIM : sim (parse_keywords pth kws (argnames s) nf off (s_starstar s) (fill_pos (length (all_args s)) k pos) kw0)
                    (parse_ref kws (argnames s) nf (npo s) (s_starstar s) (fill_pos (length (all_args s)) k pos) kw0)).
  { assert (S0 : sim (parse_keywords pth kws (argnames s) nf off (s_starstar s) (fill_pos (length (all_args s)) k pos) kw0)
                     (parse_ref kws (argnames s) nf off (s_starstar s) (fill_pos (length (all_args s)) k pos) kw0)).
    { apply PO; auto.
      - rewrite argnames_eq, app_length. unfold Qn. rewrite map_length. lia.
      - rewrite fill_pos_length by lia. destruct OFF as [O|O].
        + rewrite O, argnames_eq, app_length. unfold Qn, Ksn. rewrite !map_length. lia.
        + rewrite O. simpl. unfold off. destruct ((0 <? npo s) && (npo s <? length (all_args s))); lia.
      - intros i L1 L2. rewrite nth_fill_pos.
        destruct OFF as [O|O]; [|rewrite O in L2; simpl in L2; lia]. rewrite O.
        replace (npo s + i <? Nat.min k (length pos)) with false; [reflexivity|].
        symmetry. apply Nat.ltb_ge. unfold k, nf, nargs in *. lia. }
    destruct OFF as [<-|O]; [exact S0|]. rewrite O in *. rewrite (parse_ref_nil_off _ _ _ (npo s) off). exact S0. }
  pose proof (parse_ref_ok V kws (argnames s) nf (npo s) (s_starstar s) (fill_pos (length (all_args s)) k pos) kw0
                NDA AS KN DJ0) as CYOK.
  assert (BE : existsb (fun kv : key * V => kw_bad (argnames s) nf (strict_of (s_starstar s) kw0) (fst kv)) kws =
               existsb (fun kv : key * V => kw_bad (Qn s ++ Kn s) nf (strict_of false kwdict) (fst kv)) kws).
  { apply existsb_ext_in. intros kv _. rewrite ST. apply bad_equiv. exact Lnf. }
  unfold sim in SIM.
  destruct (parse_keywords pth kws (argnames s) nf off (s_starstar s) (fill_pos (length (all_args s)) k pos) kw0) as [e|[values' kwds2]];
  destruct (parse_ref kws (argnames s) nf (npo s) (s_starstar s) (fill_pos (length (all_args s)) k pos) kw0) as [e'|[values2 kwds2']];
  try contradiction.
  - (* both raise *)
    rewrite erase_err by exact SIM. destruct CYOK as [_ B]. rewrite BE in B.
    destruct (parse_ref kws (Qn s ++ Kn s) nf (npo s) false (fill_pos (length (declared s)) k pos) kwdict) as [e2|[slots' kw']].
    + apply eq_sym, erase_err, PYOK.
    + destruct PYOK as [B' _]. congruence.
  - inversion SIM; subst values2 kwds2'. destruct CYOK as [B [Lv [Nv Kv]]]. rewrite BE in B.
    destruct (parse_ref kws (Qn s ++ Kn s) nf (npo s) false (fill_pos (length (declared s)) k pos) kwdict) as [e2|[slots' kw']].
    { destruct PYOK as [_ B']. congruence. }
    destruct PYOK as [_ [Ls [Ns Ks]]].
    rewrite fill_pos_length in Lv, Ls by lia.
    rewrite R3.
    rewrite (none_in_pos_eq V s pos kws k nf Lk Lnf values' slots' Lv Ls Nv Ns) by lia.
    rewrite (missing_kw_eq V s pos kws k nf Lk Lnf values' slots' Lv Ls Nv Ns).
    assert (G : (nreq_posonly s <? minpos s) && none_in slots' nargs (minpos s) = none_in slots' nargs (minpos s)).
    { destruct (Nat.ltb_spec (nreq_posonly s) (minpos s)); [reflexivity|]. simpl. unfold none_in.
      replace (minpos s - nargs) with 0 by lia. reflexivity. }
    rewrite G.
    destruct (none_in slots' nargs (minpos s)); [reflexivity|].
    destruct (missing_kwonly (maxpos s) (s_kwonly s) slots'); [reflexivity|].
    simpl. rewrite (readout_eq V s pos kws k nf W Lk Lnf values' slots' Lv Ls Nv Ns).
    unfold k, nargs. rewrite skipn_min. f_equal.
    destruct (s_starstar s && negb (s_kwused s)) eqn:U; [reflexivity|].
    rewrite Kv, Ks. unfold kw0, kwdict. destruct (s_starstar s) eqn:SS; simpl in *; [|reflexivity].
    apply negb_false_iff in U. rewrite U. simpl. f_equal. apply filter_ext. intros kv.
    rewrite argnames_eq. apply kw_unknown_perm, Ksn_perm.
Qed.

(* ---------- the keyword-less branch ---------- *)
Lemma ref_at_nil : forall V names first off (values : list (option V)) a,
  nth a values None = ref_at names first off [] values a.
Proof. intros. unfold ref_at. simpl. destruct (_ && _); reflexivity. Qed.

Lemma none_in_fill : forall V (pos : list V) n k lo hi, k <= lo ->
  none_in (fill_pos n k pos) lo hi = (lo <? hi).
Proof.
  intros V pos n k lo hi L. unfold none_in. destruct (Nat.ltb_spec lo hi) as [C|C].
  - apply existsb_exists. exists lo. split; [apply in_seq; lia|]. rewrite nth_fill_pos.
    replace (lo <? Nat.min k (length pos)) with false by (symmetry; apply Nat.ltb_ge; lia). reflexivity.
  - replace (hi - lo) with 0 by lia. reflexivity.
Qed.

Lemma kw_erase_eq : forall V s, wfs s ->
  (if s_starstar s && negb (s_kwused s) then None else (if s_starstar s && s_kwused s then Some (@nil (key * V)) else None)) =
  (if s_starstar s && negb (s_kwused s) then None else (if s_starstar s then Some (@nil (key * V)) else None)).
Proof. intros V s W. destruct (wf_used _ W) as [U|U]; rewrite U; [destruct (s_kwused s)|destruct (s_starstar s)]; reflexivity. Qed.

Lemma nokw_bound : forall V s (pos : list V) X, wfs s -> X = Nat.min (length pos) (maxpos s) ->
  erase s (Bound (readout_cy s (fill_pos (length (all_args s)) X pos))
                 (if s_star s then Some (skipn (maxpos s) pos) else None)
                 (if s_starstar s && s_kwused s then Some [] else None)) =
  erase s (Bound (readout_py (declared s) (fill_pos (length (declared s)) (Nat.min (length pos) (maxpos s)) pos))
                 (if s_star s then Some (skipn (Nat.min (length pos) (maxpos s)) pos) else None)
                 (if s_starstar s then Some [] else None)).
Proof.
  intros V s pos X W ->. simpl. destruct (sig_lengths s) as [E1 [E2 [E3 E4]]].
  set (k := Nat.min (length pos) (maxpos s)).
  assert (Lk : k <= length pos /\ k <= maxpos s) by (unfold k; lia).
  rewrite (readout_eq V s pos [] k 0 W Lk (Nat.le_0_l _) _ (fill_pos (length (declared s)) k pos)).
  - unfold k. rewrite skipn_min. rewrite kw_erase_eq by exact W. reflexivity.
  - apply fill_pos_length; lia.
  - apply fill_pos_length; lia.
  - intros a. apply ref_at_nil.
  - intros a. apply ref_at_nil.
Qed.

Lemma generic_nokw : forall V pth s (c : call V), wfs s -> c_kws c = [] ->
  erase s (bind_generic pth s c) = erase s (bind_py s c).
Proof.
  intros V pth s [pos kws] W E. simpl in E. subst kws.
  destruct (sig_lengths s) as [E1 [E2 [E3 E4]]]. destruct (req_counts s) as [R1 [R2 [R3 R4]]].
  unfold bind_generic, bind_py. simpl c_pos. simpl c_kws. simpl py_kw. cbv iota. simpl (0 <? length []). cbv iota.
  rewrite R3.
  set (k := Nat.min (length pos) (maxpos s)).
  assert (Lk : k <= length pos /\ k <= maxpos s) by (unfold k; lia).
  rewrite none_in_fill by (unfold k; lia).
  assert (B : missing_kwonly (maxpos s) (s_kwonly s) (fill_pos (length (declared s)) k pos) = (0 <? nreq_kw s)).
  { rewrite <- (missing_kw_eq V s pos [] k 0 Lk (Nat.le_0_l _) (fill_pos (length (all_args s)) k pos)).
    - rewrite none_in_fill by lia. destruct (Nat.ltb_spec 0 (nreq_kw s)); [apply Nat.ltb_lt|apply Nat.ltb_ge]; lia.
    - apply fill_pos_length; lia.
    - apply fill_pos_length; lia.
    - intros a. apply ref_at_nil.
    - intros a. apply ref_at_nil. }
  rewrite B. unfold bind_nokw.
  pose proof (nokw_bound V s pos (maxpos s) W) as NB1.
  pose proof (nokw_bound V s pos (length pos) W) as NB2.
  fold k in NB1, NB2.
  set (nargs := length pos) in *. set (mn := minpos s) in *. set (mx := maxpos s) in *. set (r := nreq_kw s) in *.
  destruct (s_star s) eqn:ST;
  destruct (Nat.ltb_spec 0 r); destruct (Nat.ltb_spec 0 mn); destruct (Nat.eqb_spec mn mx);
  destruct (Nat.ltb_spec mx nargs); destruct (Nat.ltb_spec nargs mn); destruct (Nat.eqb_spec nargs mn);
  destruct (Nat.ltb_spec mn mx); simpl negb; simpl andb; simpl orb; cbv iota;
  try lia; try reflexivity; try (apply NB1; unfold k; lia); try (apply NB2; unfold k; lia).
Qed.

(* ---------- signatures without named parameters ---------- *)
Lemma all_str_nonstr : forall V (kws : list (key * V)), all_str kws -> nonstr_in kws = false.
Proof.
  intros V kws H. unfold nonstr_in. destruct (existsb _ kws) eqn:E; [|reflexivity].
  apply existsb_exists in E as [kv [I N]]. rewrite (H kv I) in N. discriminate.
Qed.

Lemma dict_update_fresh : forall V (kws d : list (key * V)), keys_nodup kws = true ->
  (forall kv kv', In kv kws -> In kv' d -> key_same (fst kv') (fst kv) = false) ->
  dict_update d kws = d ++ kws.
Proof.
  unfold dict_update. intros V kws; induction kws as [|[k v] rest IH]; intros d KN DJ; simpl.
  - rewrite app_nil_r. reflexivity.
  - apply keys_nodup_cons in KN as [KH KN].
    rewrite dict_set_fresh by (intros kv' I; apply (DJ (k, v) kv'); [left; reflexivity|exact I]).
    rewrite IH; [rewrite <- app_assoc; reflexivity|exact KN|].
    intros kv kv' I I'. apply in_app_or in I' as [I'|[<-|[]]].
    + apply DJ; [right; exact I|exact I'].
    + simpl. apply KH. exact I.
Qed.

Lemma py_kw_nil_some : forall V (kws : list (key * V)) slots d, all_str kws ->
  py_kw kws [] 0 slots (Some d) = inr (slots, Some (dict_update d kws)).
Proof.
  intros V kws; induction kws as [|[k v] rest IH]; intros slots d AS; [reflexivity|].
  apply all_str_cons in AS as [S AS]. simpl in S. simpl. rewrite S. simpl. unfold find_from. simpl.
  rewrite IH by exact AS. reflexivity.
Qed.

Lemma py_kw_nil_none : forall V k v (rest : list (key * V)) slots, is_str k = true ->
  py_kw ((k, v) :: rest) [] 0 slots None = inl EUnexpected.
Proof. intros. simpl. rewrite H. reflexivity. Qed.

Lemma no_params : forall s, length (all_args s) = 0 ->
  s_posonly s = [] /\ s_poskw s = [] /\ s_kwonly s = [].
Proof.
  intros s H. destruct (sig_lengths s) as [E1 [E2 [E3 E4]]]. unfold npo in E3.
  repeat split; apply length_zero_iff_nil; lia.
Qed.

Lemma starcopy_eq : forall V pth s (c : call V), wfs s -> length (all_args s) = 0 ->
  all_str (c_kws c) -> keys_nodup (c_kws c) = true ->
  erase s (bind_starcopy pth s c) = erase s (bind_py s c).
Proof.
  intros V pth s [pos kws] W L0 AS KN. simpl in AS, KN.
  destruct (no_params s L0) as [EP [EQ EK]].
  unfold bind_starcopy, bind_py, declared, maxpos, positional_args, npo, optional. simpl c_pos. simpl c_kws.
  rewrite EP, EQ, EK. simpl app. simpl length. rewrite Nat.min_0_r. simpl map. simpl filter. simpl length.
  rewrite (all_str_nonstr _ _ AS).
  change (fill_pos 0 0 pos) with (@nil (option V)).
  assert (RK : forall e, e = reject_keywords pth kws -> e <> EImpossible).
  { intros e ->. unfold reject_keywords. rewrite (all_str_nonstr _ _ AS). destruct pth; discriminate. }
  assert (NI : forall lo, none_in (@nil (option V)) lo (0 - 0) = false) by reflexivity.
  destruct (s_starstar s) eqn:SS.
  - rewrite py_kw_nil_some by exact AS.
    rewrite dict_update_fresh by (auto; intros ? ? ? []). simpl app.
    destruct (s_star s) eqn:ST; simpl negb; simpl andb.
    + rewrite andb_false_r. rewrite NI. simpl.
      destruct kws as [|kv rest]; simpl; rewrite ?SS; [destruct (s_kwused s); reflexivity|].
      destruct pth; simpl; rewrite ?SS; destruct (s_kwused s); simpl; try reflexivity;
        rewrite (dict_update_fresh V (kv :: rest) [] KN) by (intros ? ? ? []); reflexivity.
    + rewrite andb_true_r. destruct (0 <? length pos); [reflexivity|]. rewrite NI. simpl.
      destruct kws as [|kv rest]; simpl; rewrite ?SS; [destruct (s_kwused s); reflexivity|].
      destruct pth; simpl; rewrite ?SS; destruct (s_kwused s); simpl; try reflexivity;
        rewrite (dict_update_fresh V (kv :: rest) [] KN) by (intros ? ? ? []); reflexivity.
  - destruct kws as [|[k v] rest].
    + simpl. destruct (s_star s); simpl; rewrite ?andb_false_r, ?andb_true_r, ?SS; simpl.
      * rewrite ?SS. reflexivity.
      * destruct (0 <? length pos); simpl; rewrite ?SS; reflexivity.
    + apply all_str_cons in AS as [S _]. simpl in S. rewrite py_kw_nil_none by exact S.
      destruct (negb (s_star s) && (0 <? length pos)); [reflexivity|].
      change (0 <? length ((k, v) :: rest)) with true. cbv iota.
      rewrite (erase_err V s (reject_keywords pth ((k, v) :: rest))) by (apply RK; reflexivity). reflexivity.
Qed.

Lemma noargs_eq : forall V s (c : call V), wfs s -> wf_path PNoArgs s = true ->
  all_str (c_kws c) -> keys_nodup (c_kws c) = true ->
  erase s (bind_noargs c) = erase s (bind_py s c).
Proof.
  intros V s c W WP AS KN. simpl in WP. apply andb_true_iff in WP as [WP SS]. apply andb_true_iff in WP as [L ST].
  apply Nat.eqb_eq in L. apply negb_true_iff in SS, ST.
  assert (L0 : length (all_args s) = 0) by (destruct (sig_lengths s) as [E1 [E2 [E3 E4]]]; lia).
  rewrite <- (starcopy_eq V PTuple s c W L0 AS KN).
  unfold bind_noargs, bind_starcopy. rewrite SS, ST. simpl.
  destruct (0 <? length (c_kws c)); destruct (0 <? length (c_pos c)); reflexivity.
Qed.

Lemma metho_eq : forall V s (c : call V), wfs s -> wf_path PMethO s = true ->
  all_str (c_kws c) -> keys_nodup (c_kws c) = true ->
  erase s (bind_metho s c) = erase s (bind_py s c).
Proof.
  intros V s c W WP AS KN. simpl in WP. apply andb_true_iff in WP as [WP SS]. apply andb_true_iff in WP as [WP ST].
  apply andb_true_iff in WP as [WP L]. apply Nat.eqb_eq in L. rewrite app_length in L.
  apply negb_true_iff in SS, ST.
  destruct (s_posonly s) as [|p [|? ?]] eqn:EP; try discriminate. apply negb_true_iff in WP.
  assert (EQ : s_poskw s = []) by (apply length_zero_iff_nil; lia).
  assert (EK : s_kwonly s = []) by (apply length_zero_iff_nil; lia).
  destruct (0 <? length (c_kws c)) eqn:NE.
  - rewrite <- (generic_kw V PTuple s c W (parser_ok_sel_of _ _ (parser_ok_tuple PTuple ltac:(discriminate))) AS KN NE).
    unfold bind_metho, bind_generic. rewrite NE. unfold accept_kwd_args, argnames, kw_only_args, required, optional.
    rewrite EQ, EK, SS. reflexivity.
  - assert (E0 : c_kws c = []) by (destruct (c_kws c); [reflexivity|discriminate]).
    rewrite <- (generic_nokw V PTuple s c W E0).
    unfold bind_metho, bind_generic. rewrite NE. unfold bind_nokw, readout_cy, minpos, maxpos, nreq_kw, all_args,
      positional_args, kw_only_args, required, optional, declared.
    rewrite EP, EQ, EK, SS, ST. simpl. rewrite WP. simpl.
    destruct (c_pos c) as [|v [|? ?]]; simpl; try reflexivity.
    unfold assoc. simpl. rewrite Nat.eqb_refl. reflexivity.
Qed.

(* non-str keys reaching a dict-convention wrapper are rejected by the generated code itself *)
Lemma dict_nonstr : forall V s (c : call V), nonstr_in (c_kws c) = true ->
  exists e, bind_cy PDict s c = TypeErr e /\ e <> EImpossible.
Proof.
  intros V s [pos kws] NS. simpl in NS.
  assert (NE : (0 <? length kws) = true) by (destruct kws; [discriminate|reflexivity]).
  unfold bind_cy. destruct (length (all_args s) =? 0).
  - unfold bind_starcopy. simpl c_pos. simpl c_kws. rewrite NE, NS.
    destruct (negb (s_star s) && (0 <? length pos)); [eexists; split; [reflexivity|discriminate]|].
    destruct (s_starstar s); [eexists; split; [reflexivity|discriminate]|].
    simpl. rewrite NS. eexists; split; [reflexivity|discriminate].
  - unfold bind_generic. simpl c_pos. simpl c_kws. rewrite NE.
    destruct (accept_kwd_args s); simpl negb; cbv iota.
    2:{ simpl. rewrite NS. eexists; split; [reflexivity|discriminate]. }
    destruct (posargs_kw s pos); [|eexists; split; [reflexivity|discriminate]].
    unfold parse_keywords. destruct (s_starstar s && s_kwused s).
    + unfold parse_dict2dict. rewrite NS. eexists; split; [reflexivity|discriminate].
    + unfold parse_dict. rewrite NS. eexists; split; [reflexivity|discriminate].
Qed.

(* ---------- main theorem ---------- *)
Theorem bind_cy_py : forall V pth s (c : call V),
  wf_sig s = true -> wf_path pth s = true -> keys_nodup (c_kws c) = true -> nonstr_in (c_kws c) = false ->
  (length (all_args s) <> 0 -> parser_ok_sel pth (s_starstar s && s_kwused s)) ->
  erase s (bind_cy pth s c) = erase s (bind_py s c).
Proof.
  intros V pth s c WS WP KN NS PO. apply wf_sig_wfs in WS. apply nonstr_in_false in NS.
  destruct pth; try (apply noargs_eq; assumption); try (apply metho_eq; assumption);
  unfold bind_cy; destruct (Nat.eqb_spec (length (all_args s)) 0) as [L0|L0];
  try (apply starcopy_eq; assumption);
  (destruct (0 <? length (c_kws c)) eqn:NE;
   [apply generic_kw; auto
   |apply generic_nokw; [assumption|destruct (c_kws c); [reflexivity|discriminate]]]).
Qed.

Theorem call_eq_sel : forall V vc pth s (c : call V),
  wf_sig s = true -> wf_path pth s = true -> wf_entry vc pth = true -> keys_nodup (c_kws c) = true ->
  (length (all_args s) <> 0 -> parser_ok_sel pth (s_starstar s && s_kwused s)) ->
  erase s (call_cy vc pth s c) = erase s (call_py s c).
Proof.
  intros V vc pth s c WS WP WE KN PO. unfold call_cy, call_py.
  destruct (nonstr_in (c_kws c)) eqn:NS.
  - rewrite andb_true_r. destruct vc; [reflexivity|].
    destruct pth; try discriminate.
    + destruct (dict_nonstr V s c NS) as [e [E N]]. rewrite E. apply erase_err. exact N.
    + unfold bind_cy, bind_noargs. destruct (c_kws c); [discriminate|reflexivity].
    + unfold bind_cy, bind_metho. destruct (c_kws c); [discriminate|reflexivity].
  - rewrite andb_false_r. apply bind_cy_py; assumption.
Qed.

Theorem call_eq_param : forall V vc pth s (c : call V),
  wf_sig s = true -> wf_path pth s = true -> wf_entry vc pth = true -> keys_nodup (c_kws c) = true ->
  (length (all_args s) <> 0 -> parser_ok pth) ->
  erase s (call_cy vc pth s c) = erase s (call_py s c).
Proof.
  intros V vc pth s c WS WP WE KN PO. apply call_eq_sel; auto.
  intros L. apply parser_ok_sel_of, PO, L.
Qed.

(* every calling convention except a named-parameter wrapper entered with a kwds dict *)
Theorem call_eq_partial : forall V vc pth s (c : call V),
  wf_sig s = true -> wf_path pth s = true -> wf_entry vc pth = true -> keys_nodup (c_kws c) = true ->
  (pth <> PDict \/ length (all_args s) = 0) ->
  erase s (call_cy vc pth s c) = erase s (call_py s c).
Proof.
  intros V vc pth s c WS WP WE KN H. apply call_eq_param; auto.
  intros L. destruct H as [H|H]; [apply parser_ok_tuple; exact H|contradiction].
Qed.
