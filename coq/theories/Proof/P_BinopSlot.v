(* C28 — proofs: the dispatch domains are finite, every statement is decided by exhaustive
   evaluation of the two models over the complete enumeration of the domain. *)
From Coq Require Import List Bool.
From CyVerif Require Import Model.M_BinopSlot.
Import ListNotations.

(* ---- complete enumerations *)
Definition all_mstate := [Undef; RetNI; RetVal].
Definition all_bool := [false; true].
Definition all_cls := [cB; cT; cCS; cPS; cU].
Definition all_cst : list cst := list_prod all_mstate all_mstate.
Definition all_bcfg : list bcfg :=
  list_prod (list_prod (list_prod (list_prod (list_prod all_cst all_cst) all_cst) all_cst) all_cst) all_bool.
Definition all_icfg : list icfg :=
  list_prod (list_prod (list_prod (list_prod all_mstate all_mstate) all_mstate) all_mstate) all_mstate.

Lemma all_mstate_ok : forall x, In x all_mstate. Proof. destruct x; simpl; tauto. Qed.
Lemma all_bool_ok : forall x, In x all_bool. Proof. destruct x; simpl; tauto. Qed.
Lemma all_cls_ok : forall x, In x all_cls. Proof. destruct x; simpl; tauto. Qed.
Lemma all_cst_ok : forall x, In x all_cst.
Proof. intros [a b]. apply in_prod; apply all_mstate_ok. Qed.
Lemma all_bcfg_ok : forall x, In x all_bcfg.
Proof. intros [[[[[b t] s] p] u] y]. repeat apply in_prod; try apply all_cst_ok. apply all_bool_ok. Qed.
Lemma all_icfg_ok : forall x, In x all_icfg.
Proof. intros [[[[a b] c] d] e]. repeat apply in_prod; apply all_mstate_ok. Qed.

Definition out_eq_dec : forall a b : out, {a = b} + {a <> b}.
Proof. repeat decide equality. Defined.
Definition M_eq_dec : forall a b : M, {a = b} + {a <> b}.
Proof. repeat decide equality. Defined.
Definition nofuel (m : M) : bool := match snd m with Fuel => false | _ => true end.

(* ---- normalised domains *)
Definition opts (L R c : cls) : list cst := if relevant L R c then all_cst else [(Undef, Undef)].
Definition dom (L R : cls) : list bcfg :=
  list_prod (list_prod (list_prod (list_prod (list_prod (opts L R cB) (opts L R cT)) (opts L R cCS))
    (opts L R cPS)) (opts L R cU)) (if relevant L R cU then all_bool else [false]).

Lemma keep_in : forall L R c x, In (keep L R c x) (opts L R c).
Proof. intros. unfold keep, opts. destruct (relevant L R c). apply all_cst_ok. simpl; tauto. Qed.
Lemma norm_in_dom : forall L R bc, In (norm L R bc) (dom L R).
Proof.
  intros L R [[[[[b t] s] p] u] y]. unfold norm, dom.
  repeat apply in_prod; try apply keep_in.
  destruct (relevant L R cU). apply all_bool_ok. simpl; tauto.
Qed.
Lemma norm_idem : forall L R bc, norm L R (norm L R bc) = norm L R bc.
Proof.
  intros L R [[[[[b t] s] p] u] y]. unfold norm, keep.
  destruct (relevant L R cB), (relevant L R cT), (relevant L R cCS), (relevant L R cPS), (relevant L R cU);
    reflexivity.
Qed.
Lemma run_bin_norm : forall w fx L R bc, run_bin w fx (norm L R bc) L R = run_bin w fx bc L R.
Proof. intros. unfold run_bin. rewrite norm_idem. reflexivity. Qed.
Lemma exc_bin_norm : forall fx L R bc, exc_bin fx (norm L R bc) L R = exc_bin fx bc L R.
Proof.
  intros. unfold exc_bin, exc_same_type, exc_multi_slot, multi_slot, any_slot, slots_of, any_rop.
  rewrite norm_idem.
  assert (H : forall l, (forall c, In c l -> In c (chain L)) ->
             existsb (fun c => defd (mkst (norm L R bc) ic0) c kRop) l
             = existsb (fun c => defd (mkst bc ic0) c kRop) l).
  { induction l as [|c l IH]; intros Hl; [reflexivity|]. simpl. rewrite IH by (intros; apply Hl; right; assumption).
    f_equal. assert (Hc : In c (chain L)) by (apply Hl; left; reflexivity).
    destruct bc as [[[[[b t] s] p] u] y]. unfold defd, mkst, norm, keep.
    assert (Hr : relevant L R c = true).
    { unfold relevant. apply existsb_exists. exists c. split. apply in_or_app; left; exact Hc. destruct c; reflexivity. }
    destruct c; rewrite Hr; reflexivity. }
  rewrite (H (chain L)) by auto. reflexivity.
Qed.

(* ---- binary operator: agreement outside the exception classes, both template variants *)
Definition chk_bin (fx : bool) (bc : bcfg) (L R : cls) : bool :=
  exc_bin fx bc L R ||
  ((if M_eq_dec (run_bin WPy fx bc L R) (run_bin WCy fx bc L R) then true else false)
   && nofuel (run_bin WCy fx bc L R)).

Lemma chk_bin_all : forallb (fun fx => forallb (fun L => forallb (fun R => forallb (fun bc =>
  chk_bin fx bc L R) (dom L R)) all_cls) all_cls) all_bool = true.
Proof. vm_compute. reflexivity. Qed.

Theorem binop_eq_partial : forall fx bc L R,
  exc_bin fx bc L R = false ->
  run_bin WPy fx bc L R = run_bin WCy fx bc L R /\ snd (run_bin WCy fx bc L R) <> Fuel.
Proof.
  intros fx bc L R He.
  pose proof chk_bin_all as H.
  rewrite forallb_forall in H. specialize (H fx (all_bool_ok fx)).
  rewrite forallb_forall in H. specialize (H L (all_cls_ok L)).
  rewrite forallb_forall in H. specialize (H R (all_cls_ok R)).
  rewrite forallb_forall in H. specialize (H (norm L R bc) (norm_in_dom L R bc)).
  unfold chk_bin in H. rewrite exc_bin_norm, !run_bin_norm, He in H. simpl in H.
  apply andb_prop in H. destruct H as [H1 H2].
  destruct (M_eq_dec (run_bin WPy fx bc L R) (run_bin WCy fx bc L R)) as [E|E]; [|discriminate].
  split; [exact E|]. unfold nofuel in H2. intro Hf. rewrite Hf in H2. discriminate.
Qed.

(* unrelated operand types: always the same dispatch *)
Theorem binop_unrelated_eq : forall fx bc L R,
  related L R = false -> run_bin WPy fx bc L R = run_bin WCy fx bc L R.
Proof.
  intros fx bc L R Hr. apply binop_eq_partial.
  unfold exc_bin, exc_same_type, exc_multi_slot. rewrite Hr.
  destruct L, R; try discriminate Hr; reflexivity.
Qed.

(* with the repaired template, operands of the same type always dispatch as in Python *)
Theorem binop_same_type_fixed_eq : forall bc L,
  run_bin WPy true bc L L = run_bin WCy true bc L L.
Proof.
  intros bc L. apply binop_eq_partial.
  unfold exc_bin, exc_same_type, exc_multi_slot.
  assert (H : cls_eqb L L = true) by (destruct L; reflexivity). rewrite H. simpl.
  rewrite andb_false_r. reflexivity.
Qed.

(* ---- refutations of the unrestricted statement (findings) *)
Definition bc_T (t : cst) (p : cst) : bcfg :=
  ((Undef, Undef), t, (Undef, Undef), p, (Undef, Undef), false).

(* class 1: a class defining only __rop__: T() op T() reaches __rop__ (Python: TypeError) *)
Theorem binop_same_type_refuted :
  exists bc L, run_bin WPy false bc L L <> run_bin WCy false bc L L
            /\ finish (run_bin WPy false bc L L) = ([], FTypeError)
            /\ finish (run_bin WCy false bc L L) = ([(cT, kRop, false)], FVal cT kRop).
Proof. exists (bc_T (Undef, RetVal) (Undef, Undef)), cT. vm_compute. repeat split; congruence. Qed.

(* class 2: T() op PS() with PS a plain Python subclass: __rop__ runs before __op__ *)
Theorem binop_related_refuted : forall fx,
  exists bc L R, finish (run_bin WPy fx bc L R) = ([(cT, kOp, true)], FVal cT kOp)
              /\ finish (run_bin WCy fx bc L R) = ([(cT, kRop, false)], FVal cT kRop).
Proof. intros fx. exists (bc_T (RetVal, RetVal) (Undef, Undef)), cT, cPS. destruct fx; vm_compute; split; reflexivity. Qed.

(* ---- in-place *)
Theorem inplace_eq_partial : forall fx isadd bc ic L R,
  exc_inplace fx isadd bc ic L R = false ->
  run WPy fx isadd true bc ic L R = run WCy fx isadd true bc ic L R.
Proof.
  intros fx isadd bc ic L R He. unfold exc_inplace in He. apply orb_false_elim in He. destruct He as [Hb Hs].
  destruct (binop_eq_partial fx bc L R Hb) as [E _].
  unfold run. rewrite E, Hs. simpl. reflexivity.
Qed.

Theorem plain_eq_partial : forall fx isadd bc ic L R,
  exc_bin fx bc L R = false ->
  run WPy fx isadd false bc ic L R = run WCy fx isadd false bc ic L R.
Proof. intros. unfold run. destruct (binop_eq_partial fx bc L R H) as [E _]. rewrite E. reflexivity. Qed.

(* class 3: PS() += x, PS a Python subclass of an extension type defining __iadd__: when every method
   declines, CPython's sq_inplace_concat step calls __iadd__ again and hands NotImplemented to the user *)
Theorem inplace_add_refuted :
  exists bc ic L R, run WPy true true true bc ic L R = ([(cT, kIop, true)], FTypeError)
                 /\ run WCy true true true bc ic L R = ([(cT, kIop, true); (cT, kIop, true)], FNotImplementedObject).
Proof.
  exists (bc_T (Undef, Undef) (Undef, Undef)), (Undef, RetNI, Undef, Undef, Undef), cPS, cU.
  vm_compute. split; reflexivity.
Qed.

