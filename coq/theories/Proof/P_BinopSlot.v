(* C28 — proofs: the dispatch domains are finite, every statement is decided by exhaustive
   evaluation of the two models over the complete enumeration of the domain. *)
From Coq Require Import List Bool.
From CyVerif Require Import Model.M_BinopSlot.
Import ListNotations.

(* ---- complete enumerations *)
Definition all_mstate := [Undef; RetNI; RetVal].
Definition all_bool := [false; true].
Definition all_cls := [cB; cT; cCS; cPS; cU].
Definition all_cst : list cst := list_prod all_mstate all_mstate.
Definition all_bcfg : list bcfg :=
  list_prod (list_prod (list_prod (list_prod (list_prod all_cst all_cst) all_cst) all_cst) all_cst) all_bool.
Definition all_icfg : list icfg :=
  list_prod (list_prod (list_prod (list_prod all_mstate all_mstate) all_mstate) all_mstate) all_mstate.

Lemma all_mstate_ok : forall x, In x all_mstate. Proof. destruct x; simpl; tauto. Qed.
Lemma all_bool_ok : forall x, In x all_bool. Proof. destruct x; simpl; tauto. Qed.
Lemma all_cls_ok : forall x, In x all_cls. Proof. destruct x; simpl; tauto. Qed.
Lemma all_cst_ok : forall x, In x all_cst.
Proof. intros [a b]. apply in_prod; apply all_mstate_ok. Qed.
Lemma all_bcfg_ok : forall x, In x all_bcfg.
Proof. intros [[[[[b t] s] p] u] y]. repeat apply in_prod; try apply all_cst_ok. apply all_bool_ok. Qed.
Lemma all_icfg_ok : forall x, In x all_icfg.
Proof. intros [[[[a b] c] d] e]. repeat apply in_prod; apply all_mstate_ok. Qed.

Definition out_eq_dec : forall a b : out, {a = b} + {a <> b}.
Proof. repeat decide equality. Defined.
Definition M_eq_dec : forall a b : M, {a = b} + {a <> b}.
Proof. repeat decide equality. Defined.
Definition nofuel (m : M) : bool := match snd m with Fuel => false | _ => true end.

(* ---- normalised domains *)
Definition opts (L R c : cls) : list cst := if relevant L R c then all_cst else [(Undef, Undef)].
Definition dom (L R : cls) : list bcfg :=
  list_prod (list_prod (list_prod (list_prod (list_prod (opts L R cB) (opts L R cT)) (opts L R cCS))
    (opts L R cPS)) (opts L R cU)) (if relevant L R cU then all_bool else [false]).

Lemma keep_in : forall L R c x, In (keep L R c x) (opts L R c).
Proof. intros. unfold keep, opts. destruct (relevant L R c). apply all_cst_ok. simpl; tauto. Qed.
Lemma norm_in_dom : forall L R bc, In (norm L R bc) (dom L R).
Proof.
  intros L R [[[[[b t] s] p] u] y]. unfold norm, dom.
  repeat apply in_prod; try apply keep_in.
  destruct (relevant L R cU). apply all_bool_ok. simpl; tauto.
Qed.
Lemma norm_idem : forall L R bc, norm L R (norm L R bc) = norm L R bc.
Proof.
  intros L R [[[[[b t] s] p] u] y]. unfold norm, keep.
  destruct (relevant L R cB), (relevant L R cT), (relevant L R cCS), (relevant L R cPS), (relevant L R cU);
    reflexivity.
Qed.
Lemma run_bin_norm : forall w fx L R bc, run_bin w fx (norm L R bc) L R = run_bin w fx bc L R.
Proof. intros. unfold run_bin. rewrite norm_idem. reflexivity. Qed.
Lemma exc_bin_norm : forall fx L R bc, exc_bin fx (norm L R bc) L R = exc_bin fx bc L R.
Proof.
  intros. unfold exc_bin, exc_same_type, exc_multi_slot, multi_slot, any_slot, slots_of, any_rop.
  rewrite norm_idem.
  assert (H : forall l, (forall c, In c l -> In c (chain L)) ->
             existsb (fun c => defd (mkst (norm L R bc) ic0) c kRop) l
             = existsb (fun c => defd (mkst bc ic0) c kRop) l).
  { induction l as [|c l IH]; intros Hl; [reflexivity|]. simpl. rewrite IH by (intros; apply Hl; right; assumption).
    f_equal. assert (Hc : In c (chain L)) by (apply Hl; left; reflexivity).
    destruct bc as [[[[[b t] s] p] u] y]. unfold defd, mkst, norm, keep.
    assert (Hr : relevant L R c = true).
    { unfold relevant. apply existsb_exists. exists c. split. apply in_or_app; left; exact Hc. destruct c; reflexivity. }
    destruct c; rewrite Hr; reflexivity. }
  rewrite (H (chain L)) by auto. reflexivity.
Qed.

(* ---- binary operator: agreement outside the exception classes, both template variants *)
Definition chk_bin (fx : bool) (bc : bcfg) (L R : cls) : bool :=
  exc_bin fx bc L R ||
  ((if M_eq_dec (run_bin WPy fx bc L R) (run_bin WCy fx bc L R) then true else false)
   && nofuel (run_bin WCy fx bc L R)).

Lemma chk_bin_all : forallb (fun fx => forallb (fun L => forallb (fun R => forallb (fun bc =>
  chk_bin fx bc L R) (dom L R)) all_cls) all_cls) all_bool = true.
Proof. vm_compute. reflexivity. Qed.

Theorem binop_eq_partial : forall fx bc L R,
  exc_bin fx bc L R = false ->
  run_bin WPy fx bc L R = run_bin WCy fx bc L R /\ snd (run_bin WCy fx bc L R) <> Fuel.
Proof.
  intros fx bc L R He.
  pose proof chk_bin_all as H.
  rewrite forallb_forall in H. specialize (H fx (all_bool_ok fx)).
  rewrite forallb_forall in H. specialize (H L (all_cls_ok L)).
  rewrite forallb_forall in H. specialize (H R (all_cls_ok R)).
  rewrite forallb_forall in H. specialize (H (norm L R bc) (norm_in_dom L R bc)).
  unfold chk_bin in H. rewrite exc_bin_norm, !run_bin_norm, He in H. simpl in H.
  apply andb_prop in H. destruct H as [H1 H2].
  destruct (M_eq_dec (run_bin WPy fx bc L R) (run_bin WCy fx bc L R)) as [E|E]; [|discriminate].
  split; [exact E|]. unfold nofuel in H2. intro Hf. rewrite Hf in H2. discriminate.
Qed.

(* unrelated operand types: always the same dispatch *)
Theorem binop_unrelated_eq : forall fx bc L R,
  related L R = false -> run_bin WPy fx bc L R = run_bin WCy fx bc L R.
Proof.
  intros fx bc L R Hr. apply binop_eq_partial.
  unfold exc_bin, exc_same_type, exc_multi_slot. rewrite Hr.
  destruct L, R; try discriminate Hr; reflexivity.
Qed.

(* with the repaired template, operands of the same type always dispatch as in Python *)
Theorem binop_same_type_fixed_eq : forall bc L,
  run_bin WPy true bc L L = run_bin WCy true bc L L.
Proof.
  intros bc L. apply binop_eq_partial.
  unfold exc_bin, exc_same_type, exc_multi_slot.
  assert (H : cls_eqb L L = true) by (destruct L; reflexivity). rewrite H. simpl.
  rewrite andb_false_r. reflexivity.
Qed.

(* ---- refutations of the unrestricted statement (findings) *)
Definition bc_T (t : cst) (p : cst) : bcfg :=
  ((Undef, Undef), t, (Undef, Undef), p, (Undef, Undef), false).

(* class 1: a class defining only __rop__: T() op T() reaches __rop__ (Python: TypeError) *)
Theorem binop_same_type_refuted :
  exists bc L, run_bin WPy false bc L L <> run_bin WCy false bc L L
            /\ finish (run_bin WPy false bc L L) = ([], FTypeError)
            /\ finish (run_bin WCy false bc L L) = ([(cT, kRop, false)], FVal cT kRop).
Proof. exists (bc_T (Undef, RetVal) (Undef, Undef)), cT. vm_compute. repeat split; congruence. Qed.

(* class 2: T() op PS() with PS a plain Python subclass: __rop__ runs before __op__ *)
Theorem binop_related_refuted : forall fx,
  exists bc L R, finish (run_bin WPy fx bc L R) = ([(cT, kOp, true)], FVal cT kOp)
              /\ finish (run_bin WCy fx bc L R) = ([(cT, kRop, false)], FVal cT kRop).
Proof. intros fx. exists (bc_T (RetVal, RetVal) (Undef, Undef)), cT, cPS. destruct fx; vm_compute; split; reflexivity. Qed.

(* ---- in-place *)
Theorem inplace_eq_partial : forall fx isadd bc ic L R,
  exc_inplace fx isadd bc ic L R = false ->
  run WPy fx isadd true bc ic L R = run WCy fx isadd true bc ic L R.
Proof.
  intros fx isadd bc ic L R He. unfold exc_inplace in He. apply orb_false_elim in He. destruct He as [Hb Hs].
  destruct (binop_eq_partial fx bc L R Hb) as [E _].
  unfold run. rewrite E, Hs. simpl. reflexivity.
Qed.

Theorem plain_eq_partial : forall fx isadd bc ic L R,
  exc_bin fx bc L R = false ->
  run WPy fx isadd false bc ic L R = run WCy fx isadd false bc ic L R.
Proof. intros. unfold run. destruct (binop_eq_partial fx bc L R H) as [E _]. rewrite E. reflexivity. Qed.

(* class 3: PS() += x, PS a Python subclass of an extension type defining __iadd__: when every method
   declines, CPython's sq_inplace_concat step calls __iadd__ again and hands NotImplemented to the user *)
Theorem inplace_add_refuted :
  exists bc ic L R, run WPy true true true bc ic L R = ([(cT, kIop, true)], FTypeError)
                 /\ run WCy true true true bc ic L R = ([(cT, kIop, true); (cT, kIop, true)], FNotImplementedObject).
Proof.
  exists (bc_T (Undef, Undef) (Undef, Undef)), (Undef, RetNI, Undef, Undef, Undef), cPS, cU.
  vm_compute. split; reflexivity.
Qed.

(* ================================================================ rich comparison *)
Definition all_cstate := [CU; CN; CTr; CFa].
Definition all_val := [CN; CTr; CFa].
Definition all_rcls := [rT; rX; rU].
Lemma all_cstate_ok : forall x, In x all_cstate. Proof. destruct x; simpl; tauto. Qed.
Lemma all_rcls_ok : forall x, In x all_rcls. Proof. destruct x; simpl; tauto. Qed.
Lemma all_cop_ok : forall x, In x all_cop. Proof. destruct x; simpl; tauto. Qed.
Definition RM_eq_dec : forall a b : RM, {a = b} + {a <> b}.
Proof. repeat decide equality. Defined.
Definition rnofuel (m : RM) : bool := match snd m with RFuel => false | _ => true end.

(* a class as seen by operator `op` without total_ordering: the state of the method the operator
   dispatches to (a), of its reflection - for != : of __eq__ - (b), and whether the class defines any
   other comparison method (which only decides whether Cython generates a tp_richcompare for it) *)
Definition view := (cstate * cstate * bool)%type.
Definition all_view : list view := list_prod (list_prod all_cstate all_cstate) all_bool.
Lemma all_view_ok : forall x, In x all_view.
Proof. intros [[a b] o]. repeat apply in_prod; try apply all_cstate_ok. apply all_bool_ok. Qed.
Definition st_of_view (op : cop) (v : view) (m : cop) : cstate :=
  let '(a, b, oth) := v in
  if cop_eqb m op then a
  else if cop_eqb m (match op with NE => EQ | o => swap o end) then b
  else if oth then CN else CU.

Definition exc_ne (op : cop) (tv xv : view) (xpy : bool) (L R : rcls) : bool :=
  let tst := st_of_view op tv in let xst := st_of_view op xv in
  xpy && cop_eqb op NE && existsb (fun m => match tst m with CU => false | _ => true end) all_cop
  && (match tst NE with CU => true | _ => false end)
  && (match xst EQ with CU => false | _ => true end) && (match xst NE with CU => true | _ => false end)
  && (rcls_eqb L rX || rcls_eqb R rX).

Definition rc_plain (w : world) (nefix : bool) (op : cop) (tv xv : view) (xpy : bool) (ub : cstate) (L R : rcls) : RM :=
  rc_run w (st_of_view op tv) (st_of_view op xv) false xpy ub ub nefix L R op.

Definition chk_rc (op : cop) (tv xv : view) (xpy : bool) (ub : cstate) (L R : rcls) : bool :=
  exc_ne op tv xv xpy L R ||
  ((if RM_eq_dec (rc_plain WPy false op tv xv xpy ub L R) (rc_plain WCy false op tv xv xpy ub L R) then true else false)
   && rnofuel (rc_plain WCy false op tv xv xpy ub L R)).

Lemma chk_rc_all : forallb (fun op => forallb (fun tv => forallb (fun xv => forallb (fun xpy => forallb (fun ub =>
  forallb (fun L => forallb (fun R => chk_rc op tv xv xpy ub L R) all_rcls) all_rcls) all_val) all_bool) all_view) all_view)
  all_cop = true.
Proof. vm_compute. reflexivity. Qed.

Theorem richcmp_eq_partial : forall op tv xv xpy ub L R,
  In ub all_val -> exc_ne op tv xv xpy L R = false ->
  rc_plain WPy false op tv xv xpy ub L R = rc_plain WCy false op tv xv xpy ub L R
  /\ snd (rc_plain WCy false op tv xv xpy ub L R) <> RFuel.
Proof.
  intros op tv xv xpy ub L R Hub He.
  pose proof chk_rc_all as H.
  rewrite forallb_forall in H. specialize (H op (all_cop_ok op)).
  rewrite forallb_forall in H. specialize (H tv (all_view_ok tv)).
  rewrite forallb_forall in H. specialize (H xv (all_view_ok xv)).
  rewrite forallb_forall in H. specialize (H xpy (all_bool_ok xpy)).
  rewrite forallb_forall in H. specialize (H ub Hub).
  rewrite forallb_forall in H. specialize (H L (all_rcls_ok L)).
  rewrite forallb_forall in H. specialize (H R (all_rcls_ok R)).
  unfold chk_rc in H. rewrite He in H. simpl in H. apply andb_prop in H. destruct H as [H1 H2].
  destruct (RM_eq_dec (rc_plain WPy false op tv xv xpy ub L R) (rc_plain WCy false op tv xv xpy ub L R)) as [E|E]; [|discriminate].
  split; [exact E|]. unfold rnofuel in H2. intro Hf. rewrite Hf in H2. discriminate.
Qed.

(* finding: `x != y`, X a Python subclass overriding __eq__ of an extension type that has a generated
   tp_richcompare without __ne__: X.__eq__ is not consulted *)
Theorem richcmp_ne_refuted :
  exists tv xv, rc_plain WPy false NE tv xv true CN rX rU = ([(rX, EQ, true)], RB true)
             /\ rc_plain WCy false NE tv xv true CN rX rU = ([(rT, EQ, true)], RB false).
Proof. exists (CU, CTr, false), (CU, CFa, false). vm_compute. split; reflexivity. Qed.

(* ---- total_ordering: T defines __eq__ (answering True/False), no __ne__, at least one ordering method;
   X a plain subclass; every operand pair except (T instance, subclass instance) *)
Definition ordst := (cstate * cstate * cstate * cstate)%type.        (* lt le gt ge *)
Definition all_ordst : list ordst := list_prod (list_prod (list_prod all_cstate all_cstate) all_cstate) all_cstate.
Lemma all_ordst_ok : forall x, In x all_ordst.
Proof. intros [[[a b] c] d]. repeat apply in_prod; apply all_cstate_ok. Qed.
Definition st_of_ord (o : ordst) (e n : cstate) (m : cop) : cstate :=
  let '(a, b, c, d) := o in match m with LT => a | LE => b | GT => c | GE => d | EQ => e | NE => n end.
Definition has_ord (o : ordst) : bool :=
  let '(a, b, c, d) := o in
  negb (match a, b, c, d with CU, CU, CU, CU => true | _, _, _, _ => false end).
Definition no_st (m : cop) : cstate := CU.
Definition rc_tot (w : world) (o : ordst) (e n : cstate) (xpy : bool) (uo ue : cstate) (L R : rcls) (op : cop) : RM :=
  rc_run w (st_of_ord o e n) no_st true xpy uo ue false L R op.

Definition chk_tot (o : ordst) (eb : bool) (xpy : bool) (uo ue : cstate) (L R : rcls) (op : cop) : bool :=
  let e := if eb then CTr else CFa in
  negb (has_ord o) || (rcls_eqb L rT && rcls_eqb R rX) ||
  ((if RM_eq_dec (rc_tot WPy o e CU xpy uo ue L R op) (rc_tot WCy o e CU xpy uo ue L R op) then true else false)
   && rnofuel (rc_tot WCy o e CU xpy uo ue L R op)).
Lemma chk_tot_all : forallb (fun o => forallb (fun eb => forallb (fun xpy => forallb (fun uo => forallb (fun ue =>
  forallb (fun L => forallb (fun R => forallb (fun op => chk_tot o eb xpy uo ue L R op) all_cop) all_rcls) all_rcls)
  all_val) all_val) all_bool) all_bool) all_ordst = true.
Proof. vm_compute. reflexivity. Qed.

Theorem richcmp_total_ordering_partial : forall o (eb xpy : bool) uo ue L R op,
  In uo all_val -> In ue all_val -> has_ord o = true -> (L, R) <> (rT, rX) ->
  let e := if eb then CTr else CFa in
  rc_tot WPy o e CU xpy uo ue L R op = rc_tot WCy o e CU xpy uo ue L R op
  /\ snd (rc_tot WCy o e CU xpy uo ue L R op) <> RFuel.
Proof.
  intros o eb xpy uo ue L R op Huo Hue Ho Hp e.
  pose proof chk_tot_all as H.
  rewrite forallb_forall in H. specialize (H o (all_ordst_ok o)).
  rewrite forallb_forall in H. specialize (H eb (all_bool_ok eb)).
  rewrite forallb_forall in H. specialize (H xpy (all_bool_ok xpy)).
  rewrite forallb_forall in H. specialize (H uo Huo).
  rewrite forallb_forall in H. specialize (H ue Hue).
  rewrite forallb_forall in H. specialize (H L (all_rcls_ok L)).
  rewrite forallb_forall in H. specialize (H R (all_rcls_ok R)).
  rewrite forallb_forall in H. specialize (H op (all_cop_ok op)).
  unfold chk_tot in H. rewrite Ho in H. simpl in H.
  assert (Hx : rcls_eqb L rT && rcls_eqb R rX = false).
  { destruct L, R; try reflexivity. exfalso; apply Hp; reflexivity. }
  rewrite Hx in H. simpl in H. apply andb_prop in H. destruct H as [H1 H2]. fold e in H1, H2.
  destruct (RM_eq_dec (rc_tot WPy o e CU xpy uo ue L R op) (rc_tot WCy o e CU xpy uo ue L R op)) as [E|E]; [|discriminate].
  split; [exact E|]. unfold rnofuel in H2. intro Hf. rewrite Hf in H2. discriminate.
Qed.

Definition ord_lt (s : cstate) : ordst := (s, CU, CU, CU).
(* F23: __eq__ answers NotImplemented: functools evaluates `self == other` (full protocol, reflected
   U.__eq__ consulted, identity fallback), Cython hands the method's NotImplemented on *)
Theorem richcmp_total_ordering_eq_ni_refuted :
  rc_tot WPy (ord_lt CFa) CN CU true CN CTr rT rU LE = ([(rT, LT, true); (rT, EQ, true); (rU, EQ, false)], RB true)
  /\ rc_tot WCy (ord_lt CFa) CN CU true CN CTr rT rU LE = ([(rT, LT, true); (rT, EQ, true); (rU, GE, false)], RTypeErr).
Proof. vm_compute. split; reflexivity. Qed.
(* both __eq__ and __ne__ defined: functools' `self != other` reaches __ne__, Cython calls __eq__ *)
Theorem richcmp_total_ordering_ne_refuted :
  rc_tot WPy (ord_lt CFa) CTr CTr true CN CN rT rT GT = ([(rT, LT, true); (rT, NE, true)], RB true)
  /\ rc_tot WCy (ord_lt CFa) CTr CTr true CN CN rT rT GT = ([(rT, LT, true); (rT, EQ, true)], RB false).
Proof. vm_compute. split; reflexivity. Qed.
(* neither __eq__ nor __ne__: Cython switches the directive off (compile-time warning) *)
Theorem richcmp_total_ordering_no_eq_refuted :
  rc_tot WPy (ord_lt CFa) CU CU true CN CN rT rT GT = ([(rT, LT, true)], RB true)
  /\ rc_tot WCy (ord_lt CFa) CU CU true CN CN rT rT GT = ([(rT, LT, false)], RB false).
Proof. vm_compute. split; reflexivity. Qed.
(* subclass instance on the right: functools' inner `self != other` gives the subclass priority *)
Theorem richcmp_total_ordering_subclass_refuted :
  exists o, rc_tot WPy o CTr CU true CN CN rT rX LT <> rc_tot WCy o CTr CU true CN CN rT rX LT.
Proof. exists (CU, CTr, CN, CU). vm_compute. congruence. Qed.
