(* Proofs about M_LineTable: the location table written by LineTable.py is read back by
   CPython 3.12's readers as exactly the recorded positions. *)
From Coq Require Import ZArith List Bool Lia ZifyBool ZifyNat.
From CyVerif Require Import Lib.CInt Model.M_LineTable.
Import ListNotations.
Open Scope Z_scope.

(* ---------------------------------------------------------------------------------- *)
(* finite enumeration                                                                  *)

Definition zrange (n : nat) : list Z := map Z.of_nat (seq 0 n).

Lemma zrange_forall (P : Z -> bool) (n : nat) :
  forallb P (zrange n) = true -> forall z, 0 <= z < Z.of_nat n -> P z = true.
Proof.
  intros H z Hz. rewrite forallb_forall in H. apply H. unfold zrange.
  apply in_map_iff. exists (Z.to_nat z). split; [lia|]. apply in_seq. lia.
Qed.

(* ---------------------------------------------------------------------------------- *)
(* bit facts                                                                           *)

Lemma land63_mod v : Z.land v 63 = v mod 64.
Proof. change 63 with (Z.ones 6). rewrite Z.land_ones by lia. reflexivity. Qed.

Lemma shiftr6_div v : Z.shiftr v 6 = v / 64.
Proof. rewrite Z.shiftr_div_pow2 by lia. reflexivity. Qed.

Lemma recompose6 v : Z.lor (Z.land v 63) (Z.shiftl (Z.shiftr v 6) 6) = v.
Proof.
  apply Z.bits_inj'. intros n Hn.
  rewrite Z.lor_spec, Z.land_spec. change 63 with (Z.ones 6).
  destruct (Z.ltb_spec n 6) as [Hlt|Hge].
  - rewrite Z.ones_spec_low by lia. rewrite Z.shiftl_spec_low by lia.
    rewrite andb_true_r, orb_false_r. reflexivity.
  - rewrite Z.ones_spec_high by lia. rewrite Z.shiftl_spec by lia.
    rewrite Z.shiftr_spec by lia. rewrite andb_false_r, orb_false_l.
    f_equal. lia.
Qed.

(* continuation byte 64 | c, c < 64 *)
Definition cont_chk (c : Z) : bool :=
  let b := Z.lor 64 c in
  (Z.land b 63 =? c) && negb (Z.land b 64 =? 0) && (64 <=? b) && (b <? 128).
Lemma cont_all : forall c, 0 <= c < 64 -> cont_chk c = true.
Proof. apply (zrange_forall cont_chk 64). vm_compute. reflexivity. Qed.

(* final byte v < 64 *)
Definition last_chk (v : Z) : bool := (Z.land v 63 =? v) && (Z.land v 64 =? 0).
Lemma last_all : forall v, 0 <= v < 64 -> last_chk v = true.
Proof. apply (zrange_forall last_chk 64). vm_compute. reflexivity. Qed.

(* payload bytes (< 128) are skipped by advance(), entry starts (>= 128) are not *)
Definition low_chk (b : Z) : bool := Z.land b 128 =? 0.
Lemma low_all : forall b, 0 <= b < 128 -> low_chk b = true.
Proof. apply (zrange_forall low_chk 128). vm_compute. reflexivity. Qed.
Definition high_chk (b : Z) : bool := negb (Z.land (128 + b) 128 =? 0).
Lemma high_all : forall b, 0 <= b < 128 -> high_chk b = true.
Proof. apply (zrange_forall high_chk 128). vm_compute. reflexivity. Qed.

(* ---------------------------------------------------------------------------------- *)
(* varints                                                                             *)

Definition payload (bs : list Z) : Prop := Forall (fun b => 0 <= b < 128) bs.

Lemma varint_loop_ok : forall fuel v,
  0 <= v -> Z.log2 v < Z.of_nat fuel ->
  exists bs, varint_loop fuel v = EOk bs /\ payload bs /\
    forall rest val shift, 0 <= shift ->
      read_varint_loop (bs ++ rest) val shift = Some (Z.lor val (Z.shiftl v shift), rest).
Proof.
  induction fuel as [|f IH]; intros v Hv Hf.
  - pose proof (Z.log2_nonneg v). lia.
  - cbn [varint_loop]. destruct (Z.leb_spec 64 v) as [Hbig|Hsmall].
    + assert (Hq : 0 <= Z.shiftr v 6) by (rewrite shiftr6_div; lia).
      assert (Hl : Z.log2 (Z.shiftr v 6) < Z.of_nat f).
      { rewrite Z.log2_shiftr by lia.
        assert (6 <= Z.log2 v) by (change 6 with (Z.log2 64); apply Z.log2_le_mono; lia).
        lia. }
      destruct (IH _ Hq Hl) as (bs & E & P & R). rewrite E. cbn [ebind].
      set (c := Z.land v 63).
      assert (Hc : 0 <= c < 64) by (unfold c; rewrite land63_mod; lia).
      pose proof (cont_all c Hc) as K. unfold cont_chk in K.
      exists (Z.lor 64 c :: bs). split; [reflexivity|]. split.
      * constructor; [lia|exact P].
      * intros rest val shift Hs. cbn [app read_varint_loop].
        replace (Z.land (Z.lor 64 c) 63) with c by lia.
        destruct (Z.eqb_spec (Z.land (Z.lor 64 c) 64) 0) as [E0|_]; [lia|].
        rewrite R by lia. f_equal. f_equal.
        rewrite <- Z.lor_assoc. f_equal.
        replace (shift + 6) with (6 + shift) by lia.
        rewrite <- Z.shiftl_shiftl by lia. rewrite <- Z.shiftl_lor.
        unfold c. rewrite recompose6. reflexivity.
    + exists [v]. split; [reflexivity|]. split.
      * constructor; [lia|constructor].
      * intros rest val shift Hs. cbn [app read_varint_loop].
        pose proof (last_all v ltac:(lia)) as K. unfold last_chk in K.
        replace (Z.land v 63) with v by lia.
        destruct (Z.eqb_spec (Z.land v 64) 0) as [_|E0]; [reflexivity|lia].
Qed.

Lemma encode_varint_ok v : 0 <= v ->
  exists bs, encode_varint v = EOk bs /\ payload bs /\
    forall rest, read_varint (bs ++ rest) = Some (v, rest).
Proof.
  intros Hv. unfold encode_varint. destruct (Z.ltb_spec v 0) as [?|_]; [lia|].
  destruct (varint_loop_ok (varint_fuel v) v Hv) as (bs & E & P & R).
  { unfold varint_fuel. pose proof (Z.log2_nonneg v). lia. }
  exists bs. split; [exact E|]. split; [exact P|].
  intros rest. unfold read_varint. rewrite R by lia.
  rewrite Z.shiftl_0_r, Z.lor_0_l. reflexivity.
Qed.

Lemma signed_even d : 0 <= d -> signed_of_uval (Z.shiftl d 1) = d.
Proof.
  intros Hd. unfold signed_of_uval.
  rewrite Z.shiftl_mul_pow2 by lia. change (2 ^ 1) with 2.
  change 1 with (Z.ones 1) at 1. rewrite Z.land_ones by lia. change (2 ^ 1) with 2.
  rewrite Z.shiftr_div_pow2 by lia. change (2 ^ 1) with 2.
  destruct (Z.eqb_spec ((d * 2) mod 2) 0) as [_|N]; lia.
Qed.

(* ---------------------------------------------------------------------------------- *)
(* well-formed input, well-formed output                                                *)

Definition wf_pos (p : pos) : Prop :=
  let '(sl, el, sc, ec) := p in 0 <= sl /\ sl <= el /\ 0 <= sc /\ 0 <= ec.

(* what the encoder carries to the next entry *)
Definition next_last (fx : bool) (p : pos) : Z := if fx then p_start p else p_end p.

(* the encoder's own precondition chain: every start line >= the carried "last line" *)
Fixpoint chain (fx : bool) (last : Z) (ps : list pos) : Prop :=
  match ps with
  | [] => True
  | p :: r => last <= p_start p /\ chain fx (next_last fx p) r
  end.

(* sorted by start line, first <= first start: the documented input *)
Definition sorted_from (first : Z) (ps : list pos) : Prop := chain true first ps.

(* one table entry: start byte with bit 7 set, length field 0 (one code unit), then payload *)
Definition entry_wf (e : list Z) : Prop :=
  exists h t, e = h :: t /\ 128 <= h < 256 /\ Z.land h 7 = 0 /\ payload t.

Definition table_wf (n : nat) (bs : list Z) : Prop :=
  exists entries, bs = concat entries /\ length entries = n /\ Forall entry_wf entries.

Definition starts_ok (bs : list Z) : Prop :=
  match bs with [] => True | h :: _ => 128 <= h < 256 end.

Lemma skip_payload_app t rest : payload t -> starts_ok rest -> skip_payload (t ++ rest) = rest.
Proof.
  intros P S. induction P as [|b t Hb P IH]; cbn [app].
  - destruct rest as [|h r]; [reflexivity|]. cbn [skip_payload]. cbn in S.
    pose proof (high_all (h - 128) ltac:(lia)) as K. unfold high_chk in K.
    replace (128 + (h - 128)) with h in K by lia.
    destruct (Z.eqb_spec (Z.land h 128) 0); [lia|reflexivity].
  - cbn [skip_payload]. pose proof (low_all b Hb) as K. unfold low_chk in K.
    destruct (Z.eqb_spec (Z.land b 128) 0); [exact IH|lia].
Qed.

(* ---------------------------------------------------------------------------------- *)
(* the reader on each entry form                                                        *)

Lemma awl_short b1 b2 rest line :
  0 <= entry_code b1 <= 9 ->
  advance_with_locations (b1 :: b2 :: rest) line =
  Some ((line, line, Z.lor (Z.shiftl (entry_code b1) 3) (Z.shiftr b2 4),
         Z.lor (Z.shiftl (entry_code b1) 3) (Z.shiftr b2 4) + Z.land b2 15),
        entry_units b1, line, rest).
Proof.
  intros H. unfold advance_with_locations.
  destruct (Z.eqb_spec (entry_code b1) 15); [lia|].
  destruct (Z.eqb_spec (entry_code b1) 14); [lia|].
  destruct (Z.eqb_spec (entry_code b1) 13); [lia|].
  destruct (Z.leb_spec 10 (entry_code b1)); [lia|]. cbn [andb]. reflexivity.
Qed.

Lemma awl_oneline b1 c ec rest line :
  10 <= entry_code b1 <= 12 ->
  advance_with_locations (b1 :: c :: ec :: rest) line =
  Some ((line + (entry_code b1 - 10), line + (entry_code b1 - 10), c, ec),
        entry_units b1, line + (entry_code b1 - 10), rest).
Proof.
  intros H. unfold advance_with_locations.
  destruct (Z.eqb_spec (entry_code b1) 15); [lia|].
  destruct (Z.eqb_spec (entry_code b1) 14); [lia|].
  destruct (Z.eqb_spec (entry_code b1) 13); [lia|].
  destruct (Z.leb_spec 10 (entry_code b1)); [|lia].
  destruct (Z.leb_spec (entry_code b1) 12); [|lia]. cbn [andb]. reflexivity.
Qed.

(* facts about the two bytes of the short form, by enumeration of (start column, width) *)
Definition short_chk1 (sc dd : Z) : bool :=
  match short_bytes sc (sc + dd) with
  | [b1; b2] =>
      (128 <=? b1) && (b1 <? 256) && (Z.land b1 7 =? 0) && (0 <=? entry_code b1) && (entry_code b1 <=? 9)
      && (0 <=? b2) && (b2 <? 128)
      && (Z.lor (Z.shiftl (entry_code b1) 3) (Z.shiftr b2 4) =? sc) && (Z.land b2 15 =? dd)
      && negb (Z.shiftr b1 3 =? 31)
  | _ => false
  end.
Definition short_chk (sc : Z) : bool := forallb (short_chk1 sc) (zrange 16).
Lemma short_all : forall sc dd, 0 <= sc < 80 -> 0 <= dd < 16 -> short_chk1 sc dd = true.
Proof.
  intros sc dd Hsc Hdd.
  assert (H : short_chk sc = true) by (revert sc Hsc; apply (zrange_forall short_chk 80); vm_compute; reflexivity).
  unfold short_chk in H. exact (zrange_forall _ 16 H dd Hdd).
Qed.

(* get_line_delta on each start byte written by the encoder *)
Lemma gld_short b1 r : 0 <= entry_code b1 <= 9 -> get_line_delta (b1 :: r) = Some 0.
Proof.
  intros H. unfold get_line_delta.
  destruct (Z.eqb_spec (entry_code b1) 15); [lia|].
  destruct (Z.eqb_spec (entry_code b1) 13); [lia|].
  destruct (Z.eqb_spec (entry_code b1) 14); [lia|]. cbn [orb].
  destruct (Z.eqb_spec (entry_code b1) 10); [lia|].
  destruct (Z.eqb_spec (entry_code b1) 11); [lia|].
  destruct (Z.eqb_spec (entry_code b1) 12); [lia|]. reflexivity.
Qed.

(* ---------------------------------------------------------------------------------- *)
(* one position: what the encoder writes, and what both readers make of it             *)

Lemma entry_ok fx p last :
  wf_pos p -> last <= p_start p ->
  exists b, encode_single fx p last = EOk (b, next_last fx p) /\ entry_wf b /\
    (forall rest, advance_with_locations (b ++ rest) last = Some (p, 1, p_start p, rest)) /\
    (forall rest, starts_ok rest -> advance (b ++ rest) last = Some (p_start p, 1, p_start p, rest)).
Proof.
  destruct p as [[[sl el] sc] ec]. unfold wf_pos, next_last. cbn [p_start p_end].
  intros (Hsl & Hel & Hsc & Hec) Hlast.
  unfold encode_single. destruct (Z.ltb_spec sl last) as [?|_]; [lia|].
  cbv zeta.
  destruct ((el =? sl) && ((sl - last =? 0) && (sc <? 80) && ((0 <=? ec - sc) && (ec - sc <? 16)))) eqn:Eshort.
  - (* short form *)
    assert (el = sl /\ sl = last /\ sc < 80 /\ 0 <= ec - sc < 16) as (-> & <- & Hc & Hd) by lia.
    pose proof (short_all sc (ec - sc) ltac:(lia) Hd) as K. unfold short_chk1 in K.
    replace (sc + (ec - sc)) with ec in K by lia.
    unfold short_bytes in *.
    set (b1 := Z.lor 128 (Z.shiftl (Z.shiftr sc 3) 3)) in *.
    set (b2 := Z.lor (Z.shiftl (Z.land sc 7) 4) (ec - sc)) in *.
    assert (K' : 128 <= b1 < 256 /\ Z.land b1 7 = 0 /\ 0 <= entry_code b1 <= 9 /\ 0 <= b2 < 128 /\
                 Z.lor (Z.shiftl (entry_code b1) 3) (Z.shiftr b2 4) = sc /\ Z.land b2 15 = ec - sc /\
                 Z.shiftr b1 3 <> 31) by lia.
    clear K. destruct K' as (Hb1 & Hlen & Hcode & Hb2 & Hcol & Hw & Hnm).
    exists [b1; b2]. split; [|split; [|split]].
    + unfold chars. cbn [forallb]. unfold byte_ok.
      replace ((0 <=? b1) && (b1 <? 256) && ((0 <=? b2) && (b2 <? 256) && true)) with true by lia.
      cbn [ebind]. destruct fx; reflexivity.
    + exists b1, [b2]. repeat split; try lia. constructor; [lia|constructor].
    + intros rest. cbn [app]. rewrite awl_short by lia. rewrite Hcol, Hw.
      unfold entry_units. rewrite Hlen. repeat f_equal; lia.
    + intros rest S. cbn [app]. unfold advance. rewrite gld_short by lia.
      destruct (Z.eqb_spec (Z.shiftr b1 3) 31); [lia|].
      unfold entry_units. rewrite Hlen.
      change (b2 :: rest) with ([b2] ++ rest). rewrite skip_payload_app; [|constructor; [lia|constructor]|exact S].
      repeat f_equal; lia.
  - destruct ((el =? sl) && ((0 <=? sl - last) && (sl - last <? 3) && (sc <? 128) && (ec <? 128))) eqn:Eone.
    + (* one-line form *)
      assert (el = sl /\ 0 <= sl - last < 3 /\ sc < 128 /\ ec < 128) as (-> & Hd & Hc & He) by lia.
      unfold oneline_bytes.
      assert (Hcases : sl - last = 0 \/ sl - last = 1 \/ sl - last = 2) by lia.
      assert (Hb : exists b1, Z.lor 128 (Z.shiftl (10 + (sl - last)) 3) = b1 /\ 128 <= b1 < 256 /\
                     Z.land b1 7 = 0 /\ entry_code b1 = 10 + (sl - last) /\ Z.shiftr b1 3 <> 31).
      { destruct Hcases as [E|[E|E]]; rewrite E; eexists; (split; [reflexivity|]); vm_compute; intuition congruence. }
      destruct Hb as (b1 & -> & Hb1 & Hlen & Hcode & Hnm).
      exists [b1; sc; ec]. split; [|split; [|split]].
      * unfold chars. cbn [forallb]. unfold byte_ok.
        replace ((0 <=? b1) && (b1 <? 256) && ((0 <=? sc) && (sc <? 256) && ((0 <=? ec) && (ec <? 256) && true)))
          with true by lia.
        cbn [ebind]. destruct fx; reflexivity.
      * exists b1, [sc; ec]. repeat split; try lia. constructor; [lia|constructor; [lia|constructor]].
      * intros rest. cbn [app]. rewrite awl_oneline by lia. rewrite Hcode.
        unfold entry_units. rewrite Hlen. repeat f_equal; lia.
      * intros rest S. cbn [app]. unfold advance.
        assert (G : get_line_delta (b1 :: sc :: ec :: rest) = Some (sl - last)).
        { unfold get_line_delta. rewrite Hcode. destruct Hcases as [E|[E|E]]; rewrite E; reflexivity. }
        rewrite G. destruct (Z.eqb_spec (Z.shiftr b1 3) 31); [lia|].
        unfold entry_units. rewrite Hlen.
        change (sc :: ec :: rest) with ([sc; ec] ++ rest).
        rewrite skip_payload_app; [|constructor; [lia|constructor; [lia|constructor]]|exact S].
        repeat f_equal; lia.
    + (* long form *)
      assert (Hd : 0 <= sl - last) by lia.
      destruct (encode_varint_ok (Z.shiftl (sl - last) 1)) as (v1 & E1 & P1 & R1).
      { rewrite Z.shiftl_mul_pow2 by lia. lia. }
      destruct (encode_varint_ok (el - sl) ltac:(lia)) as (v2 & E2 & P2 & R2).
      destruct (encode_varint_ok (sc + 1) ltac:(lia)) as (v3 & E3 & P3 & R3).
      destruct (encode_varint_ok (ec + 1) ltac:(lia)) as (v4 & E4 & P4 & R4).
      rewrite E1, E2, E3, E4. cbn [ebind].
      change long_start with 240.
      exists (240 :: v1 ++ v2 ++ v3 ++ v4). split; [|split; [|split]].
      * destruct fx; reflexivity.
      * exists 240, (v1 ++ v2 ++ v3 ++ v4). repeat split; try lia.
        unfold payload in *. repeat (apply Forall_app; split); assumption.
      * intros rest. cbn [app]. rewrite <- !app_assoc.
        unfold advance_with_locations.
        change (entry_code 240) with 14. change (entry_units 240) with 1. cbn [Z.eqb Pos.eqb].
        unfold read_signed_varint. rewrite R1, R2, R3, R4. rewrite signed_even by lia.
        repeat f_equal; lia.
      * intros rest S. cbn [app]. unfold advance, get_line_delta.
        change (entry_code 240) with 14. change (entry_units 240) with 1. cbn [Z.eqb Pos.eqb orb].
        unfold scan_signed_varint, scan_varint. rewrite <- app_assoc. rewrite R1.
        rewrite signed_even by lia. change (Z.shiftr 240 3 =? 31) with false. cbv iota.
        rewrite app_assoc. rewrite skip_payload_app; [|repeat (apply Forall_app; split); assumption|exact S].
        repeat f_equal; lia.
Qed.

(* ---------------------------------------------------------------------------------- *)
(* whole tables                                                                         *)

Lemma entry_starts b rest : entry_wf b -> starts_ok (b ++ rest).
Proof. intros (h & t & -> & Hh & _). cbn. lia. Qed.

Lemma entry_length b : entry_wf b -> (1 <= length b)%nat.
Proof. intros (h & t & -> & _). cbn. lia. Qed.

(* total + well-formed output, for both variants, under the variant's own precondition chain *)
Lemma build_loop_wf fx : forall ps last,
  Forall wf_pos ps -> chain fx last ps ->
  exists bs, build_loop fx ps last = EOk bs /\ table_wf (length ps) bs /\ Forall (fun b => 0 <= b < 256) bs.
Proof.
  induction ps as [|p r IH]; intros last W C.
  - exists []. split; [reflexivity|]. split; [exists []; repeat split; constructor|constructor].
  - inversion W as [|? ? Wp Wr]; subst. destruct C as [Cl Cr].
    destruct (entry_ok fx p last Wp Cl) as (b & E & EW & _ & _).
    destruct (IH _ Wr Cr) as (bs & EB & (entries & -> & Hn & HF) & Hby).
    exists (b ++ concat entries). cbn [build_loop]. rewrite E. cbn [ebind snd fst]. rewrite EB. cbn [ebind].
    split; [reflexivity|]. split.
    + exists (b :: entries). cbn [concat length]. repeat split; [lia|constructor; assumption].
    + apply Forall_app. split; [|exact Hby].
      destruct EW as (h & t & -> & Hh & _ & Pt). constructor; [lia|].
      eapply Forall_impl; [|exact Pt]. cbn. intros; lia.
Qed.

(* round trip for the repaired variant *)
Lemma build_loop_roundtrip : forall ps last,
  Forall wf_pos ps -> sorted_from last ps ->
  exists bs, build_loop true ps last = EOk bs /\ starts_ok bs /\
    (forall fuel, (length bs <= fuel)%nat -> decode_loop fuel bs last = DOk ps) /\
    (forall fuel, (length bs <= fuel)%nat -> lines_loop fuel bs last = LOk (map p_start ps)).
Proof.
  induction ps as [|p r IH]; intros last W C.
  - exists []. split; [reflexivity|]. split; [exact I|]. split; intros fuel _; destruct fuel; reflexivity.
  - inversion W as [|? ? Wp Wr]; subst. destruct C as [Cl Cr].
    destruct (entry_ok true p last Wp Cl) as (b & E & EW & A1 & A2).
    unfold next_last in *.
    destruct (IH _ Wr Cr) as (bs & EB & SB & D1 & D2).
    exists (b ++ bs). cbn [build_loop]. rewrite E. cbn [ebind snd fst]. rewrite EB. cbn [ebind].
    split; [reflexivity|]. split; [apply entry_starts; exact EW|].
    pose proof (entry_length b EW) as Lb.
    split; intros fuel Hf; rewrite app_length in Hf.
    + destruct EW as (h & t & -> & _). destruct fuel as [|f]; [cbn in Hf; lia|].
      change ((h :: t) ++ bs) with (h :: (t ++ bs)). cbn [decode_loop].
      change (h :: (t ++ bs)) with ((h :: t) ++ bs). rewrite A1.
      rewrite D1 by (cbn in Hf; lia). change (Z.to_nat 1) with 1%nat. reflexivity.
    + destruct EW as (h & t & -> & _). destruct fuel as [|f]; [cbn in Hf; lia|].
      change ((h :: t) ++ bs) with (h :: (t ++ bs)). cbn [lines_loop].
      change (h :: (t ++ bs)) with ((h :: t) ++ bs). rewrite A2 by exact SB.
      rewrite D2 by (cbn in Hf; lia). change (Z.to_nat 1) with 1%nat. reflexivity.
Qed.

Theorem decode_encode_fixed : forall ps first,
  Forall wf_pos ps -> sorted_from first ps ->
  exists bs, build_line_table true ps first = EOk bs /\
             decode_positions first bs = DOk ps /\
             decode_lines first bs = LOk (map p_start ps).
Proof.
  intros ps first W C. destruct (build_loop_roundtrip ps first W C) as (bs & E & _ & D1 & D2).
  exists bs. split; [exact E|]. split; [apply D1|apply D2]; lia.
Qed.

Theorem bytes_wellformed : forall fx ps first,
  Forall wf_pos ps -> chain fx first ps ->
  exists bs, build_line_table fx ps first = EOk bs /\ table_wf (length ps) bs /\
             Forall (fun b => 0 <= b < 256) bs.
Proof. intros fx ps first. apply build_loop_wf. Qed.

(* the code as it is agrees with the repaired variant on single-line positions *)
Definition single_line (p : pos) : Prop := p_end p = p_start p.

Lemma encode_single_fx p last : single_line p -> encode_single false p last = encode_single true p last.
Proof.
  destruct p as [[[sl el] sc] ec]. unfold single_line. cbn [p_start p_end]. intros ->. reflexivity.
Qed.

Lemma build_loop_fx : forall ps last, Forall single_line ps -> build_loop false ps last = build_loop true ps last.
Proof.
  induction ps as [|p r IH]; intros last S; [reflexivity|].
  inversion S as [|? ? Sp Sr]; subst. cbn [build_loop]. rewrite (encode_single_fx p last Sp).
  destruct (encode_single true p last) as [[b l]| | |]; cbn [ebind]; try reflexivity.
  rewrite (IH _ Sr). reflexivity.
Qed.

Theorem decode_encode_current_single_line : forall ps first,
  Forall wf_pos ps -> Forall single_line ps -> sorted_from first ps ->
  exists bs, build_line_table false ps first = EOk bs /\
             decode_positions first bs = DOk ps /\
             decode_lines first bs = LOk (map p_start ps).
Proof.
  intros ps first W S C. unfold build_line_table. rewrite (build_loop_fx ps first S).
  exact (decode_encode_fixed ps first W C).
Qed.

(* F1: the code as it is, on a multi-line span followed by another entry *)
Theorem decode_encode_current_refuted :
  exists ps first, Forall wf_pos ps /\ sorted_from first ps /\
    exists bs, build_line_table false ps first = EOk bs /\ decode_positions first bs <> DOk ps.
Proof.
  exists [(1, 3, 0, 5); (4, 4, 0, 1)], 1. split; [|split].
  - repeat constructor; cbn; lia.
  - cbn. lia.
  - eexists. split; [vm_compute; reflexivity|]. vm_compute. intros H. discriminate H.
Qed.

Theorem encode_current_rejects_sorted_refuted :
  exists ps first, Forall wf_pos ps /\ sorted_from first ps /\
    build_line_table false ps first = EAssertionError.
Proof.
  exists [(1, 3, 0, 5); (2, 2, 0, 1)], 1. split; [|split].
  - repeat constructor; cbn; lia.
  - cbn. lia.
  - vm_compute. reflexivity.
Qed.

(* ---------------------------------------------------------------------------------- *)
(* the fuel of the model never runs out, on any input whatsoever                        *)

Lemma encode_varint_fuel v : encode_varint v <> EOutOfFuel.
Proof.
  unfold encode_varint. destruct (Z.ltb_spec v 0) as [?|Hv]; [discriminate|].
  destruct (encode_varint_ok v Hv) as (bs & E & _). unfold encode_varint in E.
  destruct (Z.ltb_spec v 0); [lia|]. rewrite E. discriminate.
Qed.

Lemma encode_single_fuel fx p last : encode_single fx p last <> EOutOfFuel.
Proof.
  destruct p as [[[sl el] sc] ec]. unfold encode_single, chars.
  destruct (sl <? last); [discriminate|]. cbv zeta.
  destruct (_ && _); [destruct (forallb _ _); discriminate|].
  destruct (_ && _); [destruct (forallb _ _); discriminate|].
  pose proof (encode_varint_fuel (Z.shiftl (sl - last) 1)).
  pose proof (encode_varint_fuel (el - sl)).
  pose proof (encode_varint_fuel (sc + 1)).
  pose proof (encode_varint_fuel (ec + 1)).
  destruct (encode_varint (Z.shiftl (sl - last) 1)); try discriminate; try congruence; cbn [ebind].
  destruct (encode_varint (el - sl)); try discriminate; try congruence; cbn [ebind].
  destruct (encode_varint (sc + 1)); try discriminate; try congruence; cbn [ebind].
  destruct (encode_varint (ec + 1)); try discriminate; try congruence.
Qed.

Theorem build_never_out_of_fuel : forall fx ps first, build_line_table fx ps first <> EOutOfFuel.
Proof.
  intros fx ps. unfold build_line_table. induction ps as [|p r IH]; intros last; cbn [build_loop]; [discriminate|].
  pose proof (encode_single_fuel fx p last) as H.
  destruct (encode_single fx p last) as [[b l]| | |]; cbn [ebind snd fst]; try discriminate; try congruence.
  specialize (IH l). destruct (build_loop fx r l); cbn [ebind]; try discriminate; congruence.
Qed.

Lemma read_varint_loop_shorter : forall bs val shift v r,
  read_varint_loop bs val shift = Some (v, r) -> (length r < length bs)%nat.
Proof.
  induction bs as [|b t IH]; intros val shift v r H; cbn [read_varint_loop] in H; [discriminate|].
  destruct (Z.land b 64 =? 0).
  - inversion H; subst. cbn. lia.
  - apply IH in H. cbn. lia.
Qed.

Lemma awl_shorter bs line tup n l' rest :
  advance_with_locations bs line = Some (tup, n, l', rest) -> (length rest < length bs)%nat.
Proof.
  unfold advance_with_locations, read_signed_varint, read_varint.
  destruct bs as [|b r]; [discriminate|]. cbn [length].
  destruct (entry_code b =? 15); [intros H; inversion H; subst; lia|].
  destruct (entry_code b =? 14).
  { destruct (read_varint_loop r 0 0) as [[u1 r1]|] eqn:E1; [|discriminate].
    destruct (read_varint_loop r1 0 0) as [[u2 r2]|] eqn:E2; [|discriminate].
    destruct (read_varint_loop r2 0 0) as [[u3 r3]|] eqn:E3; [|discriminate].
    destruct (read_varint_loop r3 0 0) as [[u4 r4]|] eqn:E4; [|discriminate].
    apply read_varint_loop_shorter in E1, E2, E3, E4.
    intros H; inversion H; subst. lia. }
  destruct (entry_code b =? 13).
  { destruct (read_varint_loop r 0 0) as [[u1 r1]|] eqn:E1; [|discriminate].
    apply read_varint_loop_shorter in E1. intros H; inversion H; subst. lia. }
  destruct ((10 <=? entry_code b) && (entry_code b <=? 12)).
  { destruct r as [|c [|ec r2]]; try discriminate. intros H; inversion H; subst. cbn. lia. }
  destruct r as [|c r1]; [discriminate|]. intros H; inversion H; subst. cbn. lia.
Qed.

Lemma decode_loop_fuel : forall fuel bs line, (length bs <= fuel)%nat -> decode_loop fuel bs line <> DOutOfFuel.
Proof.
  induction fuel as [|f IH]; intros bs line Hf.
  - destruct bs; [discriminate|cbn in Hf; lia].
  - destruct bs as [|b r]; [discriminate|]. cbn [decode_loop].
    destruct (advance_with_locations (b :: r) line) as [[[[tup n] l'] rest]|] eqn:E; [|discriminate].
    apply awl_shorter in E. specialize (IH rest l' ltac:(cbn in *; lia)).
    destruct (decode_loop f rest l'); try discriminate. congruence.
Qed.

Theorem decode_never_out_of_fuel : forall first bs, decode_positions first bs <> DOutOfFuel.
Proof. intros. apply decode_loop_fuel. lia. Qed.

Lemma skip_payload_le : forall bs, (length (skip_payload bs) <= length bs)%nat.
Proof.
  induction bs as [|b r IH]; [cbn; lia|]. cbn [skip_payload].
  destruct (Z.land b 128 =? 0); cbn [length]; lia.
Qed.

Lemma lines_loop_fuel : forall fuel bs line, (length bs <= fuel)%nat -> lines_loop fuel bs line <> LOutOfFuel.
Proof.
  induction fuel as [|f IH]; intros bs line Hf.
  - destruct bs; [discriminate|cbn in Hf; lia].
  - destruct bs as [|b r]; [discriminate|]. cbn [lines_loop]. unfold advance.
    destruct (get_line_delta (b :: r)); [|discriminate].
    pose proof (skip_payload_le r).
    specialize (IH (skip_payload r) (line + z) ltac:(cbn in *; lia)).
    destruct (lines_loop f (skip_payload r) (line + z)); try discriminate. congruence.
Qed.

Theorem lines_never_out_of_fuel : forall first bs, decode_lines first bs <> LOutOfFuel.
Proof. intros. apply lines_loop_fuel. lia. Qed.
