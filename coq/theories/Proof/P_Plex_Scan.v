(* C50, part 3: the scanner loop (run_machine_inlined / scan_a_token): longest accepting prefix
   with backup, failure iff no prefix is accepted; the loop ends within scan_fuel steps. *)
From Coq Require Import ZArith NArith List Bool Lia ZifyBool ZifyNat.
From CyVerif Require Import Model.M_Plex.
Import ListNotations.
Open Scope Z_scope.

Section Scan.
Variable acts : list (option Z).
Variable tr : list dstate.
Variable text : list Z.

(* the DFA state after reading the next k events of the scanner in configuration cfg *)
Fixpoint dfa_run (st : nat) (cfg : config) (k : nat) : option nat :=
  match k with
  | O => Some st
  | S k' => match nth_error tr st with
            | Some d => match d_lookup d (c_char cfg) with
                        | Some st' => dfa_run st' (next_char text cfg) k'
                        | None => None
                        end
            | None => None
            end
  end.

(* the machine accepts the first k events with action a *)
Definition accepts (st : nat) (cfg : config) (k : nat) (a : Z) : Prop :=
  exists st', dfa_run st cfg k = Some st' /\ nth_error acts st' = Some (Some a).

(* the machine blocks after exactly k events *)
Definition blocks (st : nat) (cfg : config) (k : nat) : Prop :=
  exists st' d, dfa_run st cfg k = Some st' /\ nth_error tr st' = Some d
                /\ d_lookup d (c_char (iter_next k text cfg)) = None.

Lemma iter_next_S k cfg : iter_next (S k) text cfg = iter_next k text (next_char text cfg).
Proof. reflexivity. Qed.

Lemma run_machine_spec : forall fuel st cfg bk,
  match run_machine fuel acts tr text st cfg bk with
  | RunOk a c =>
      (exists k, accepts st cfg k a /\ c = iter_next k text cfg
                 /\ forall k' a', (k < k')%nat -> ~ accepts st cfg k' a')
      \/ (bk = Some (a, c) /\ forall k a', ~ accepts st cfg k a')
  | RunFail c =>
      bk = None /\ (forall k a', ~ accepts st cfg k a')
      /\ exists k, blocks st cfg k /\ c = iter_next k text cfg
  | RunBad => exists k st', dfa_run st cfg k = Some st'
                            /\ (nth_error acts st' = None \/ nth_error tr st' = None)
  | RunFuel => True
  end.
Proof.
  induction fuel as [|f IH]; intros st cfg bk; [exact I|].
  cbn [run_machine].
  destruct (nth_error acts st) as [act|] eqn:Ea; [|exists O, st; cbn; auto].
  destruct (nth_error tr st) as [d|] eqn:Ed; [|exists O, st; cbn; auto].
  set (bk' := match act with Some a => Some (a, cfg) | None => bk end).
  assert (Hstep : forall k, dfa_run st cfg (S k) =
            match d_lookup d (c_char cfg) with
            | Some st' => dfa_run st' (next_char text cfg) k | None => None end)
    by (intros; cbn [dfa_run]; rewrite Ed; reflexivity).
  destruct (d_lookup d (c_char cfg)) as [st'|] eqn:El.
  - specialize (IH st' (next_char text cfg) bk').
    destruct (run_machine f acts tr text st' (next_char text cfg) bk') as [a c|c| |]; [| | |exact I].
    + destruct IH as [(k & (s2 & R & A) & Ec & Hmax)|(Eb & Hno)].
      * left. exists (S k). split; [exists s2; rewrite Hstep; auto|]. split; [exact Ec|].
        intros k' a' Hk (s3 & R3 & A3). destruct k' as [|k']; [lia|]. rewrite Hstep in R3.
        apply (Hmax k' a' ltac:(lia)). exists s3; auto.
      * subst bk'. destruct act as [a0|].
        -- inversion Eb; subst. left. exists O. split; [exists st; cbn; auto|]. split; [reflexivity|].
           intros k' a' Hk (s3 & R3 & A3). destruct k' as [|k']; [lia|]. rewrite Hstep in R3.
           apply (Hno k' a'). exists s3; auto.
        -- right. split; [exact Eb|]. intros k a' (s3 & R3 & A3). destruct k as [|k].
           ++ cbn in R3. inversion R3; subst. congruence.
           ++ rewrite Hstep in R3. apply (Hno k a'). exists s3; auto.
    + destruct IH as (Eb & Hno & k & (s2 & d2 & R2 & D2 & L2) & Ec). subst bk'.
      destruct act as [a0|]; [discriminate|]. split; [exact Eb|]. split.
      * intros k0 a' (s3 & R3 & A3). destruct k0 as [|k0].
        -- cbn in R3. inversion R3; subst. congruence.
        -- rewrite Hstep in R3. apply (Hno k0 a'). exists s3; auto.
      * exists (S k). split; [|exact Ec]. exists s2, d2. rewrite Hstep, iter_next_S. auto.
    + destruct IH as (k & s2 & R2 & Hbad). exists (S k), s2. rewrite Hstep. auto.
  - assert (Hno1 : forall k a', ~ accepts st cfg (S k) a')
      by (intros k a' (s3 & R3 & _); rewrite Hstep in R3; discriminate).
    subst bk'. destruct act as [a0|].
    + left. exists O. split; [exists st; cbn; auto|]. split; [reflexivity|].
      intros k' a' Hk. destruct k' as [|k']; [lia|]. apply Hno1.
    + destruct bk as [[a c]|].
      * right. split; [reflexivity|]. intros k a' H. destruct k as [|k]; [|exact (Hno1 k a' H)].
        destruct H as (s3 & R3 & A3). cbn in R3. inversion R3; subst. congruence.
      * split; [reflexivity|]. split.
        -- intros k a' H. destruct k as [|k]; [|exact (Hno1 k a' H)].
           destruct H as (s3 & R3 & A3). cbn in R3. inversion R3; subst. congruence.
        -- exists O. split; [|reflexivity]. exists st, d. cbn. auto.
Qed.

(* ---- the loop ends: the event stream reaches '' (which no state accepts) ---- *)
Definition mu (c : config) : nat :=
  let r := Z.to_nat (Z.of_nat (length text) - c_next c) in
  match c_char c with
  | EvNone => 0
  | _ => if (c_ist c =? 1)%Z then 3 + 3 * r else if (c_ist c =? 2)%Z then 5 + 3 * r
         else if (c_ist c =? 3)%Z then 4 + 3 * r else if (c_ist c =? 4)%Z then 2 else 1
  end%nat.

Lemma mu_decreases c : 0 <= c_next c -> c_char c <> EvNone ->
  (mu (next_char text c) < mu c)%nat /\ 0 <= c_next (next_char text c).
Proof.
  intros Hn Hc. unfold mu, next_char.
  destruct (c_char c) eqn:Ec; try congruence;
  (destruct (Z.eqb_spec (c_ist c) 1) as [E1|E1];
   [ destruct (nth_error text (Z.to_nat (c_next c))) as [ch|] eqn:En;
     [ assert (Z.to_nat (c_next c) < length text)%nat by (apply nth_error_Some; congruence);
       destruct (Z.eqb_spec ch 10); cbn [c_char c_ist c_next]; cbn; lia
     | cbn [c_char c_ist c_next]; cbn; lia ]
   | destruct (Z.eqb_spec (c_ist c) 2) as [E2|E2];
     [ cbn [c_char c_ist c_next]; cbn; lia
     | destruct (Z.eqb_spec (c_ist c) 3) as [E3|E3];
       [ cbn [c_char c_ist c_next]; cbn; lia
       | destruct (Z.eqb_spec (c_ist c) 4) as [E4|E4]; cbn [c_char c_ist c_next]; cbn; lia ] ] ]).
Qed.

Lemma run_machine_fuel : forall fuel st cfg bk, 0 <= c_next cfg -> (mu cfg < fuel)%nat ->
  run_machine fuel acts tr text st cfg bk <> RunFuel.
Proof.
  induction fuel as [|f IH]; intros st cfg bk Hn Hf; [lia|].
  cbn [run_machine]. destruct (nth_error acts st) as [act|]; [|discriminate].
  destruct (nth_error tr st) as [d|]; [|discriminate].
  destruct (d_lookup d (c_char cfg)) as [st'|] eqn:El.
  - assert (Hc : c_char cfg <> EvNone) by (intros E; rewrite E in El; cbn in El; discriminate).
    destruct (mu_decreases cfg Hn Hc) as [Hm Hn']. apply IH; [exact Hn'|lia].
  - destruct act as [a|]; [discriminate|]. destruct bk as [[a c]|]; discriminate.
Qed.

Lemma mu_bound cfg : 0 <= c_next cfg -> (mu cfg < scan_fuel text)%nat.
Proof.
  intros Hn. unfold mu, scan_fuel.
  destruct (c_char cfg); try lia;
  destruct (c_ist cfg =? 1), (c_ist cfg =? 2), (c_ist cfg =? 3), (c_ist cfg =? 4); lia.
Qed.

End Scan.

(* well-formed machine: every transition target and the start state exist *)
Definition dfa_wf (acts : list (option Z)) (tr : list dstate) : Prop :=
  length acts = length tr /\ (0 < length tr)%nat /\
  forall st d e j, nth_error tr st = Some d -> d_lookup d e = Some j -> (j < length tr)%nat.

Lemma dfa_run_in acts tr text : dfa_wf acts tr -> forall k st cfg st',
  (st < length tr)%nat -> dfa_run tr text st cfg k = Some st' -> (st' < length tr)%nat.
Proof.
  intros (Hl & Hp & Hw). induction k as [|k IH]; intros st cfg st' Hst R.
  - cbn in R. inversion R; subst; assumption.
  - cbn [dfa_run] in R. destruct (nth_error tr st) as [d|] eqn:Ed; [|discriminate].
    destruct (d_lookup d (c_char cfg)) as [s2|] eqn:El; [|discriminate].
    apply (IH s2 (next_char text cfg) st'); [eapply Hw; eauto|exact R].
Qed.

(* scan_a_token: for every well-formed DFA, text and scanner configuration *)
Theorem scan_a_token_spec D text cfg : dfa_wf (dfa_acts D) (dfa_trans D) -> 0 <= c_next cfg ->
  match scan_a_token D text cfg with
  | TokOk start stop line col a c =>
      exists k, accepts (dfa_acts D) (dfa_trans D) text O cfg k a
        /\ (forall k' a', (k < k')%nat -> ~ accepts (dfa_acts D) (dfa_trans D) text O cfg k' a')
        /\ c = iter_next k text cfg        (* position, line, pending event: those saved at k *)
        /\ start = c_pos cfg /\ stop = c_pos c /\ line = c_line cfg /\ col = c_pos cfg - c_lstart cfg
  | TokEof c | TokErr c =>                (* ('', None) or UnrecognizedInput *)
      (forall k a, ~ accepts (dfa_acts D) (dfa_trans D) text O cfg k a)
      /\ exists k, blocks (dfa_trans D) text O cfg k /\ c = iter_next k text cfg
  | TokBad | TokFuel => False
  end.
Proof.
  intros Hwf Hn. unfold scan_a_token.
  pose proof (run_machine_spec (dfa_acts D) (dfa_trans D) text (scan_fuel text) O cfg None) as S.
  pose proof (run_machine_fuel (dfa_acts D) (dfa_trans D) text (scan_fuel text) O cfg None Hn
                (mu_bound text cfg Hn)) as F.
  destruct (run_machine (scan_fuel text) (dfa_acts D) (dfa_trans D) text 0 cfg None) as [a c|c| |].
  - destruct S as [(k & A & Ec & Hmax)|(Eb & _)]; [|discriminate].
    exists k. repeat split; auto.
  - destruct S as (_ & Hno & Hb).
    destruct ((c_pos c =? c_pos cfg) && is_eof (c_char c)); split; assumption.
  - destruct S as (k & st' & R & Hbad). destruct Hwf as (Hl & Hp & Hw).
    pose proof (dfa_run_in _ _ text (conj Hl (conj Hp Hw)) k O cfg st' Hp R) as Hin.
    destruct Hbad as [Hbad|Hbad]; apply nth_error_None in Hbad; lia.
  - congruence.
Qed.

(* UnrecognizedInput / EOF exactly when no prefix is accepted *)
Corollary scan_fails_iff D text cfg : dfa_wf (dfa_acts D) (dfa_trans D) -> 0 <= c_next cfg ->
  (forall k a, ~ accepts (dfa_acts D) (dfa_trans D) text O cfg k a) <->
  (exists c, scan_a_token D text cfg = TokEof c \/ scan_a_token D text cfg = TokErr c).
Proof.
  intros Hwf Hn. pose proof (scan_a_token_spec D text cfg Hwf Hn) as S.
  destruct (scan_a_token D text cfg) as [s e l c a c'|c'|c'| |] eqn:E; try contradiction.
  - split.
    + intros Hno. destruct S as (k & A & _). exfalso. exact (Hno k a A).
    + intros (c0 & [H|H]); discriminate.
  - split; [intros _; exists c'; auto|intros _; exact (proj1 S)].
  - split; [intros _; exists c'; auto|intros _; exact (proj1 S)].
Qed.
