(* C41 -- proofs about Model/M_Directives.v against Model/M_DirectivesDoc.v *)
From Coq Require Import ZArith NArith List Bool Lia ZifyBool ZifyN.
From CyVerif Require Import Model.M_Directives Model.M_DirectivesDoc.
Import ListNotations.
Open Scope N_scope.

(* ---------- strings and dicts ---------- *)
Lemma str_eqb_eq a b : str_eqb a b = true <-> a = b.
Proof.
  revert b. induction a as [|x a IH]; destruct b as [|y b]; simpl; split; intro H; try congruence; try reflexivity.
  - apply andb_true_iff in H. destruct H as [H1 H2]. apply N.eqb_eq in H1. apply IH in H2. congruence.
  - inversion H; subst. rewrite N.eqb_refl. simpl. apply IH. reflexivity.
Qed.

Lemma str_eqb_refl a : str_eqb a a = true.
Proof. apply str_eqb_eq. reflexivity. Qed.

Lemma str_eqb_sym a b : str_eqb a b = str_eqb b a.
Proof.
  destruct (str_eqb a b) eqn:E.
  - apply str_eqb_eq in E. subst. symmetry. apply str_eqb_refl.
  - destruct (str_eqb b a) eqn:E2; [|reflexivity]. apply str_eqb_eq in E2. subst.
    rewrite str_eqb_refl in E. discriminate.
Qed.

Lemma str_eqb_neq a b : str_eqb a b = false <-> a <> b.
Proof.
  split; intros H.
  - intro E. subst. rewrite str_eqb_refl in H. discriminate.
  - destruct (str_eqb a b) eqn:E; [|reflexivity]. apply str_eqb_eq in E. contradiction.
Qed.

Lemma get_set d k v m : get d (set k v m) = if str_eqb d k then Some v else get d m.
Proof.
  induction m as [|[k' v'] m IH]; simpl.
  - reflexivity.
  - destruct (str_eqb k k') eqn:Ekk'; simpl.
    + apply str_eqb_eq in Ekk'. subst k'. destruct (str_eqb d k); reflexivity.
    + rewrite IH. destruct (str_eqb d k') eqn:Edk'; [|reflexivity].
      apply str_eqb_eq in Edk'. subst k'. rewrite str_eqb_sym in Ekk'. rewrite Ekk'. reflexivity.
Qed.

Lemma get_pop_other d k m : str_eqb d k = false -> get d (pop k m) = get d m.
Proof.
  intros H. induction m as [|[k' v'] m IH]; simpl; [reflexivity|].
  destruct (str_eqb k k') eqn:Ekk'; simpl.
  - apply str_eqb_eq in Ekk'. subst k'. rewrite H. reflexivity.
  - rewrite IH. reflexivity.
Qed.

Lemma get_app d a b : get d (a ++ b) = or_else (get d a) (get d b).
Proof.
  induction a as [|[k v] a IH]; simpl; [reflexivity|].
  destruct (str_eqb d k); [reflexivity|apply IH].
Qed.

Lemma or_else_assoc a b c : or_else (or_else a b) c = or_else a (or_else b c).
Proof. destruct a; reflexivity. Qed.

Lemma or_else_none a : or_else a None = a.
Proof. destruct a; reflexivity. Qed.

(* d.update(l): the last assignment in l wins, else the old value *)
Lemma get_update d l : forall base, get d (update base l) = or_else (get d (rev l)) (get d base).
Proof.
  unfold update. induction l as [|[k v] l IH]; intros base; simpl; [reflexivity|].
  rewrite IH, get_set, get_app. simpl.
  destruct (get d (rev l)); simpl; [reflexivity|]. destruct (str_eqb d k); reflexivity.
Qed.

(* ====================== part 1: directive texts ====================== *)

Definition not_upper (x : N) : bool := negb ((65 <=? x) && (x <=? 90)).

Lemma lower_ci s : forall w, forallb not_upper w = true -> str_eqb (lower s) w = ci_eq s w.
Proof.
  induction s as [|c s IH]; intros [|x w] Hw; simpl; try reflexivity.
  simpl in Hw. apply andb_true_iff in Hw. destruct Hw as [Hx Hw].
  rewrite (IH w Hw). f_equal.
  unfold lower_char, not_upper in *.
  destruct ((65 <=? c) && (c <=? 90)) eqn:U; simpl.
  - destruct (N.eqb_spec c x) as [E|E]; simpl; [|reflexivity].
    subst. rewrite U in Hx. discriminate.
  - rewrite orb_false_r. reflexivity.
Qed.

Lemma parse_bool_doc relaxed name text :
  parse_bool relaxed name text =
  match doc_bool relaxed text with Some b => Ok (VBool b) | None => Err EBadBool name end.
Proof.
  unfold parse_bool, doc_bool.
  destruct (str_eqb text w_true); [reflexivity|].
  destruct (str_eqb text w_false); [reflexivity|].
  destruct relaxed; simpl; [|reflexivity].
  rewrite !(lower_ci text) by reflexivity.
  rewrite !orb_false_r.
  destruct (ci_eq text w_ltrue || ci_eq text w_yes); [reflexivity|].
  destruct (ci_eq text w_lfalse || ci_eq text w_no); reflexivity.
Qed.

Section ParseProofs.
  Variable types : list (str * dtype).
  Variable defaults : list str.
  Variable digit_val : N -> option N.
  Variable codec_class : str -> N.

  Notation pvalue := (parse_directive_value types digit_val codec_class).
  Notation dvalue := (doc_value types digit_val codec_class).

  Lemma encoding_doc text :
    (if encoding_lookup_raises codec_class text then None
     else Some (normalise_encoding_name codec_class text)) = doc_encoding codec_class text.
  Proof.
    unfold encoding_lookup_raises, normalise_encoding_name, doc_encoding.
    destruct text as [|c t]; [reflexivity|].
    set (e := c :: t).
    unfold common_encoding_names. cbn [assoc].
    rewrite !(lower_ci e) by reflexivity.
    destruct (ci_eq e [117; 116; 102; 56]); [reflexivity|].
    destruct (ci_eq e [117; 116; 102; 45; 56]); [reflexivity|].
    destruct (ci_eq e [100; 101; 102; 97; 117; 108; 116]); [reflexivity|].
    destruct (ci_eq e [97; 115; 99; 105; 105]); [reflexivity|].
    destruct (ci_eq e [117; 115; 45; 97; 115; 99; 105; 105]); [reflexivity|].
    cbn [orb].
    destruct (codec_class e =? 3) eqn:E3; [reflexivity|].
    destruct (codec_class e =? 1); [reflexivity|].
    destruct (codec_class e =? 2); reflexivity.
  Qed.

  (* parse_directive_value in terms of the documented mapping *)
  Lemma parse_value_doc relaxed name text :
    pvalue relaxed name text =
    match lookup_type name types with
    | None | Some TNoValue => Ok VNone
    | Some TList | Some TCallCrash => Err ETypeError name
    | Some TDefer => Err ENotSettable name
    | Some TBool => match dvalue relaxed name text with Some v => Ok v | None => Err EBadBool name end
    | Some TInt => match dvalue relaxed name text with Some v => Ok v | None => Err EBadInt name end
    | Some (TEnum _ _) => match dvalue relaxed name text with Some v => Ok v | None => Err EBadEnum name end
    | Some TEncoding => match dvalue relaxed name text with Some v => Ok v | None => Err ECodec name end
    | Some TStr => match dvalue relaxed name text with Some v => Ok v | None => Err EBadBool name end
    end.
  Proof.
    unfold parse_directive_value, doc_value.
    destruct (lookup_type name types) as [[| | | |args amap| | | |]|]; try reflexivity.
    - rewrite parse_bool_doc. destruct (doc_bool relaxed text); reflexivity.
    - destruct (py_int digit_val text); reflexivity.
    - unfold parse_enum. destruct (mem _ args); reflexivity.
    - rewrite <- encoding_doc. destruct (encoding_lookup_raises codec_class text); reflexivity.
  Qed.

  (* THE per-value theorem: the parser returns exactly the documented value of the text, or an
     error exactly when the text has no documented value; the only other outcome is the
     "option does not exist -> None" exit of the docstring (unknown name / value-less directive) *)
  Theorem parse_value_ok_or_error relaxed name text :
    match pvalue relaxed name text with
    | Ok v => dvalue relaxed name text = Some v \/
              (v = VNone /\ dvalue relaxed name text = None /\
               (lookup_type name types = None \/ lookup_type name types = Some TNoValue))
    | Err _ who => dvalue relaxed name text = None /\ who = name
    end.
  Proof.
    rewrite parse_value_doc. unfold doc_value.
    destruct (lookup_type name types) as [[| | | |args amap| | | |]|]; simpl; auto.
    - destruct (doc_bool relaxed text); simpl; auto.
    - destruct (py_int digit_val text); simpl; auto.
    - destruct (mem _ args); auto.
    - destruct (doc_encoding codec_class text); simpl; auto.
  Qed.

  (* ---------- the list parser against the map semantics ---------- *)
  Definition sim (st : dict) (f : smap) : Prop := forall k, get k st = f k.

  Lemma sim_set st f k v : sim st f -> sim (set k v st) (upd k v f).
  Proof. intros H k'. rewrite get_set. unfold upd. destruct (str_eqb k' k); [reflexivity|apply H]. Qed.

  Notation settable := (settable types).

  Lemma dvalue_unsettable relaxed name text : settable name = false -> dvalue relaxed name text = None.
  Proof.
    unfold M_Directives.settable, doc_value.
    destruct (lookup_type name types) as [[| | | |args amap| | | |]|]; try discriminate; reflexivity.
  Qed.

  Lemma pvalue_settable relaxed name text : settable name = true ->
    match pvalue relaxed name text with
    | Ok v => dvalue relaxed name text = Some v
    | Err _ _ => dvalue relaxed name text = None
    end.
  Proof.
    intros Hs. pose proof (parse_value_ok_or_error relaxed name text) as H.
    destruct (pvalue relaxed name text) as [v|e w].
    - destruct H as [H|(_ & _ & [H|H])]; [exact H| |]; unfold M_Directives.settable in Hs; rewrite H in Hs; discriminate.
    - apply H.
  Qed.

  Variable strict : bool.

  Lemma expand_all_doc relaxed prefix text : forall ds found st f,
    sim st f -> (strict = false -> forall d, In d ds -> settable d = true) ->
    match expand_all types digit_val codec_class strict relaxed prefix text ds found st with
    | Ok (found', st') =>
        exists f', doc_assign_all types digit_val codec_class relaxed text (filter (starts_with prefix) ds) f = Some f'
                   /\ sim st' f'
                   /\ found' = (found || match filter (starts_with prefix) ds with [] => false | _ => true end)
    | Err _ _ => doc_assign_all types digit_val codec_class relaxed text (filter (starts_with prefix) ds) f = None
    end.
  Proof.
    induction ds as [|d ds IH]; intros found st f Hsim Hset; simpl.
    - exists f. rewrite orb_false_r. auto.
    - destruct (starts_with prefix d) eqn:Ep.
      + simpl. destruct (settable d) eqn:Esd.
        2:{ destruct strict eqn:Est; simpl.
            - rewrite (dvalue_unsettable relaxed d text Esd). reflexivity.
            - rewrite (Hset eq_refl d (or_introl eq_refl)) in Esd. discriminate. }
        rewrite andb_false_r.
        pose proof (pvalue_settable relaxed d text Esd) as Hv.
        destruct (pvalue relaxed d text) as [v|e w]; rewrite Hv; [|reflexivity].
        specialize (IH true (set d v st) (upd d v f) (sim_set _ _ _ _ Hsim) (fun E x Hx => Hset E x (or_intror Hx))).
        destruct (expand_all _ _ _ _ _ _ _ ds true (set d v st)) as [[found' st']|e w]; [|exact IH].
        destruct IH as (f' & H1 & H2 & H3). exists f'. rewrite orb_true_r. auto.
      + apply IH; [exact Hsim|]. intros E x Hx. apply (Hset E). right. exact Hx.
  Qed.

  Lemma mem_In name l : mem name l = true -> In name l.
  Proof.
    unfold mem. intros H. apply existsb_exists in H. destruct H as (x & Hx & E).
    apply str_eqb_eq in E. subst. exact Hx.
  Qed.

  (* the code as it is (strict = false) needs: no directive of the defaults table is value-less *)
  Hypothesis all_settable : strict = false -> forall d, In d defaults -> settable d = true.

  Lemma parse_item_doc relaxed ignore st f it :
    sim st f ->
    match parse_item types defaults digit_val codec_class strict relaxed ignore st it with
    | Ok st' => exists f', doc_item types defaults digit_val codec_class relaxed ignore f it = Some f' /\ sim st' f'
    | Err _ _ => doc_item types defaults digit_val codec_class relaxed ignore f it = None
    end.
  Proof.
    intros Hsim. unfold parse_item, doc_item.
    destruct (strip it) as [|c t] eqn:Eit; [exists f; auto|].
    destruct (cut_at 61 (c :: t)) as [[n0 v0]|]; [|reflexivity].
    destruct (mem (strip n0) defaults) eqn:Em.
    - destruct (is_list_type types (strip n0)).
      + rewrite <- (Hsim (strip n0)).
        destruct (get (strip n0) st) as [[| | | |l]|]; try reflexivity.
        * eexists. split; [reflexivity|]. apply sim_set, Hsim.
        * eexists. split; [reflexivity|]. apply sim_set, Hsim.
      + destruct (settable (strip n0)) eqn:Esd.
        2:{ destruct strict eqn:Est; simpl.
            - rewrite (dvalue_unsettable relaxed _ (strip v0) Esd). reflexivity.
            - rewrite (all_settable eq_refl _ (mem_In _ _ Em)) in Esd. discriminate. }
        rewrite andb_false_r.
        pose proof (pvalue_settable relaxed (strip n0) (strip v0) Esd) as Hv.
        destruct (pvalue relaxed (strip n0) (strip v0)) as [v|e w]; rewrite Hv; [|reflexivity].
        eexists. split; [reflexivity|]. apply sim_set, Hsim.
    - unfold all_targets.
      destruct (ends_with [46; 97; 108; 108] (strip n0)).
      + pose proof (expand_all_doc relaxed (drop_last 3 (strip n0)) (strip v0) defaults false st f Hsim all_settable) as H.
        destruct (expand_all _ _ _ _ _ _ _ defaults false st) as [[found st']|e w].
        * destruct H as (f' & H1 & H2 & H3). simpl in H3.
          destruct (filter (starts_with (drop_last 3 (strip n0))) defaults) as [|t0 ts] eqn:Ef.
          -- subst found. simpl in H1. inversion H1; subst f'. simpl.
             destruct ignore; simpl; [exists f; auto|reflexivity].
          -- subst found. simpl. exists f'. auto.
        * destruct (filter (starts_with (drop_last 3 (strip n0))) defaults) as [|t0 ts] eqn:Ef; [discriminate H|exact H].
      + simpl. destruct ignore; simpl; [exists f; auto|reflexivity].
  Qed.

  Lemma parse_items_doc relaxed ignore : forall items st f,
    sim st f ->
    match parse_items types defaults digit_val codec_class strict relaxed ignore st items with
    | Ok st' => exists f', doc_items types defaults digit_val codec_class relaxed ignore f items = Some f' /\ sim st' f'
    | Err _ _ => doc_items types defaults digit_val codec_class relaxed ignore f items = None
    end.
  Proof.
    induction items as [|it r IH]; intros st f Hsim; simpl.
    - exists f. auto.
    - pose proof (parse_item_doc relaxed ignore st f it Hsim) as H.
      destruct (parse_item _ _ _ _ _ _ _ st it) as [st'|e w].
      + destruct H as (f' & H1 & H2). rewrite H1. apply IH, H2.
      + rewrite H. reflexivity.
  Qed.

  (* THE list theorem: for every text, flags and current settings, parse_directive_list returns
     a dict that is, key by key, the documented map of the text -- or an error exactly when the
     documentation gives the text no meaning.  Never a silently different value. *)
  Theorem parse_list_ok_or_error relaxed ignore cur s :
    match parse_directive_list types defaults digit_val codec_class strict relaxed ignore cur s with
    | Ok d => exists f, doc_list types defaults digit_val codec_class relaxed ignore (fun k => get k cur) s = Some f
                        /\ forall k, get k d = f k
    | Err _ _ => doc_list types defaults digit_val codec_class relaxed ignore (fun k => get k cur) s = None
    end.
  Proof.
    unfold parse_directive_list, doc_list.
    apply (parse_items_doc relaxed ignore (split_on 44 s) cur (fun k => get k cur)).
    intros k. reflexivity.
  Qed.
End ParseProofs.

(* ====================== part 2: scope resolution ====================== *)

Lemma strs_eqb_eq a b : strs_eqb a b = true -> a = b.
Proof.
  revert b. induction a as [|x a IH]; destruct b as [|y b]; simpl; intro H; try congruence.
  apply andb_true_iff in H. destruct H as [H1 H2]. apply str_eqb_eq in H1. apply IH in H2. congruence.
Qed.

Lemma value_eqb_eq a b : value_eqb a b = true -> a = b.
Proof.
  destruct a, b; simpl; intro H; try discriminate; try reflexivity.
  - apply Bool.eqb_prop in H. congruence.
  - apply Z.eqb_eq in H. congruence.
  - apply str_eqb_eq in H. congruence.
  - apply strs_eqb_eq in H. congruence.
Qed.

(* well-formed dicts: no repeated key (what a Python dict is) *)
Definition keys (m : dict) : list str := map fst m.
Definition wf (m : dict) : Prop := NoDup (keys m).

Lemma get_none_iff d m : get d m = None <-> ~ In d (keys m).
Proof.
  induction m as [|[k v] m IH]; simpl.
  - split; auto.
  - destruct (str_eqb d k) eqn:E.
    + apply str_eqb_eq in E. subst. split; [discriminate|]. intro H. exfalso. apply H. left. reflexivity.
    + apply str_eqb_neq in E. rewrite IH. split.
      * intros H [H1|H1]; [congruence|contradiction].
      * intros H H1. apply H. right. exact H1.
Qed.

Lemma keys_set x k v m : In x (keys (set k v m)) <-> x = k \/ In x (keys m).
Proof.
  induction m as [|[k' v'] m IH]; simpl.
  - split; [intros [H|[]]; auto|intros [H|[]]; auto].
  - destruct (str_eqb k k') eqn:E; simpl.
    + apply str_eqb_eq in E. subst k'. split; [intros [H|H]; auto|intros [H|[H|H]]; auto].
    + rewrite IH. split; [intros [H|[H|H]]; auto|intros [H|[H|H]]; auto].
Qed.

Lemma wf_set k v m : wf m -> wf (set k v m).
Proof.
  unfold wf. induction m as [|[k' v'] m IH]; simpl; intro H.
  - constructor; [intros []|constructor].
  - inversion H as [|? ? Hn Hd]; subst. destruct (str_eqb k k') eqn:E; simpl.
    + constructor; assumption.
    + constructor; [|apply IH, Hd]. intro Hin. apply (keys_set k' k v m) in Hin. destruct Hin as [Hin|Hin].
      * subst. rewrite str_eqb_refl in E. discriminate.
      * contradiction.
Qed.

Lemma wf_update l : forall base, wf base -> wf (update base l).
Proof.
  unfold update. induction l as [|[k v] l IH]; intros base H; simpl; [exact H|]. apply IH, wf_set, H.
Qed.

Lemma wf_nil : wf [].
Proof. constructor. Qed.

Lemma wf_get_rev d m : wf m -> get d (rev m) = get d m.
Proof.
  unfold wf. induction m as [|[k v] m IH]; simpl; intro H; [reflexivity|].
  inversion H as [|? ? Hn Hd]; subst. rewrite get_app, (IH Hd). simpl.
  destruct (str_eqb d k) eqn:E.
  - apply str_eqb_eq in E. subst. apply get_none_iff in Hn. rewrite Hn. reflexivity.
  - rewrite or_else_none. reflexivity.
Qed.

Lemma get_in d m v : get d m = Some v -> In (d, v) m.
Proof.
  induction m as [|[k x] m IH]; simpl; [discriminate|].
  destruct (str_eqb d k) eqn:E.
  - apply str_eqb_eq in E. intros H. inversion H; subst. left. reflexivity.
  - intros H. right. apply IH, H.
Qed.

Lemma dict_incl_get a b d v : dict_incl a b = true -> get d a = Some v -> get d b = Some v.
Proof.
  unfold dict_incl. intros H Hg. rewrite forallb_forall in H.
  specialize (H (d, v) (get_in _ _ _ Hg)). simpl in H. rewrite Hg in H.
  destruct (get d b) as [y|]; [|discriminate]. apply value_eqb_eq in H. congruence.
Qed.

Lemma dict_eqb_get a b d : dict_eqb a b = true -> get d a = get d b.
Proof.
  unfold dict_eqb. intros H. apply andb_true_iff in H. destruct H as [H1 H2].
  destruct (get d a) as [v|] eqn:Ea.
  - symmetry. apply (dict_incl_get a b d v H1 Ea).
  - destruct (get d b) as [y|] eqn:Eb; [|reflexivity].
    rewrite (dict_incl_get b a d y H2 Eb) in Ea. discriminate.
Qed.

(* filtering an association list by a predicate on keys *)
Lemma get_filter_key (P : str -> bool) d m :
  get d (filter (fun kv => P (fst kv)) m) = if P d then get d m else None.
Proof.
  induction m as [|[k v] m IH]; simpl; [destruct (P d); reflexivity|].
  destruct (P k) eqn:Ek; simpl.
  - destruct (str_eqb d k) eqn:E; [|exact IH]. apply str_eqb_eq in E. subst. rewrite Ek. reflexivity.
  - destruct (str_eqb d k) eqn:E; [|exact IH]. apply str_eqb_eq in E. subst. rewrite Ek in *. exact IH.
Qed.

Lemma filter_rev {A} (P : A -> bool) l : filter P (rev l) = rev (filter P l).
Proof.
  induction l as [|x l IH]; simpl; [reflexivity|].
  rewrite filter_app, IH. simpl. destruct (P x); simpl; [reflexivity|]. rewrite app_nil_r. reflexivity.
Qed.

Definition is_vlist (v : value) : bool := match v with VList _ => true | _ => false end.
Definition scalar_sets (sets : list (str * value)) : Prop := Forall (fun kv => is_vlist (snd kv) = false) sets.

Inductive scalar_tree : tree -> Prop :=
| ST k sets ch : scalar_sets sets -> Forall scalar_tree ch -> scalar_tree (Node k sets ch).

Lemma merge_scalar acc : scalar_sets acc -> forall base, fold_left merge_one acc base = update base acc.
Proof.
  unfold update. induction 1 as [|[k v] acc Hv Hacc IH]; intros base; simpl; [reflexivity|].
  rewrite <- IH. f_equal. unfold merge_one. simpl in *. destruct v; try discriminate; destruct (get k base) as [[]|]; reflexivity.
Qed.

Section ScopeProofs.
  Variable scopes : list (str * list str).
  Variable immediate : list str.
  Variable non_inherited : list str.

  Notation scope_ok := (scope_ok scopes).
  Notation enter := (enter scopes immediate non_inherited).
  Notation visit := (visit scopes immediate non_inherited).
  Notation visit_list := (visit_list scopes immediate non_inherited).
  Notation explicit := (explicit_for_contents scopes immediate).
  Notation spec_at := (spec_at scopes immediate).

  Lemma get_pops d names : mem d names = false -> forall m,
    get d (fold_left (fun acc n => pop n acc) names m) = get d m.
  Proof.
    induction names as [|n names IH]; intros Hm m; simpl; [reflexivity|].
    unfold mem in Hm. simpl in Hm. apply orb_false_iff in Hm. destruct Hm as [H1 H2].
    rewrite (IH H2). apply get_pop_other, H1.
  Qed.

  Lemma copy_inherited_get d cur new : mem d non_inherited = false -> wf new ->
    get d (copy_inherited non_inherited cur new) = or_else (get d new) (get d cur).
  Proof.
    intros Hm Hw. unfold copy_inherited. rewrite get_update, (wf_get_rev d new Hw), (get_pops d _ Hm). reflexivity.
  Qed.

  (* ----- decorators: the one written first wins ----- *)
  Lemma extract_loop_inv d k cur : forall rs curopt acc rej P,
    get d curopt = or_else (get d (rev acc)) (get d cur) ->
    get d curopt = or_else (first_setting scopes d k (rev P)) (get d cur) ->
    scalar_sets acc -> scalar_sets rs ->
    let '(acc', _) := extract_loop scopes (scope_name k) rs curopt acc rej in
    or_else (get d (rev acc')) (get d cur) = or_else (first_setting scopes d k (rev (P ++ rs))) (get d cur)
    /\ scalar_sets acc'.
  Proof.
    induction rs as [|[n v] rs IH]; intros curopt acc rej P I1 I2 Sa Sr; simpl.
    - rewrite app_nil_r, <- I1, <- I2. auto.
    - inversion Sr as [|? ? Sv Sr']; subst.
      replace (P ++ (n, v) :: rs) with ((P ++ [(n, v)]) ++ rs) by (rewrite <- app_assoc; reflexivity).
      assert (Hrev : rev (P ++ [(n, v)]) = (n, v) :: rev P) by (rewrite rev_app_distr; reflexivity).
      destruct (scope_ok n (scope_name k)) eqn:Eok.
      + assert (Hchg : forall (rej0 : list (str * str)),
                  let '(acc', _) := extract_loop scopes (scope_name k) rs (set n v curopt) (acc ++ [(n, v)]) rej0 in
                  or_else (get d (rev acc')) (get d cur) =
                  or_else (first_setting scopes d k (rev ((P ++ [(n, v)]) ++ rs))) (get d cur) /\ scalar_sets acc').
        { intros rej0. apply IH.
          - rewrite get_set, rev_app_distr. simpl. destruct (str_eqb d n); [reflexivity|exact I1].
          - rewrite Hrev. simpl. unfold legal_here. rewrite Eok, andb_true_r, get_set.
            destruct (str_eqb d n); [reflexivity|exact I2].
          - apply Forall_app. split; [exact Sa|constructor; [exact Sv|constructor]].
          - exact Sr'. }
        destruct (get n curopt) as [v0|] eqn:Eg; [|apply Hchg].
        destruct (value_eqb v0 v) eqn:Ev; [|apply Hchg].
        apply value_eqb_eq in Ev. subst v0.
        apply IH; [exact I1| |exact Sa|exact Sr'].
        rewrite Hrev. simpl. unfold legal_here. rewrite Eok, andb_true_r.
        destruct (str_eqb d n) eqn:E; [|exact I2]. apply str_eqb_eq in E. subst. exact Eg.
      + apply IH; [exact I1| |exact Sa|exact Sr'].
        rewrite Hrev. simpl. unfold legal_here. rewrite Eok, andb_false_r. exact I2.
  Qed.

  Lemma extract_directives_spec d k cur sets : scalar_sets sets ->
    let '(opt, contents, _) := extract_directives scopes immediate cur (scope_name k) sets in
    wf opt /\ wf contents /\
    or_else (get d opt) (get d cur) = or_else (first_setting scopes d k sets) (get d cur) /\
    get d contents = (if mem d immediate then None else get d opt).
  Proof.
    intros Ss. unfold extract_directives.
    pose proof (extract_loop_inv d k cur (rev sets) cur [] [] [] eq_refl eq_refl (Forall_nil _)) as H.
    assert (Sr : scalar_sets (rev sets)) by (apply Forall_rev, Ss).
    specialize (H Sr). simpl in H. rewrite rev_involutive in H.
    destruct (extract_loop scopes (scope_name k) (rev sets) cur [] []) as [acc rej].
    destruct H as [H Sacc].
    rewrite (merge_scalar acc Sacc).
    assert (Sf : scalar_sets (filter (fun kv => negb (mem (fst kv) immediate)) acc)).
    { apply Forall_forall. intros x Hx. apply filter_In in Hx. destruct Hx as [Hx _].
      revert x Hx. apply Forall_forall. exact Sacc. }
    rewrite (merge_scalar _ Sf).
    split; [apply wf_update, wf_nil|]. split; [apply wf_update, wf_nil|].
    rewrite !get_update. simpl. rewrite !or_else_none. split; [exact H|].
    rewrite <- filter_rev. rewrite (get_filter_key (fun x => negb (mem x immediate))).
    destruct (mem d immediate); reflexivity.
  Qed.

  Lemma with_dict_spec d : forall sets dd rej, wf dd ->
    let '(dd', _) := with_dict scopes sets dd rej in
    wf dd' /\ get d dd' = last_setting scopes d KWith sets (get d dd).
  Proof.
    induction sets as [|[n v] sets IH]; intros dd rej Hw; simpl; [auto|].
    unfold legal_here. simpl.
    destruct (scope_ok n _) eqn:Eok.
    - specialize (IH (set n v dd) rej (wf_set n v dd Hw)).
      destruct (with_dict scopes sets (set n v dd) rej) as [dd' rej']. destruct IH as [IH1 IH2].
      split; [exact IH1|]. rewrite IH2, get_set, andb_true_r. reflexivity.
    - specialize (IH dd (rej ++ [(n, scope_name KWith)]) Hw). simpl in IH.
      destruct (with_dict scopes sets dd _) as [dd' rej']. destruct IH as [IH1 IH2].
      split; [exact IH1|]. rewrite IH2, andb_false_r. reflexivity.
  Qed.

  (* what visit_with_directives puts in effect for the contents of a node *)
  Lemma enter_body d cur k sets :
    k <> KProbe -> scalar_sets sets -> mem d non_inherited = false ->
    match fst (enter cur k sets) with
    | None => get d cur = or_else (explicit k sets d) (get d cur)
    | Some (_, newc) => get d newc = or_else (explicit k sets d) (get d cur)
    end.
  Proof.
    intros Hk Ss Hm. unfold enter.
    assert (Hdec : k <> KWith ->
      match fst (let '(dirs, contents, rej) := extract_directives scopes immediate cur (scope_name k) sets in
                 match dirs with
                 | [] => (None, rej)
                 | _ => if dict_eqb (copy_inherited non_inherited cur dirs) cur then (None, rej)
                        else (Some (copy_inherited non_inherited cur dirs, copy_inherited non_inherited cur contents), rej)
                 end) with
      | None => get d cur = or_else (if mem d immediate then None else first_setting scopes d k sets) (get d cur)
      | Some (_, newc) => get d newc = or_else (if mem d immediate then None else first_setting scopes d k sets) (get d cur)
      end).
    { intros _. pose proof (extract_directives_spec d k cur sets Ss) as H.
      destruct (extract_directives scopes immediate cur (scope_name k) sets) as [[opt contents] rej].
      destruct H as (Wo & Wc & H1 & H2).
      destruct opt as [|o1 opt'] eqn:Eopt.
      - simpl. simpl in H1. destruct (mem d immediate); [reflexivity|exact H1].
      - rewrite <- Eopt in *. clear Eopt.
        destruct (dict_eqb (copy_inherited non_inherited cur opt) cur) eqn:Eq; simpl.
        + apply (dict_eqb_get _ _ d) in Eq. rewrite (copy_inherited_get d cur opt Hm Wo) in Eq.
          destruct (mem d immediate); [reflexivity|]. rewrite <- H1. symmetry. exact Eq.
        + rewrite (copy_inherited_get d cur contents Hm Wc), H2.
          destruct (mem d immediate); [reflexivity|]. exact H1. }
    destruct k; try (exact (Hdec ltac:(discriminate))); [|contradiction].
    (* with *)
    pose proof (with_dict_spec d sets [] [] wf_nil) as H.
    destruct (with_dict scopes sets [] []) as [dd rej]. destruct H as [Wd H]. simpl in H.
    destruct dd as [|x dd'] eqn:Edd.
    - simpl. simpl in H. rewrite <- H. reflexivity.
    - rewrite <- Edd in *. clear Edd.
      destruct (dict_eqb (copy_inherited non_inherited cur dd) cur) eqn:Eq; simpl.
      + apply (dict_eqb_get _ _ d) in Eq. rewrite (copy_inherited_get d cur dd Hm Wd), H in Eq. symmetry. exact Eq.
      + rewrite (copy_inherited_get d cur dd Hm Wd), H. reflexivity.
  Qed.

  (* ----- the traversal ----- *)
  Fixpoint tree_ind2 (P : tree -> Prop)
           (H : forall k sets ch, Forall P ch -> P (Node k sets ch)) (t : tree) : P t :=
    match t with
    | Node k sets ch =>
        H k sets ch ((fix go (l : list tree) : Forall P l :=
                        match l with
                        | [] => Forall_nil P
                        | x :: r => Forall_cons x (tree_ind2 P H x) (go r)
                        end) ch)
    end.

  Lemma visit_unfold cur k sets ch :
    visit cur (Node k sets ch) =
    match k with
    | KProbe => (AProbe cur, cur, [])
    | _ => match enter cur k sets with
           | (None, rej) => let '(l', st', e) := visit_list cur ch in (ANode k cur cur l', st', rej ++ e)
           | (Some (new, newc), rej) => let '(l', _, e) := visit_list newc ch in (ANode k new newc l', cur, rej ++ e)
           end
    end.
  Proof. destruct k; reflexivity. Qed.

  (* what holds for one visited node *)
  Definition node_ok (d : str) (t : tree) : Prop :=
    forall cur, match t with Node k sets ch =>
      let '(a, st, _) := visit cur t in
      st = cur /\
      get d (body_dict a) = or_else (explicit k sets d) (get d cur) /\
      forall q a', q <> [] -> lookup_path (achildren a) q = Some a' ->
                   Some (get d (body_dict a')) = spec_at d (get d (body_dict a)) ch q
    end.

  (* ... and for a visited forest: the state is restored, and every node reached by a path has
     the specified value *)
  Definition forest_ok (d : str) (forest : list tree) : Prop :=
    forall cur,
      let '(l, st, _) := visit_list cur forest in
      st = cur /\
      forall p a, lookup_path l p = Some a -> Some (get d (body_dict a)) = spec_at d (get d cur) forest p.

  Lemma forest_from_nodes d forest : Forall (node_ok d) forest -> forest_ok d forest.
  Proof.
    induction 1 as [|t forest Ht Hf IH]; intros cur.
    - simpl. split; [reflexivity|]. intros [|i q] a; simpl; [discriminate|]. destruct i; discriminate.
    - cbn [M_Directives.visit_list].
      specialize (Ht cur). destruct t as [k sets ch].
      destruct (visit cur (Node k sets ch)) as [[a st1] e1]. destruct Ht as (E1 & Hb & Hsub). subst st1.
      specialize (IH cur). destruct (visit_list cur forest) as [[l st2] e2]. destruct IH as (E2 & IH).
      split; [exact E2|].
      intros [|i q] a' Hl; [discriminate|]. destruct i as [|i].
      + cbn [lookup_path nth_error] in Hl. cbn [M_DirectivesDoc.spec_at nth_error].
        destruct q as [|j q].
        * inversion Hl; subst a'. rewrite Hb. reflexivity.
        * rewrite <- Hb. apply Hsub; [discriminate|exact Hl].
      + cbn [lookup_path nth_error] in Hl. cbn [M_DirectivesDoc.spec_at nth_error].
        apply (IH (i :: q) a'). exact Hl.
  Qed.

  Ltac node_case K d cur sets ch Ss Hm Hforest :=
    let He := fresh "He" in
    pose proof (enter_body d cur K sets ltac:(discriminate) Ss Hm) as He;
    destruct (M_Directives.enter scopes immediate non_inherited cur K sets) as [[[new newc]|] rej]; simpl in He;
    [ specialize (Hforest newc);
      destruct (M_Directives.visit_list scopes immediate non_inherited newc ch) as [[l st'] e]; destruct Hforest as [_ Hf];
      split; [reflexivity|]; split; [exact He|]; intros q a' _ Hl; simpl in Hl |- *; apply Hf, Hl
    | specialize (Hforest cur);
      destruct (M_Directives.visit_list scopes immediate non_inherited cur ch) as [[l st'] e]; destruct Hforest as [Hst Hf];
      split; [exact Hst|]; split; [exact He|]; intros q a' _ Hl; simpl in Hl |- *; apply Hf, Hl ].

  Lemma node_ok_all d t : mem d non_inherited = false -> scalar_tree t -> node_ok d t.
  Proof.
    intros Hm. induction t as [k sets ch IHch] using tree_ind2. intros Hs cur.
    inversion Hs as [? ? ? Ss Sch]; subst.
    assert (Hforest : forest_ok d ch).
    { apply forest_from_nodes. apply Forall_forall. intros x Hx.
      rewrite Forall_forall in IHch, Sch. apply IHch; [exact Hx|apply Sch, Hx]. }
    rewrite visit_unfold.
    destruct k.
    1: node_case KFunc d cur sets ch Ss Hm Hforest.
    1: node_case KClass d cur sets ch Ss Hm Hforest.
    1: node_case KCClass d cur sets ch Ss Hm Hforest.
    1: node_case KWith d cur sets ch Ss Hm Hforest.
    (* probe *)
    split; [reflexivity|]. split; [reflexivity|].
    intros q a' Hq Hl. simpl in Hl. destruct q as [|i q]; [contradiction|]. destruct i; discriminate.
  Qed.

  (* THE scoping theorem, for ALL forests, paths and inherited directives: the dict the code
     builds by copying and updating while descending gives, for the code enclosed by the node
     at path p, the innermost enclosing explicit (legal) setting, else the value around the
     forest; and the transform's current dict is the same after the traversal as before. *)
  Theorem effective_directive d cur forest :
    mem d non_inherited = false -> Forall scalar_tree forest ->
    let '(l, st, _) := visit_list cur forest in
    st = cur /\
    forall p a, lookup_path l p = Some a ->
                Some (get d (body_dict a)) = spec_at d (get d cur) forest p.
  Proof.
    intros Hm Hs. apply (forest_from_nodes d forest).
    apply Forall_forall. intros t Ht. apply node_ok_all; [exact Hm|].
    rewrite Forall_forall in Hs. apply Hs, Ht.
  Qed.
End ScopeProofs.

(* ====================== module level, no-leak, scope violations ====================== *)
Section ScopeProofs2.
  Variable scopes : list (str * list str).
  Variable immediate : list str.
  Variable non_inherited : list str.

  Definition w_module : str := [109; 111; 100; 117; 108; 101].

  Lemma header_split_spec header :
    fst (header_split scopes header) = filter (fun kv => scope_ok scopes (fst kv) w_module) header /\
    forall n v, In (n, v) header -> scope_ok scopes n w_module = false ->
                In (n, w_module) (snd (header_split scopes header)).
  Proof.
    induction header as [|[n v] header [IH1 IH2]]; simpl; [split; [reflexivity|intros ? ? []]|].
    destruct (header_split scopes header) as [ok rej]. simpl in *.
    fold w_module. destruct (scope_ok scopes n w_module) eqn:E; simpl.
    - split; [f_equal; exact IH1|]. intros n' v' [H|H] Hs; [inversion H; subst; congruence|eauto].
    - split; [exact IH1|]. intros n' v' [H|H] Hs; [inversion H; subst; left; reflexivity|right; eauto].
  Qed.

  (* header comment, else command line / cythonize options, else default *)
  Theorem module_precedence defaults options header d :
    get d (fst (module_dict scopes defaults options header)) = module_value scopes defaults options header d.
  Proof.
    unfold module_dict, module_value, header_setting.
    pose proof (header_split_spec header) as [H _].
    destruct (header_split scopes header) as [ok rej]. simpl in *. subst ok.
    rewrite !get_update, <- filter_rev.
    rewrite (get_filter_key (fun x => scope_ok scopes x w_module)). fold w_module.
    destruct (scope_ok scopes d w_module); reflexivity.
  Qed.

  (* module + forest: the value in effect for the code at a path *)
  Theorem effective_in_module defaults options header body d :
    mem d non_inherited = false -> Forall scalar_tree body ->
    let '(md, l, st, _) := visit_module scopes immediate non_inherited defaults options header body in
    st = md /\
    forall p a, lookup_path l p = Some a ->
      Some (get d (body_dict a)) =
      spec_at scopes immediate d (module_value scopes defaults options header d) body p.
  Proof.
    intros Hm Hs. unfold visit_module.
    pose proof (module_precedence defaults options header d) as Hmod.
    destruct (module_dict scopes defaults options header) as [md rej]. simpl in Hmod.
    pose proof (effective_directive scopes immediate non_inherited d md body Hm Hs) as H.
    destruct (visit_list scopes immediate non_inherited md body) as [[l st] e].
    rewrite <- Hmod. exact H.
  Qed.

  (* settings never leak to siblings or outward: two programs that agree on the nodes ON the
     path (kinds and settings) give the same value there, whatever else they contain *)
  Fixpoint same_on_path (f1 f2 : list tree) (p : list nat) : Prop :=
    match p with
    | [] => True
    | i :: q => match nth_error f1 i, nth_error f2 i with
                | Some (Node k1 s1 c1), Some (Node k2 s2 c2) =>
                    k1 = k2 /\ s1 = s2 /\ match q with [] => True | _ => same_on_path c1 c2 q end
                | _, _ => False
                end
    end.

  Lemma spec_at_same d : forall p f1 f2 outer, same_on_path f1 f2 p ->
    spec_at scopes immediate d outer f1 p = spec_at scopes immediate d outer f2 p.
  Proof.
    induction p as [|i q IH]; intros f1 f2 outer H; [reflexivity|].
    simpl in *. destruct (nth_error f1 i) as [[k1 s1 c1]|], (nth_error f2 i) as [[k2 s2 c2]|]; try contradiction.
    destruct H as (-> & -> & H). destruct q; [reflexivity|]. apply IH, H.
  Qed.

  Theorem no_leak d cur f1 f2 p a1 a2 :
    mem d non_inherited = false -> Forall scalar_tree f1 -> Forall scalar_tree f2 ->
    same_on_path f1 f2 p ->
    lookup_path (fst (fst (visit_list scopes immediate non_inherited cur f1))) p = Some a1 ->
    lookup_path (fst (fst (visit_list scopes immediate non_inherited cur f2))) p = Some a2 ->
    get d (body_dict a1) = get d (body_dict a2).
  Proof.
    intros Hm S1 S2 Hsame L1 L2.
    pose proof (effective_directive scopes immediate non_inherited d cur f1 Hm S1) as H1.
    pose proof (effective_directive scopes immediate non_inherited d cur f2 Hm S2) as H2.
    destruct (visit_list scopes immediate non_inherited cur f1) as [[l1 st1] e1].
    destruct (visit_list scopes immediate non_inherited cur f2) as [[l2 st2] e2].
    simpl in *. destruct H1 as [_ H1], H2 as [_ H2].
    specialize (H1 p a1 L1). specialize (H2 p a2 L2).
    rewrite (spec_at_same d p f1 f2 _ Hsame) in H1. congruence.
  Qed.

  (* ----- a setting that is illegal in its scope is reported (and, by explicit_for_contents /
     header_setting in the theorems above, never applied) ----- *)
  Lemma extract_loop_rej scope n : forall rs curopt acc rej,
    (forall x, In x rej -> In x (snd (extract_loop scopes scope rs curopt acc rej))) /\
    ((exists v, In (n, v) rs) -> scope_ok scopes n scope = false ->
     In (n, scope) (snd (extract_loop scopes scope rs curopt acc rej))).
  Proof.
    induction rs as [|[m v] rs IH]; intros curopt acc rej; simpl.
    - split; [auto|]. intros [v []].
    - destruct (scope_ok scopes m scope) eqn:E.
      + assert (G : forall co ac, (forall x, In x rej -> In x (snd (extract_loop scopes scope rs co ac rej))) /\
                  ((exists v0, In (n, v0) ((m, v) :: rs)) -> scope_ok scopes n scope = false ->
                   In (n, scope) (snd (extract_loop scopes scope rs co ac rej)))).
        { intros co ac. destruct (IH co ac rej) as [I1 I2]. split; [exact I1|].
          intros [v0 [H|H]] Hs; [inversion H; subst; congruence|apply I2; eauto]. }
        destruct (get m curopt) as [v0|]; [destruct (value_eqb v0 v)|]; apply G.
      + destruct (IH curopt acc (rej ++ [(m, scope)])) as [I1 I2]. split.
        * intros x Hx. apply I1, in_or_app. left. exact Hx.
        * intros [v0 [H|H]] Hs.
          -- inversion H; subst. apply I1, in_or_app. right. left. reflexivity.
          -- apply I2; eauto.
  Qed.

  Lemma with_dict_rej n : forall sets dd rej,
    (forall x, In x rej -> In x (snd (with_dict scopes sets dd rej))) /\
    ((exists v, In (n, v) sets) -> scope_ok scopes n (scope_name KWith) = false ->
     In (n, scope_name KWith) (snd (with_dict scopes sets dd rej))).
  Proof.
    induction sets as [|[m v] sets IH]; intros dd rej; simpl.
    - split; [auto|]. intros [v []].
    - change [119; 105; 116; 104; 32; 115; 116; 97; 116; 101; 109; 101; 110; 116] with (scope_name KWith).
      destruct (scope_ok scopes m (scope_name KWith)) eqn:E.
      + destruct (IH (set m v dd) rej) as [I1 I2]. split; [exact I1|].
        intros [v0 [H|H]] Hs; [inversion H; subst; congruence|apply I2; eauto].
      + destruct (IH dd (rej ++ [(m, scope_name KWith)])) as [I1 I2]. split.
        * intros x Hx. apply I1, in_or_app. left. exact Hx.
        * intros [v0 [H|H]] Hs.
          -- inversion H; subst. apply I1, in_or_app. right. left. reflexivity.
          -- apply I2; eauto.
  Qed.

  Ltac dec_case sets cur n v Hin Hs :=
    unfold extract_directives;
    match goal with |- context [extract_loop scopes ?sc (rev sets) cur [] []] =>
      let H := fresh "H" in
      pose proof (proj2 (extract_loop_rej sc n (rev sets) cur [] [])
                    (ex_intro _ v (proj1 (in_rev sets (n, v)) Hin)) Hs) as H;
      destruct (extract_loop scopes sc (rev sets) cur [] []) as [acc rej];
      simpl in H;
      match goal with |- context [fold_left merge_one acc []] =>
        destruct (fold_left merge_one acc []); [exact H|] end;
      match goal with |- context [dict_eqb ?a ?b] => destruct (dict_eqb a b); exact H end
    end.

  Theorem scope_violation_rejected cur k sets ch n v :
    k <> KProbe -> In (n, v) sets -> scope_ok scopes n (scope_name k) = false ->
    In (n, scope_name k) (snd (visit scopes immediate non_inherited cur (Node k sets ch))).
  Proof.
    intros Hk Hin Hs.
    assert (He : In (n, scope_name k) (snd (enter scopes immediate non_inherited cur k sets))).
    { unfold enter. destruct k; try contradiction.
      1: dec_case sets cur n v Hin Hs.
      1: dec_case sets cur n v Hin Hs.
      1: dec_case sets cur n v Hin Hs.
      pose proof (proj2 (with_dict_rej n sets [] []) (ex_intro _ v Hin) Hs) as H.
      destruct (with_dict scopes sets [] []) as [dd rej]. simpl in H.
      destruct dd; [exact H|]. match goal with |- context [dict_eqb ?a ?b] => destruct (dict_eqb a b); exact H end. }
    rewrite visit_unfold.
    destruct (enter scopes immediate non_inherited cur k sets) as [[[new newc]|] rej]; simpl in He;
      destruct k; try contradiction;
      match goal with |- context [visit_list scopes immediate non_inherited ?c ch] =>
        destruct (visit_list scopes immediate non_inherited c ch) as [[l st] e] end;
      simpl; apply in_or_app; left; exact He.
  Qed.

  Theorem header_scope_violation_rejected defaults options header n v :
    In (n, v) header -> scope_ok scopes n w_module = false ->
    In (n, w_module) (snd (module_dict scopes defaults options header)).
  Proof.
    intros Hin Hs. unfold module_dict.
    pose proof (proj2 (header_split_spec header) n v Hin Hs) as H.
    destruct (header_split scopes header) as [ok rej]. exact H.
  Qed.

  (* executable check over a concrete scopes table: for every entry (d, legal) and every scope
     kind, a node of that kind setting d is accepted iff its scope name is in legal; when it is
     rejected the value seen by the enclosed code is the surrounding one *)
  Definition one_scope_check (defaults : dict) (d : str) (legal : list str) (k : kind) : bool :=
    let v := VStr [42] in
    let '(a, st, rej) := visit scopes immediate non_inherited defaults (Node k [(d, v)] [Node KProbe [] []]) in
    let inside := match achildren a with p :: _ => get d (body_dict p) | [] => None end in
    if mem (scope_name k) legal
    then match rej with [] => true | _ => false end
    else match rej with [(n, s)] => str_eqb n d && str_eqb s (scope_name k) | _ => false end
         && match inside, get d defaults with
            | Some x, Some y => value_eqb x y | None, None => true | _, _ => false end.

  Definition header_scope_check (defaults : dict) (d : str) (legal : list str) : bool :=
    let v := VStr [42] in
    let '(md, rej) := module_dict scopes defaults [] [(d, v)] in
    if mem w_module legal
    then match rej with [] => true | _ => false end
    else match rej with [(n, s)] => str_eqb n d && str_eqb s w_module | _ => false end
         && match get d md, get d defaults with
            | Some x, Some y => value_eqb x y | None, None => true | _, _ => false end.

  Definition scope_table_check (defaults : dict) : bool :=
    forallb (fun e => match snd e with [] => false | _ => true end &&
                      header_scope_check defaults (fst e) (snd e) &&
                      forallb (one_scope_check defaults (fst e) (snd e)) [KFunc; KClass; KCClass; KWith])
            scopes.
End ScopeProofs2.

(* ====================== immediate vs inherited decorators ====================== *)
Section ScopeProofs3.
  Variable scopes : list (str * list str).
  Variable immediate : list str.
  Variable non_inherited : list str.

  (* for a directive outside the immediate set the specification does not depend on the set:
     it is the plain rule "innermost enclosing explicit setting" *)
  Lemma spec_at_not_immediate d : mem d immediate = false ->
    forall p forest outer, spec_at scopes immediate d outer forest p = spec_at scopes [] d outer forest p.
  Proof.
    intros Hm. induction p as [|i q IH]; intros forest outer; [reflexivity|].
    simpl. destruct (nth_error forest i) as [[k sets ch]|]; [|reflexivity].
    assert (E : explicit_for_contents scopes immediate k sets d = explicit_for_contents scopes [] k sets d).
    { unfold explicit_for_contents. rewrite Hm. destruct k; reflexivity. }
    rewrite E. destruct q; [reflexivity|]. apply IH.
  Qed.

  Theorem inherited_directive d cur forest :
    mem d immediate = false -> mem d non_inherited = false -> Forall scalar_tree forest ->
    let '(l, st, _) := visit_list scopes immediate non_inherited cur forest in
    st = cur /\
    forall p a, lookup_path l p = Some a ->
                Some (get d (body_dict a)) = spec_at scopes [] d (get d cur) forest p.
  Proof.
    intros Hi Hm Hs.
    pose proof (effective_directive scopes immediate non_inherited d cur forest Hm Hs) as H.
    destruct (visit_list scopes immediate non_inherited cur forest) as [[l st] e].
    destruct H as [H1 H2]. split; [exact H1|]. intros p a Hl.
    rewrite <- (spec_at_not_immediate d Hi). apply H2, Hl.
  Qed.

  (* the dict in effect on the decorated object itself: its own decorators always count,
     immediate or not *)
  Lemma enter_node d cur k sets :
    k <> KProbe -> k <> KWith -> scalar_sets sets -> mem d non_inherited = false ->
    match fst (enter scopes immediate non_inherited cur k sets) with
    | None => get d cur = or_else (first_setting scopes d k sets) (get d cur)
    | Some (new, _) => get d new = or_else (first_setting scopes d k sets) (get d cur)
    end.
  Proof.
    intros Hk Hw Ss Hm. unfold enter.
    assert (Hdec :
      match fst (let '(dirs, contents, rej) := extract_directives scopes immediate cur (scope_name k) sets in
                 match dirs with
                 | [] => (None, rej)
                 | _ => if dict_eqb (copy_inherited non_inherited cur dirs) cur then (None, rej)
                        else (Some (copy_inherited non_inherited cur dirs, copy_inherited non_inherited cur contents), rej)
                 end) with
      | None => get d cur = or_else (first_setting scopes d k sets) (get d cur)
      | Some (new, _) => get d new = or_else (first_setting scopes d k sets) (get d cur)
      end).
    { pose proof (extract_directives_spec scopes immediate d k cur sets Ss) as H.
      destruct (extract_directives scopes immediate cur (scope_name k) sets) as [[opt contents] rej].
      destruct H as (Wo & Wc & H1 & H2).
      destruct opt as [|o1 opt'] eqn:Eopt.
      - simpl. simpl in H1. exact H1.
      - rewrite <- Eopt in *. clear Eopt.
        destruct (dict_eqb (copy_inherited non_inherited cur opt) cur) eqn:Eq; simpl.
        + apply (dict_eqb_get _ _ d) in Eq.
          rewrite (copy_inherited_get non_inherited d cur opt Hm Wo) in Eq.
          rewrite <- H1. symmetry. exact Eq.
        + rewrite (copy_inherited_get non_inherited d cur opt Hm Wo). exact H1. }
    destruct k; try contradiction; exact Hdec.
  Qed.

  (* a decorated def / class / cdef class: the object itself sees its own first legal decorator
     setting of every directive; the code it encloses sees it unless the directive is immediate *)
  Theorem decorated_object d cur k sets ch :
    k <> KProbe -> k <> KWith -> scalar_tree (Node k sets ch) -> mem d non_inherited = false ->
    let '(a, st, _) := visit scopes immediate non_inherited cur (Node k sets ch) in
    st = cur /\
    get d (node_dict a) = or_else (first_setting scopes d k sets) (get d cur) /\
    get d (body_dict a) = or_else (if mem d immediate then None else first_setting scopes d k sets) (get d cur).
  Proof.
    intros Hk Hw Hs Hm.
    pose proof (node_ok_all scopes immediate non_inherited d (Node k sets ch) Hm Hs cur) as Hn.
    inversion Hs as [? ? ? Ss Sch]; subst.
    pose proof (enter_node d cur k sets Hk Hw Ss Hm) as He.
    cbv beta iota in Hn. rewrite visit_unfold in Hn |- *.
    assert (Hx : explicit_for_contents scopes immediate k sets d =
                 (if mem d immediate then None else first_setting scopes d k sets))
      by (destruct k; try contradiction; reflexivity).
    destruct (enter scopes immediate non_inherited cur k sets) as [[[new newc]|] rej]; simpl in He.
    - destruct (visit_list scopes immediate non_inherited newc ch) as [[l st'] e].
      destruct k; try contradiction;
        (destruct Hn as (H1 & H2 & _); split; [exact H1|]; split; [exact He|]; rewrite <- Hx; exact H2).
    - destruct (visit_list scopes immediate non_inherited cur ch) as [[l st'] e].
      destruct k; try contradiction;
        (destruct Hn as (H1 & H2 & _); split; [exact H1|]; split; [exact He|]; rewrite <- Hx; exact H2).
  Qed.

  (* what the table check gives for each documented behaviour directive *)
  Lemma immediate_table_behaviour d :
    immediate_table_ok immediate scopes non_inherited = true -> In d doc_behaviour ->
    mem d immediate = false /\ mem d non_inherited = false.
  Proof.
    unfold immediate_table_ok. intros H Hd.
    apply andb_true_iff in H. destruct H as [H _]. apply andb_true_iff in H. destruct H as [_ H].
    rewrite forallb_forall in H. specialize (H d Hd).
    apply andb_true_iff in H. destruct H as [H1 H2].
    split; [destruct (mem d immediate)|destruct (mem d non_inherited)]; simpl in *; congruence.
  Qed.

  Lemma immediate_table_members d :
    immediate_table_ok immediate scopes non_inherited = true ->
    mem d immediate = true -> mem d doc_immediate = true /\ restricted_scope scopes d = true.
  Proof.
    unfold immediate_table_ok, same_set, subset. intros H Hd.
    apply andb_true_iff in H. destruct H as [H H3]. apply andb_true_iff in H. destruct H as [H _].
    apply andb_true_iff in H. destruct H as [H _].
    rewrite forallb_forall in H, H3.
    unfold mem in Hd. apply existsb_exists in Hd. destruct Hd as (x & Hx & E).
    apply str_eqb_eq in E. subst x. split; [apply H, Hx|apply H3, Hx].
  Qed.
End ScopeProofs3.
