(* C21 - every execution of a function body is covered by the CFG that the (repaired) builder of
   Model/M_FlowCFG.v constructs: semantics of the statement language, positions reached in the graph,
   and the simulation. *)
From Coq Require Import NArith List Bool Arith Lia.
From CyVerif Require Import Model.M_Flow Model.M_FlowCFG Proof.P_FlowCFG.
Import ListNotations.

(* ------------------------------------------------------------------ semantics (definedness only) *)
Definition state := nat -> bool.           (* entry -> bound? *)
Definition upd (s : state) (e : nat) (v : bool) : state := fun x => if x =? e then v else s x.
Definition eff (s : lstat) (sg : state) : state :=
  match s with LRef _ _ => sg | LAsg _ e => upd sg e true | LDel _ e => upd sg e false end.

Inductive out := ONorm | OBrk | OCont | ORet | OExc.
Definition event := (nat * nat * bool)%type.    (* label, entry, was it bound *)

(* name references of a condition, in order; the first unbound one raises *)
Inductive eval_refs (sg : state) : list nref -> list event -> bool -> Prop :=
| er_nil : eval_refs sg [] [] true
| er_ok l e c tr ok : sg e = true -> eval_refs sg c tr ok ->
    eval_refs sg ((l, e) :: c) ((l, e, true) :: tr) ok
| er_fail l e c : sg e = false -> eval_refs sg ((l, e) :: c) [(l, e, false)] false.

Fixpoint bind (tg : list nref) (sg : state) : state :=
  match tg with [] => sg | r :: t => bind t (upd sg (snd r) true) end.

(* a for loop evaluates its iterator once, a while loop its condition at every iteration *)
Definition head_eval (isfor : bool) (sg : state) (c : list nref) (tr : list event) (ok : bool) : Prop :=
  if isfor then tr = [] /\ ok = true else eval_refs sg c tr ok.

Inductive item :=
| IS (s : stmt)
| IL (isfor : bool) (c tg : list nref) (body : stmt) (hasel : bool) (el : stmt)   (* at the loop head *)
| IH (hs : handlers).                                                           (* exception being matched *)

Definition fin_out (o1 o2 : out) : out := match o2 with ONorm => o1 | _ => o2 end.

(* every statement may behave as CPython does; conditions, handler matching and raise points are
   nondeterministic *)
Inductive exec : item -> state -> list event -> out -> state -> Prop :=
| x_skip sg : exec (IS Skip) sg [] ONorm sg
| x_call sg : exec (IS Call) sg [] ONorm sg
| x_call_exc sg : exec (IS Call) sg [] OExc sg
| x_ref l e sg : exec (IS (Ref l e)) sg [(l, e, sg e)] (if sg e then ONorm else OExc) sg
| x_asg l e sg : exec (IS (Asg l e)) sg [] ONorm (upd sg e true)
| x_del l e ign sg : sg e = true \/ ign = true ->
    exec (IS (Del l e ign)) sg (if ign then ([] : list event) else [(l, e, sg e)]) ONorm (upd sg e false)
| x_del_exc l e sg : sg e = false -> exec (IS (Del l e false)) sg [(l, e, false)] OExc sg
| x_seq a b sg t1 s1 t2 o s2 : exec (IS a) sg t1 ONorm s1 -> exec (IS b) s1 t2 o s2 ->
    exec (IS (Seq a b)) sg (t1 ++ t2) o s2
| x_seq_stop a b sg t1 o s1 : o <> ONorm -> exec (IS a) sg t1 o s1 -> exec (IS (Seq a b)) sg t1 o s1
| x_if_exc c th h el sg tr : eval_refs sg c tr false -> exec (IS (If c th h el)) sg tr OExc sg
| x_if_then c th h el sg t1 t2 o s2 : eval_refs sg c t1 true -> exec (IS th) sg t2 o s2 ->
    exec (IS (If c th h el)) sg (t1 ++ t2) o s2
| x_if_else c th el sg t1 t2 o s2 : eval_refs sg c t1 true -> exec (IS el) sg t2 o s2 ->
    exec (IS (If c th true el)) sg (t1 ++ t2) o s2
| x_if_skip c th el sg t1 : eval_refs sg c t1 true -> exec (IS (If c th false el)) sg t1 ONorm sg
| x_while c tg body h el sg tr o s2 : exec (IL false c tg body h el) sg tr o s2 ->
    exec (IS (Loop false c tg body h el)) sg tr o s2
| x_for_exc c tg body h el sg tr : eval_refs sg c tr false ->
    exec (IS (Loop true c tg body h el)) sg tr OExc sg
| x_for c tg body h el sg t1 t2 o s2 : eval_refs sg c t1 true ->
    exec (IL true c tg body h el) sg t2 o s2 -> exec (IS (Loop true c tg body h el)) sg (t1 ++ t2) o s2
| l_exc f c tg body h el sg tr : head_eval f sg c tr false -> exec (IL f c tg body h el) sg tr OExc sg
| l_exit f c tg body el sg t1 : head_eval f sg c t1 true -> exec (IL f c tg body false el) sg t1 ONorm sg
| l_else f c tg body el sg t1 t2 o s2 : head_eval f sg c t1 true -> exec (IS el) sg t2 o s2 ->
    exec (IL f c tg body true el) sg (t1 ++ t2) o s2
| l_iter f c tg body h el sg t1 t2 ob s1 t3 o s2 : head_eval f sg c t1 true ->
    exec (IS body) (if f then bind tg sg else sg) t2 ob s1 -> ob = ONorm \/ ob = OCont ->
    exec (IL f c tg body h el) s1 t3 o s2 -> exec (IL f c tg body h el) sg (t1 ++ t2 ++ t3) o s2
| l_break f c tg body h el sg t1 t2 s1 : head_eval f sg c t1 true ->
    exec (IS body) (if f then bind tg sg else sg) t2 OBrk s1 ->
    exec (IL f c tg body h el) sg (t1 ++ t2) ONorm s1
| l_prop f c tg body h el sg t1 t2 ob s1 : head_eval f sg c t1 true ->
    exec (IS body) (if f then bind tg sg else sg) t2 ob s1 -> ob = ORet \/ ob = OExc ->
    exec (IL f c tg body h el) sg (t1 ++ t2) ob s1
| t_norm body el hs sg t1 s1 : exec (IS body) sg t1 ONorm s1 ->
    exec (IS (Try body false el hs)) sg t1 ONorm s1
| t_else body el hs sg t1 s1 t2 o s2 : exec (IS body) sg t1 ONorm s1 -> exec (IS el) s1 t2 o s2 ->
    exec (IS (Try body true el hs)) sg (t1 ++ t2) o s2
| t_exc body h el hs sg t1 s1 t2 o s2 : exec (IS body) sg t1 OExc s1 -> exec (IH hs) s1 t2 o s2 ->
    exec (IS (Try body h el hs)) sg (t1 ++ t2) o s2
| t_prop body h el hs sg t1 o s1 : exec (IS body) sg t1 o s1 -> o = OBrk \/ o = OCont \/ o = ORet ->
    exec (IS (Try body h el hs)) sg t1 o s1
| h_nil sg : exec (IH HNil) sg [] OExc sg
| h_match (hastg : bool) tl te hb rest (sg : state) t o s2 :
    exec (IS hb) (if hastg then upd sg te true else sg) t o s2 ->
    exec (IH (HCons hastg tl te hb rest)) sg t o s2
| h_skip hastg tl te hb rest sg t o s2 : exec (IH rest) sg t o s2 ->
    exec (IH (HCons hastg tl te hb rest)) sg t o s2
| f_exc body fexc fnorm sg t1 s1 t2 o2 s2 : exec (IS body) sg t1 OExc s1 -> exec (IS fexc) s1 t2 o2 s2 ->
    exec (IS (TryFin body fexc fnorm)) sg (t1 ++ t2) (fin_out OExc o2) s2
| f_other body fexc fnorm sg t1 o1 s1 t2 o2 s2 : exec (IS body) sg t1 o1 s1 -> o1 <> OExc ->
    exec (IS fnorm) s1 t2 o2 s2 ->
    exec (IS (TryFin body fexc fnorm)) sg (t1 ++ t2) (fin_out o1 o2) s2
| x_break sg : exec (IS Break) sg [] OBrk sg
| x_continue sg : exec (IS Continue) sg [] OCont sg
| x_return sg : exec (IS Return) sg [] ORet sg
| x_raise sg : exec (IS Raise) sg [] OExc sg.

(* ------------------------------------------------------------------ positions reached in a graph *)
(* [P g b k s]: some path of g from the entry point arrives in front of the k-th statement of block b
   with definedness state s *)
Inductive P (g : bst) : nat -> nat -> state -> Prop :=
| P_entry : P g 0 0 (fun _ => false)
| P_stat b k s sg : P g b k sg -> stat_at g b k = Some s -> P g b (S k) (eff s sg)
| P_edge u k v sg : P g u k sg -> In (u, k, v) (eds g) -> P g v 0 sg.

(* an event "entry e read through NameNode l while unbound" is covered: the graph has that
   reference at a position reached with e unbound *)
Definition justified (g : bst) (ev : event) : Prop :=
  match ev with (l, e, bnd) =>
    bnd = false -> exists b k sg, P g b k sg /\ stat_at g b k = Some (LRef l e) /\ sg e = false end.

Definition at_cur (g st : bst) (sg : state) : Prop :=
  exists b, cur st = Some b /\ P g b (len st b) sg.

Definition Kexc (g : bst) (xs : list excd) (sg : state) : Prop :=
  match xs with x :: _ => P g (x_entry x) 0 sg | [] => True end.

Fixpoint chain (g : bst) (fs : list excd) (Q : state -> Prop) (sg : state) : Prop :=
  match fs with
  | [] => Q sg
  | x :: r =>
      match x_fin x with
      | None => chain g r Q sg
      | Some (fe, None) => P g fe 0 sg
      | Some (fe, Some (fxb, k)) => P g fe 0 sg /\ forall s2, P g fxb k s2 -> chain g r Q s2
      end
  end.

Definition post (g st st' : bst) (o : out) (sg : state) : Prop :=
  Kexc g (excs st) sg /\
  match o with
  | ONorm => at_cur g st' sg
  | OBrk => match loops st with
            | L :: _ => chain g (l_excs L)
                          (fun s => P g (l_next L) 0 s /\ has_parents (l_next L) st' = true) sg
            | [] => False end
  | OCont => match loops st with
             | L :: _ => chain g (l_excs L) (fun s => P g (l_loop L) 0 s) sg
             | [] => False end
  | ORet => chain g (excs st) (fun s => P g 1 0 s) sg
  | OExc => True
  end.

(* ------------------------------------------------------------------ basic facts *)
Lemma chain_impl g fs (Q Q' : state -> Prop) : (forall s, Q s -> Q' s) ->
  forall sg, chain g fs Q sg -> chain g fs Q' sg.
Proof.
  intros HQ. induction fs as [|x r IH]; intros sg; simpl; auto.
  destruct (x_fin x) as [[fe [[fxb k]|]]|]; auto.
  intros [A B]. split; auto.
Qed.

Lemma hp_mono v a b : incl (eds a) (eds b) -> has_parents v a = true -> has_parents v b = true.
Proof.
  unfold has_parents. intros Hi H. apply existsb_exists in H. destruct H as (e & He & Hv).
  apply existsb_exists. exists e. split; auto.
Qed.

Lemma post_mono g st a b o sg : incl (eds a) (eds b) -> o <> ONorm ->
  post g st a o sg -> post g st b o sg.
Proof.
  intros Hi Ho [HK H]. split; auto. destruct o; auto; try congruence.
  destruct (loops st) as [|L r]; auto.
  eapply chain_impl; [|exact H]. intros s [A B]. split; auto. eapply hp_mono; eauto.
Qed.

Lemma post_ctx g st st2 a o sg : loops st2 = loops st -> excs st2 = excs st ->
  post g st2 a o sg -> post g st a o sg.
Proof. unfold post. intros -> ->. auto. Qed.

Lemma P_edge_ext g st u k v sg : In (u, k, v) (eds st) -> ext st g -> P g u k sg -> P g v 0 sg.
Proof. intros Hin [_ Hi] HP. eapply P_edge; eauto. Qed.

Lemma at_cur_append g st s sg : ext (append s st) g -> at_cur g st sg -> at_cur g (append s st) (eff s sg).
Proof.
  intros He (b & Hc & HP). exists b. split.
  - unfold append. rewrite Hc. reflexivity.
  - rewrite (len_append_same st b s Hc). eapply P_stat; eauto.
    eapply stat_at_ext; eauto. now apply stat_at_append.
Qed.

Lemma len_frame n X Y b : R n X Y -> b < n -> cur X <> Some b -> len Y b = len X b.
Proof. intros (_ & _ & _ & _ & F) Hb Hc. now destruct (F b Hb Hc). Qed.

Lemma R_ext n X Y : R n X Y -> ext X Y.
Proof. intros H; apply H. Qed.

Lemma ext_edges a b : ext a b -> incl (eds a) (eds b).
Proof. intros H; apply H. Qed.

Lemma len_nextblock_from p X b : len (nextblock_from p X) b = len X b.
Proof. unfold nextblock_from, link_cur, len. destruct p; simpl; auto. destruct (cur X); reflexivity. Qed.

(* a block created now: an edge into it gives position 0 = its current length *)
Lemma at_cur_nextblock_from g X u sg : inv X -> u < nb X ->
  ext (nextblock_from (Some u) X) g -> P g u (len X u) sg -> at_cur g (nextblock_from (Some u) X) sg.
Proof.
  intros Hi Hu He HP. exists (nb X). split; [reflexivity|].
  rewrite len_nextblock_from, (len_fresh X) by auto. eapply P_edge_ext; [|exact He|exact HP]. simpl. left. reflexivity.
Qed.

Lemma at_cur_nextblock g X sg : inv X -> ext (nextblock X) g -> at_cur g X sg -> at_cur g (nextblock X) sg.
Proof.
  intros Hi He (b & Hc & HP). exists (nb X). split; [reflexivity|].
  unfold nextblock. rewrite len_nextblock_from, (len_fresh X) by auto. eapply P_edge_ext; [|exact He|exact HP].
  unfold nextblock, nextblock_from, link_cur. simpl. rewrite Hc. simpl. left. reflexivity.
Qed.

Lemma link_cur_sound g X v sg : ext (link_cur v X) g -> at_cur g X sg ->
  P g v 0 sg /\ has_parents v (link_cur v X) = true.
Proof.
  intros He (b & Hc & HP). unfold link_cur in *. rewrite Hc in *. simpl in *. split.
  - eapply P_edge_ext; [|exact He|exact HP]. simpl. left. reflexivity.
  - unfold has_parents. simpl. now rewrite Nat.eqb_refl.
Qed.

Lemma add_edge_sound g X u v sg : ext (add_edge u v X) g -> P g u (len X u) sg ->
  P g v 0 sg /\ has_parents v (add_edge u v X) = true.
Proof.
  intros He HP. split.
  - eapply P_edge_ext; [|exact He|exact HP]. simpl. left. reflexivity.
  - unfold has_parents. simpl. now rewrite Nat.eqb_refl.
Qed.

Lemma ext_exc_edge X : inv X -> ext X (exc_edge X).
Proof. intros Hi. eapply R_ext. apply R_exc_edge, (R_refl 0); auto. lia. Qed.

Lemma exc_edge_sound g X sg : inv X -> ext (exc_edge X) g -> at_cur g X sg ->
  at_cur g (exc_edge X) sg /\ Kexc g (excs X) sg.
Proof.
  intros Hi He HA. pose proof HA as (b & Hc & HP). unfold exc_edge in *. rewrite Hc in *.
  destruct (excs X) as [|x r] eqn:Ex; [split; simpl; auto|].
  assert (Hi1 : inv (add_edge b (x_entry x) X)) by exact Hi.
  assert (He1 : ext (add_edge b (x_entry x) X) g).
  { eapply ext_trans; [|exact He]. eapply R_ext. apply R_nextblock, (R_refl 0); auto. lia. }
  split.
  - apply at_cur_nextblock; auto.
  - simpl. eapply (add_edge_sound g X b); eauto.
Qed.

Lemma Kexc_eq g a b sg : excs a = excs b -> Kexc g (excs a) sg -> Kexc g (excs b) sg.
Proof. now intros ->. Qed.

Lemma R0 X : inv X -> R 0 X X.
Proof. intros Hi. apply R_refl; auto. lia. Qed.

Lemma ext_back X Y g : R 0 X Y -> ext Y g -> ext X g.
Proof. intros H He. eapply ext_trans; [apply (R_ext _ _ _ H)|exact He]. Qed.

Lemma excs_append s X : excs (append s X) = excs X.
Proof. unfold append. destruct (cur X); reflexivity. Qed.
Lemma excs_exc_edge X : excs (exc_edge X) = excs X.
Proof. apply (ceq_exc_edge X). Qed.

Lemma at_cur_some g X sg : at_cur g X sg -> exists b, cur X = Some b.
Proof. intros (b & H & _). eauto. Qed.

Lemma v_asg_sound g X l e sg : inv X -> ext (v_asg l e X) g -> at_cur g X sg ->
  at_cur g (v_asg l e X) (upd sg e true) /\ Kexc g (excs X) (upd sg e true) /\
  (excs X = [] \/ True).
Proof.
  intros Hi He HA. destruct (at_cur_some _ _ _ HA) as [b Hc]. unfold v_asg in *. rewrite Hc in *.
  set (X1 := exc_edge X) in *. set (X2 := append (LAsg l e) X1) in *.
  assert (R1 : R 0 X X1) by (apply R_exc_edge, R0, Hi).
  assert (R2 : R 0 X1 X2) by (apply R_append, R0, (R_inv _ _ _ R1)).
  assert (R3 : R 0 X2 (exc_edge X2)) by (apply R_exc_edge, R0, (R_inv _ _ _ R2)).
  assert (E2 : ext X2 g) by (eapply ext_back; eauto).
  assert (E1 : ext X1 g) by (eapply ext_back; eauto).
  destruct (exc_edge_sound g X sg Hi E1 HA) as [A1 _].
  pose proof (at_cur_append g X1 (LAsg l e) sg E2 A1) as A2.
  destruct (exc_edge_sound g X2 _ (R_inv _ _ _ R2) He A2) as [A3 K3].
  split; [exact A3|]. split; [|auto].
  unfold X2 in K3. rewrite excs_append in K3. unfold X1 in K3. now rewrite excs_exc_edge in K3.
Qed.

Lemma v_ref_sound g X l e sg : ext (v_ref l e X) g -> at_cur g X sg ->
  at_cur g (v_ref l e X) sg /\ justified g (l, e, sg e).
Proof.
  intros He HA. split; [exact (at_cur_append g X (LRef l e) sg He HA)|].
  intros Hb. destruct HA as (b & Hc & HP). exists b, (len X b), sg. split; auto. split; auto.
  eapply stat_at_ext; eauto. now apply stat_at_append.
Qed.

Lemma v_del_sound g X l e ign sg : inv X -> ext (v_del l e ign X) g -> at_cur g X sg ->
  at_cur g (v_del l e ign X) (upd sg e false) /\ Kexc g (excs X) (upd sg e false) /\
  (ign = false -> justified g (l, e, sg e)).
Proof.
  intros Hi He HA. destruct (at_cur_some _ _ _ HA) as [b Hc]. unfold v_del in *. rewrite Hc in *.
  set (X1 := if ign then X else append (LRef l e) X) in *. set (X2 := append (LDel l e) X1) in *.
  assert (R1 : R 0 X X1) by (unfold X1; destruct ign; [apply R0, Hi|apply R_append, R0, Hi]).
  assert (R2 : R 0 X1 X2) by (apply R_append, R0, (R_inv _ _ _ R1)).
  assert (R3 : R 0 X2 (exc_edge X2)) by (apply R_exc_edge, R0, (R_inv _ _ _ R2)).
  assert (E2 : ext X2 g) by (eapply ext_back; eauto).
  assert (E1 : ext X1 g) by (eapply ext_back; eauto).
  assert (A1 : at_cur g X1 sg /\ (ign = false -> justified g (l, e, sg e))).
  { unfold X1 in *. destruct ign; [split; [auto|discriminate]|].
    destruct (v_ref_sound g X l e sg E1 HA). split; auto. }
  destruct A1 as [A1 J1].
  pose proof (at_cur_append g X1 (LDel l e) sg E2 A1) as A2.
  destruct (exc_edge_sound g X2 _ (R_inv _ _ _ R2) He A2) as [A3 K3].
  split; [exact A3|]. split; [|exact J1].
  unfold X2 in K3. rewrite excs_append in K3. unfold X1 in K3.
  destruct ign; [exact K3|now rewrite excs_append in K3].
Qed.

Lemma refs_sound g c : forall X sg tr ok, inv X -> ext (refs c X) g -> at_cur g X sg ->
  eval_refs sg c tr ok -> at_cur g (refs c X) sg /\ Forall (justified g) tr.
Proof.
  induction c as [|[l e] c IH]; intros X sg tr ok Hi He HA Hev.
  - inversion Hev; subst. split; auto.
  - simpl in *.
    assert (R1 : R 0 X (v_ref l e X)) by (apply R_v_ref, R0, Hi).
    assert (R2 : R 0 (v_ref l e X) (refs c (v_ref l e X))) by (apply R_refs, R0, (R_inv _ _ _ R1)).
    assert (E1 : ext (v_ref l e X) g) by (eapply ext_back; eauto).
    destruct (v_ref_sound g X l e sg E1 HA) as [A1 J1].
    inversion Hev as [|l0 e0 c0 tr0 ok0 Hb Hrest|l0 e0 c0 Hb]; subst.
    + destruct (IH _ sg tr0 ok (R_inv _ _ _ R1) He A1 Hrest) as [A2 J2]. split; auto.
      constructor; auto. intros; discriminate.
    + split.
      * (* the remaining references are still passed in the graph *)
        clear - He A1 R1. revert He A1. generalize (R_inv _ _ _ R1). generalize (v_ref l e X).
        induction c as [|[l' e'] c IHc]; intros Y HiY He A1; simpl in *; auto.
        assert (Ry : R 0 Y (v_ref l' e' Y)) by (apply R_v_ref, R0, HiY).
        assert (Ry2 : R 0 (v_ref l' e' Y) (refs c (v_ref l' e' Y))) by (apply R_refs, R0, (R_inv _ _ _ Ry)).
        apply IHc; [exact (R_inv _ _ _ Ry)|exact He|].
        apply (v_ref_sound g Y l' e' sg); auto. eapply ext_back; eauto.
      * constructor; [|constructor]. rewrite Hb in J1. exact J1.
Qed.

Lemma bind_app tg : forall sg r, bind (tg ++ [r]) sg = upd (bind tg sg) (snd r) true.
Proof. induction tg as [|a tg IH]; intros sg r; simpl; auto. Qed.

Lemma excs_v_asg l e X : excs (v_asg l e X) = excs X.
Proof. apply (ceq_v_asg l e X). Qed.

Lemma asgs_sound g tg : forall X sg, inv X -> ext (asgs tg X) g -> at_cur g X sg ->
  Kexc g (excs X) sg -> at_cur g (asgs tg X) (bind tg sg) /\ Kexc g (excs X) (bind tg sg).
Proof.
  induction tg as [|[l e] tg IH]; intros X sg Hi He HA HK; simpl in *; auto.
  assert (R1 : R 0 X (v_asg l e X)) by (apply R_v_asg, R0, Hi).
  assert (R2 : R 0 (v_asg l e X) (asgs tg (v_asg l e X))) by (apply R_asgs, R0, (R_inv _ _ _ R1)).
  assert (E1 : ext (v_asg l e X) g) by (eapply ext_back; eauto).
  destruct (v_asg_sound g X l e sg Hi E1 HA) as (A1 & K1 & _).
  rewrite <- (excs_v_asg l e X) in K1 |- *.
  apply IH; auto. exact (R_inv _ _ _ R1).
Qed.

(* a jump: the edges of chain_edges realise [chain] *)
Lemma chain_edges_sound g fs T (Q : state -> Prop) : forall src k X sg,
  ext (chain_edges src k fs T X) g -> P g src k sg ->
  (forall s, P g T 0 s -> Q s) -> chain g fs Q sg.
Proof.
  induction fs as [|x r IH]; intros src k X sg He HP HQ; simpl in *.
  - apply HQ. eapply P_edge_ext; [|exact He|exact HP]. simpl; auto.
  - destruct (x_fin x) as [[fe [[fxb kx]|]]|].
    + assert (E1 : ext (add_edge_k src k fe X) g).
      { eapply ext_trans; [|exact He]. clear. generalize (add_edge_k src k fe X). generalize fxb, kx.
        induction r as [|y r IHr]; intros a b Y; simpl.
        - apply ext_add_edge_k.
        - destruct (x_fin y) as [[fe' [[fxb' kx']|]]|]; auto.
          + eapply ext_trans; [apply ext_add_edge_k|apply IHr]. + apply ext_add_edge_k. }
      split.
      * eapply P_edge_ext; [|exact E1|exact HP]. simpl; auto.
      * intros s2 H2. eapply IH; eauto.
    + eapply P_edge_ext; [|exact He|exact HP]. simpl; auto.
    + eapply IH; eauto.
Qed.

(* ------------------------------------------------------------------ the simulation, case by case *)
Definition inl (st : bst) : bool := match loops st with [] => false | _ => true end.

Definition sim_stmt (s : stmt) (sg : state) (tr : list event) (o : out) (s2 : state) : Prop :=
  forall st g, inv st -> wf (inl st) s = true -> ext (visit true s st) g ->
    at_cur g st sg -> Kexc g (excs st) sg ->
    Forall (justified g) tr /\ post g st (visit true s st) o s2.

Lemma visit_R0 s X : inv X -> R (nb X) X (visit true s X).
Proof. intros Hi. apply (proj1 (visit_R true)). apply R_refl; auto. Qed.
Lemma visit_R00 s X : inv X -> R 0 X (visit true s X).
Proof. intros Hi. eapply R_weaken; [|apply visit_R0; auto]. lia. Qed.
Lemma visit_loops s X : loops (visit true s X) = loops X.
Proof. apply (proj1 (visit_ceq true) s X). Qed.
Lemma visit_excs s X : excs (visit true s X) = excs X.
Proof. apply (proj1 (visit_ceq true) s X). Qed.

Lemma inl_eq a b : loops a = loops b -> inl a = inl b.
Proof. unfold inl. now intros ->. Qed.

Lemma sim_skip sg : sim_stmt Skip sg [] ONorm sg.
Proof. intros st g Hi Hw He HA HK. split; [constructor|]. split; auto. Qed.
Lemma sim_call sg : sim_stmt Call sg [] ONorm sg.
Proof. intros st g Hi Hw He HA HK. split; [constructor|]. split; auto. Qed.
Lemma sim_call_exc sg : sim_stmt Call sg [] OExc sg.
Proof. intros st g Hi Hw He HA HK. split; [constructor|]. split; auto. Qed.

Lemma sim_ref l e sg : sim_stmt (Ref l e) sg [(l, e, sg e)] (if sg e then ONorm else OExc) sg.
Proof.
  intros st g Hi Hw He HA HK. simpl in *. destruct (v_ref_sound g st l e sg He HA) as [A J].
  split; [constructor; auto|]. split; auto. destruct (sg e); auto.
Qed.

Lemma sim_asg l e sg : sim_stmt (Asg l e) sg [] ONorm (upd sg e true).
Proof.
  intros st g Hi Hw He HA HK. simpl in *. destruct (v_asg_sound g st l e sg Hi He HA) as (A & K & _).
  split; [constructor|]. split; auto.
Qed.

Lemma sim_del l e ign sg : sg e = true \/ ign = true ->
  sim_stmt (Del l e ign) sg (if ign then [] else [(l, e, sg e)]) ONorm (upd sg e false).
Proof.
  intros Hb st g Hi Hw He HA HK. simpl in *.
  destruct (v_del_sound g st l e ign sg Hi He HA) as (A & K & J).
  split; [|split; auto]. destruct ign; constructor; auto.
Qed.

Lemma sim_del_exc l e sg : sg e = false -> sim_stmt (Del l e false) sg [(l, e, false)] OExc sg.
Proof.
  intros Hb st g Hi Hw He HA HK. simpl in *.
  destruct (v_del_sound g st l e false sg Hi He HA) as (A & K & J).
  split; [|split; auto]. constructor; auto. rewrite Hb in J. apply J. reflexivity.
Qed.

Lemma sim_seq a b sg t1 s1 t2 o s2 :
  sim_stmt a sg t1 ONorm s1 -> sim_stmt b s1 t2 o s2 -> sim_stmt (Seq a b) sg (t1 ++ t2) o s2.
Proof.
  intros IHa IHb st g Hi Hw He HA HK. simpl in *. apply andb_true_iff in Hw. destruct Hw as [Hwa Hwb].
  set (X1 := visit true a st) in *.
  assert (R1 : R 0 st X1) by (apply visit_R00; auto).
  assert (E1 : ext X1 g).
  { destruct (cur X1); auto. eapply ext_back; [apply visit_R00, (R_inv _ _ _ R1)|exact He]. }
  destruct (IHa st g Hi Hwa E1 HA HK) as [J1 [K1 A1]]. simpl in A1.
  destruct (at_cur_some _ _ _ A1) as [b1 Hc1]. rewrite Hc1 in *.
  assert (Hw2 : wf (inl X1) b = true) by (rewrite (inl_eq X1 st); auto; apply visit_loops).
  rewrite <- (visit_excs a st) in K1. fold X1 in K1.
  destruct (IHb X1 g (R_inv _ _ _ R1) Hw2 He A1 K1) as [J2 P2].
  split; [apply Forall_app; auto|].
  eapply post_ctx; [| |exact P2]; [apply visit_loops|apply visit_excs].
Qed.

Lemma sim_seq_stop a b sg t1 o s1 : o <> ONorm ->
  sim_stmt a sg t1 o s1 -> sim_stmt (Seq a b) sg t1 o s1.
Proof.
  intros Ho IHa st g Hi Hw He HA HK. simpl in *. apply andb_true_iff in Hw. destruct Hw as [Hwa Hwb].
  set (X1 := visit true a st) in *.
  assert (R1 : R 0 st X1) by (apply visit_R00; auto).
  assert (R2 : R 0 X1 (match cur X1 with Some _ => visit true b X1 | None => X1 end)).
  { destruct (cur X1); [apply visit_R00|apply R0]; exact (R_inv _ _ _ R1). }
  assert (E1 : ext X1 g) by (eapply ext_back; eauto).
  destruct (IHa st g Hi Hwa E1 HA HK) as [J1 P1].
  split; auto. eapply post_mono; [|exact Ho|exact P1]. apply ext_edges, (R_ext _ _ _ R2).
Qed.
